import SpoxModel.Model.InlineCheck
/-! What an accepted tensor argument of an inlined model looks like (C02): for any dtype table. -/
namespace InlineCheck
open Types

theorem zip_all_le_const {as ds : List Natural}
    (h : (as.zip ds).all (fun p => p.1.le p.2) = true) :
    ∀ (i n m : Nat), as[i]? = some (Natural.const n) → ds[i]? = some (Natural.const m) → n = m := by
  induction as generalizing ds with
  | nil => intro i n m h1; simp at h1
  | cons a as ih =>
    cases ds with
    | nil => intro i n m _ h2; simp at h2
    | cons d ds =>
      simp only [List.zip_cons_cons, List.all_cons, Bool.and_eq_true] at h
      intro i n m h1 h2
      cases i with
      | zero =>
        simp only [List.getElem?_cons_zero, Option.some.injEq] at h1 h2
        subst h1 h2
        simpa [Natural.le] using h.1
      | succ i =>
        simp only [List.getElem?_cons_succ] at h1 h2
        exact ih h.2 i n m h1 h2

/-- `Shape.le` on two known ranks: equal ranks, constant dimensions agree position by position. -/
theorem shape_le_known {as ds : List Natural} (h : Shape.le (some as) (some ds) = true) :
    as.length = ds.length ∧
      ∀ (i n m : Nat), as[i]? = some (Natural.const n) → ds[i]? = some (Natural.const m) → n = m := by
  simp only [Shape.le, Bool.and_eq_true, beq_iff_eq] at h
  exact ⟨h.1, zip_all_le_const h.2⟩

/-- `_subtype` between two tensors of known rank. -/
theorem subtype_tensor_known (tbl : DtypeTable) {e e' : Nat} {as ds : List Natural}
    (h : subtype tbl (.tensor e (some as)) (.tensor e' (some ds)) = true) :
    (e = e' ∨ tbl.sub e e' = true) ∧ as.length = ds.length ∧
      ∀ (i n m : Nat), as[i]? = some (Natural.const n) → ds[i]? = some (Natural.const m) → n = m := by
  simp only [subtype, Bool.or_eq_true, beq_iff_eq, Bool.and_eq_true] at h
  rcases h with (h | h) | h
  · cases h
  · cases h
    exact ⟨Or.inl rfl, rfl, fun i n m h1 h2 => by rw [h1] at h2; cases h2; rfl⟩
  · exact ⟨Or.inr h.1, shape_le_known h.2⟩

/-- The loop accepted ⇒ every position present on both sides passed `_subtype`. -/
theorem accepts_get (tbl : DtypeTable) {decls : List Ty} {args : List (Option Ty)}
    (h : accepts tbl decls args = true) :
    ∀ (i : Nat) (d t : Ty), decls[i]? = some d → args[i]? = some (some t) → subtype tbl t d = true := by
  induction decls generalizing args with
  | nil => intro i d t h1; simp at h1
  | cons d0 ds ih =>
    cases args with
    | nil => intro i d t _ h2; simp at h2
    | cons a0 as =>
      simp only [accepts, Bool.and_eq_true] at h
      intro i d t h1 h2
      cases i with
      | zero =>
        simp only [List.getElem?_cons_zero, Option.some.injEq] at h1 h2
        subst h1 h2
        simpa using h.1
      | succ i =>
        simp only [List.getElem?_cons_succ] at h1 h2
        exact ih h.2 i d t h1 h2

end InlineCheck
