import SpoxModel.Model.ProgRequest
import SpoxModel.Lemmas.ProgUsed
import SpoxModel.Lemmas.ProgRename
/-!
# Lemmas for `Model/ProgRequest.lean` (used by `Props/C01.lean`)
-/
namespace Prog
variable {Val : Type} [Inhabited Val]

theorem renNode_eq_mapNode (σ : Nat → Nat) (n : PNode) : renNode σ n = mapNode σ n := rfl

/-- Under `WF`, `needed` is closed under references: what a wanted node refers to (inputs, body results) is
    wanted. -/
theorem needed_closed (p : List PNode) (hwf : WF p) (w : List Nat) :
    ∀ k n, k ∈ needed p w → nodeAt p k = some n → ∀ y ∈ n.refs, y ∈ needed p w := by
  induction p generalizing w with
  | nil => intro k n _ hn; simp [nodeAt] at hn
  | cons m older ih =>
    intro k n hk hn y hy
    have hwf' := WF_tail hwf
    simp only [needed] at hk ⊢
    simp only [nodeAt] at hn
    by_cases hc : w.contains older.length = true
    · rw [if_pos hc] at hk ⊢
      by_cases hke : k = older.length
      · rw [if_pos hke] at hn
        have : m = n := Option.some.inj hn
        subst this
        exact needed_mono older _ y (List.mem_append_left _ hy)
      · rw [if_neg hke] at hn
        exact ih hwf' _ k n hk hn y hy
    · rw [if_neg hc] at hk ⊢
      by_cases hke : k = older.length
      · exfalso
        rcases needed_bound older hwf' w k hk with h | h
        · apply hc
          rw [hke] at h
          simpa using h
        · omega
      · rw [if_neg hke] at hn
        exact ih hwf' _ k n hk hn y hy

/-- Binding by a list of (formal, value) pairs (first occurrence wins). -/
def bindPairs (b : Nat → Val) : List (Nat × Val) → Nat → Val
  | [] => b
  | (a, v) :: ps => fun i => if i = a then v else bindPairs b ps i

theorem updArgs_eq_bindPairs (b : Nat → Val) (args : List Nat) (vals : List Val)
    (hl : args.length = vals.length) : ∀ i, updArgs b args vals i = bindPairs b (args.zip vals) i := by
  induction args generalizing vals with
  | nil => intro i; cases vals <;> rfl
  | cons a as ih =>
    intro i
    cases vals with
    | nil => simp at hl
    | cons v vs =>
      simp only [updArgs, List.zip_cons_cons, bindPairs, List.headD_cons, List.tail_cons]
      split
      · rfl
      · exact ih vs (by simpa using hl) i

omit [Inhabited Val] in
theorem bindPairs_perm (b : Nat → Val) (l₁ l₂ : List (Nat × Val)) (hp : l₁.Perm l₂)
    (hnd : (l₁.map (·.1)).Nodup) : ∀ i, bindPairs b l₁ i = bindPairs b l₂ i := by
  induction hp with
  | nil => intro i; rfl
  | cons x _ ih =>
    intro i
    obtain ⟨a, v⟩ := x
    simp only [bindPairs]
    split
    · rfl
    · exact ih (by simpa using (List.nodup_cons.mp (by simpa using hnd)).2) i
  | swap x y l =>
    intro i
    obtain ⟨a, v⟩ := x
    obtain ⟨c, u⟩ := y
    simp only [bindPairs]
    have hne : c ≠ a := by
      intro h
      simp [h] at hnd
    by_cases h1 : i = c
    · have h2 : ¬ i = a := by rw [h1]; exact hne
      simp [h1, hne]
    · simp [h1]
  | trans h₁ _ ih₁ ih₂ =>
    intro i
    have hnd₂ := (h₁.map (·.1)).nodup_iff.mp hnd
    rw [ih₁ hnd i, ih₂ hnd₂ i]

/-- The binding made from formals and actual values does not depend on the order in which the
    (formal, value) pairs are listed. -/
theorem updArgs_perm (b : Nat → Val) (args₁ args₂ : List Nat) (vals₁ vals₂ : List Val)
    (hl₁ : args₁.length = vals₁.length) (hl₂ : args₂.length = vals₂.length) (hnd : args₁.Nodup)
    (hp : (args₁.zip vals₁).Perm (args₂.zip vals₂)) :
    updArgs b args₁ vals₁ = updArgs b args₂ vals₂ := by
  funext i
  rw [updArgs_eq_bindPairs b args₁ vals₁ hl₁, updArgs_eq_bindPairs b args₂ vals₂ hl₂]
  apply bindPairs_perm b _ _ hp
  rw [List.map_fst_zip (by omega)]
  exact hnd

theorem getD_mem_of_lt (tbl : List Nat) (x : Nat) (hx : x < tbl.length) : tbl.getD x 0 ∈ tbl := by
  induction tbl generalizing x with
  | nil => simp at hx
  | cons a as ih =>
    cases x with
    | zero => simp
    | succ x' =>
      simp only [List.getD_cons_succ]
      exact List.mem_cons_of_mem _ (ih x' (by simpa using hx))

theorem nodupB_getD_inj (tbl : List Nat) (h : nodupB tbl = true) :
    ∀ x y, x < tbl.length → y < tbl.length → tbl.getD x 0 = tbl.getD y 0 → x = y := by
  induction tbl with
  | nil => intro x y hx; simp at hx
  | cons a as ih =>
    simp only [nodupB, Bool.and_eq_true, Bool.not_eq_true', List.contains_eq_mem,
      decide_eq_false_iff_not] at h
    intro x y hx hy hxy
    cases x with
    | zero =>
      cases y with
      | zero => rfl
      | succ y' =>
        exfalso
        simp only [List.getD_cons_zero, List.getD_cons_succ] at hxy
        apply h.1
        rw [hxy]
        exact getD_mem_of_lt as y' (by simpa using hy)
    | succ x' =>
      cases y with
      | zero =>
        exfalso
        simp only [List.getD_cons_zero, List.getD_cons_succ] at hxy
        apply h.1
        rw [← hxy]
        exact getD_mem_of_lt as x' (by simpa using hx)
      | succ y' =>
        simp only [List.getD_cons_succ] at hxy
        have := ih h.2 x' y' (by simpa using hx) (by simpa using hy) hxy
        omega

/-- The table renaming is injective when the table has no repetition and stays below `bound`. -/
theorem sigmaOf_injective (tbl : List Nat) (bound : Nat) (h : sigmaOk tbl bound = true) :
    ∀ x y, sigmaOf tbl bound x = sigmaOf tbl bound y → x = y := by
  simp only [sigmaOk, Bool.and_eq_true, List.all_eq_true, decide_eq_true_eq] at h
  intro x y hxy
  unfold sigmaOf at hxy
  by_cases hx : x < tbl.length <;> by_cases hy : y < tbl.length
  · rw [if_pos hx, if_pos hy] at hxy
    exact nodupB_getD_inj tbl h.1 x y hx hy hxy
  · rw [if_pos hx, if_neg hy] at hxy
    have := h.2 _ (getD_mem_of_lt tbl x hx)
    omega
  · rw [if_neg hx, if_pos hy] at hxy
    have := h.2 _ (getD_mem_of_lt tbl y hy)
    omega
  · rw [if_neg hx, if_neg hy] at hxy
    omega

/-- What the executable `embedsNeeded` gives: the hypothesis `hD` of `denote_embed` for the computed set
    `D := (· ∈ needed p w)` — closure under references is proved (`needed_closed`), not assumed. -/
theorem embedsNeeded_spec (p p' : List PNode) (hwf : WF p) (σ : Nat → Nat) (w : List Nat)
    (hemb : embedsNeeded p p' σ w = true) :
    ∀ k, k ∈ needed p w → ∃ n, nodeAt p k = some n ∧ nodeAt p' (σ k) = some (mapNode σ n) ∧
      (∀ r, some r ∈ n.inputs → r.node ∈ needed p w) ∧
      (∀ g ∈ n.subs, ∀ r ∈ g.results, r.node ∈ needed p w) := by
  intro k hk
  unfold embedsNeeded at hemb
  rw [List.all_eq_true] at hemb
  have h := hemb k hk
  cases hn : nodeAt p k with
  | none => rw [hn] at h; cases h
  | some n =>
    rw [hn] at h
    simp only [decide_eq_true_eq] at h
    refine ⟨n, rfl, ?_, ?_, ?_⟩
    · rw [h, renNode_eq_mapNode]
    · intro r hr
      exact needed_closed p hwf _ k n hk hn _ (mem_refs_input hr)
    · intro g hg r hr
      exact needed_closed p hwf _ k n hk hn _ (mem_refs_sub hg hr)

theorem isArg_cons_of_older {n : PNode} {older : List PNode} {a : Nat} (h : isArg older a = true) :
    isArg (n :: older) a = true := by
  unfold isArg at h ⊢
  cases hn : nodeAt older a with
  | none => rw [hn] at h; cases h
  | some pn =>
    have hlt := nodeAt_lt hn
    have hne : ¬ a = older.length := by omega
    simp only [nodeAt, if_neg hne]
    rw [hn] at h ⊢
    exact h

theorem isArg_head_of_label_none {n : PNode} {older : List PNode} (h : n.kind.label? = none) :
    isArg (n :: older) older.length = true := by
  unfold isArg
  simp only [nodeAt, if_true]
  cases hk : n.kind with
  | arg => rfl
  | init l => rw [hk] at h; cases h
  | op l => rw [hk] at h; cases h

/-- **A binding is read at argument ids only.**  Two bindings that agree on every id whose node is an `arg`
    give the same table (all values of all nodes, bodies included: the rebinding of body formals preserves the
    agreement).  No well-formedness needed. -/
theorem table_congr_args (S : Sem Val) (p : List PNode) (b b' : Nat → Val)
    (h : ∀ a, isArg p a = true → b a = b' a) : table S p b = table S p b' := by
  induction p generalizing b b' with
  | nil => rfl
  | cons n older ih =>
    have hold : ∀ (c c' : Nat → Val), (∀ a, isArg (n :: older) a = true → c a = c' a) →
        table S older c = table S older c' :=
      fun c c' hc => ih c c' (fun a ha => hc a (isArg_cons_of_older ha))
    rw [table_cons, table_cons, hold b b' h]
    congr 1
    unfold nodeVal
    cases hl : n.kind.label? with
    | none =>
      simp only
      rw [h _ (isArg_head_of_label_none hl)]
    | some l =>
      simp only
      rw [hold b b' h]
      congr 1
      apply List.map_congr_left
      intro g _
      funext vals
      rw [hold (updArgs b g.args vals) (updArgs b' g.args vals)
        (fun a ha => updArgs_congr b b' g.args vals a (h a ha))]

end Prog
