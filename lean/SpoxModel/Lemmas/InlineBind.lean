import SpoxModel.Model.Inline
/-! Helper lemmas for C08: argument binding (`bind`). -/
namespace Inline

theorem lookup_append {β : Type} (k : String) (l1 l2 : List (String × β)) :
    (l1 ++ l2).lookup k = match l1.lookup k with | some v => some v | none => l2.lookup k := by
  induction l1 with
  | nil => simp [List.lookup]
  | cons p ps ih =>
    obtain ⟨a, b⟩ := p
    simp only [List.cons_append, List.lookup]
    cases h : (k == a) <;> simp [ih]

theorem lookup_none_of_not_mem {β : Type} (k : String) (l : List (String × β))
    (h : k ∉ l.map (·.1)) : l.lookup k = none := by
  induction l with
  | nil => rfl
  | cons p ps ih =>
    obtain ⟨a, b⟩ := p
    simp only [List.map_cons, List.mem_cons, not_or] at h
    simp only [List.lookup]
    have : (k == a) = false := by simpa using h.1
    simp [this, ih h.2]

theorem mem_keys_of_lookup {β : Type} (k : String) (l : List (String × β)) (v : β)
    (h : l.lookup k = some v) : k ∈ l.map (·.1) := by
  induction l with
  | nil => simp [List.lookup] at h
  | cons p ps ih =>
    obtain ⟨a, b⟩ := p
    simp only [List.lookup] at h
    cases hk : (k == a) with
    | true => simp at hk; simp [hk]
    | false => simp [hk] at h; simp [ih h]

/-- the entries the positional loop appends -/
def posTbl : List String → Nat → List (String × Slot)
  | [], _ => []
  | n :: ns, i => (n, .pos i) :: posTbl ns (i + 1)

theorem posTbl_keys (ns : List String) (i : Nat) : (posTbl ns i).map (·.1) = ns := by
  induction ns generalizing i with
  | nil => rfl
  | cons n ns ih => simp [posTbl, ih]

theorem posTbl_lookup (ns : List String) (i : Nat) (n : String) (hn : n ∈ ns) :
    (posTbl ns i).lookup n = some (.pos (i + ns.idxOf n)) := by
  induction ns generalizing i with
  | nil => cases hn
  | cons m ms ih =>
    simp only [posTbl, List.lookup]
    by_cases h : n = m
    · subst h; simp
    · have hb : (n == m) = false := by simpa using h
      have hm : n ∈ ms := by
        cases hn with
        | head => exact absurd rfl h
        | tail _ h' => exact h'
      have hb' : (m == n) = false := by simpa using fun e : m = n => h e.symm
      simp only [hb, ih (i + 1) hm, List.idxOf_cons, hb']
      simp; omega

theorem bindPos_ok (ns : List String) (i : Nat) (tbl tbl' : List (String × Slot))
    (h : bindPos ns i tbl = .ok tbl') :
    (∀ n ∈ ns, tbl.lookup n = none) ∧ ns.Nodup ∧ tbl' = tbl ++ posTbl ns i := by
  induction ns generalizing i tbl with
  | nil => simp only [bindPos] at h; cases h; simp [posTbl]
  | cons n ns ih =>
    simp only [bindPos] at h
    cases hl : tbl.lookup n with
    | some v => simp [hl] at h
    | none =>
      simp only [hl] at h
      obtain ⟨h1, h2, h3⟩ := ih _ _ h
      have hnot : n ∉ ns := by
        intro hm
        have := h1 n hm
        rw [lookup_append, hl] at this
        simp [List.lookup] at this
      refine ⟨?_, List.nodup_cons.mpr ⟨hnot, h2⟩, ?_⟩
      · intro m hm
        cases hm with
        | head => exact hl
        | tail _ hm' =>
          have := h1 m hm'
          rw [lookup_append] at this
          cases hl' : tbl.lookup m with
          | none => rfl
          | some v => simp [hl'] at this
      · simp [h3, posTbl]

theorem bindPos_of (ns : List String) (i : Nat) (tbl : List (String × Slot))
    (h1 : ∀ n ∈ ns, tbl.lookup n = none) (h2 : ns.Nodup) :
    bindPos ns i tbl = .ok (tbl ++ posTbl ns i) := by
  induction ns generalizing i tbl with
  | nil => simp [bindPos, posTbl]
  | cons n ns ih =>
    have hn := h1 n (List.mem_cons_self ..)
    obtain ⟨hnot, hnd⟩ := List.nodup_cons.mp h2
    simp only [bindPos, hn]
    rw [ih (i + 1) (tbl ++ [(n, Slot.pos i)])]
    · simp [posTbl]
    · intro m hm
      rw [lookup_append, h1 m (List.mem_cons_of_mem _ hm)]
      have : (m == n) = false := by
        simp; intro e; exact hnot (e ▸ hm)
      simp [List.lookup, this]
    · exact hnd

theorem filterMap_eq_map {α β : Type} (f : α → Option β) (g : α → β) (l : List α)
    (h : ∀ x ∈ l, f x = some (g x)) : l.filterMap f = l.map g := by
  induction l with
  | nil => rfl
  | cons x xs ih =>
    simp only [List.filterMap_cons, h x (List.mem_cons_self ..), List.map_cons]
    rw [ih (fun y hy => h y (List.mem_cons_of_mem _ hy))]

end Inline

namespace Inline

/-- the table the keyword arguments start the loop with -/
def kwTbl (kws : List String) : List (String × Slot) := kws.map fun k => (k, Slot.kw k)

theorem kwTbl_lookup (kws : List String) (n : String) :
    (kwTbl kws).lookup n = if n ∈ kws then some (.kw n) else none := by
  induction kws with
  | nil => simp [kwTbl, List.lookup]
  | cons k ks ih =>
    simp only [kwTbl, List.map_cons, List.lookup, List.mem_cons] at ih ⊢
    by_cases h : n = k
    · subst h; simp
    · have : (n == k) = false := by simpa using h
      simp only [this, h, false_or]
      exact ih

theorem dfltTbl_lookup (ms : List String) (n : String) :
    (ms.map fun m => (m, Slot.dflt m)).lookup n = if n ∈ ms then some (.dflt n) else none := by
  induction ms with
  | nil => simp [List.lookup]
  | cons k ks ih =>
    simp only [List.map_cons, List.lookup, List.mem_cons] at ih ⊢
    by_cases h : n = k
    · subst h; simp
    · have : (n == k) = false := by simpa using h
      simp only [this, h, false_or]
      exact ih

/-- every input is supplied exactly once or has a default, nothing else is supplied -/
def Good (ins dflts : List String) (c : Call) : Prop :=
  c.npos ≤ ins.length ∧ (∀ k ∈ c.kws, k ∈ ins ∧ k ∉ ins.take c.npos) ∧
  (∀ n ∈ ins, n ∉ ins.take c.npos → n ∉ c.kws → n ∈ dflts)

/-- what ends up in the slot of input `n` -/
def slotFor (ins : List String) (c : Call) (n : String) : Slot :=
  if n ∈ ins.take c.npos then .pos ((ins.take c.npos).idxOf n)
  else if n ∈ c.kws then .kw n else .dflt n

theorem bind_error_typeError (ins dflts : List String) (c : Call) (e : Err)
    (h : bind ins dflts c = .error e) : e = .typeError := by
  unfold bind at h
  split at h
  · cases h; rfl
  · split at h
    · rename_i e' he
      cases h
      -- bindPos only raises typeError
      have : ∀ (ns : List String) (i : Nat) (tbl : List (String × Slot)) (e : Err),
          bindPos ns i tbl = .error e → e = .typeError := by
        intro ns
        induction ns with
        | nil => intro i tbl e h; simp [bindPos] at h
        | cons n ns ih =>
          intro i tbl e h
          simp only [bindPos] at h
          split at h
          · cases h; rfl
          · exact ih _ _ _ h
      exact this _ _ _ _ he
    · unfold bindRest at h
      simp only at h
      split at h
      · cases h; rfl
      · split at h
        · cases h; rfl
        · cases h

theorem bind_ok_good (ins dflts : List String) (c : Call) (slots : List Slot)
    (h : bind ins dflts c = .ok slots) : Good ins dflts c := by
  unfold bind at h
  split at h
  · cases h
  · rename_i hlen
    split at h
    · cases h
    · rename_i tbl hpos
      obtain ⟨h1, _, h3⟩ := bindPos_ok _ _ _ _ hpos
      unfold bindRest at h
      simp only at h
      split at h
      · cases h
      · rename_i hmiss
        split at h
        · cases h
        · rename_i hunk
          refine ⟨by omega, ?_, ?_⟩
          · intro k hk
            constructor
            · -- the key k of the table must be an input
              simp only [List.any_eq_true, not_exists, not_and, Bool.not_eq_true,
                Bool.not_eq_eq_eq_not, Bool.not_false] at hunk
              have hmem : (k, Slot.kw k) ∈ tbl ++ (ins.filter fun n => (tbl.lookup n).isNone).map fun n => (n, Slot.dflt n) := by
                rw [h3]
                simp only [List.mem_append]
                left; left
                exact List.mem_map.mpr ⟨k, hk, rfl⟩
              have := hunk _ hmem
              simpa using this
            · intro hkt
              have := h1 k hkt
              have hk' : (c.kws.map fun k => (k, Slot.kw k)).lookup k = some (.kw k) := by
                have := kwTbl_lookup c.kws k
                simpa [kwTbl, hk] using this
              rw [hk'] at this
              cases this
          · intro n hn hnt hnk
            simp only [List.any_eq_true, not_exists, not_and, Bool.not_eq_true,
              Bool.not_eq_eq_eq_not, Bool.not_true] at hmiss
            have hl : tbl.lookup n = none := by
              rw [h3, lookup_append]
              have := kwTbl_lookup c.kws n
              simp only [kwTbl, hnk, if_false] at this
              rw [this]
              exact lookup_none_of_not_mem _ _ (by rw [posTbl_keys]; exact hnt)
            have hm : n ∈ ins.filter fun n => (tbl.lookup n).isNone := by
              simp [List.mem_filter, hn, hl]
            have := hmiss n hm
            simpa using this

theorem bind_of_good (ins dflts : List String) (c : Call) (hnd : ins.Nodup)
    (hg : Good ins dflts c) : bind ins dflts c = .ok (ins.map (slotFor ins c)) := by
  obtain ⟨hlen, hkw, hdf⟩ := hg
  unfold bind
  have h0 : ¬ ins.length < c.npos := by omega
  simp only [h0, if_false]
  have htake : (ins.take c.npos).Nodup := hnd.sublist (List.take_sublist _ _)
  have hfree : ∀ n ∈ ins.take c.npos, (c.kws.map fun k => (k, Slot.kw k)).lookup n = none := by
    intro n hn
    have := kwTbl_lookup c.kws n
    have hnk : n ∉ c.kws := fun hk => (hkw n hk).2 hn
    simpa [kwTbl, hnk] using this
  rw [bindPos_of _ _ _ hfree htake]
  simp only
  have hlook : ∀ n, ((c.kws.map fun k => (k, Slot.kw k)) ++ posTbl (ins.take c.npos) 0).lookup n =
      if n ∈ ins.take c.npos then some (.pos ((ins.take c.npos).idxOf n))
      else if n ∈ c.kws then some (.kw n) else none := by
    intro n
    rw [lookup_append]
    have hk := kwTbl_lookup c.kws n
    simp only [kwTbl] at hk
    rw [hk]
    by_cases ht : n ∈ ins.take c.npos
    · have hnk : n ∉ c.kws := fun hk => (hkw n hk).2 ht
      simp only [hnk, if_false, ht, if_true]
      rw [posTbl_lookup _ _ _ ht]; simp
    · simp only [ht, if_false]
      by_cases hnk : n ∈ c.kws
      · simp [hnk]
      · simp only [hnk, if_false]
        exact lookup_none_of_not_mem _ _ (by rw [posTbl_keys]; exact ht)
  unfold bindRest
  simp only
  have hmissing : ∀ n, n ∈ (ins.filter fun n => (((c.kws.map fun k => (k, Slot.kw k)) ++ posTbl (ins.take c.npos) 0).lookup n).isNone) ↔
      n ∈ ins ∧ n ∉ ins.take c.npos ∧ n ∉ c.kws := by
    intro n
    simp only [List.mem_filter, hlook]
    by_cases ht : n ∈ ins.take c.npos <;> by_cases hnk : n ∈ c.kws <;> simp [ht, hnk]
  have hA : (List.any (ins.filter fun n => (((c.kws.map fun k => (k, Slot.kw k)) ++ posTbl (ins.take c.npos) 0).lookup n).isNone)
      fun n => !dflts.contains n) = false := by
    simp only [List.any_eq_false]
    intro n hn
    obtain ⟨h1, h2, h3⟩ := (hmissing n).mp hn
    simpa using hdf n h1 h2 h3
  rw [if_neg (by rw [hA]; simp)]
  have hB : (List.any ((c.kws.map fun k => (k, Slot.kw k)) ++ posTbl (ins.take c.npos) 0 ++
      (ins.filter fun n => (((c.kws.map fun k => (k, Slot.kw k)) ++ posTbl (ins.take c.npos) 0).lookup n).isNone).map fun n => (n, Slot.dflt n))
      fun p => !ins.contains p.1) = false := by
    simp only [List.any_eq_false]
    intro p hp
    simp only [List.mem_append, List.mem_map] at hp
    have : p.1 ∈ ins := by
      rcases hp with (⟨k, hk, rfl⟩ | hp) | ⟨n, hn, rfl⟩
      · exact (hkw k hk).1
      · have : p.1 ∈ (posTbl (ins.take c.npos) 0).map (·.1) := List.mem_map.mpr ⟨p, hp, rfl⟩
        rw [posTbl_keys] at this
        exact List.mem_of_mem_take this
      · exact ((hmissing n).mp hn).1
    simpa using this
  rw [if_neg (by rw [hB]; simp)]
  congr 1
  apply filterMap_eq_map
  intro n hn
  rw [lookup_append, hlook, dfltTbl_lookup]
  unfold slotFor
  by_cases ht : n ∈ ins.take c.npos
  · simp [ht]
  · by_cases hnk : n ∈ c.kws
    · simp [ht, hnk]
    · have : n ∈ (ins.filter fun n => (((c.kws.map fun k => (k, Slot.kw k)) ++ posTbl (ins.take c.npos) 0).lookup n).isNone) :=
        (hmissing n).mpr ⟨hn, ht, hnk⟩
      simp [ht, hnk, this]

end Inline
