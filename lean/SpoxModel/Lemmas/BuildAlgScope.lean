import SpoxModel.Lemmas.BuildAlgBasic
import SpoxModel.Lemmas.BuildAlgLca
/-!
# `update_scope_tree` over `graph_topo`: the relaxation ends in the least enclosing scope

The scope tree *changes* while the graphs are processed (`parent(g) = scope_of[owner g]` at the time
of the call). `TopoFacts` states what the discovery order guarantees (proved from `discover` in
`BuildAlgOrder`): the owner of a graph is reached only by graphs processed earlier — so a graph's
parent is final before the graph is processed, and every walk of `lcaLoop` only visits graphs whose
parent is final. `scope_fold` carries the invariant `SInv` over the fold.
-/
set_option linter.unusedSectionVars false
set_option linter.unusedVariables false
namespace BuildAlg

/-! ### ScopeOf as a finite map -/

theorem ScopeOf.get_set_same (s : ScopeOf) (v : V) (g : Nat) : (s.set v g).get v = some g := by
  simp [ScopeOf.get, ScopeOf.set, List.find?_cons]

theorem find_filter_ne (s : ScopeOf) (v w : V) (h : w ≠ v) :
    (s.filter (fun e => !(e.1 == v))).find? (fun e => e.1 == w) = s.find? (fun e => e.1 == w) := by
  induction s with
  | nil => rfl
  | cons e es ih =>
    by_cases hev : e.1 = v
    · have h1 : (e.1 == v) = true := by simpa using hev
      have h2 : (e.1 == w) = false := by
        simp only [beq_eq_false_iff_ne, ne_eq]; intro hc; exact h (hc.symm.trans hev)
      simp only [List.filter_cons, h1, Bool.not_true, List.find?_cons, h2]
      exact ih
    · have h1 : (e.1 == v) = false := by simpa using hev
      rw [List.filter_cons_of_pos (by simp [h1])]
      simp only [List.find?_cons]
      cases (e.1 == w) with
      | true => rfl
      | false => exact ih

theorem ScopeOf.get_set_ne (s : ScopeOf) (v w : V) (g : Nat) (h : w ≠ v) :
    (s.set v g).get w = s.get w := by
  have hvw : (v == w) = false := by simp only [beq_eq_false_iff_ne, ne_eq]; exact fun e => h e.symm
  simp only [ScopeOf.get, ScopeOf.set, List.find?_cons, hvw]
  rw [find_filter_ne s v w h]

theorem foldl_prefix {α β : Type} {f : β → α → β} (I : List α → β → Prop) :
    ∀ (l pre : List α) (b : β),
      (∀ pre' a suf c, pre ++ l = pre' ++ a :: suf → I pre' c → I (pre' ++ [a]) (f c a)) →
      I pre b → I (pre ++ l) (l.foldl f b) := by
  intro l
  induction l with
  | nil => intro pre b _ hb; simpa using hb
  | cons a as ih =>
    intro pre b hstep hb
    simp only [List.foldl_cons]
    have h1 := hstep pre a as b rfl hb
    have := ih (pre ++ [a]) (f b a)
      (fun pre' a' suf c heq hc => hstep pre' a' suf c (by simpa [List.append_assoc] using heq) hc) h1
    simpa [List.append_assoc] using this

/-! ### what the discovery order guarantees -/

structure TopoFacts (p : Prog) (owner : List (Nat × Nat)) (gt : List Nat) : Prop where
  nodup : gt.Nodup
  head : ∃ rest, gt = 0 :: rest
  root : lookupN owner 0 = none
  /-- the owners of the graphs processed so far (and of the current graph) are not reached by the
      current graph: their scope — the parents of those graphs — is final -/
  ownerNotReached : ∀ pre g suf, gt = pre ++ g :: suf → ∀ h o, (h ∈ pre ∨ h = g) →
    lookupN owner h = some o → V.node o ∉ p.postIn g
  /-- every graph but main has an owner, reached by a graph processed earlier -/
  ownerEarlier : ∀ pre g suf, gt = pre ++ g :: suf → g ≠ 0 →
    ∃ o, lookupN owner g = some o ∧ ∃ h ∈ pre, V.node o ∈ p.postIn h

structure SInv (p : Prog) (owner : List (Nat × Nat)) (S : ScopeOf) (done : List Nat) : Prop where
  val : ∀ v c, S.get v = some c → c ∈ done
  dfn : ∀ v g, g ∈ done → v ∈ p.postIn g → ∃ c, S.get v = some c
  wit : ∀ v c, S.get v = some c → ∃ g ∈ done, v ∈ p.postIn g
  low : ∀ v c, S.get v = some c →
    LowestP (parent owner S) (fun g => g ∈ done ∧ v ∈ p.postIn g) c
  tree : done = [] ∨ ∃ d, TreeOn (· ∈ done) (parent owner S) d 0 ∧ ∀ x ∈ done, d x < done.length

theorem lca_self (par : Nat → Nat) (fuel g : Nat) (hf : 0 < fuel) : lca par fuel g g = g := by
  cases fuel with
  | zero => omega
  | succ f => simp [lca, lcaLoop]

theorem parent_agree (owner : List (Nat × Nat)) (S S' : ScopeOf) (h : Nat)
    (hag : ∀ o, lookupN owner h = some o → S'.get (.node o) = S.get (.node o)) :
    parent owner S' h = parent owner S h := by
  unfold parent
  cases ho : lookupN owner h with
  | none => rfl
  | some o => simp only; rw [hag o ho]

/-- Processing one graph. -/
theorem step_graph (p : Prog) (hwf : WF p) (owner : List (Nat × Nat)) (gt : List Nat)
    (F : TopoFacts p owner gt) (fuel : Nat) (hfuel : 4 * gt.length + 3 ≤ fuel)
    (done : List Nat) (g : Nat) (rest : List Nat) (hgt : gt = done ++ g :: rest)
    (S : ScopeOf) (hS : SInv p owner S done) :
    SInv p owner (updateScopeTree p owner fuel S g) (done ++ [g]) := by
  have hnd := F.nodup
  rw [hgt] at hnd
  have hg_notin : g ∉ done := by
    intro hc
    have := (List.nodup_append.mp hnd).2.2 g hc g List.mem_cons_self
    exact this rfl
  let par0 := parent owner S
  let D' : Nat → Prop := fun x => x ∈ done ++ [g]
  have hlen : (done ++ [g]).length ≤ gt.length := by rw [hgt]; simp
  -- the parent of `g` is final and lies in `done` (or `g` is main, the root)
  have hpar_g : (done = [] ∧ g = 0 ∧ par0 g = g) ∨ (done ≠ [] ∧ g ≠ 0 ∧ par0 g ∈ done) := by
    by_cases h0 : g = 0
    · left
      subst h0
      obtain ⟨r, hr⟩ := F.head
      refine ⟨?_, rfl, ?_⟩
      · cases done with
        | nil => rfl
        | cons x xs =>
          exfalso
          rw [hgt] at hr
          have hx : x = 0 := by simpa using (List.cons.inj hr).1
          subst hx
          exact hg_notin List.mem_cons_self
      · simp only [par0, parent, F.root]
    · right
      obtain ⟨o, ho, h, hh, hreach⟩ := F.ownerEarlier done g rest hgt h0
      obtain ⟨c, hc⟩ := hS.dfn _ h hh hreach
      refine ⟨fun e => (by rw [e] at hh; cases hh), h0, ?_⟩
      simp only [par0, parent, ho, hc, Option.getD_some]
      exact hS.val _ c hc
  -- the tree on `done ++ [g]` w.r.t. the parent function before the step
  have htree' : ∃ d', TreeOn D' par0 d' 0 ∧ ∀ x, D' x → d' x < (done ++ [g]).length := by
    rcases hpar_g with ⟨hd, hg0, hpg⟩ | ⟨hd, hg0, hpg⟩
    · subst hd; subst hg0
      refine ⟨fun _ => 0, ⟨by simp [D'], rfl, hpg, ?_, ?_, ?_⟩, ?_⟩
      · intro x hx
        have : x = 0 := by simpa [D'] using hx
        subst this; rw [hpg]; exact hx
      · intro x hx _; simpa [D'] using hx
      · intro x _ h; exact absurd rfl h
      · intro x _; simp
    · rcases hS.tree with hnil | ⟨d, T, hb⟩
      · exact absurd hnil hd
      · refine ⟨fun x => if x = g then d (par0 g) + 1 else d x, ⟨?_, ?_, T.rpar, ?_, ?_, ?_⟩, ?_⟩
        · exact List.mem_append_left _ T.hr
        · have : (0 : Nat) ≠ g := fun e => hg0 e.symm
          simp only [this, if_false]; exact T.dr
        · intro x hx
          rcases List.mem_append.mp hx with hx | hx
          · exact List.mem_append_left _ (T.closed x hx)
          · have : x = g := by simpa using hx
            subst this; exact List.mem_append_left _ hpg
        · intro x hx h0
          rcases List.mem_append.mp hx with hx | hx
          · have hne : x ≠ g := fun e => hg_notin (e ▸ hx)
            simp only [hne, if_false] at h0
            exact T.root x hx h0
          · have : x = g := by simpa using hx
            subst this
            simp at h0
        · intro x hx h0
          rcases List.mem_append.mp hx with hx | hx
          · have hne : x ≠ g := fun e => hg_notin (e ▸ hx)
            have hpne : par0 x ≠ g := fun e => hg_notin (e ▸ T.closed x hx)
            simp only [hne, hpne, if_false] at h0 ⊢
            exact T.step x hx h0
          · have : x = g := by simpa using hx
            subst this
            have hpne : par0 x ≠ x := fun e => hg_notin (e ▸ hpg)
            simp only [hpne, if_false, if_true]
        · intro x hx
          rcases List.mem_append.mp hx with hx | hx
          · have hne : x ≠ g := fun e => hg_notin (e ▸ hx)
            simp only [hne, if_false, List.length_append, List.length_singleton]
            have := hb x hx; omega
          · have : x = g := by simpa using hx
            subst this
            simp only [if_true, List.length_append, List.length_singleton]
            have := hb _ hpg; omega
  obtain ⟨d', T', hb'⟩ := htree'
  -- owners of the graphs of `done ++ [g]` are not touched by this step
  have howner : ∀ h, D' h → ∀ o, lookupN owner h = some o → V.node o ∉ p.postIn g := by
    intro h hh o ho
    apply F.ownerNotReached done g rest hgt h o _ ho
    rcases List.mem_append.mp hh with hh | hh
    · left; exact hh
    · right; simpa using hh
  have hvs_nodup : (p.postIn g).Nodup :=
    visit_nodup (rankV p) (rank_adjIn p hwf) p.fuel _ [] List.nodup_nil
  -- the inner fold
  let IInv : List V → ScopeOf → Prop := fun pre Sk =>
    (∀ v, v ∉ pre → Sk.get v = S.get v) ∧
    (∀ v, v ∈ pre → ∃ c, Sk.get v = some c ∧ D' c ∧
      LowestP par0 (fun h => D' h ∧ v ∈ p.postIn h) c)
  have hinner : IInv (p.postIn g) (updateScopeTree p owner fuel S g) := by
    have := foldl_prefix (f := relax owner fuel g) IInv (p.postIn g) [] S
      (fun pre v suf Sk heq hI => by
        obtain ⟨ha, hb⟩ := hI
        have heq' : p.postIn g = pre ++ v :: suf := by simpa using heq
        have hsub' : ∀ x ∈ pre, x ∈ p.postIn g := fun x hx => by
          rw [heq']; exact List.mem_append_left _ hx
        have hv_notin : v ∉ pre := by
          intro hc
          rw [heq'] at hvs_nodup
          exact (List.nodup_append.mp hvs_nodup).2.2 v hc v List.mem_cons_self rfl
        have hv_in : v ∈ p.postIn g := by rw [heq']; simp
        -- the parent function of the current state agrees with `par0` on `done ++ [g]`
        have hagree : ∀ x, D' x → parent owner Sk x = par0 x := by
          intro x hx
          apply parent_agree
          intro o ho
          apply ha
          intro hc
          exact howner x hx o ho (hsub' _ hc)
        constructor
        · intro w hw
          have hwv : w ≠ v := fun e => hw (e ▸ List.mem_append_right _ (by simp))
          have hwpre : w ∉ pre := fun hc => hw (List.mem_append_left _ hc)
          simp only [relax]
          rw [ScopeOf.get_set_ne _ _ _ _ hwv]
          exact ha w hwpre
        · intro w hw
          rcases List.mem_append.mp hw with hw | hw
          · -- an earlier vertex: untouched by this relaxation
            have hwv : w ≠ v := fun e => hv_notin (e ▸ hw)
            simp only [relax]
            rw [ScopeOf.get_set_ne _ _ _ _ hwv]
            exact hb w hw
          · have hwv : w = v := by simpa using hw
            subst hwv
            simp only [relax]
            rw [ScopeOf.get_set_same]
            refine ⟨_, rfl, ?_⟩
            rw [ha w hv_notin]
            have hgD : D' g := List.mem_append_right _ (by simp)
            cases hold : S.get w with
            | none =>
              -- no processed graph reaches `w`: it starts in `g`
              simp only [Option.getD_none]
              rw [lca_self _ _ _ (by omega)]
              refine ⟨hgD, ⟨fun G hG => ?_, fun c' hc' => hc' g ⟨hgD, hv_in⟩⟩⟩
              rcases List.mem_append.mp hG.1 with hG1 | hG1
              · obtain ⟨c, hc⟩ := hS.dfn w G hG1 hG.2
                rw [hold] at hc; cases hc
              · have : G = g := by simpa using hG1
                subst this; exact Anc.refl _
            | some c =>
              simp only [Option.getD_some]
              have hcD : c ∈ done := hS.val w c hold
              have hcD' : D' c := List.mem_append_left _ hcD
              have hsame : lca (parent owner Sk) fuel g c = lca par0 fuel g c :=
                lcaLoop_congr D' T'.closed hagree fuel g c [g] [c] hgD hcD'
              rw [hsame]
              have hfu : 2 * (d' g + d' c) + 3 ≤ fuel := by
                have := hb' g hgD; have := hb' c hcD'; omega
              obtain ⟨l1, l2, l3, l4⟩ := lca_lowest_on T' g c fuel hgD hcD' hfu
              refine ⟨l3, ⟨fun G hG => ?_, fun c' hc' => ?_⟩⟩
              · rcases List.mem_append.mp hG.1 with hG1 | hG1
                · exact Anc.trans l2 ((hS.low w c hold).1 G ⟨hG1, hG.2⟩)
                · have : G = g := by simpa using hG1
                  subst this; exact l1
              · apply l4 c' (hc' g ⟨hgD, hv_in⟩)
                exact (hS.low w c hold).2 c'
                  (fun G hG => hc' G ⟨List.mem_append_left _ hG.1, hG.2⟩))
      ⟨fun _ _ => rfl, fun v hv => by cases hv⟩
    simpa [updateScopeTree] using this
  obtain ⟨hA, hB⟩ := hinner
  have hag' : ∀ x, D' x → parent owner (updateScopeTree p owner fuel S g) x = par0 x := by
    intro x hx
    apply parent_agree
    intro o ho
    exact hA _ (howner x hx o ho)
  refine ⟨?_, ?_, ?_, ?_, ?_⟩
  · intro v c hc
    by_cases hv : v ∈ p.postIn g
    · obtain ⟨c2, h2, hD, _⟩ := hB v hv
      rw [h2] at hc; cases hc; exact hD
    · rw [hA v hv] at hc
      exact List.mem_append_left _ (hS.val v c hc)
  · intro v g' hg' hreach
    by_cases hv : v ∈ p.postIn g
    · obtain ⟨c2, h2, _, _⟩ := hB v hv
      exact ⟨c2, h2⟩
    · rw [hA v hv]
      rcases List.mem_append.mp hg' with h1 | h1
      · exact hS.dfn v g' h1 hreach
      · have : g' = g := by simpa using h1
        subst this; exact absurd hreach hv
  · intro v c hc
    by_cases hv : v ∈ p.postIn g
    · exact ⟨g, List.mem_append_right _ (by simp), hv⟩
    · rw [hA v hv] at hc
      obtain ⟨g', hg', hr⟩ := hS.wit v c hc
      exact ⟨g', List.mem_append_left _ hg', hr⟩
  · intro v c hc
    by_cases hv : v ∈ p.postIn g
    · obtain ⟨c2, h2, hD, hlow⟩ := hB v hv
      rw [h2] at hc; cases hc
      exact LowestP.congr D' T'.closed hag' (fun G hG => hG.1) hD hlow
    · rw [hA v hv] at hc
      have h1 := hS.low v c hc
      have h2 : LowestP par0 (fun h => h ∈ done ++ [g] ∧ v ∈ p.postIn h) c := by
        apply LowestP.iff _ h1
        intro G
        constructor
        · rintro ⟨a, b⟩; exact ⟨List.mem_append_left _ a, b⟩
        · rintro ⟨a, b⟩
          rcases List.mem_append.mp a with a | a
          · exact ⟨a, b⟩
          · have : G = g := by simpa using a
            subst this; exact absurd b hv
      exact LowestP.congr D' T'.closed hag' (fun G hG => hG.1)
        (List.mem_append_left _ (hS.val v c hc)) h2
  · right
    exact ⟨d', T'.congr hag', hb'⟩

/-- The whole of `for graph in graph_topo: update_scope_tree(graph)`. -/
theorem scope_fold (p : Prog) (hwf : WF p) (owner : List (Nat × Nat)) (gt : List Nat)
    (F : TopoFacts p owner gt) (fuel : Nat) (hfuel : 4 * gt.length + 3 ≤ fuel) :
    ∀ (rest done : List Nat) (S : ScopeOf), gt = done ++ rest → SInv p owner S done →
      SInv p owner (rest.foldl (updateScopeTree p owner fuel) S) gt := by
  intro rest
  induction rest with
  | nil => intro done S hgt hS; simp at hgt; subst hgt; simpa using hS
  | cons g rest ih =>
    intro done S hgt hS
    simp only [List.foldl_cons]
    apply ih (done ++ [g]) _ (by simpa [List.append_assoc] using hgt)
    exact step_graph p hwf owner gt F fuel hfuel done g rest hgt S hS

theorem sinv_empty (p : Prog) (owner : List (Nat × Nat)) : SInv p owner [] [] :=
  ⟨fun v c h => (by simp [ScopeOf.get] at h), fun v g hg => (by cases hg),
   fun v c h => (by simp [ScopeOf.get] at h), fun v c h => (by simp [ScopeOf.get] at h), Or.inl rfl⟩

end BuildAlg
