import SpoxModel.Model.Named
/-! Soundness of the structural checker (C02 `checkStructural_sound`). -/
namespace Named

/-- running a checker from state `st` to `st'` added exactly the definitions `ds`, all new -/
structure Res (st st' ds : List Def) : Prop where
  mem : ∀ x, x ∈ st' ↔ x ∈ ds ∨ x ∈ st
  nodup : ds.Nodup
  fresh : ∀ x ∈ ds, x ∉ st

theorem Res.refl (st : List Def) : Res st st [] := ⟨by simp, List.nodup_nil, by simp⟩

theorem Res.block {st ds : List Def} (hn : ds.Nodup) (hf : ∀ d ∈ ds, d ∉ st) : Res st (ds ++ st) ds :=
  ⟨by simp, hn, hf⟩

theorem Res.append {st st1 st2 d1 d2 : List Def} (h1 : Res st st1 d1) (h2 : Res st1 st2 d2) :
    Res st st2 (d1 ++ d2) := by
  refine ⟨?_, ?_, ?_⟩
  · intro x
    rw [h2.mem, h1.mem, List.mem_append]
    constructor
    · rintro (h | h | h)
      · exact Or.inl (Or.inr h)
      · exact Or.inl (Or.inl h)
      · exact Or.inr h
    · rintro ((h | h) | h)
      · exact Or.inr (Or.inl h)
      · exact Or.inl h
      · exact Or.inr (Or.inr h)
  · rw [List.nodup_append]
    refine ⟨h1.nodup, h2.nodup, ?_⟩
    intro a ha b hb hab
    subst hab
    exact h2.fresh a hb ((h1.mem a).mpr (Or.inl ha))
  · intro x hx
    rcases List.mem_append.mp hx with h | h
    · exact h1.fresh x h
    · intro hst
      exact h2.fresh x h ((h1.mem x).mpr (Or.inr hst))

theorem val_nodup {xs : List String} (h : xs.Nodup) : (val xs).Nodup := by
  unfold val
  induction xs with
  | nil => simp
  | cons x xs ih =>
    simp only [List.nodup_cons] at h
    simp only [List.map_cons, List.nodup_cons, List.mem_map, Prod.mk.injEq, true_and, exists_eq_right]
    exact ⟨h.1, ih h.2⟩

theorem entryNames_nodup {ins inits : List String} (h1 : ins.Nodup) (h2 : inits.Nodup) :
    (entryNames ins inits).Nodup := by
  unfold entryNames
  rw [List.nodup_append]
  refine ⟨h1, (List.filter_sublist).nodup h2, ?_⟩
  intro a ha b hb hab
  subst hab
  simp only [List.mem_filter, decide_eq_true_eq] at hb
  exact hb.2 ha

theorem nodeDef_nodup (name : String) : (nodeDef name).Nodup := by
  unfold nodeDef; split <;> simp

mutual
theorem checkGraph_sound : (g : NGraph) → (vis : List String) → (st st' : List Def) →
    checkGraph vis st g = some st' → Res st st' (defsG g) ∧ ScopedG vis g
  | .mk ins inits nodes outs, vis, st, st', h => by
    simp only [checkGraph] at h
    split at h
    · rename_i hc
      obtain ⟨hi, hj, _, hf⟩ := hc
      have ih := checkNodes_sound nodes outs _ _ _ h
      simp only [defsG, ScopedG]
      exact ⟨(Res.block (val_nodup (entryNames_nodup hi hj)) hf).append ih.1, ih.2⟩
    · cases h
theorem checkNodes_sound : (ns : List NNode) → (outs vis : List String) → (st st' : List Def) →
    checkNodes vis st ns outs = some st' → Res st st' (defsNs ns) ∧ ScopedNs vis ns outs
  | [], outs, vis, st, st', h => by
    simp only [checkNodes] at h
    split at h
    · rename_i ho
      simp only [Option.some.injEq] at h
      subst h
      exact ⟨Res.refl _, ho⟩
    · cases h
  | (.mk name ins os subs) :: rest, outs, vis, st, st', h => by
    simp only [checkNodes] at h
    split at h
    · rename_i hc
      obtain ⟨hnf, hin⟩ := hc
      split at h
      · cases h
      · rename_i st2 hsubs
        split at h
        · rename_i hc2
          obtain ⟨hon, hof⟩ := hc2
          have ihs := checkSubs_sound subs _ _ _ hsubs
          have ihr := checkNodes_sound rest outs _ _ _ h
          simp only [defsNs, ScopedNs]
          refine ⟨?_, hin, ihs.2, ihr.2⟩
          exact (Res.block (nodeDef_nodup name) hnf).append
            (ihs.1.append ((Res.block (val_nodup hon) hof).append ihr.1))
        · cases h
    · cases h
theorem checkSubs_sound : (gs : List NGraph) → (vis : List String) → (st st' : List Def) →
    checkSubs vis st gs = some st' → Res st st' (defsGs gs) ∧ ScopedGs vis gs
  | [], vis, st, st', h => by
    simp only [checkSubs, Option.some.injEq] at h
    subst h
    exact ⟨Res.refl _, trivial⟩
  | g :: gs, vis, st, st', h => by
    simp only [checkSubs] at h
    split at h
    · cases h
    · rename_i st1 hg
      have ih1 := checkGraph_sound g _ _ _ hg
      have ih2 := checkSubs_sound gs _ _ _ h
      simp only [defsGs, ScopedGs]
      exact ⟨ih1.1.append ih2.1, ih1.2, ih2.2⟩
end

theorem valueNames_nodup {ds : List Def} (h : ds.Nodup) : (valueNames ds).Nodup := by
  unfold valueNames
  induction ds with
  | nil => simp
  | cons d ds ih =>
    simp only [List.nodup_cons] at h
    obtain ⟨b, s⟩ := d
    cases b
    · simpa [List.filter_cons] using ih h.2
    · simp only [List.filter_cons, ↓reduceIte, List.map_cons, List.nodup_cons, List.mem_map,
        List.mem_filter]
      refine ⟨?_, ih h.2⟩
      rintro ⟨⟨b', s'⟩, ⟨hm, hb⟩, rfl⟩
      simp only at hb
      subst hb
      exact h.1 hm

theorem nodeNames_nodup {ds : List Def} (h : ds.Nodup) : (nodeNames ds).Nodup := by
  unfold nodeNames
  induction ds with
  | nil => simp
  | cons d ds ih =>
    simp only [List.nodup_cons] at h
    obtain ⟨b, s⟩ := d
    cases b
    · simp only [List.filter_cons, Bool.not_false, ↓reduceIte, List.map_cons, List.nodup_cons,
        List.mem_map, List.mem_filter]
      refine ⟨?_, ih h.2⟩
      rintro ⟨⟨b', s'⟩, ⟨hm, hb⟩, rfl⟩
      simp only [Bool.not_eq_true'] at hb
      subst hb
      exact h.1 hm
    · simpa [List.filter_cons] using ih h.2

end Named
