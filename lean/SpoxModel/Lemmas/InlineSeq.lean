import SpoxModel.Model.InlineSeq
import SpoxModel.Lemmas.InlineHyg
import SpoxModel.Lemmas.InlineTotal
/-! Helper lemmas for C08's composition theorem (`inline_compose`): the empty name is never written, top-level
    outputs of emitted node lists, `allSome`, the parts of a successful `toOnnx`. -/
namespace Inline
section
variable {V : Type}

theorem set_empty (env : Env V) (x : String) (v : Option V) : (env.set x v) "" = env "" := by
  unfold Env.set
  split
  · rfl
  · rename_i h
    have : ("" : String) ≠ x := fun e => h e.symm
    simp [this]

theorem setMany_empty (env : Env V) (xs : List String) (vs : List (Option V)) :
    (env.setMany xs vs) "" = env "" := by
  induction xs generalizing vs env with
  | nil => cases vs <;> rfl
  | cons x xs ih =>
    cases vs with
    | nil => rfl
    | cons v vs =>
      simp only [Env.setMany]
      rw [ih, set_empty]

/-- no node list ever writes the empty name -/
theorem evalNodes_empty (sem : OpSem V) (lit : Lit → V) (ns : List Node) (env env' : Env V)
    (h : evalNodes sem lit ns env = some env') : env' "" = env "" := by
  induction ns generalizing env with
  | nil => simp only [evalNodes] at h; cases h; rfl
  | cons nd ns ih =>
    obtain ⟨name, op, ins, outs, subs⟩ := nd
    simp only [evalNodes, evalNode] at h
    cases hs : sem op (ins.map env.get) (evalBodies sem lit subs env) with
    | none => simp [hs] at h
    | some vs =>
      simp only [hs] at h
      rw [ih _ h, setMany_empty]

theorem outsL_append (a b : List Node) : Node.outsL (a ++ b) = Node.outsL a ++ Node.outsL b := by
  induction a with
  | nil => rfl
  | cons n a ih => simp [Node.outsL, ih]

theorem outsL_passThrough (ins argNames : List String) (os rs : List String) :
    ∀ x ∈ Node.outsL (passThrough ins argNames os rs), x ∈ rs := by
  induction os generalizing rs with
  | nil => intro x hx; simp [passThrough, Node.outsL] at hx
  | cons o os ih =>
    cases rs with
    | nil => intro x hx; simp [passThrough, Node.outsL] at hx
    | cons r rs =>
      intro x hx
      simp only [passThrough] at hx
      rw [outsL_append] at hx
      rcases List.mem_append.mp hx with h | h
      · split at h
        · simp [Node.outsL, Node.outs] at h
          exact h ▸ List.mem_cons_self
        · simp [Node.outsL] at h
      · exact List.mem_cons_of_mem _ (ih rs x h)

theorem outsL_sub_valueReqsL (ns : List Node) : ∀ y ∈ Node.outsL ns, y ∈ Node.valueReqsL ns := by
  induction ns with
  | nil => intro y hy; cases hy
  | cons nd ns ih =>
    obtain ⟨nm, op, ins, os, subs⟩ := nd
    intro y hy
    simp only [Node.outsL, Node.outs, List.mem_append] at hy
    simp only [Node.valueReqsL, Node.valueReqs, List.mem_append]
    rcases hy with h | h
    · exact Or.inl (Or.inl (Or.inr h))
    · exact Or.inr (ih y h)

theorem allSome_eq {α : Type} (l : List (Option α)) (vs : List α) (h : allSome l = some vs) :
    l = vs.map some := by
  induction l generalizing vs with
  | nil => simp only [allSome] at h; cases h; rfl
  | cons a l ih =>
    cases a with
    | none => simp [allSome] at h
    | some a =>
      simp only [allSome] at h
      cases hr : allSome l with
      | none => simp [hr] at h
      | some r =>
        simp only [hr, Option.some.injEq] at h
        subst h
        simp [ih r hr]

/-- the memoised renaming never makes the empty name visible -/
theorem assign_no_empty (pfx : String) (reqs : List String) (s s' : Space) (tbl : List (String × String))
    (h : assign pfx reqs s [] = .ok (tbl, s')) (h0 : "" ∉ s.used) : "" ∉ s'.used := by
  obtain ⟨hi, _, _, _, h5⟩ := assign_inv pfx reqs s s s' [] tbl (AInv.init s) h
  intro hm
  rcases h5 "" hm with h | h
  · exact h0 h
  · obtain ⟨p, hp, hpe⟩ := List.mem_map.mp h
    have hp' := List.mem_filter.mp hp
    have hne : p.1 ≠ "" := by simpa using hp'.2
    exact hi.nonempty p hp'.1 hne hpe

/-- everything a successful `_Inline.to_onnx` is made of -/
theorem toOnnx_parts (c : Ctx) (g : Graph) (em : Emitted) (h : toOnnx c (normalise g) = .ok em) :
    ∃ tbl ntbl,
      assign c.nodeName ((normalise g).valueReqs.filter fun n =>
        !(g.inputs.contains n) && !(g.outputs.contains n)) c.var [] = .ok (tbl, em.var) ∧
      assign c.nodeName (normalise g).nodeReqs c.node [] = .ok (ntbl, em.node) ∧
      em.nodes = Node.renameL (rho g.inputs g.outputs c.argNames c.resNames tbl) (tblGet ntbl)
          (normalise g).nodes ++ passThrough g.inputs c.argNames g.outputs c.resNames := by
  obtain ⟨inputs, inits, nodes, outputs, vi⟩ := g
  unfold toOnnx at h
  simp only [normalise, Graph.inputs, Graph.outputs, Graph.nodes, Graph.inits] at h ⊢
  split at h
  · cases h
  · rename_i tbl s1 h1
    split at h
    · cases h
    · rename_i ntbl s2 h2
      simp only [ne_eq, not_true_eq_false, if_false, Except.ok.injEq] at h
      subst h
      exact ⟨tbl, ntbl, h1, h2, rfl⟩


theorem incomp_symm (p q : String) : incomp p q = incomp q p := by
  unfold incomp; exact Bool.and_comm _ _

/-- the renaming of node `k` in a space free of `k__` leaves the space free of every family `k'__` incomparable
    with `k__` that it was free of before: all it adds (names and counter keys) lies in its own family -/
theorem assign_keeps_prefixFree (k k' : String) (hinc : incomp (k' ++ "__") (k ++ "__") = true)
    (s s' : Space) (hk : s.prefixFree k = true) (hk' : s.prefixFree k' = true)
    (reqs : List String) (tbl : List (String × String)) (h : assign k reqs s [] = .ok (tbl, s')) :
    s'.prefixFree k' = true := by
  obtain ⟨tbl2, s2, h1, hi, _, _⟩ := assign_total k s hk reqs s [] (TInv.init k s)
  rw [h] at h1
  simp only [Except.ok.injEq, Prod.mk.injEq] at h1
  obtain ⟨rfl, rfl⟩ := h1
  simp only [Space.prefixFree, Bool.and_eq_true, List.all_eq_true] at hk' ⊢
  constructor
  · intro x hx
    rcases hi.used x hx with h0 | ⟨key, _, e⟩
    · exact hk'.1 x h0
    · rw [e, incomp_append _ _ _ hinc]; rfl
  · intro c hc
    rcases hi.ctr c hc with h0 | ⟨key, _, e⟩
    · exact hk'.2 c h0
    · rw [e, incomp_append _ _ _ hinc]; rfl


/-- what the build emits for a sequence of Inline nodes: per node `to_onnx` in the shared scope FOLLOWED BY
    `adapt_inline` (`adaptInline`, with the value names of the build and the node's own opset imports) -/
def toOnnxAdaptSeq (conv : Graph → Graph) (varNames : List String) (imports : Site → List (String × Nat))
    (target : Nat) : List Site → Space → Space → Except Err (List Node × Space × Space)
  | [], v, n => .ok ([], v, n)
  | s :: ss, v, n =>
    match toOnnx (s.ctx v n) (normalise s.g) with
    | .error e => .error e
    | .ok em =>
      match adaptInline conv (s.ctx v n) varNames (normalise s.g) em.nodes (defaultImports (imports s)) target with
      | .error e => .error e
      | .ok nodes =>
        match toOnnxAdaptSeq conv varNames imports target ss em.var em.node with
        | .error e => .error e
        | .ok (ns, v', n') => .ok (nodes ++ ns, v', n')

/-- a model whose highest default-domain import is the target (or that imports no default domain) is never converted -/
theorem needsConversion_false_of_source (doms : List String) (imports : List (String × Nat)) (target : Nat)
    (h : sourceVersion imports = none ∨ sourceVersion imports = some target) :
    needsConversion doms (defaultImports imports) target = false := by
  unfold sourceVersion at h
  unfold needsConversion
  cases hd : defaultImports imports with
  | nil => simp
  | cons v vs =>
    rw [hd] at h
    rcases h with h | h
    · cases h
    · simp only [Option.some.injEq] at h
      simp [h]

theorem toOnnxAdaptSeq_eq (conv : Graph → Graph) (varNames : List String) (imports : Site → List (String × Nat))
    (target : Nat) (sites : List Site)
    (hk : ∀ s ∈ sites, sourceVersion (imports s) = none ∨ sourceVersion (imports s) = some target) :
    ∀ v n, toOnnxAdaptSeq conv varNames imports target sites v n = toOnnxSeq sites v n := by
  induction sites with
  | nil => intro v n; rfl
  | cons s ss ih =>
    intro v n
    simp only [toOnnxAdaptSeq, toOnnxSeq]
    cases hem : toOnnx (s.ctx v n) (normalise s.g) with
    | error e => rfl
    | ok em =>
      simp only []
      have hn := needsConversion_false_of_source (em.nodes.map fun n => n.op.domain) (imports s) target
        (hk s List.mem_cons_self)
      have : adaptInline conv (s.ctx v n) varNames (normalise s.g) em.nodes (defaultImports (imports s)) target
          = .ok em.nodes := by unfold adaptInline; simp [hn]
      simp only [this, ih (fun t ht => hk t (List.mem_cons_of_mem _ ht))]
      cases toOnnxSeq ss em.var em.node with
      | error e => rfl
      | ok r => obtain ⟨a, b, c⟩ := r; rfl

end
end Inline
