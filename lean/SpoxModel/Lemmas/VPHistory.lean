import SpoxModel.Model.VPHistory
import SpoxModel.Lemmas.ValueProp
/-! Invariants of construction histories (C07). -/
namespace VP

theorem mergeOne_nil (v : Variant) (o : OutVar) : mergeOne v [] o = (o, false) := by
  unfold mergeOne
  split
  · rename_i h; simp [dictGet] at h
  · rfl

theorem merge_nil (v : Variant) (outs : List OutVar) :
    merge v [] outs = outs.map fun o => (o, false) := by
  simp [merge, mergeOne_nil]

def InVar.bad (i : InVar) : Bool := i.type.isNone || !i.hasValue

/-- Skip condition: an untyped or valueless input means nothing is propagated (any variant that
    does not raise; in the fixed variant this is unconditional). -/
theorem propagate_skip (sel : BackendSel) (k : Kind) (ctx : NodeCtx) (b : Backend)
    (h : ctx.inputs.any (fun i => i.type.isNone || !i.hasValue) = true) :
    propagate Variant.fixed sel ctx b k = .ok [] := by
  cases k with
  | standard =>
    cases sel with
    | none => rfl
    | reference => simp [propagate, propagateStd, propagateOnnx, h]
    | onnxruntime => simp [propagate, propagateStd, propagateOnnx, h]
  | inline g => simp [propagate, propagateInline, h]

/-- If constructing a node (fresh outputs) attached any value, every input was typed and valued. -/
theorem attached_inputs_valued (sel : BackendSel) (k : Kind) (ctx : NodeCtx) (b : Backend)
    (res : List (OutVar × Bool)) (h : construct Variant.fixed sel k ctx b = .ok res)
    (hfresh : ∀ o ∈ ctx.outputs, o.value = none)
    (hval : ∃ ow ∈ res, ow.1.value.isSome = true) :
    ∀ i ∈ ctx.inputs, i.hasValue = true ∧ i.type.isSome = true := by
  by_cases hb : ctx.inputs.any (fun i => i.type.isNone || !i.hasValue) = true
  · exfalso
    have hp := propagate_skip sel k ctx b hb
    simp only [construct, hp, merge_nil, Except.ok.injEq] at h
    subst h
    obtain ⟨ow, how, hv⟩ := hval
    simp only [List.mem_map] at how
    obtain ⟨o, ho, rfl⟩ := how
    simp [hfresh o ho] at hv
  · intro i hi
    simp only [List.any_eq_true, not_exists, not_and, Bool.or_eq_true, Option.isNone_iff_eq_none,
      Bool.not_eq_eq_eq_not, Bool.not_true] at hb
    have := hb i hi
    constructor
    · cases hv : i.hasValue with
      | true => rfl
      | false => exact absurd (Or.inr hv) this
    · cases ht : i.type with
      | none => exact absurd (Or.inl ht) this
      | some t => rfl

/-! ### `State.var?` under extension -/

theorem var?_append (st : State) (n : NodeRec) (r : VarRef) (o : OutVar)
    (h : st.var? r = some o) : State.var? (st ++ [n]) r = some o := by
  unfold State.var? at *
  cases hn : st[r.node]? with
  | none => simp [hn] at h
  | some m =>
    have hlt : r.node < st.length := by
      rcases Nat.lt_or_ge r.node st.length with h1 | h1
      · exact h1
      · simp [List.getElem?_eq_none h1] at hn
    simp only [hn] at h
    simp [List.getElem?_append_left hlt, hn, h]

theorem getElem?_snoc {α} (st : List α) (n : α) (idx : Nat) (m : α)
    (h : (st ++ [n])[idx]? = some m) : st[idx]? = some m ∨ (idx = st.length ∧ m = n) := by
  rcases Nat.lt_trichotomy idx st.length with h1 | h1 | h1
  · left; simpa [List.getElem?_append_left h1] using h
  · right
    subst h1
    simp at h
    exact ⟨rfl, h.symm⟩
  · exfalso
    have : (st ++ [n]).length ≤ idx := by simp; omega
    simp [List.getElem?_eq_none this] at h

end VP
