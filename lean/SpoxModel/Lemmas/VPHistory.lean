import SpoxModel.Model.VPHistory
import SpoxModel.Lemmas.ValueProp
/-! Invariants of construction histories (C07). -/
namespace VP

theorem mergeOne_nil (v : Variant) (o : OutVar) : mergeOne v [] o = (o, false) := by
  unfold mergeOne
  split
  · rename_i h; simp [dictGet] at h
  · rfl

theorem merge_nil (v : Variant) (outs : List OutVar) :
    merge v [] outs = outs.map fun o => (o, false) := by
  simp [merge, mergeOne_nil]

def InVar.bad (i : InVar) : Bool := i.type.isNone || !i.hasValue

/-- Skip condition: an untyped or valueless input means nothing is propagated (any variant that
    does not raise; in the fixed variant this is unconditional). -/
theorem propagate_skip (sel : BackendSel) (k : Kind) (ctx : NodeCtx) (b : Backend)
    (h : ctx.inputs.any (fun i => i.type.isNone || !i.hasValue) = true) :
    propagate Variant.fixed sel ctx b k = .ok [] := by
  cases k with
  | standard =>
    cases sel with
    | none => rfl
    | reference => simp [propagate, propagateStd, propagateOnnx, h]
    | onnxruntime => simp [propagate, propagateStd, propagateOnnx, h]
  | inline g => simp [propagate, propagateInline, h]

/-- If constructing a node (fresh outputs) attached any value, every input was typed and valued. -/
theorem attached_inputs_valued (sel : BackendSel) (k : Kind) (ctx : NodeCtx) (b : Backend)
    (res : List (OutVar × Bool)) (h : construct Variant.fixed sel k ctx b = .ok res)
    (hfresh : ∀ o ∈ ctx.outputs, o.value = none)
    (hval : ∃ ow ∈ res, ow.1.value.isSome = true) :
    ∀ i ∈ ctx.inputs, i.hasValue = true ∧ i.type.isSome = true := by
  by_cases hb : ctx.inputs.any (fun i => i.type.isNone || !i.hasValue) = true
  · exfalso
    have hp := propagate_skip sel k ctx b hb
    simp only [construct, hp, merge_nil, Except.ok.injEq] at h
    subst h
    obtain ⟨ow, how, hv⟩ := hval
    simp only [List.mem_map] at how
    obtain ⟨o, ho, rfl⟩ := how
    simp [hfresh o ho] at hv
  · intro i hi
    simp only [List.any_eq_true, not_exists, not_and, Bool.or_eq_true, Option.isNone_iff_eq_none,
      Bool.not_eq_eq_eq_not, Bool.not_true] at hb
    have := hb i hi
    constructor
    · cases hv : i.hasValue with
      | true => rfl
      | false => exact absurd (Or.inr hv) this
    · cases ht : i.type with
      | none => exact absurd (Or.inl ht) this
      | some t => rfl

/-! ### `State.var?` under extension -/

theorem var?_append (st : State) (n : NodeRec) (r : VarRef) (o : OutVar)
    (h : st.var? r = some o) : State.var? (st ++ [n]) r = some o := by
  unfold State.var? at *
  cases hn : st[r.node]? with
  | none => simp [hn] at h
  | some m =>
    have hlt : r.node < st.length := by
      rcases Nat.lt_or_ge r.node st.length with h1 | h1
      · exact h1
      · simp [List.getElem?_eq_none h1] at hn
    simp only [hn] at h
    simp [List.getElem?_append_left hlt, hn, h]

theorem getElem?_snoc {α} (st : List α) (n : α) (idx : Nat) (m : α)
    (h : (st ++ [n])[idx]? = some m) : st[idx]? = some m ∨ (idx = st.length ∧ m = n) := by
  rcases Nat.lt_trichotomy idx st.length with h1 | h1 | h1
  · left; simpa [List.getElem?_append_left h1] using h
  · right
    subst h1
    simp at h
    exact ⟨rfl, h.symm⟩
  · exfalso
    have : (st ++ [n]).length ≤ idx := by simp; omega
    simp [List.getElem?_eq_none this] at h

end VP

namespace VP

/-! ### where the entries of the result dict come from (for `mapping_correct`) -/

theorem mem_dictSet {α β} [DecidableEq α] (d : List (α × β)) (k : α) (v : β) (x : α × β)
    (h : x ∈ dictSet d k v) : x ∈ d ∨ x = (k, v) := by
  induction d with
  | nil => simp [dictSet] at h; exact Or.inr h
  | cons p rest ih =>
    obtain ⟨k', v'⟩ := p
    by_cases hk : k' = k
    · simp only [dictSet, hk, ↓reduceIte, List.mem_cons] at h
      rcases h with h | h
      · exact Or.inr (by rw [h])
      · exact Or.inl (List.mem_cons_of_mem _ h)
    · simp only [dictSet, hk, ↓reduceIte, List.mem_cons] at h
      rcases h with h | h
      · exact Or.inl (by rw [h]; exact List.mem_cons_self ..)
      · rcases ih h with h | h
        · exact Or.inl (List.mem_cons_of_mem _ h)
        · exact Or.inr h

theorem mem_foldl_dictSet {α β} [DecidableEq α] (ps d : List (α × β)) (x : α × β)
    (h : x ∈ ps.foldl (fun d p => dictSet d p.1 p.2) d) : x ∈ d ∨ x ∈ ps := by
  induction ps generalizing d with
  | nil => exact Or.inl h
  | cons p rest ih =>
    rcases ih _ h with h | h
    · rcases mem_dictSet d p.1 p.2 x h with h | h
      · exact Or.inl h
      · exact Or.inr (by rw [h]; exact List.mem_cons_self ..)
    · exact Or.inr (List.mem_cons_of_mem _ h)

theorem mem_dictOf {α β} [DecidableEq α] (ps : List (α × β)) (x : α × β) (h : x ∈ dictOf ps) :
    x ∈ ps := by
  rcases mem_foldl_dictSet ps [] x h with h | h
  · cases h
  · exact h

theorem dictGet_mem {α β} [DecidableEq α] (d : List (α × β)) (k : α) (v : β)
    (h : dictGet d k = some v) : (k, v) ∈ d := by
  induction d with
  | nil => simp [dictGet] at h
  | cons p rest ih =>
    obtain ⟨k', v'⟩ := p
    by_cases hk : k' = k
    · simp only [dictGet, hk, ↓reduceIte, Option.some.injEq] at h
      subst hk; subst h
      exact List.mem_cons_self ..
    · simp only [dictGet, hk, ↓reduceIte] at h
      exact List.mem_cons_of_mem _ (ih h)

/-- Every entry of the converted result list is the conversion of a backend entry, under the type
    of the Var the scope has under that name. -/
theorem convertAll_mem (sel : BackendSel) (ctx : NodeCtx) :
    ∀ (feed : List (String × RefVal)) (rs : List (Option String × Payload)),
      convertAll sel ctx feed = .ok rs → ∀ k p, (k, p) ∈ rs →
        ∃ name r ty pv', (name, r) ∈ feed ∧ scopeLookup ctx name = some (k, some ty) ∧
          unwrapFeed sel ty r = .ok pv' ∧ pv'.value = p
  | [], rs, h, k, p, hm => by
    simp only [convertAll, Except.ok.injEq] at h
    subst h
    cases hm
  | (name, r) :: rest, rs, h, k, p, hm => by
    unfold convertAll at h
    split at h
    · cases h
    · rename_i k0 oty hl
      split at h
      · cases h
      · rename_i ty
        cases hu : unwrapFeed sel ty r with
        | error e => simp [hu, bind, Except.bind] at h
        | ok pv =>
          cases hc : convertAll sel ctx rest with
          | error e => simp [hu, hc, bind, Except.bind] at h
          | ok tl =>
            simp only [hu, hc, bind, Except.bind, Except.ok.injEq] at h
            subst h
            rcases List.mem_cons.mp hm with hm | hm
            · cases hm
              exact ⟨name, r, ty, pv, List.mem_cons_self .., hl, hu, rfl⟩
            · obtain ⟨n', r', ty', pv', h1, h2, h3, h4⟩ := convertAll_mem sel ctx rest tl hc k p hm
              exact ⟨n', r', ty', pv', List.mem_cons_of_mem _ h1, h2, h3, h4⟩

/-- A name that is no input name resolves to the output Var with that key. -/
theorem scopeLookup_output (ctx : NodeCtx) (name : String) (k : Option String) (ty : Option Ty)
    (hin : ∀ i ∈ ctx.inputs, i.name ≠ name) (h : scopeLookup ctx name = some (k, ty)) :
    ∃ o ∈ ctx.outputs, o.key = name ∧ k = some name ∧ ty = o.type := by
  unfold scopeLookup at h
  have hnone : ctx.inputs.find? (fun i => i.name == name) = none := by
    rw [List.find?_eq_none]
    intro i hi
    simpa using hin i hi
  rw [hnone] at h
  simp only at h
  split at h
  · rename_i o ho
    have hk := List.find?_some ho
    simp only [beq_iff_eq] at hk
    simp only [Option.some.injEq, Prod.mk.injEq] at h
    exact ⟨o, List.mem_of_find?_eq_some ho, hk, by rw [← h.1, hk], h.2.symm⟩
  · cases h

end VP
