import SpoxModel.Model.FuncSem
import SpoxModel.Lemmas.Func
/-! `function_sem`: on a model whose function table holds, under each key, the erased body of every
    instance with that key, the ONNX reading of the program equals the direct reading. -/
namespace FuncSem

variable {Val : Type}

/-- the table has, under each listed key, exactly the listed definition -/
def Covered (tbl : List (Nat × ODef)) (ds : List (Nat × ODef)) : Prop :=
  ∀ d ∈ ds, Func.lookup tbl d.1 = some d.2

theorem Covered.left {tbl a b} (h : Covered tbl (a ++ b)) : Covered tbl a :=
  fun d hd => h d (List.mem_append_left _ hd)
theorem Covered.right {tbl a b} (h : Covered tbl (a ++ b)) : Covered tbl b :=
  fun d hd => h d (List.mem_append_right _ hd)

def bodyOf : SInst → List SNode
  | .mk _ b _ => b
def outsOf : SInst → List Nat
  | .mk _ _ o => o

theorem evalInst_eq (S : Nat → List Val → Val) (dflt : Val) (inst : SInst) (args : List Val) :
    evalInst S dflt inst args =
      (outsOf inst).map (fun o => (evalNodes S dflt (bodyOf inst) args).getD o dflt) := by
  cases inst; simp [evalInst, bodyOf, outsOf]

mutual
theorem sem_nodes (S : Nat → List Val → Val) (dflt : Val) (tbl : List (Nat × ODef)) :
    (ns : List SNode) → (fuel : Nat) → (env : List Val) → Covered tbl (defsNs ns) → depthNs ns ≤ fuel →
    evalO S dflt tbl fuel (eraseNs ns) env = some (evalNodes S dflt ns env)
  | [], fuel, env, _, _ => by simp [eraseNs, evalO, evalNodes]
  | .op l ins :: rest, fuel, env, hc, hd => by
    have hc' : Covered tbl (defsNs rest) := by simpa [defsNs, defsN] using hc
    have hd' : depthNs rest ≤ fuel := by
      simp only [depthNs, depthN] at hd; omega
    simp only [eraseNs, eraseN, evalO, evalNodes, evalNode]
    exact sem_nodes S dflt tbl rest fuel _ hc' hd'
  | .call inst ins :: rest, fuel, env, hc, hd => by
    simp only [defsNs, defsN] at hc
    simp only [depthNs, depthN] at hd
    have hdi : depthI inst ≤ fuel := by omega
    have hdr : depthNs rest ≤ fuel := by omega
    obtain ⟨f, hf, hlook, hbody⟩ :=
      sem_inst S dflt tbl inst fuel (ins.map (fun i => env.getD i dflt)) hc.left hdi
    subst hf
    simp only [eraseNs, eraseN, evalO, hlook, hbody, evalNodes, evalNode, evalInst_eq]
    exact sem_nodes S dflt tbl rest (f + 1) _ hc.right hdr
theorem sem_inst (S : Nat → List Val → Val) (dflt : Val) (tbl : List (Nat × ODef)) :
    (inst : SInst) → (fuel : Nat) → (args : List Val) → Covered tbl (defsI inst) → depthI inst ≤ fuel →
    ∃ f, fuel = f + 1 ∧ Func.lookup tbl (keyOf inst) = some ⟨eraseNs (bodyOf inst), outsOf inst⟩ ∧
      evalO S dflt tbl f (eraseNs (bodyOf inst)) args = some (evalNodes S dflt (bodyOf inst) args)
  | .mk k body out, fuel, args, hc, hd => by
    simp only [depthI] at hd
    cases fuel with
    | zero => omega
    | succ f =>
      refine ⟨f, rfl, ?_, ?_⟩
      · simpa [keyOf, bodyOf, outsOf] using hc (k, ⟨eraseNs body, out⟩) (by simp [defsI])
      · have hcb : Covered tbl (defsNs body) := fun d hd' => hc d (by simp [defsI, hd'])
        simpa [bodyOf] using sem_nodes S dflt tbl body f args hcb (by omega)
end

/-- a table built by the differs ⇒ error rule from all reachable definitions covers them -/
theorem buildTable_covered {prog : List SNode} {tbl : List (Nat × ODef)}
    (h : buildTable prog = some tbl) : Covered tbl (defsNs prog) := by
  intro d hd
  exact Func.table_has h d.1 d.2 hd

end FuncSem
