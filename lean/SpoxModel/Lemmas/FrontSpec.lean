import SpoxModel.Lemmas.Front
import SpoxModel.Model.FrontSpec
/-! Helper lemmas for the abstract specification / histories (C03, C12). -/
namespace Front

theorem hasDupS_false_iff (l : List String) : hasDupS l = false ↔ l.Nodup := by
  induction l with
  | nil => simp [hasDupS]
  | cons a r ih =>
    simp only [hasDupS, Bool.or_eq_false_iff, List.nodup_cons, ih]
    constructor
    · intro ⟨h1, h2⟩
      refine ⟨?_, h2⟩
      intro hm
      rw [List.contains_iff_mem.mpr hm] at h1
      cases h1
    · intro ⟨h1, h2⟩
      refine ⟨?_, h2⟩
      cases hc : r.contains a with
      | false => rfl
      | true => exact absurd (List.contains_iff_mem.mp hc) h1

/-- A history of steps each of which restores the store is a list of independent steps: every result
    is what the step gives from the initial store, and the store at the end is the initial one. -/
theorem runHist_pure {α β : Type} (step : α → Renames.Store → Renames.Store × β)
    (hstep : ∀ a s, (step a s).1 = s) (h : List α) (s : Renames.Store) :
    runHist step h s = (s, h.map (fun a => (step a s).2)) := by
  induction h with
  | nil => rfl
  | cons a rest ih => simp only [runHist, hstep, ih, List.map_cons]

/-- `bodyA_perm` under `NoClash` instead of "unlisted Vars are unnamed". -/
theorem bodyA_perm' (P : List Obj) (req : Request) (s : Renames.Store) (hdrop : req.drop = true)
    (hkeys : (req.inputs.map (·.name)).Nodup)
    (hnc : NoClash req s)
    (l l' : List Nat) (hp : l.Perm l') :
    bodyA P true req (Renames.enter (kwargs req) s) l =
      bodyA P true req (Renames.enter (kwargs req) s) l' := by
  have hc1 : l.any (fun a => (mainInfo P req.outputs).claimed.contains a)
      = l'.any (fun a => (mainInfo P req.outputs).claimed.contains a) := hp.any_eq
  have hc2 := hasDup_perm l l' hp
  have hc3 : (fun a => !l.contains a) = (fun a => !l'.contains a) := by
    funext a; rw [hp.contains_eq]
  have hc4 : (fun (e : Entry) => l.any (fun a => Renames.enter (kwargs req) s a == some e.name))
      = (fun (e : Entry) => l'.any (fun a => Renames.enter (kwargs req) s a == some e.name)) := by
    funext e; exact hp.any_eq
  have hc5 : l.any (fun a => foreign (req.inputs.map (·.name)) (Renames.enter (kwargs req) s a))
      = l'.any (fun a => foreign (req.inputs.map (·.name)) (Renames.enter (kwargs req) s a)) :=
    hp.any_eq
  unfold bodyA
  rw [hc1, hc2, hc3, hc4, hc5]
  split
  · rfl
  split
  · rfl
  split
  · rfl
  split
  · rfl
  split
  · rfl
  rename_i h1 h2 h3 h4 h5
  have hfor : ∀ a ∈ l, foreign (req.inputs.map (·.name)) (Renames.enter (kwargs req) s a) = false := by
    intro a ha
    have := List.any_eq_false.mp (by simpa using h5) a (hp.mem_iff.mp ha)
    simpa using this
  have hin : (req.inputs.filterMap (fun e =>
        (l.map (vinfo P (Renames.enter (kwargs req) s))).find? (fun i => i.name == e.name)))
      = (req.inputs.filterMap (fun e =>
        (l'.map (vinfo P (Renames.enter (kwargs req) s))).find? (fun i => i.name == e.name))) := by
    apply filterMap_congr'
    intro e _
    apply find?_perm_unique _ _ _ (hp.map _)
    intro x hx y hy hpx hpy
    obtain ⟨a, ha, rfl⟩ := List.mem_map.mp hx
    obtain ⟨b, hb, rfl⟩ := List.mem_map.mp hy
    have hab : a = b := by
      apply named_inj req s hkeys a b
        (listed_of_not_foreign' req s hnc a (hfor a ha))
        (listed_of_not_foreign' req s hnc b (hfor b hb))
      simp only [vinfo, beq_iff_eq] at hpx hpy
      rw [hpx, hpy]
    rw [hab]
  simp only [hdrop, Bool.and_self, if_true, hin]

theorem body_perm_invariant' (P : List Obj) (π π' : List Nat → List Nat)
    (hπ : ∀ l, (π l).Perm l) (hπ' : ∀ l, (π' l).Perm l) (req : Request) (s : Renames.Store)
    (hkeys : (req.inputs.map (·.name)).Nodup)
    (hnc : NoClash req s) :
    body P π true req (Renames.enter (kwargs req) s) =
      body P π' true req (Renames.enter (kwargs req) s) := by
  rw [body_eq, body_eq]
  cases hdrop : req.drop with
  | false => simp only [argsOf, hdrop]; rfl
  | true =>
    have h1 : argsOf P π req = π (freeArgs P req.outputs) := by simp [argsOf, hdrop]
    have h2 : argsOf P π' req = π' (freeArgs P req.outputs) := by simp [argsOf, hdrop]
    rw [h1, h2]
    exact bodyA_perm' P req s hdrop hkeys hnc _ _ ((hπ _).trans (hπ' _).symm)

/-! ## `NoClash` from an executable premise (mini-round) -/

/-- The test the driver evaluates as `noclash` for every request (there with `vs = range n`, `n` = number of
    objects, and a store that is `none` outside the preset entries): every Var of `vs` is listed, unnamed, or
    carries a name that is neither a key of `inputs` nor a requested output name. -/
def noClashOn (vs : List Nat) (req : Request) (s : Renames.Store) : Bool :=
  vs.all (fun v =>
    req.inputs.any (fun e => e.obj == v) ||
    (match s v with
     | none => true
     | some n => !(req.inputs.any (fun e => e.name == n)) && !(req.outputs.any (fun e => e.name == n))))

/-- The Prop-level side condition of the `_noclash` theorems / `build_refines_spec` follows from the Boolean test
    on any finite support of the store. -/
theorem noClash_of_noClashOn (vs : List Nat) (req : Request) (s : Renames.Store)
    (hsupp : ∀ v, v ∉ vs → s v = none) (h : noClashOn vs req s = true) : NoClash req s := by
  intro v hv n hn
  have hmem : v ∈ vs := by
    apply Classical.byContradiction
    intro hnot
    rw [hsupp v hnot] at hn
    cases hn
  have hv' := List.all_eq_true.mp h v hmem
  have hnl : req.inputs.any (fun e => e.obj == v) = false := by
    cases hc : req.inputs.any (fun e => e.obj == v) with
    | false => rfl
    | true =>
      obtain ⟨e, he, heq⟩ := List.any_eq_true.mp hc
      exact absurd (List.mem_map.mpr ⟨e, he, by simpa using heq⟩) hv
  rw [hnl, hn] at hv'
  simp only [Bool.false_or, Bool.and_eq_true, Bool.not_eq_true'] at hv'
  obtain ⟨h1, h2⟩ := hv'
  constructor
  · intro hm
    obtain ⟨e, he, hname⟩ := List.mem_map.mp hm
    have := List.any_eq_false.mp h1 e he
    simp [hname] at this
  · intro e he hname
    have := List.any_eq_false.mp h2 e he
    simp [hname] at this

/-- … and conversely: the Boolean test is exact (on any list of Vars). -/
theorem noClashOn_of_noClash (vs : List Nat) (req : Request) (s : Renames.Store)
    (h : NoClash req s) : noClashOn vs req s = true := by
  unfold noClashOn
  rw [List.all_eq_true]
  intro v _
  cases hc : req.inputs.any (fun e => e.obj == v) with
  | true => rfl
  | false =>
    have hv : v ∉ req.inputs.map (·.obj) := by
      intro hm
      obtain ⟨e, he, heq⟩ := List.mem_map.mp hm
      have := List.any_eq_false.mp hc e he
      simp [heq] at this
    cases hs : s v with
    | none => rfl
    | some n =>
      obtain ⟨h1, h2⟩ := h v hv n hs
      simp only [Bool.false_or, Bool.and_eq_true, Bool.not_eq_true']
      constructor
      · rw [List.any_eq_false]
        intro e he heq
        exact h1 (List.mem_map.mpr ⟨e, he, by simpa using heq⟩)
      · rw [List.any_eq_false]
        intro e he heq
        exact h2 e he (by simpa using heq)

end Front
