import SpoxModel.Lemmas.Opset
/-!
# The imports of an emitted function answer like the model's (C09)

`Graph.to_onnx_model` builds every function again with the model's opsets as extra requirements:
`policy (reqGraph fg ++ imports)` with `imports = policy (reqGraph g ++ extra)`. Every requirement of a
function graph is already a requirement of the graph that uses the function (`Function.opset_req`
includes its graph's; bodies are merged upward), so the function's imports answer every lookup exactly
like the model's: one version per domain across the model AND its functions.
-/
namespace Opset

theorem fold_fold (d : String) : fold (fold d) = fold d := by
  unfold fold
  split <;> simp_all

theorem mem_of_lookup {d : String} {v : Nat} : ∀ {l : List Req}, lookup d l = some v → (d, v) ∈ l
  | [], h => by simp [lookup, List.lookup] at h
  | (a, b) :: l, h => by
    unfold lookup at h
    rw [List.lookup_cons] at h
    by_cases hd : d == a
    · simp only [hd] at h
      have hda : d = a := by simpa using hd
      have : b = v := Option.some.inj h
      subst this; subst hda
      exact List.mem_cons_self
    · simp only [hd] at h
      exact List.mem_cons_of_mem _ (mem_of_lookup (l := l) h)

/-- an entry of a policy is what the policy answers for its (already folded) domain -/
theorem mem_policy {b : List Req} {r : Req} (h : r ∈ policy b) :
    lookup r.1 (policy b) = some r.2 ∧ fold r.1 = r.1 := by
  simp only [policy, List.mem_map] at h
  obtain ⟨d, hd, rfl⟩ := h
  refine ⟨lookup_policy_some hd, ?_⟩
  obtain ⟨v, hv⟩ := mem_domains.mp hd
  obtain ⟨r, _, h1, _⟩ := mem_folded.mp hv
  simp only
  rw [← h1, fold_fold]

/-- Requirements among `b`, next to the policy of `b`, change nothing of what the policy of `b` answers. -/
theorem lookup_policy_absorb_policy {a b : List Req} (h : ∀ r ∈ a, r ∈ b) (d : String) :
    lookup d (policy (a ++ policy b)) = lookup d (policy b) := by
  apply Option.ext
  intro v
  show (lookup d (policy (a ++ policy b)) = some v) ↔ (lookup d (policy b) = some v)
  constructor
  · intro hl
    obtain ⟨⟨r, hr, h1, h2⟩, hall⟩ := lookup_policy_iff.mp hl
    rcases List.mem_append.mp hr with hr | hr
    · obtain ⟨t, ht, hle⟩ := policy_dominates b r (h r hr)
      rw [h1] at ht
      have hmem : (d, t) ∈ a ++ policy b := List.mem_append.mpr (Or.inr (mem_of_lookup ht))
      have hfd : fold d = d := by rw [← h1, fold_fold]
      have : t ≤ v := hall (d, t) hmem hfd
      have : t = v := by omega
      rw [ht, this]
    · obtain ⟨hlk, hf⟩ := mem_policy hr
      rw [hf] at h1
      rw [← h1, ← h2]
      exact hlk
  · intro hl
    obtain ⟨⟨r0, hr0, h10, _⟩, hall⟩ := lookup_policy_iff.mp hl
    have hfd : fold d = d := by rw [← h10, fold_fold]
    apply lookup_policy_iff.mpr
    refine ⟨⟨(d, v), List.mem_append.mpr (Or.inr (mem_of_lookup hl)), hfd, rfl⟩, ?_⟩
    intro r' hr' hf'
    rcases List.mem_append.mp hr' with hr' | hr'
    · exact hall r' (h r' hr') hf'
    · obtain ⟨hlk, hf⟩ := mem_policy hr'
      rw [hf] at hf'
      rw [hf', hl] at hlk
      have : v = r'.2 := Option.some.inj hlk
      omega

mutual
theorem funcs_req_G (F : Facts) (fg : PGraph) : ∀ g : PGraph,
    fg ∈ funcsOfGraph g → ∀ r ∈ reqGraph F fg, r ∈ reqGraph F g
  | .mk nodes => by
    intro h r hr
    simp only [funcsOfGraph, List.mem_append] at h
    simp only [reqGraph, List.mem_cons]
    rcases h with h | h
    · exact Or.inr (funcs_req_Ns F fg nodes h r hr)
    · exact Or.inr (funcs_req_subNs F fg nodes h r hr)
theorem funcs_req_Ns (F : Facts) (fg : PGraph) : ∀ ns : List PNode,
    fg ∈ funcsOfNodes ns → ∀ r ∈ reqGraph F fg, r ∈ reqNodes F ns
  | [] => by intro h; simp [funcsOfNodes] at h
  | n :: ns => by
    intro h r hr
    simp only [funcsOfNodes, List.mem_append] at h
    simp only [reqNodes, List.mem_append]
    rcases h with h | h
    · exact Or.inl (funcs_req_N F fg n h r hr)
    · exact Or.inr (funcs_req_Ns F fg ns h r hr)
theorem funcs_req_N (F : Facts) (fg : PGraph) : ∀ n : PNode,
    fg ∈ funcsOfNode n → ∀ r ∈ reqGraph F fg, r ∈ reqNode F n
  | .mk k np c subs i => by
    intro h r hr
    cases k with
    | func d v nm =>
      simp only [funcsOfNode] at h
      simp only [reqNode, List.mem_append]
      exact Or.inr (funcs_req_Bs F fg subs h r hr)
    | internal => simp [funcsOfNode] at h
    | intro => simp [funcsOfNode] at h
    | introOpt => simp [funcsOfNode] at h
    | inline a b => simp [funcsOfNode] at h
    | op d o v => simp [funcsOfNode] at h
theorem funcs_req_Bs (F : Facts) (fg : PGraph) : ∀ gs : List PGraph,
    fg ∈ funcsOfBodies gs → ∀ r ∈ reqGraph F fg, r ∈ reqGraphs F gs
  | [] => by intro h; simp [funcsOfBodies] at h
  | g :: gs => by
    intro h r hr
    simp only [funcsOfBodies, List.mem_append, List.mem_cons] at h
    simp only [reqGraphs, List.mem_append]
    rcases h with (h | h) | h
    · subst h; exact Or.inl hr
    · exact Or.inl (funcs_req_G F fg g h r hr)
    · exact Or.inr (funcs_req_Bs F fg gs h r hr)
theorem funcs_req_subNs (F : Facts) (fg : PGraph) : ∀ ns : List PNode,
    fg ∈ subFuncsOfNodes ns → ∀ r ∈ reqGraph F fg, r ∈ reqNodes F ns
  | [] => by intro h; simp [subFuncsOfNodes] at h
  | n :: ns => by
    intro h r hr
    simp only [subFuncsOfNodes, List.mem_append] at h
    simp only [reqNodes, List.mem_append]
    rcases h with h | h
    · exact Or.inl (funcs_req_subN F fg n h r hr)
    · exact Or.inr (funcs_req_subNs F fg ns h r hr)
theorem funcs_req_subN (F : Facts) (fg : PGraph) : ∀ n : PNode,
    fg ∈ subFuncsOfNode n → ∀ r ∈ reqGraph F fg, r ∈ reqNode F n
  | .mk k np c subs i => by
    intro h r hr
    cases k with
    | func d v nm => simp [subFuncsOfNode] at h
    | internal =>
      simp only [subFuncsOfNode] at h
      simp only [reqNode, List.mem_append]
      exact Or.inr (funcs_req_Gs F fg subs h r hr)
    | intro =>
      simp only [subFuncsOfNode] at h
      simp only [reqNode, List.mem_append]
      exact Or.inr (funcs_req_Gs F fg subs h r hr)
    | introOpt =>
      simp only [subFuncsOfNode] at h
      simp only [reqNode, List.mem_append]
      exact Or.inr (funcs_req_Gs F fg subs h r hr)
    | inline a b =>
      simp only [subFuncsOfNode] at h
      simp only [reqNode, List.mem_append]
      exact Or.inr (funcs_req_Gs F fg subs h r hr)
    | op d o v =>
      simp only [subFuncsOfNode] at h
      simp only [reqNode, List.mem_append]
      exact Or.inr (funcs_req_Gs F fg subs h r hr)
theorem funcs_req_Gs (F : Facts) (fg : PGraph) : ∀ gs : List PGraph,
    fg ∈ funcsOfGraphs gs → ∀ r ∈ reqGraph F fg, r ∈ reqGraphs F gs
  | [] => by intro h; simp [funcsOfGraphs] at h
  | g :: gs => by
    intro h r hr
    simp only [funcsOfGraphs, List.mem_append] at h
    simp only [reqGraphs, List.mem_append]
    rcases h with h | h
    · exact Or.inl (funcs_req_G F fg g h r hr)
    · exact Or.inr (funcs_req_Gs F fg gs h r hr)
end

end Opset
