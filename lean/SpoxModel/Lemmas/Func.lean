import SpoxModel.Model.Func
/-! Lemmas for C14: collection = structural descent; the de-duplication table; the max policy. -/
namespace Func

/-! ### `collectG` lists exactly the instances reachable by structural descent -/
mutual
theorem collectG_mem (x : Inst) : (g : FGraph) → (x ∈ collectG g ↔ x ∈ usedG g)
  | .mk nodes => by
    simp only [collectG, usedG, List.mem_append]
    exact nodes_mem x nodes
theorem nodes_mem (x : Inst) : (ns : List FNode) → ((x ∈ ownNs ns ∨ x ∈ subNs ns) ↔ x ∈ usedNs ns)
  | [] => by simp [ownNs, subNs, usedNs]
  | .op :: rest => by simpa [ownNs, subNs, usedNs] using nodes_mem x rest
  | .call k fp body :: rest => by
    have ih := nodes_mem x rest
    have ihb := collectG_mem x body
    simp only [ownNs, subNs, usedNs, List.mem_cons, List.mem_append, ihb, ← ih]
    constructor
    · rintro ((h | h | h) | h)
      · exact Or.inl h
      · exact Or.inr (Or.inl h)
      · exact Or.inr (Or.inr (Or.inl h))
      · exact Or.inr (Or.inr (Or.inr h))
    · rintro (h | h | h | h)
      · exact Or.inl (Or.inl h)
      · exact Or.inl (Or.inr (Or.inl h))
      · exact Or.inl (Or.inr (Or.inr h))
      · exact Or.inr h
  | .ctrl subs :: rest => by
    have ih := nodes_mem x rest
    have ihs := collectGs_mem x subs
    simp only [ownNs, subNs, usedNs, List.mem_append, ihs, ← ih]
    constructor
    · rintro (h | h | h)
      · exact Or.inr (Or.inl h)
      · exact Or.inl h
      · exact Or.inr (Or.inr h)
    · rintro (h | h | h)
      · exact Or.inr (Or.inl h)
      · exact Or.inl h
      · exact Or.inr (Or.inr h)
theorem collectGs_mem (x : Inst) : (gs : List FGraph) → (x ∈ collectGs gs ↔ x ∈ usedGs gs)
  | [] => by simp [collectGs, usedGs]
  | g :: gs => by
    simp only [collectGs, usedGs, List.mem_append, collectG_mem x g, collectGs_mem x gs]
end

/-! ### association lists -/
section
variable {κ β : Type} [BEq κ] [LawfulBEq κ] [DecidableEq β]

theorem lookup_append_none {tbl : List (κ × β)} {k k' : κ} {fp : β} (h : lookup tbl k = none) :
    lookup (tbl ++ [(k, fp)]) k' = if (k == k') = true then some fp else lookup tbl k' := by
  unfold lookup at *
  rw [List.find?_append]
  by_cases hk : k = k'
  · subst hk
    simp only [Option.map_eq_none_iff] at h
    simp [h]
  · have hb : (k == k') = false := by simpa using hk
    cases hf : List.find? (fun x => x.1 == k') tbl with
    | some p => simp [hb]
    | none => simp [hb]

theorem lookup_isSome_mem {tbl : List (κ × β)} {k : κ} {fp : β} (h : lookup tbl k = some fp) :
    (k, fp) ∈ tbl := by
  unfold lookup at h
  simp only [Option.map_eq_some_iff] at h
  obtain ⟨p, hp, rfl⟩ := h
  have h1 := List.mem_of_find?_eq_some hp
  have h2 := List.find?_some hp
  have : p.1 = k := by simpa using h2
  subst this
  exact h1

theorem lookup_none_not_mem {tbl : List (κ × β)} {k : κ} (h : lookup tbl k = none) :
    k ∉ tbl.map (·.1) := by
  intro hm
  unfold lookup at h
  simp only [Option.map_eq_none_iff] at h
  rcases List.mem_map.mp hm with ⟨p, hp, rfl⟩
  have := List.find?_eq_none.mp h p hp
  simp at this

theorem lookup_of_mem_nodup {tbl : List (κ × β)} {k : κ} {fp : β} (hnd : (tbl.map (·.1)).Nodup)
    (hm : (k, fp) ∈ tbl) : lookup tbl k = some fp := by
  induction tbl with
  | nil => cases hm
  | cons p t ih =>
    simp only [List.map_cons, List.nodup_cons] at hnd
    rcases List.mem_cons.mp hm with rfl | hm'
    · simp [lookup]
    · have hne : ¬ p.1 = k := fun he => hnd.1 (he ▸ List.mem_map.mpr ⟨(k, fp), hm', rfl⟩)
      have hb : (p.1 == k) = false := by simpa using hne
      have := ih hnd.2 hm'
      unfold lookup at *
      rw [List.find?_cons, hb]
      exact this

/-! ### the table -/
theorem table_keeps {xs : List (κ × β)} : ∀ {tbl r : List (κ × β)}, table tbl xs = some r →
    ∀ k fp, lookup tbl k = some fp → lookup r k = some fp := by
  induction xs with
  | nil => intro tbl r h; simp only [table, Option.some.injEq] at h; subst h; exact fun _ _ h => h
  | cons x xs ih =>
    intro tbl r h k fp hl
    obtain ⟨k0, fp0⟩ := x
    simp only [table] at h
    split at h
    · split at h
      · exact ih h k fp hl
      · cases h
    · rename_i hnone
      apply ih h
      rw [lookup_append_none hnone]
      by_cases hk : k0 = k
      · subst hk; rw [hnone] at hl; cases hl
      · have hb : (k0 == k) = false := by simpa using hk
        simp [hb, hl]

theorem table_has {xs : List (κ × β)} : ∀ {tbl r : List (κ × β)}, table tbl xs = some r →
    ∀ k fp, (k, fp) ∈ xs → lookup r k = some fp := by
  induction xs with
  | nil => intro _ _ _ _ _ hm; cases hm
  | cons x xs ih =>
    intro tbl r h k fp hm
    obtain ⟨k0, fp0⟩ := x
    simp only [table] at h
    split at h
    · rename_i fp' hsome
      split at h
      · rename_i heq
        rcases List.mem_cons.mp hm with he | hm'
        · cases he
          exact table_keeps h k fp (heq ▸ hsome)
        · exact ih h k fp hm'
      · cases h
    · rename_i hnone
      rcases List.mem_cons.mp hm with he | hm'
      · cases he
        apply table_keeps h
        rw [lookup_append_none hnone]; simp
      · exact ih h k fp hm'

theorem table_from {xs : List (κ × β)} : ∀ {tbl r : List (κ × β)}, table tbl xs = some r →
    ∀ e ∈ r, e ∈ tbl ∨ e ∈ xs := by
  induction xs with
  | nil => intro tbl r h e he; simp only [table, Option.some.injEq] at h; subst h; exact Or.inl he
  | cons x xs ih =>
    intro tbl r h e he
    obtain ⟨k0, fp0⟩ := x
    simp only [table] at h
    split at h
    · split at h
      · rcases ih h e he with h1 | h1
        · exact Or.inl h1
        · exact Or.inr (List.mem_cons_of_mem _ h1)
      · cases h
    · rcases ih h e he with h1 | h1
      · rcases List.mem_append.mp h1 with h2 | h2
        · exact Or.inl h2
        · simp only [List.mem_singleton] at h2; subst h2; exact Or.inr (List.mem_cons_self ..)
      · exact Or.inr (List.mem_cons_of_mem _ h1)

theorem table_nodup {xs : List (κ × β)} : ∀ {tbl r : List (κ × β)}, table tbl xs = some r →
    (tbl.map (·.1)).Nodup → (r.map (·.1)).Nodup := by
  induction xs with
  | nil => intro tbl r h hn; simp only [table, Option.some.injEq] at h; subst h; exact hn
  | cons x xs ih =>
    intro tbl r h hn
    obtain ⟨k0, fp0⟩ := x
    simp only [table] at h
    split at h
    · split at h
      · exact ih h hn
      · cases h
    · rename_i hnone
      apply ih h
      rw [List.map_append, List.nodup_append]
      refine ⟨hn, by simp, ?_⟩
      intro a ha b hb hab
      simp only [List.map_cons, List.map_nil, List.mem_singleton] at hb
      subst hab; subst hb
      exact lookup_none_not_mem hnone ha

/-- no spurious rejection: if equal keys always come with equal protos, the table is built -/
theorem table_accepts {xs : List (κ × β)} : ∀ {tbl : List (κ × β)},
    (∀ k f1 f2, (k, f1) ∈ tbl ++ xs → (k, f2) ∈ tbl ++ xs → f1 = f2) → (table tbl xs).isSome := by
  induction xs with
  | nil => intro tbl _; simp [table]
  | cons x xs ih =>
    intro tbl hc
    obtain ⟨k0, fp0⟩ := x
    simp only [table]
    split
    · rename_i fp' hsome
      have : fp' = fp0 := hc k0 fp' fp0 (List.mem_append_left _ (lookup_isSome_mem hsome))
        (List.mem_append_right _ (List.mem_cons_self ..))
      simp only [this, ↓reduceIte]
      apply ih
      intro k f1 f2 h1 h2
      apply hc k f1 f2
      · rcases List.mem_append.mp h1 with h | h
        · exact List.mem_append_left _ h
        · exact List.mem_append_right _ (List.mem_cons_of_mem _ h)
      · rcases List.mem_append.mp h2 with h | h
        · exact List.mem_append_left _ h
        · exact List.mem_append_right _ (List.mem_cons_of_mem _ h)
    · apply ih
      intro k f1 f2 h1 h2
      apply hc k f1 f2
      · simp only [List.append_assoc, List.singleton_append] at h1; exact h1
      · simp only [List.append_assoc, List.singleton_append] at h2; exact h2

end

/-! ### max policy -/
theorem getV_bump_same (t : List (String × Nat)) (d : String) (v : Nat) :
    getV (bump t d v) d = some (match getV t d with | some v0 => max v0 v | none => v) := by
  induction t with
  | nil => simp [bump, getV]
  | cons p t ih =>
    obtain ⟨d', v'⟩ := p
    simp only [bump]
    by_cases h : d' = d
    · subst h; simp [getV]
    · have hb : (d' == d) = false := by simpa using h
      simp only [hb, Bool.false_eq_true, ↓reduceIte]
      unfold getV at *
      rw [List.find?_cons, List.find?_cons]
      simp only [hb]
      exact ih

theorem getV_bump_other (t : List (String × Nat)) (d d2 : String) (v : Nat) (hne : d ≠ d2) :
    getV (bump t d v) d2 = getV t d2 := by
  induction t with
  | nil =>
    have hb : (d == d2) = false := by simpa using hne
    simp [bump, getV, List.find?_cons, hb]
  | cons p t ih =>
    obtain ⟨d', v'⟩ := p
    simp only [bump]
    by_cases h : d' = d
    · subst h
      have hb : (d' == d2) = false := by simpa using hne
      simp [getV, List.find?_cons, hb]
    · have hb : (d' == d) = false := by simpa using h
      simp only [hb, Bool.false_eq_true, ↓reduceIte]
      unfold getV at *
      rw [List.find?_cons, List.find?_cons]
      cases hd : (d' == d2)
      · exact ih
      · rfl

/-- folding more requirements in never lowers an entry -/
theorem fold_mono (req : List (String × Nat)) : ∀ (t : List (String × Nat)) (d : String) (v0 : Nat),
    getV t d = some v0 →
    ∃ v', getV (req.foldl (fun t p => bump t (norm p.1) p.2) t) d = some v' ∧ v0 ≤ v' := by
  induction req with
  | nil => intro t d v0 h; exact ⟨v0, h, Nat.le_refl _⟩
  | cons p req ih =>
    intro t d v0 h
    simp only [List.foldl_cons]
    by_cases hd : norm p.1 = d
    · subst hd
      have := getV_bump_same t (norm p.1) p.2
      rw [h] at this
      obtain ⟨v', hv', hle⟩ := ih _ _ _ this
      exact ⟨v', hv', Nat.le_trans (Nat.le_max_left _ _) hle⟩
    · have := getV_bump_other t (norm p.1) d p.2 hd
      exact ih _ _ _ (this ▸ h)

theorem fold_ge (req : List (String × Nat)) : ∀ (t : List (String × Nat)) (p : String × Nat), p ∈ req →
    ∃ v', getV (req.foldl (fun t p => bump t (norm p.1) p.2) t) (norm p.1) = some v' ∧ p.2 ≤ v' := by
  induction req with
  | nil => intro _ _ h; cases h
  | cons q req ih =>
    intro t p hp
    simp only [List.foldl_cons]
    rcases List.mem_cons.mp hp with rfl | hp'
    · have h1 := getV_bump_same t (norm p.1) p.2
      obtain ⟨v', hv', hle⟩ := fold_mono req _ _ _ h1
      refine ⟨v', hv', Nat.le_trans ?_ hle⟩
      cases getV t (norm p.1) <;> simp [Nat.le_max_right]
    · exact ih _ p hp'

theorem fold_attained (req : List (String × Nat)) : ∀ (t : List (String × Nat)) (d : String) (v : Nat),
    getV (req.foldl (fun t p => bump t (norm p.1) p.2) t) d = some v →
    getV t d = some v ∨ ∃ p ∈ req, norm p.1 = d ∧ p.2 = v := by
  induction req with
  | nil => intro t d v h; exact Or.inl h
  | cons q req ih =>
    intro t d v h
    simp only [List.foldl_cons] at h
    rcases ih _ d v h with h1 | ⟨p, hp, hpd, hpv⟩
    · by_cases hd : norm q.1 = d
      · subst hd
        rw [getV_bump_same] at h1
        cases ht : getV t (norm q.1) with
        | none =>
          simp only [ht, Option.some.injEq] at h1
          exact Or.inr ⟨q, List.mem_cons_self .., rfl, h1⟩
        | some v0 =>
          simp only [ht, Option.some.injEq] at h1
          by_cases hle : v0 ≤ q.2
          · rw [Nat.max_eq_right hle] at h1
            exact Or.inr ⟨q, List.mem_cons_self .., rfl, h1⟩
          · rw [Nat.max_eq_left (Nat.le_of_lt (Nat.lt_of_not_le hle))] at h1
            exact Or.inl (h1 ▸ rfl)
      · rw [getV_bump_other t _ d _ hd] at h1
        exact Or.inl h1
    · exact Or.inr ⟨p, List.mem_cons_of_mem _ hp, hpd, hpv⟩

end Func

namespace Func

/-! ### keys of a policy table: normalised and unique -/
theorem norm_norm (d : String) : norm (norm d) = norm d := by
  unfold norm; split <;> simp_all

theorem bump_keys (t : List (String × Nat)) (d : String) (v : Nat) :
    (bump t d v).map (·.1) = if d ∈ t.map (·.1) then t.map (·.1) else t.map (·.1) ++ [d] := by
  induction t with
  | nil => simp [bump]
  | cons p t ih =>
    obtain ⟨d', v'⟩ := p
    simp only [bump]
    by_cases h : d' = d
    · subst h; simp
    · have hb : (d' == d) = false := by simpa using h
      have hne : ¬ d = d' := fun e => h e.symm
      simp only [hb, Bool.false_eq_true, ↓reduceIte, List.map_cons, ih, List.mem_cons, hne, false_or]
      split <;> simp

structure KInv (t : List (String × Nat)) : Prop where
  nodup : (t.map (·.1)).Nodup
  normed : ∀ k ∈ t.map (·.1), norm k = k

theorem KInv.bump {t : List (String × Nat)} (h : KInv t) (d : String) (v : Nat) : KInv (bump t (norm d) v) := by
  constructor
  · rw [bump_keys]
    split
    · exact h.nodup
    · rename_i hn
      rw [List.nodup_append]
      exact ⟨h.nodup, by simp, fun a ha b hb hab => by simp at hb; subst hb; subst hab; exact hn ha⟩
  · intro k hk
    rw [bump_keys] at hk
    split at hk
    · exact h.normed k hk
    · rcases List.mem_append.mp hk with h1 | h1
      · exact h.normed k h1
      · simp at h1; subst h1; exact norm_norm d

theorem KInv.fold (req : List (String × Nat)) : ∀ {t : List (String × Nat)}, KInv t →
    KInv (req.foldl (fun t p => Func.bump t (norm p.1) p.2) t) := by
  induction req with
  | nil => intro t h; exact h
  | cons p req ih => intro t h; exact ih (h.bump p.1 p.2)

theorem policy_kinv (req : List (String × Nat)) : KInv (policy req) :=
  KInv.fold req ⟨by simp, by simp⟩

theorem getV_of_mem {t : List (String × Nat)} (h : KInv t) {d : String} {v : Nat} (hm : (d, v) ∈ t) :
    getV t d = some v :=
  lookup_of_mem_nodup (κ := String) (β := Nat) h.nodup hm

end Func

namespace Func

mutual
theorem reqG_mem (x : String × Nat) : (g : RGraph) → (x ∈ reqG g ↔ x ∈ allReqG g)
  | .mk nodes => by
    simp only [reqG, allReqG, List.mem_append]
    exact reqNs_mem x nodes
theorem reqNs_mem (x : String × Nat) : (ns : List RNode) →
    ((x ∈ ownReq ns ∨ x ∈ subReq ns) ↔ x ∈ allReqNs ns)
  | [] => by simp [ownReq, subReq, allReqNs]
  | .mk r subs :: rest => by
    have ih := reqNs_mem x rest
    have ihs := reqGs_mem x subs
    simp only [ownReq, subReq, allReqNs, List.mem_append, ihs, ← ih]
    constructor
    · rintro ((h | h) | (h | h))
      · exact Or.inl h
      · exact Or.inr (Or.inr (Or.inl h))
      · exact Or.inr (Or.inl h)
      · exact Or.inr (Or.inr (Or.inr h))
    · rintro (h | h | h | h)
      · exact Or.inl (Or.inl h)
      · exact Or.inr (Or.inl h)
      · exact Or.inl (Or.inr h)
      · exact Or.inr (Or.inr h)
theorem reqGs_mem (x : String × Nat) : (gs : List RGraph) → (x ∈ reqGs gs ↔ x ∈ allReqGs gs)
  | [] => by simp [reqGs, allReqGs]
  | g :: gs => by
    simp only [reqGs, allReqGs, List.mem_append, reqG_mem x g, reqGs_mem x gs]
end

end Func
