import SpoxModel.Lemmas.BuildAlgBasic
/-!
# The `claimed & used` check of `discover` rejects outer-scope leaks

`DI p st` — invariant of the discovery state: for every *finished* graph `h`
  * its explicit argument list is contained in `claimed_arguments_in[h]`,
  * `claimed_arguments_in` of every body held by a node `h` reaches is contained in it,
  * none of those claimed arguments is reached by `h` itself through input edges.
`discover_spec` — a successful `discover` preserves `DI`, finishes its graph and leaves the
  sets of the graphs finished earlier untouched.
-/
set_option linter.unusedSectionVars false
set_option linter.unusedVariables false
namespace BuildAlg

def Unfin (st : DState) (h : Nat) : Prop := h ∈ st.entered ∧ h ∉ st.topo

/-- the bodies held by the nodes a graph reaches through input edges -/
def gadj (p : Prog) (h : Nat) : List Nat :=
  (p.postIn h).flatMap (fun v => match v with | .node n => p.subs n | .src _ => [])

theorem mem_gadj {p : Prog} {h s : Nat} :
    s ∈ gadj p h ↔ ∃ n, V.node n ∈ p.postIn h ∧ s ∈ p.subs n := by
  simp only [gadj, List.mem_flatMap]
  constructor
  · rintro ⟨v, hv, hs⟩
    cases v with
    | node n => exact ⟨n, hv, hs⟩
    | src g => cases hs
  · rintro ⟨n, hn, hs⟩
    exact ⟨.node n, hn, hs⟩

theorem lookupN_cons_self (l : List (Nat × Nat)) (g o : Nat) : lookupN ((g, o) :: l) g = some o := by
  simp [lookupN]

theorem lookupN_cons_ne (l : List (Nat × Nat)) (g h o : Nat) (hne : h ≠ g) :
    lookupN ((g, o) :: l) h = lookupN l h := by
  have : (g == h) = false := by simpa using fun e => hne e.symm
  simp [lookupN, this]

theorem lookupN_mem {l : List (Nat × Nat)} {g o : Nat} (h : lookupN l g = some o) : (g, o) ∈ l := by
  unfold lookupN at h
  split at h
  · rename_i e he
    cases h
    have h1 := List.mem_of_find?_eq_some he
    have h2 : e.1 = g := by simpa using List.find?_some he
    cases e; simp only at h2; subst h2; exact h1
  · cases h

structure DI (p : Prog) (st : DState) : Prop where
  ND : st.topo.Nodup
  CL : Closed (gadj p) st.topo
  OW : ∀ e ∈ st.owner, e.1 ∈ p.subs e.2 ∧ ∃ h ∈ st.entered, V.node e.2 ∈ p.postIn h
  /-- the recorded owner of a body is *the* node holding it (the multiple-owner check) -/
  OU : ∀ h ∈ st.topo, ∀ n, V.node n ∈ p.postIn h → ∀ s ∈ p.subs n, lookupN st.owner s = some n
  T : ∀ h ∈ st.topo, h ∈ st.entered
  K : ∀ e ∈ st.claimedIn, e.1 ∈ st.topo
  J1 : ∀ s ∈ st.topo, ∀ (pg : PGraph) (l : List Nat), p.graphs[s]? = some pg → pg.args = some l →
        ∀ a ∈ l, a ∈ lookupL st.claimedIn s
  C : ∀ s ∈ st.topo, ∀ n, V.node n ∈ p.postIn s → ∀ s' ∈ p.subs n, s' ∈ st.topo
  J2 : ∀ s ∈ st.topo, ∀ n, V.node n ∈ p.postIn s → ∀ s' ∈ p.subs n,
        ∀ x ∈ lookupL st.claimedIn s', x ∈ lookupL st.claimedIn s
  L : ∀ h ∈ st.topo, ∀ n, V.node n ∈ p.postIn h → ∀ s ∈ p.subs n,
        ∀ a ∈ lookupL st.claimedIn s, p.isArg a = true → V.node a ∉ p.postIn h

/-- finished graphs keep their sets -/
def Mono (st st' : DState) : Prop :=
  (∀ h ∈ st.topo, h ∈ st'.topo) ∧ ∀ h ∈ st.topo, lookupL st'.claimedIn h = lookupL st.claimedIn h

theorem Mono.refl (st : DState) : Mono st st := ⟨fun _ h => h, fun _ _ => rfl⟩

theorem Mono.trans {a b c : DState} (h1 : Mono a b) (h2 : Mono b c) : Mono a c :=
  ⟨fun h hh => h2.1 h (h1.1 h hh), fun h hh => by rw [h2.2 h (h1.1 h hh), h1.2 h hh]⟩

/-- what else a call leaves behind: entered graphs stay entered, owners stay, every newly finished
    graph except the one just discovered has an owner, and that one is the last of `graph_topo` -/
def Ext (st st' : DState) (s : Nat) : Prop :=
  (∀ h ∈ st.entered, h ∈ st'.entered) ∧
  (∀ x o, lookupN st.owner x = some o → lookupN st'.owner x = some o) ∧
  (∀ x ∈ st'.topo, x ∈ st.topo ∨ x = s ∨ (lookupN st'.owner x).isSome) ∧
  (s ∈ st.entered ∨ ∃ t, st'.topo = t ++ [s])

/-- accumulator facts for the nodes / bodies processed so far -/
def A1 (p : Prog) (pre : List V) (x : DState × Acc) : Prop :=
  ∀ n, V.node n ∈ pre → ∀ s ∈ p.subs n,
    (s ∈ x.1.topo ∧ lookupN x.1.owner s = some n) ∧
      ∀ y ∈ lookupL x.1.claimedIn s, y ∈ x.2.claimed

def A1s (n : Nat) (spre : List Nat) (x : DState × Acc) : Prop :=
  ∀ s ∈ spre, (s ∈ x.1.topo ∧ lookupN x.1.owner s = some n) ∧
    ∀ y ∈ lookupL x.1.claimedIn s, y ∈ x.2.claimed

def A2 (p : Prog) (pre : List V) (x : DState × Acc) : Prop :=
  ∀ n, V.node n ∈ pre → p.isArg n = true → n ∈ x.2.used

/-- what one recursive call guarantees -/
def RecSpec (p : Prog) (rec : Nat → DState → Except Err DState) (bound : Nat) : Prop :=
  ∀ s st st', rankV p (.src s) < bound → DI p st →
    (∀ h, Unfin st h → rankV p (.src s) < rankV p (.src h)) → rec s st = .ok st' →
    DI p st' ∧ Mono st st' ∧ (∀ h, Unfin st' h ↔ Unfin st h) ∧ s ∈ st'.topo ∧ Ext st st' s

structure FI (p : Prog) (st1 : DState) (x : DState × Acc) : Prop where
  di : DI p x.1
  mono : Mono st1 x.1
  unfin : ∀ h, Unfin x.1 h ↔ Unfin st1 h
  ent : ∀ h ∈ st1.entered, h ∈ x.1.entered
  ho : ∀ y ∈ x.1.topo, y ∈ st1.topo ∨ (lookupN x.1.owner y).isSome
  own : ∀ y o, lookupN st1.owner y = some o → lookupN x.1.owner y = some o

theorem subStep_spec (p : Prog) (rec : Nat → DState → Except Err DState) (bound : Nat)
    (hrec : RecSpec p rec bound) (st1 : DState)
    (hst1 : ∀ h, Unfin st1 h → bound ≤ rankV p (.src h))
    (n : Nat) (pre : List V) (spre : List Nat) (x x' : DState × Acc) (s : Nat)
    (hs : rankV p (.src s) < bound)
    (hsn : s ∈ p.subs n) (hnr : ∃ h ∈ st1.entered, V.node n ∈ p.postIn h)
    (hx : FI p st1 x ∧ A1 p pre x ∧ A1s n spre x ∧ A2 p pre x)
    (h : subStep rec n x s = .ok x') :
    FI p st1 x' ∧ A1 p pre x' ∧ A1s n (spre ++ [s]) x' ∧ A2 p pre x' := by
  obtain ⟨hfi, ha1, ha1s, ha2⟩ := hx
  unfold subStep at h
  cases hr : rec s x.1 with
  | error e => rw [hr] at h; cases h
  | ok st =>
    rw [hr] at h
    obtain ⟨hdi, hmono, hunf, hstopo, hent, hostab, hho, _⟩ := hrec s x.1 st hs hfi.di
      (fun h hh => by
        have := hst1 h ((hfi.unfin h).mp hh)
        omega) hr
    -- the new accumulator and the (possibly owner-updated) state
    have main : ∀ st2 : DState, st2.topo = st.topo → st2.claimedIn = st.claimedIn →
        st2.entered = st.entered →
        (∀ e ∈ st2.owner, e ∈ st.owner ∨ e = (s, n)) →
        (∀ y o, lookupN st.owner y = some o → lookupN st2.owner y = some o) →
        lookupN st2.owner s = some n →
        x' = (st2, { x.2 with all := union x.2.all (lookupL st.allIn s),
                              claimed := union x.2.claimed (lookupL st.claimedIn s) }) →
        FI p st1 x' ∧ A1 p pre x' ∧ A1s n (spre ++ [s]) x' ∧ A2 p pre x' := by
      intro st2 ht hc he hown hstab2 hsown hx'
      subst hx'
      have hdi2 : DI p st2 := by
        refine ⟨?_, ?_, ?_, ?_, ?_, ?_, ?_, ?_, ?_, ?_⟩
        · rw [ht]; exact hdi.ND
        · rw [ht]; exact hdi.CL
        · intro e he'
          rw [he]
          rcases hown e he' with h1 | h1
          · exact hdi.OW e h1
          · subst h1
            obtain ⟨h0, hh0, hr0⟩ := hnr
            exact ⟨hsn, h0, hent h0 (hfi.ent h0 hh0), hr0⟩
        · intro h hh n' hn' s' hs'
          rw [ht] at hh
          exact hstab2 s' n' (hdi.OU h hh n' hn' s' hs')
        · rw [ht, he]; exact hdi.T
        · rw [ht, hc]; exact hdi.K
        · rw [ht, hc]; exact hdi.J1
        · rw [ht]; exact hdi.C
        · rw [ht, hc]; exact hdi.J2
        · rw [ht, hc]; exact hdi.L
      have hmono2 : Mono x.1 st2 := by
        constructor
        · rw [ht]; exact hmono.1
        · rw [hc]; exact hmono.2
      refine ⟨⟨hdi2, hfi.mono.trans hmono2, ?_, ?_, ?_,
        fun y o ho => hstab2 y o (hostab y o (hfi.own y o ho))⟩, ?_, ?_, ?_⟩
      · intro h
        have : Unfin st2 h ↔ Unfin st h := by simp only [Unfin, ht, he]
        rw [this, hunf h]; exact hfi.unfin h
      · intro h hh
        simp only; rw [he]; exact hent h (hfi.ent h hh)
      · intro y hy
        simp only at hy ⊢
        rw [ht] at hy
        rcases hho y hy with h1 | h1 | h1
        · rcases hfi.ho y h1 with h2 | h2
          · left; exact h2
          · right
            cases ho : lookupN x.1.owner y with
            | none => rw [ho] at h2; cases h2
            | some o => rw [hstab2 y o (hostab y o ho)]; rfl
        · right; subst h1; rw [hsown]; rfl
        · right
          cases ho : lookupN st.owner y with
          | none => rw [ho] at h1; cases h1
          | some o => rw [hstab2 y o ho]; rfl
      · intro m hm s' hs'
        obtain ⟨h1, h2⟩ := ha1 m hm s' hs'
        refine ⟨⟨hmono2.1 s' h1.1, hstab2 s' m (hostab s' m h1.2)⟩, ?_⟩
        intro y hy
        simp only at hy ⊢
        rw [hmono2.2 s' h1.1] at hy
        exact mem_union.mpr (Or.inl (h2 y hy))
      · intro s' hs'
        rcases List.mem_append.mp hs' with hs' | hs'
        · obtain ⟨h1, h2⟩ := ha1s s' hs'
          refine ⟨⟨hmono2.1 s' h1.1, hstab2 s' n (hostab s' n h1.2)⟩, ?_⟩
          intro y hy
          simp only at hy ⊢
          rw [hmono2.2 s' h1.1] at hy
          exact mem_union.mpr (Or.inl (h2 y hy))
        · have : s' = s := by simpa using hs'
          subst this
          refine ⟨⟨by simp only; rw [ht]; exact hstopo, hsown⟩, ?_⟩
          intro y hy
          simp only at hy ⊢
          rw [hc] at hy
          exact mem_union.mpr (Or.inr hy)
      · intro m hm hma
        exact ha2 m hm hma
    simp only at h
    split at h
    · rename_i hnone
      cases h
      refine main { st with owner := (s, n) :: st.owner } rfl rfl rfl ?_ ?_ ?_ rfl
      · intro e he'
        cases he' with
        | head => right; rfl
        | tail _ h' => left; exact h'
      · intro y o ho
        have hne : y ≠ s := by
          intro e; subst e; rw [hnone] at ho; cases ho
        simp only
        rw [lookupN_cons_ne _ _ _ _ hne]; exact ho
      · simp only; rw [lookupN_cons_self]
    · rename_i o hsome
      split at h
      · cases h
        exact main st rfl rfl rfl (fun e he' => Or.inl he') (fun y o ho => ho)
          (by rw [hsome]; rename_i heq; rw [heq]) rfl
      · cases h

theorem collectStep_spec (p : Prog) (hwf : WF p) (rec : Nat → DState → Except Err DState)
    (bound : Nat) (hrec : RecSpec p rec bound) (st1 : DState)
    (hst1 : ∀ h, Unfin st1 h → bound ≤ rankV p (.src h))
    (pre : List V) (x x' : DState × Acc) (v : V)
    (hv : ∀ n, v = V.node n → ∀ s ∈ p.subs n, rankV p (.src s) < bound)
    (hvr : ∀ n, v = V.node n → ∃ h ∈ st1.entered, V.node n ∈ p.postIn h)
    (hx : FI p st1 x ∧ A1 p pre x ∧ A2 p pre x)
    (h : collectStep p rec x v = .ok x') :
    FI p st1 x' ∧ A1 p (pre ++ [v]) x' ∧ A2 p (pre ++ [v]) x' := by
  obtain ⟨hfi, ha1, ha2⟩ := hx
  unfold collectStep at h
  cases v with
  | src g =>
    simp only at h
    cases h
    refine ⟨hfi, ?_, ?_⟩
    · intro n hn
      have : V.node n ∈ pre := by simpa using hn
      exact ha1 n this
    · intro n hn
      have : V.node n ∈ pre := by simpa using hn
      exact ha2 n this
  | node n =>
    simp only at h
    -- state after the `isinstance(nd, Argument)` update
    let acc0 : Acc := if p.isArg n then { x.2 with all := union x.2.all [n], used := union x.2.used [n] } else x.2
    have hclaimed0 : acc0.claimed = x.2.claimed := by
      simp only [acc0]; split <;> rfl
    have hused0 : ∀ y ∈ x.2.used, y ∈ acc0.used := by
      intro y hy
      simp only [acc0]; split
      · exact mem_union.mpr (Or.inl hy)
      · exact hy
    have hn0 : p.isArg n = true → n ∈ acc0.used := by
      intro hn
      simp only [acc0, hn, if_true]
      exact mem_union.mpr (Or.inr (by simp))
    have hx0 : FI p st1 (x.1, acc0) ∧ A1 p pre (x.1, acc0) ∧ A1s n [] (x.1, acc0) ∧
        A2 p pre (x.1, acc0) := by
      refine ⟨⟨hfi.di, hfi.mono, hfi.unfin, hfi.ent, hfi.ho, hfi.own⟩, ?_, ?_, ?_⟩
      · intro m hm s hs
        obtain ⟨h1, h2⟩ := ha1 m hm s hs
        exact ⟨h1, fun y hy => by simp only [hclaimed0]; exact h2 y hy⟩
      · intro s hs; cases hs
      · intro m hm hma; exact hused0 m (ha2 m hm hma)
    have hfold := foldE_prefix
      (fun spre c => FI p st1 c ∧ A1 p pre c ∧ A1s n spre c ∧ A2 p pre c ∧
        (∀ y ∈ acc0.used, y ∈ c.2.used))
      (p.subs n) [] (x.1, acc0) x'
      (fun spre s c c' hs hc hstep => by
        obtain ⟨c1, c2, c3, c4, c5⟩ := hc
        obtain ⟨d1, d2, d3, d4⟩ := subStep_spec p rec bound hrec st1 hst1 n pre spre c c' s
          (hv n rfl s hs) hs (hvr n rfl) ⟨c1, c2, c3, c4⟩ hstep
        refine ⟨d1, d2, d3, d4, ?_⟩
        -- `used` is not touched by subStep
        intro y hy
        have hu : c'.2.used = c.2.used := by
          unfold subStep at hstep
          cases hr : rec s c.1 with
          | error e => rw [hr] at hstep; cases hstep
          | ok st =>
            rw [hr] at hstep
            simp only at hstep
            split at hstep
            · cases hstep; rfl
            · split at hstep
              · cases hstep; rfl
              · cases hstep
        rw [hu]; exact c5 y hy)
      ⟨hx0.1, hx0.2.1, hx0.2.2.1, hx0.2.2.2, fun y hy => hy⟩ h
    simp only [List.nil_append] at hfold
    obtain ⟨f1, f2, f3, f4, f5⟩ := hfold
    refine ⟨f1, ?_, ?_⟩
    · intro m hm s hs
      rcases List.mem_append.mp hm with hm | hm
      · exact f2 m hm s hs
      · have : m = n := by simpa using hm
        subst this
        exact f3 s hs
    · intro m hm hma
      rcases List.mem_append.mp hm with hm | hm
      · exact f4 m hm hma
      · have : m = n := by simpa using hm
        subst this
        exact f5 m (hn0 hma)

theorem finishDiscover_spec (p : Prog) (hwf : WF p) (pg : PGraph) (g : Nat)
    (hpg : p.graphs[g]? = some pg) (st1 st2 st' : DState) (acc : Acc)
    (hg : Unfin st2 g)
    (hfi : FI p st1 (st2, acc)) (ha1 : A1 p (p.postIn g) (st2, acc))
    (ha2 : A2 p (p.postIn g) (st2, acc))
    (h : finishDiscover pg g st2 acc = .ok st') :
    DI p st' ∧ Mono st2 st' ∧ (∀ h, Unfin st' h ↔ (Unfin st2 h ∧ h ≠ g)) ∧ g ∈ st'.topo ∧
      st'.topo = st2.topo ++ [g] ∧ st'.owner = st2.owner ∧ st'.entered = st2.entered := by
  unfold finishDiscover at h
  split at h
  · cases h
  · split at h
    · cases h
    · rename_i hleak
      cases h
      have hleak' : ∀ a, a ∈ acc.claimed → a ∈ acc.used → False := by
        intro a h1 h2
        apply hleak
        intro hnil
        have : a ∈ inter acc.claimed acc.used := mem_inter.mpr ⟨h1, h2⟩
        rw [hnil] at this; cases this
      have hdi := hfi.di
      have hgt : g ∉ st2.topo := hg.2
      have hne : ∀ h ∈ st2.topo, h ≠ g := fun h hh e => hgt (e ▸ hh)
      have hstable : ∀ h ∈ st2.topo,
          lookupL ((g, union acc.claimed (argsFor pg acc)) :: st2.claimedIn) h
            = lookupL st2.claimedIn h :=
        fun h hh => lookupL_cons_ne _ _ _ _ (hne h hh)
      refine ⟨⟨?_, ?_, ?_, ?_, ?_, ?_, ?_, ?_, ?_, ?_⟩, ⟨?_, ?_⟩, ?_, ?_, rfl, rfl, rfl⟩
      · -- ND
        simp only
        rw [List.nodup_append]
        refine ⟨hdi.ND, by simp, ?_⟩
        intro a ha b hb hab
        have : b = g := by simpa using hb
        subst this; subst hab
        exact hgt ha
      · -- CL
        simp only
        apply closed_snoc hdi.CL
        intro w hw
        obtain ⟨n, hn, hs⟩ := mem_gadj.mp hw
        exact (ha1 n hn w hs).1.1
      · -- OW
        exact hdi.OW
      · -- OU
        intro h hh n hn s hs
        simp only at hh ⊢
        rcases List.mem_append.mp hh with hh | hh
        · exact hdi.OU h hh n hn s hs
        · have : h = g := by simpa using hh
          subst this
          exact (ha1 n hn s hs).1.2
      · -- T
        intro h hh
        simp only at hh ⊢
        rcases List.mem_append.mp hh with hh | hh
        · exact hdi.T h hh
        · have : h = g := by simpa using hh
          subst this; exact hg.1
      · -- K
        intro e he
        simp only at he ⊢
        cases he with
        | head => exact List.mem_append_right _ (by simp)
        | tail _ h' => exact List.mem_append_left _ (hdi.K e h')
      · -- J1
        intro s hs pg' l hpg' hl a ha
        simp only at hs ⊢
        rcases List.mem_append.mp hs with hs | hs
        · rw [hstable s hs]; exact hdi.J1 s hs pg' l hpg' hl a ha
        · have : s = g := by simpa using hs
          subst this
          rw [lookupL_cons_self]
          rw [hpg] at hpg'
          cases hpg'
          apply mem_union.mpr; right
          simp only [argsFor, hl]; exact ha
      · -- C
        intro s hs n hn s' hs'
        simp only at hs ⊢
        rcases List.mem_append.mp hs with hs | hs
        · exact List.mem_append_left _ (hdi.C s hs n hn s' hs')
        · have : s = g := by simpa using hs
          subst this
          exact List.mem_append_left _ (ha1 n hn s' hs').1.1
      · -- J2
        intro s hs n hn s' hs' x hx
        simp only at hs hx ⊢
        rcases List.mem_append.mp hs with hs | hs
        · have hs't := hdi.C s hs n hn s' hs'
          rw [hstable s' hs't] at hx
          rw [hstable s hs]
          exact hdi.J2 s hs n hn s' hs' x hx
        · have : s = g := by simpa using hs
          subst this
          rw [lookupL_cons_self]
          obtain ⟨h1, h2⟩ := ha1 n hn s' hs'
          rw [hstable s' h1.1] at hx
          exact mem_union.mpr (Or.inl (h2 x hx))
      · -- L
        intro h hh n hn s hs a ha hia hmem
        simp only at hh ha
        rcases List.mem_append.mp hh with hh | hh
        · have hst := hdi.C h hh n hn s hs
          rw [hstable s hst] at ha
          exact hdi.L h hh n hn s hs a ha hia hmem
        · have : h = g := by simpa using hh
          subst this
          obtain ⟨h1, h2⟩ := ha1 n hn s hs
          rw [hstable s h1.1] at ha
          exact hleak' a (h2 a ha) (ha2 a hmem hia)
      · intro h hh; simp only; exact List.mem_append_left _ hh
      · intro h hh; simp only; exact hstable h hh
      · intro h
        simp only [Unfin, List.mem_append, List.mem_singleton]
        constructor
        · rintro ⟨h1, h2⟩
          exact ⟨⟨h1, fun hc => h2 (Or.inl hc)⟩, fun e => h2 (Or.inr e)⟩
        · rintro ⟨⟨h1, h2⟩, h3⟩
          exact ⟨h1, fun hc => hc.elim h2 h3⟩
      · simp

theorem discover_spec (p : Prog) (hwf : WF p) : ∀ (fuel : Nat) (bound : Nat),
    RecSpec p (discover p fuel) bound := by
  intro fuel
  induction fuel with
  | zero => intro bound s st st' _ _ _ h; simp [discover] at h
  | succ fuel ih =>
    intro bound g st st' hb hdi hrank h
    simp only [discover] at h
    split at h
    · rename_i hent
      cases h
      refine ⟨hdi, Mono.refl _, fun _ => Iff.rfl, ?_,
        fun _ h => h, fun _ _ h => h, fun x hx => Or.inl hx, Or.inl hent⟩
      -- entered and of smaller rank than every unfinished graph, hence finished
      apply Classical.byContradiction
      intro hnt
      have := hrank g ⟨hent, hnt⟩
      omega
    · rename_i hnent
      split at h
      · cases h
      · rename_i pg hpg
        split at h
        · cases h
        · split at h
          · cases h
          · rename_i st2 acc hfold
            -- the state with `g` entered
            let st1 : DState := { st with entered := g :: st.entered }
            have hgt : g ∉ st.topo := fun hc => hnent (hdi.T g hc)
            have hdi1 : DI p st1 :=
              ⟨hdi.ND, hdi.CL,
               fun e he => by
                 obtain ⟨h1, h0, hh0, hr0⟩ := hdi.OW e he
                 exact ⟨h1, h0, List.mem_cons_of_mem _ hh0, hr0⟩,
               hdi.OU,
               fun h hh => List.mem_cons_of_mem _ (hdi.T h hh), hdi.K, hdi.J1, hdi.C, hdi.J2, hdi.L⟩
            have hunf1 : ∀ h, Unfin st1 h ↔ (Unfin st h ∨ h = g) := by
              intro h
              simp only [Unfin, st1, List.mem_cons]
              constructor
              · rintro ⟨h1 | h1, h2⟩
                · right; exact h1
                · left; exact ⟨h1, h2⟩
              · rintro (⟨h1, h2⟩ | h1)
                · exact ⟨Or.inr h1, h2⟩
                · subst h1; exact ⟨Or.inl rfl, hgt⟩
            have hst1 : ∀ h, Unfin st1 h → rankV p (.src g) ≤ rankV p (.src h) := by
              intro h hh
              rcases (hunf1 h).mp hh with h1 | h1
              · have := hrank h h1; omega
              · subst h1; omega
            have hrankIn := rank_adjIn p hwf
            have hpost : ∀ n, V.node n ∈ p.postIn g → ∀ s ∈ p.subs n,
                rankV p (.src s) < rankV p (.src g) := by
              intro n hn s hs
              have hr : Reach p.adjIn (.src g) (.node n) :=
                (mem_visit_iff (rankV p) hrankIn p.fuel _ _ (rank_src_lt_fuel p hwf g)).mp hn
              have h1 : rankV p (.node n) < rankV p (.src g) := by
                rcases reach_rank (rankV p) hrankIn hr with h2 | h2
                · cases h2
                · exact h2
              have h2 : rankV p (.src s) < rankV p (.node n) :=
                rank_adjFull p hwf (.node n) (.src s)
                  (by simp only [Prog.adjFull]; exact List.mem_append_right _ (List.mem_map.mpr ⟨s, hs, rfl⟩))
              omega
            have hfold' := foldE_prefix
              (fun pre c => FI p st1 c ∧ A1 p pre c ∧ A2 p pre c)
              (p.postIn g) [] (st1, ⟨[], [], []⟩) (st2, acc)
              (fun pre v c c' hv hc hstep =>
                collectStep_spec p hwf (discover p fuel) (rankV p (.src g))
                  (ih (rankV p (.src g))) st1 hst1 pre c c' v
                  (fun n hn s hs => by subst hn; exact hpost n hv s hs)
                  (fun n hn => by subst hn; exact ⟨g, List.mem_cons_self, hv⟩) hc hstep)
              ⟨⟨hdi1, Mono.refl _, fun _ => Iff.rfl, fun _ h => h, fun y hy => Or.inl hy, fun _ _ h => h⟩,
                fun n hn => (by cases hn), fun n hn => (by cases hn)⟩ hfold
            simp only [List.nil_append] at hfold'
            obtain ⟨hfi, ha1, ha2⟩ := hfold'
            have hg2 : Unfin st2 g := (hfi.unfin g).mpr ((hunf1 g).mpr (Or.inr rfl))
            obtain ⟨r1, r2, r3, r4, r5, r6, r7⟩ :=
              finishDiscover_spec p hwf pg g hpg st1 st2 st' acc hg2 hfi ha1 ha2 h
            refine ⟨r1, ?_, ?_, r4, ?_, ?_, ?_, Or.inr ⟨st2.topo, r5⟩⟩
            · have m1 : Mono st st1 := ⟨fun _ h => h, fun _ _ => rfl⟩
              exact (m1.trans hfi.mono).trans r2
            · intro h
              rw [r3 h, hfi.unfin h, hunf1 h]
              constructor
              · rintro ⟨h1 | h1, h2⟩
                · exact h1
                · exact absurd h1 h2
              · intro h1
                refine ⟨Or.inl h1, ?_⟩
                intro e; subst e; exact hnent h1.1
            · intro h hh
              rw [r7]; exact hfi.ent h (List.mem_cons_of_mem _ hh)
            · intro y o ho
              rw [r6]; exact hfi.own y o ho
            · intro x hx
              rw [r5] at hx
              rcases List.mem_append.mp hx with hx | hx
              · rcases hfi.ho x hx with h1 | h1
                · left; exact h1
                · right; right; rw [r6]; exact h1
              · right; left; simpa using hx

end BuildAlg
