import SpoxModel.Model.Conform
/-! Helper lemmas linking the conformance predicate with the constructor-call model (C11). -/
namespace Conform

/-- What a conforming constructor emits for schema attribute `a` (wired through `w`): the value
    given (as `Attr*._to_onnx` stores it), else the schema default if there is one, else nothing. -/
def expectedAttr (supplied : String → Option Val) (a : SAttr) (w : AttrWire) : Option (String × Val) :=
  match supplied a.name with
  | some v => some (a.name, encode w.kind v)
  | Option.none => if a.default == Val.none then Option.none else some (a.name, a.default)

/-- one wire of `callAttrs` -/
def callAttr (ps : List Param) (supplied : String → Option Val) (w : AttrWire) : Option (String × Val) :=
  match effective ps supplied w.param with
  | some v => some (w.onnxName, encode w.kind v)
  | Option.none => Option.none

theorem callAttrs_eq (c : Ctor) (supplied : String → Option Val) :
    callAttrs c supplied = c.attrWires.map (callAttr c.params supplied) := rfl

theorem callAttr_of_attrOK (ps : List Param) (f : AttrField) (w : AttrWire) (a : SAttr)
    (supplied : String → Option Val) (h : attrOK ps f w a = true) :
    callAttr ps supplied w = expectedAttr supplied a w := by
  unfold attrOK at h
  simp only [Bool.and_eq_true, beq_iff_eq] at h
  obtain ⟨⟨⟨⟨⟨⟨⟨_, _⟩, hon⟩, hpar⟩, _⟩, hk⟩, _⟩, hrest⟩ := h
  unfold callAttr expectedAttr effective
  rw [hpar, hon]
  cases hs : supplied a.name with
  | some v => rfl
  | none =>
    simp only
    cases hf : findParam ps a.name with
    | none => rw [hf] at hrest; simp at hrest
    | some p =>
      rw [hf] at hrest
      simp only [Bool.and_eq_true] at hrest
      obtain ⟨_, hd⟩ := hrest
      unfold defaultOK at hd
      by_cases hreq : a.required = true
      · simp only [hreq, if_true, Bool.and_eq_true, beq_iff_eq] at hd
        obtain ⟨⟨_, hpn⟩, hdn⟩ := hd
        have : p.default = Option.none := by simpa using hpn
        simp [this, hdn]
      · have hreq' : a.required = false := by simpa using hreq
        simp only [hreq', Bool.false_eq_true, if_false] at hd
        by_cases hdn : a.default = Val.none
        · simp only [hdn, beq_self_eq_true, if_true, Bool.and_eq_true, beq_iff_eq] at hd
          simp [hd.2, hdn]
        · have hb : (a.default == Val.none) = false := by simpa using hdn
          simp only [hb, Bool.false_eq_true, if_false] at hd
          cases hpd : p.default with
          | none => rw [hpd] at hd; simp at hd
          | some v =>
            rw [hpd] at hd
            simp only [Bool.and_eq_true, bne_iff_ne, ne_eq, beq_iff_eq] at hd
            obtain ⟨_, hv, he⟩ := hd
            rw [hk]
            cases v <;> simp_all

theorem callAttrs_of_attrsOK (ps : List Param) (supplied : String → Option Val) :
    (fs : List AttrField) → (ws : List AttrWire) → (as : List SAttr) →
    attrsOK ps fs ws as = true →
    ws.map (callAttr ps supplied) = List.zipWith (expectedAttr supplied) as ws
  | [], [], [], _ => rfl
  | f :: fs, w :: ws, a :: as, h => by
    simp only [attrsOK, Bool.and_eq_true] at h
    simp only [List.map_cons, List.zipWith_cons_cons]
    rw [callAttr_of_attrOK ps f w a supplied h.1, callAttrs_of_attrsOK ps supplied fs ws as h.2]
  | [], [], _ :: _, h => by simp [attrsOK] at h
  | [], _ :: _, _, h => by simp [attrsOK] at h
  | _ :: _, [], _, h => by simp [attrsOK] at h
  | _ :: _, _ :: _, [], h => by simp [attrsOK] at h

theorem attrsOK_length (ps : List Param) :
    (fs : List AttrField) → (ws : List AttrWire) → (as : List SAttr) →
    attrsOK ps fs ws as = true → ws.length = as.length
  | [], [], [], _ => rfl
  | f :: fs, w :: ws, a :: as, h => by
    simp only [attrsOK, Bool.and_eq_true] at h
    simp [attrsOK_length ps fs ws as h.2]
  | [], [], _ :: _, h => by simp [attrsOK] at h
  | [], _ :: _, _, h => by simp [attrsOK] at h
  | _ :: _, [], _, h => by simp [attrsOK] at h
  | _ :: _, _ :: _, [], h => by simp [attrsOK] at h

/-! inputs -/

theorem inputsOK_wires (flds : List (String × FieldKind)) (ws : List (String × String)) (ps : List Param)
    (h : inputsOK flds ws ps = true) :
    (∀ w ∈ ws, w.2 = w.1) ∧ (∀ f ∈ flds, ∃ w ∈ ws, w.1 = f.1) := by
  induction flds generalizing ws ps with
  | nil =>
    cases ws <;> cases ps <;> simp_all [inputsOK]
  | cons f fs ih =>
    cases ws with
    | nil => simp [inputsOK] at h
    | cons w ws =>
      cases ps with
      | nil => simp [inputsOK] at h
      | cons p ps =>
        simp only [inputsOK, Bool.and_eq_true] at h
        obtain ⟨h1, h2⟩ := h
        obtain ⟨ih1, ih2⟩ := ih ws ps h2
        unfold inputOK at h1
        simp only [Bool.and_eq_true, beq_iff_eq] at h1
        obtain ⟨⟨⟨⟨⟨hw1, hw2⟩, _⟩, _⟩, _⟩, _⟩ := h1
        constructor
        · intro x hx
          rcases List.mem_cons.mp hx with rfl | hx
          · rw [hw1, hw2]
          · exact ih1 x hx
        · intro g hg
          rcases List.mem_cons.mp hg with rfl | hg
          · exact ⟨w, List.mem_cons_self, hw1⟩
          · obtain ⟨x, hx, he⟩ := ih2 g hg
            exact ⟨x, List.mem_cons_of_mem _ hx, he⟩

theorem callInputs_of_inputsOK {α : Type} (c : Ctor) (flds : List (String × FieldKind))
    (hc : c.cls.inputs = flds) (ps : List Param) (h : inputsOK flds c.inputWires ps = true)
    (args : String → Emit.Arg α) :
    callInputs c args = flds.map (fun f => args f.1) := by
  obtain ⟨h1, h2⟩ := inputsOK_wires flds c.inputWires ps h
  unfold callInputs
  rw [hc]
  apply List.map_congr_left
  intro f hf
  obtain ⟨w, hw, he⟩ := h2 f hf
  cases hfind : c.inputWires.find? (fun w => w.1 == f.1) with
  | none =>
    have := List.find?_eq_none.mp hfind w hw
    simp [he] at this
  | some x =>
    have hx1 : x.1 = f.1 := by simpa using List.find?_some hfind
    have hx2 : x.2 = x.1 := h1 x (List.mem_of_find?_eq_some hfind)
    simp [hx2, hx1]

end Conform
