import SpoxModel.Model.Conform
/-! Helper lemmas linking the conformance predicate with the constructor-call model (C11). -/
namespace Conform

/-- What a conforming constructor emits for schema attribute `a` (wired through `w`): the value
    given (as `Attr*._to_onnx` stores it), else the schema default if there is one, else nothing. -/
def expectedAttr (supplied : String → Option Val) (a : SAttr) (w : AttrWire) : Option (String × Val) :=
  match supplied a.name with
  | some v => some (a.name, encode w.kind v)
  | Option.none => if a.default == Val.none then Option.none else some (a.name, a.default)

/-- one wire of `callAttrs` -/
def callAttr (ps : List Param) (supplied : String → Option Val) (w : AttrWire) : Option (String × Val) :=
  match effective ps supplied w.param with
  | some v => some (w.onnxName, encode w.kind v)
  | Option.none => Option.none

theorem callAttrs_eq (c : Ctor) (supplied : String → Option Val) :
    callAttrs c supplied = c.attrWires.map (callAttr c.params supplied) := rfl

theorem callAttr_of_attrOK (ps : List Param) (f : AttrField) (w : AttrWire) (a : SAttr)
    (supplied : String → Option Val) (h : attrOK ps f w a = true) :
    callAttr ps supplied w = expectedAttr supplied a w := by
  unfold attrOK at h
  simp only [Bool.and_eq_true, beq_iff_eq] at h
  obtain ⟨⟨⟨⟨⟨⟨⟨_, _⟩, hon⟩, hpar⟩, _⟩, hk⟩, _⟩, hrest⟩ := h
  unfold callAttr expectedAttr effective
  rw [hpar, hon]
  cases hs : supplied a.name with
  | some v => rfl
  | none =>
    simp only
    cases hf : findParam ps a.name with
    | none => rw [hf] at hrest; simp at hrest
    | some p =>
      rw [hf] at hrest
      simp only [Bool.and_eq_true] at hrest
      obtain ⟨_, hd⟩ := hrest
      unfold defaultOK at hd
      by_cases hreq : a.required = true
      · simp only [hreq, if_true, Bool.and_eq_true, beq_iff_eq] at hd
        obtain ⟨⟨_, hpn⟩, hdn⟩ := hd
        have : p.default = Option.none := by simpa using hpn
        simp [this, hdn]
      · have hreq' : a.required = false := by simpa using hreq
        simp only [hreq', Bool.false_eq_true, if_false] at hd
        by_cases hdn : a.default = Val.none
        · simp only [hdn, beq_self_eq_true, if_true, Bool.and_eq_true, beq_iff_eq] at hd
          simp [hd.2, hdn]
        · have hb : (a.default == Val.none) = false := by simpa using hdn
          simp only [hb, Bool.false_eq_true, if_false] at hd
          cases hpd : p.default with
          | none => rw [hpd] at hd; simp at hd
          | some v =>
            rw [hpd] at hd
            simp only [Bool.and_eq_true, bne_iff_ne, ne_eq, beq_iff_eq] at hd
            obtain ⟨_, hv, he⟩ := hd
            rw [hk]
            cases v <;> simp_all

theorem callAttrs_of_attrsOK (ps : List Param) (supplied : String → Option Val) :
    (fs : List AttrField) → (ws : List AttrWire) → (as : List SAttr) →
    attrsOK ps fs ws as = true →
    ws.map (callAttr ps supplied) = List.zipWith (expectedAttr supplied) as ws
  | [], [], [], _ => rfl
  | f :: fs, w :: ws, a :: as, h => by
    simp only [attrsOK, Bool.and_eq_true] at h
    simp only [List.map_cons, List.zipWith_cons_cons]
    rw [callAttr_of_attrOK ps f w a supplied h.1, callAttrs_of_attrsOK ps supplied fs ws as h.2]
  | [], [], _ :: _, h => by simp [attrsOK] at h
  | [], _ :: _, _, h => by simp [attrsOK] at h
  | _ :: _, [], _, h => by simp [attrsOK] at h
  | _ :: _, _ :: _, [], h => by simp [attrsOK] at h

theorem attrsOK_length (ps : List Param) :
    (fs : List AttrField) → (ws : List AttrWire) → (as : List SAttr) →
    attrsOK ps fs ws as = true → ws.length = as.length
  | [], [], [], _ => rfl
  | f :: fs, w :: ws, a :: as, h => by
    simp only [attrsOK, Bool.and_eq_true] at h
    simp [attrsOK_length ps fs ws as h.2]
  | [], [], _ :: _, h => by simp [attrsOK] at h
  | [], _ :: _, _, h => by simp [attrsOK] at h
  | _ :: _, [], _, h => by simp [attrsOK] at h
  | _ :: _, _ :: _, [], h => by simp [attrsOK] at h

/-! inputs -/

theorem inputsOK_wires (flds : List (String × FieldKind)) (ws : List (String × String)) (ps : List Param)
    (h : inputsOK flds ws ps = true) :
    (∀ w ∈ ws, w.2 = w.1) ∧ (∀ f ∈ flds, ∃ w ∈ ws, w.1 = f.1) := by
  induction flds generalizing ws ps with
  | nil =>
    cases ws <;> cases ps <;> simp_all [inputsOK]
  | cons f fs ih =>
    cases ws with
    | nil => simp [inputsOK] at h
    | cons w ws =>
      cases ps with
      | nil => simp [inputsOK] at h
      | cons p ps =>
        simp only [inputsOK, Bool.and_eq_true] at h
        obtain ⟨h1, h2⟩ := h
        obtain ⟨ih1, ih2⟩ := ih ws ps h2
        unfold inputOK at h1
        simp only [Bool.and_eq_true, beq_iff_eq] at h1
        obtain ⟨⟨⟨⟨⟨hw1, hw2⟩, _⟩, _⟩, _⟩, _⟩ := h1
        constructor
        · intro x hx
          rcases List.mem_cons.mp hx with rfl | hx
          · rw [hw1, hw2]
          · exact ih1 x hx
        · intro g hg
          rcases List.mem_cons.mp hg with rfl | hg
          · exact ⟨w, List.mem_cons_self, hw1⟩
          · obtain ⟨x, hx, he⟩ := ih2 g hg
            exact ⟨x, List.mem_cons_of_mem _ hx, he⟩

theorem callInputs_of_inputsOK {α : Type} (c : Ctor) (flds : List (String × FieldKind))
    (hc : c.cls.inputs = flds) (ps : List Param) (h : inputsOK flds c.inputWires ps = true)
    (args : String → Emit.Arg α) :
    callInputs c args = flds.map (fun f => args f.1) := by
  obtain ⟨h1, h2⟩ := inputsOK_wires flds c.inputWires ps h
  unfold callInputs
  rw [hc]
  apply List.map_congr_left
  intro f hf
  obtain ⟨w, hw, he⟩ := h2 f hf
  cases hfind : c.inputWires.find? (fun w => w.1 == f.1) with
  | none =>
    have := List.find?_eq_none.mp hfind w hw
    simp [he] at this
  | some x =>
    have hx1 : x.1 = f.1 := by simpa using List.find?_some hfind
    have hx2 : x.2 = x.1 := h1 x (List.mem_of_find?_eq_some hfind)
    simp [hx2, hx1]

/-! spellings (error branch included) -/

/-- what a conforming constructor does with one attribute, for every spelling -/
def expectedAttrE (spelled : String → Spell) (a : SAttr) (w : AttrWire) : Option (Option (String × Val)) :=
  if rejects a (spelled a.name) then Option.none else some (acceptedAttr spelled a w)

/-- what `defaultOK` says, case by case -/
theorem defaultOK_cases (optional : Bool) (k : AttrKind) (pd : Option Val) (a : SAttr)
    (h : defaultOK optional k pd a = true) :
    (a.required = true ∧ optional = false ∧ pd = Option.none ∧ a.default = Val.none) ∨
    (a.required = false ∧ a.default = Val.none ∧ optional = true ∧ pd = some Val.none) ∨
    (a.required = false ∧ a.default ≠ Val.none ∧ optional = false ∧
      ∃ v, pd = some v ∧ v ≠ Val.none ∧ encode k v = a.default) := by
  unfold defaultOK at h
  by_cases hreq : a.required = true
  · simp only [hreq, if_true, Bool.and_eq_true, beq_iff_eq] at h
    obtain ⟨⟨ho, hpn⟩, hdn⟩ := h
    left
    exact ⟨hreq, by simpa using ho, by simpa using hpn, hdn⟩
  · have hreq' : a.required = false := by simpa using hreq
    simp only [hreq', Bool.false_eq_true, if_false] at h
    by_cases hdn : a.default = Val.none
    · simp only [hdn, beq_self_eq_true, if_true, Bool.and_eq_true, beq_iff_eq] at h
      right; left
      exact ⟨hreq', hdn, h.1, h.2⟩
    · have hb : (a.default == Val.none) = false := by simpa using hdn
      simp only [hb, Bool.false_eq_true, if_false] at h
      right; right
      cases hpd : pd with
      | none => rw [hpd] at h; simp at h
      | some v =>
        rw [hpd] at h
        simp only [Bool.and_eq_true, bne_iff_ne, ne_eq, beq_iff_eq] at h
        obtain ⟨ho, hv, he⟩ := h
        exact ⟨hreq', hdn, by simpa using ho, v, rfl, hv, he⟩

theorem callAttrE_of_attrOK (ps : List Param) (f : AttrField) (w : AttrWire) (a : SAttr)
    (spelled : String → Spell) (h : attrOK ps f w a = true) :
    callAttrE ps spelled w = expectedAttrE spelled a w := by
  unfold attrOK at h
  simp only [Bool.and_eq_true, beq_iff_eq] at h
  obtain ⟨⟨⟨⟨⟨⟨⟨_, _⟩, hon⟩, hpar⟩, _⟩, hk⟩, hm⟩, hrest⟩ := h
  cases hf : findParam ps a.name with
  | none => rw [hf] at hrest; simp at hrest
  | some p =>
    rw [hf] at hrest
    simp only [Bool.and_eq_true] at hrest
    obtain ⟨_, hd⟩ := hrest
    have hc := defaultOK_cases _ _ _ _ hd
    unfold callAttrE expectedAttrE acceptedAttr
    rw [hpar]
    cases hs : spelled a.name with
    | ok v => simp [bound, mkAttr, rejects, hon]
    | bad => simp [bound, mkAttr, rejects]
    | none =>
      rcases hc with ⟨hr, ho, _, _⟩ | ⟨hr, hdn, ho, _⟩ | ⟨hr, hdn, ho, _⟩
      · simp [bound, mkAttr, rejects, hm, ho, hr]
      · simp [bound, mkAttr, rejects, hm, ho, hr, hdn]
      · simp [bound, mkAttr, rejects, hm, ho, hr, hdn]
    | omitted =>
      rcases hc with ⟨hr, ho, hp, _⟩ | ⟨hr, hdn, ho, hp⟩ | ⟨hr, hdn, ho, v, hp, hv, he⟩
      · simp [bound, hf, hp, rejects, hr]
      · simp [bound, hf, hp, mkAttr, rejects, hm, ho, hr, hdn]
      · have hb : bound ps a.name Spell.omitted = some (Spell.ok v) := by
          simp only [bound, hf, hp]
        rw [hb]
        simp [mkAttr, rejects, hr, hdn, hon, hk, he]

theorem callAttrsE_of_attrsOK (ps : List Param) (spelled : String → Spell) :
    (fs : List AttrField) → (ws : List AttrWire) → (as : List SAttr) →
    attrsOK ps fs ws as = true →
    ws.map (callAttrE ps spelled) = List.zipWith (expectedAttrE spelled) as ws
  | [], [], [], _ => rfl
  | f :: fs, w :: ws, a :: as, h => by
    simp only [attrsOK, Bool.and_eq_true] at h
    simp only [List.map_cons, List.zipWith_cons_cons]
    rw [callAttrE_of_attrOK ps f w a spelled h.1, callAttrsE_of_attrsOK ps spelled fs ws as h.2]
  | [], [], _ :: _, h => by simp [attrsOK] at h
  | [], _ :: _, _, h => by simp [attrsOK] at h
  | _ :: _, [], _, h => by simp [attrsOK] at h
  | _ :: _, _ :: _, [], h => by simp [attrsOK] at h

theorem allSome_eq_none {γ : Type} (l : List (Option γ)) :
    allSome l = Option.none ↔ Option.none ∈ l := by
  induction l with
  | nil => simp [allSome]
  | cons x xs ih =>
    cases x with
    | none => simp [allSome]
    | some a =>
      cases hx : allSome xs with
      | none => simp [allSome, hx, ih.mp hx]
      | some l =>
        have : ¬ (Option.none ∈ xs) := fun hm => by rw [ih.mpr hm] at hx; cases hx
        simp [allSome, hx, this]

theorem allSome_map_some {γ : Type} (r : List γ) : allSome (r.map some) = some r := by
  induction r with
  | nil => rfl
  | cons b bs ih => simp [allSome, ih]

theorem allSome_eq_some {γ : Type} (l : List (Option γ)) (r : List γ) :
    allSome l = some r ↔ l = r.map some := by
  constructor
  · intro h
    induction l generalizing r with
    | nil => simp [allSome] at h; subst h; rfl
    | cons x xs ih =>
      cases x with
      | none => simp [allSome] at h
      | some a =>
        cases hx : allSome xs with
        | none => simp [allSome, hx] at h
        | some l' =>
          simp only [allSome, hx, Option.some.injEq] at h
          subst h
          simp [ih l' hx]
  · intro h; subst h; exact allSome_map_some r

/-! the input side, error branch included -/

theorem findParam_of_mem (ps : List Param) (p : Param)
    (hd : namesDistinct (ps.map (·.name)) = true) (hp : p ∈ ps) : findParam ps p.name = some p := by
  induction ps with
  | nil => cases hp
  | cons q rest ih =>
    simp only [List.map_cons, namesDistinct, Bool.and_eq_true, Bool.not_eq_true'] at hd
    obtain ⟨hq, hrest⟩ := hd
    rcases List.mem_cons.mp hp with rfl | hp'
    · simp [findParam]
    · have hne : ¬ q.name = p.name := by
        intro he
        have : (rest.map (·.name)).contains q.name = true := by
          rw [he]; simp only [List.contains_eq_mem, List.mem_map, decide_eq_true_eq]
          exact ⟨p, hp', rfl⟩
        rw [this] at hq; cases hq
      simp only [findParam, beq_iff_eq, hne, if_false]
      exact ih hrest hp'

/-- the default a conforming positional parameter has, by kind of its input field -/
def inDefaultShape (k : FieldKind) (d : Option Val) : Prop :=
  match k with
  | .single => d = Option.none
  | .optional => d = some Val.none
  | .variadic => d = Option.none ∨ d = some (Val.other "()")

theorem inputsOK_params (flds : List (String × FieldKind)) (ws : List (String × String)) (ps : List Param)
    (h : inputsOK flds ws ps = true) :
    ∀ f ∈ flds, ∃ p ∈ ps, p.name = f.1 ∧ inDefaultShape f.2 p.default := by
  induction flds generalizing ws ps with
  | nil => intro f hf; cases hf
  | cons f fs ih =>
    cases ws with
    | nil => simp [inputsOK] at h
    | cons w ws =>
      cases ps with
      | nil => simp [inputsOK] at h
      | cons p ps =>
        simp only [inputsOK, Bool.and_eq_true] at h
        obtain ⟨h1, h2⟩ := h
        intro g hg
        rcases List.mem_cons.mp hg with rfl | hg
        · unfold inputOK at h1
          simp only [Bool.and_eq_true, beq_iff_eq] at h1
          obtain ⟨⟨⟨⟨⟨_, _⟩, hn⟩, _⟩, _⟩, hdef⟩ := h1
          refine ⟨p, List.mem_cons_self, hn, ?_⟩
          unfold inDefaultShape
          cases hk : g.2 <;> rw [hk] at hdef <;> simp_all
        · obtain ⟨q, hq, hq'⟩ := ih ws ps h2 g hg
          exact ⟨q, List.mem_cons_of_mem _ hq, hq'⟩

/-- what a conforming constructor does with one input, for every spelling -/
def expectedInE {α : Type} (ps : List Param) (spelled : String → InSpell α) (f : String × FieldKind) :
    Option (Emit.Arg α) :=
  if rejectsIn f.2 (paramHasDefault ps f.1) (spelled f.1) then Option.none
  else some (acceptedIn f.2 (spelled f.1))

theorem callInputE_of_inputsOK {α : Type} (c : Ctor) (flds : List (String × FieldKind))
    (h : inputsOK flds c.inputWires (positional c.params) = true)
    (hd : namesDistinct (c.params.map (·.name)) = true)
    (spelled : String → InSpell α) (f : String × FieldKind) (hf : f ∈ flds) :
    callInputE c spelled f = expectedInE c.params spelled f := by
  obtain ⟨h1, h2⟩ := inputsOK_wires flds c.inputWires _ h
  obtain ⟨w, hw, he⟩ := h2 f hf
  obtain ⟨p, hp, hpn, hshape⟩ := inputsOK_params flds c.inputWires _ h f hf
  have hp' : p ∈ c.params := (List.mem_filter.mp hp).1
  have hfp : findParam c.params f.1 = some p := by rw [← hpn]; exact findParam_of_mem _ _ hd hp'
  unfold callInputE expectedInE
  cases hfind : c.inputWires.find? (fun w => w.1 == f.1) with
  | none =>
    have := List.find?_eq_none.mp hfind w hw
    simp [he] at this
  | some x =>
    have hx1 : x.1 = f.1 := by simpa using List.find?_some hfind
    have hx2 : x.2 = x.1 := h1 x (List.mem_of_find?_eq_some hfind)
    simp only [hx2, hx1]
    unfold inDefaultShape at hshape
    cases hk : f.2 <;> rw [hk] at hshape <;> cases hs : spelled f.1 <;>
      first
      | (rcases hshape with hsh | hsh <;>
          simp_all [boundIn, mkInput, rejectsIn, acceptedIn, paramHasDefault])
      | simp_all [boundIn, mkInput, rejectsIn, acceptedIn, paramHasDefault]

/-! the closed form of the trimming loop -/

theorem lp_fst (xs : List (Option String)) (a b : Nat) :
    (xs.foldl (fun (acc : Nat × Nat) x => (acc.1 + 1, if x.isSome then acc.1 + 1 else acc.2)) (a, b)).1
      = a + xs.length := by
  induction xs generalizing a b with
  | nil => rfl
  | cons x xs ih => simp only [List.foldl_cons, List.length_cons]; rw [ih]; omega

theorem lastPresent_snoc (ys : List (Option String)) (x : Option String) :
    lastPresent (ys ++ [x]) = if x.isSome then ys.length + 1 else lastPresent ys := by
  unfold lastPresent
  rw [List.foldl_append]
  simp only [List.foldl_cons, List.foldl_nil]
  have := lp_fst ys 0 0
  simp only [Nat.zero_add] at this
  rw [this]

theorem lastPresent_le (xs : List (Option String)) : lastPresent xs ≤ xs.length := by
  have key : ∀ r : List (Option String), lastPresent r.reverse ≤ r.length := by
    intro r
    induction r with
    | nil => simp [lastPresent]
    | cons x r ih =>
      rw [List.reverse_cons, lastPresent_snoc]
      split
      · simp
      · simp only [List.length_cons]; omega
  have := key xs.reverse
  simpa using this

theorem trimRev_closed (minN : Nat) (r : List (Option String)) :
    (Emit.trimRev minN r).reverse = specSlots minN r.reverse := by
  induction r with
  | nil => simp [Emit.trimRev, specSlots]
  | cons x r ih =>
    cases x with
    | some v =>
      simp only [Emit.trimRev, specSlots, List.reverse_cons, lastPresent_snoc, Option.isSome_some, if_true,
        List.length_append, List.length_reverse, List.length_cons, List.length_nil]
      rw [List.take_of_length_le]
      simp only [List.length_append, List.length_reverse, List.length_cons, List.length_nil]
      omega
    | none =>
      simp only [Emit.trimRev]
      by_cases h : r.length + 1 > minN
      · rw [if_pos h, ih]
        simp only [specSlots, List.reverse_cons, lastPresent_snoc, Option.isSome_none, Bool.false_eq_true,
          if_false, List.length_append, List.length_reverse, List.length_cons, List.length_nil]
        have hle := lastPresent_le r.reverse
        simp only [List.length_reverse] at hle
        have h1 : min minN (r.length + 1) = minN := by omega
        have h2 : min minN r.length = minN := by omega
        rw [h1, h2, List.take_append_of_le_length]
        simp only [List.length_reverse]
        omega
      · rw [if_neg h]
        simp only [specSlots, List.reverse_cons, List.length_append, List.length_reverse, List.length_cons,
          List.length_nil]
        rw [List.take_of_length_le]
        simp only [List.length_append, List.length_reverse, List.length_cons, List.length_nil]
        omega

/-- `Node.to_onnx`'s popping loop = "cut after the last present name, never below `min`" -/
theorem emitSlots_closed (minN : Nat) (args : List (Emit.Arg String)) :
    Emit.emitSlots minN args = specSlots minN (Emit.flatten args) := by
  unfold Emit.emitSlots Emit.trim
  rw [trimRev_closed, List.reverse_reverse]

end Conform
