import SpoxModel.Lemmas.Front
import SpoxModel.Lemmas.Reach
/-! Objects constructed later do not influence a build of older objects (C12). -/
namespace Front

theorem mainInfo_cons (o : Obj) (P : List Obj) (outs : List Entry)
    (hout : ∀ e ∈ outs, e.obj < P.length) : mainInfo (o :: P) outs = mainInfo P outs := by
  unfold mainInfo
  congr 1
  apply List.map_congr_left
  intro e he
  simp only [table]
  exact look_cons_lt _ _ _ (by rw [table_length]; exact hout e he)

theorem freeArgs_cons (o : Obj) (P : List Obj) (outs : List Entry)
    (hout : ∀ e ∈ outs, e.obj < P.length) : freeArgs (o :: P) outs = freeArgs P outs := by
  unfold freeArgs
  rw [mainInfo_cons o P outs hout]

theorem tyOf_cons (o : Obj) (P : List Obj) (v : Nat) (h : v < P.length) : tyOf (o :: P) v = tyOf P v := by
  unfold tyOf; rw [getObj_cons_lt o P v h]
theorem isVar_cons (o : Obj) (P : List Obj) (v : Nat) (h : v < P.length) : isVar (o :: P) v = isVar P v := by
  unfold isVar; rw [getObj_cons_lt o P v h]
theorem isArg_cons (o : Obj) (P : List Obj) (v : Nat) (h : v < P.length) : isArg (o :: P) v = isArg P v := by
  unfold isArg; rw [getObj_cons_lt o P v h]

theorem freeArgs_lt (P : List Obj) (hwf : WF P) (outs : List Entry)
    (hout : ∀ e ∈ outs, e.obj < P.length) (a : Nat) (ha : a ∈ freeArgs P outs) : a < P.length := by
  obtain ⟨_, ⟨o, ho, _⟩, _⟩ := (freeArgs_spec P hwf outs hout a).mp ha
  exact getObj_lt ho

/-- `bodyA` reads the program only through `mainInfo`, `freeArgs` and the types of the arguments and outputs. -/
theorem bodyA_congr (P P' : List Obj) (fixed : Bool) (req : Request) (s : Renames.Store) (args : List Nat)
    (h1 : mainInfo P' req.outputs = mainInfo P req.outputs)
    (h2 : freeArgs P' req.outputs = freeArgs P req.outputs)
    (h3 : ∀ a ∈ args, tyOf P' a = tyOf P a)
    (h4 : ∀ e ∈ req.outputs, tyOf P' e.obj = tyOf P e.obj) :
    bodyA P' fixed req s args = bodyA P fixed req s args := by
  have hv : args.map (vinfo P' s) = args.map (vinfo P s) := by
    apply List.map_congr_left
    intro a ha
    simp only [vinfo, h3 a ha]
  have ho : req.outputs.map (fun e => (⟨e.name, tyOf P' e.obj⟩ : VInfo))
      = req.outputs.map (fun e => (⟨e.name, tyOf P e.obj⟩ : VInfo)) := by
    apply List.map_congr_left
    intro e he
    rw [h4 e he]
  unfold bodyA
  rw [h1, h2, hv, ho]

/-- The part of `build` inside the block does not see an object newer than everything requested. -/
theorem body_cons (o : Obj) (P : List Obj) (hwf : WF P) (π : List Nat → List Nat)
    (hπ : ∀ l, (π l).Perm l) (fixed : Bool) (req : Request) (s : Renames.Store)
    (hin : ∀ e ∈ req.inputs, e.obj < P.length) (hout : ∀ e ∈ req.outputs, e.obj < P.length) :
    body (o :: P) π fixed req s = body P π fixed req s := by
  rw [body_eq, body_eq]
  have hf := freeArgs_cons o P req.outputs hout
  have hargs : argsOf (o :: P) π req = argsOf P π req := by unfold argsOf; rw [hf]
  rw [hargs]
  apply bodyA_congr P (o :: P) fixed req s _ (mainInfo_cons o P req.outputs hout) hf
  · intro a ha
    apply tyOf_cons
    unfold argsOf at ha
    cases hd : req.drop with
    | true =>
      rw [hd, if_pos rfl] at ha
      exact freeArgs_lt P hwf req.outputs hout a ((hπ _).mem_iff.mp ha)
    | false =>
      rw [hd] at ha
      simp only [Bool.false_eq_true, if_false] at ha
      obtain ⟨e, he, rfl⟩ := List.mem_map.mp ha
      exact hin e he
  · intro e he
    exact tyOf_cons o P e.obj (hout e he)

theorem build_cons (ir : List Renames.Stmt) (o : Obj) (P : List Obj) (hwf : WF P) (π : List Nat → List Nat)
    (hπ : ∀ l, (π l).Perm l) (fixed : Bool) (req : Request) (s : Renames.Store)
    (hin : ∀ e ∈ req.inputs, e.obj < P.length) (hout : ∀ e ∈ req.outputs, e.obj < P.length) :
    build ir (o :: P) π fixed req s = build ir P π fixed req s := by
  have e1 : req.inputs.all (fun e => isVar (o :: P) e.obj) = req.inputs.all (fun e => isVar P e.obj) := by
    rw [Bool.eq_iff_iff, List.all_eq_true, List.all_eq_true]
    exact ⟨fun h e he => by rw [← isVar_cons o P e.obj (hin e he)]; exact h e he,
           fun h e he => by rw [isVar_cons o P e.obj (hin e he)]; exact h e he⟩
  have e2 : req.outputs.all (fun e => isVar (o :: P) e.obj) = req.outputs.all (fun e => isVar P e.obj) := by
    rw [Bool.eq_iff_iff, List.all_eq_true, List.all_eq_true]
    exact ⟨fun h e he => by rw [← isVar_cons o P e.obj (hout e he)]; exact h e he,
           fun h e he => by rw [isVar_cons o P e.obj (hout e he)]; exact h e he⟩
  have e3 : req.inputs.all (fun e => isArg (o :: P) e.obj) = req.inputs.all (fun e => isArg P e.obj) := by
    rw [Bool.eq_iff_iff, List.all_eq_true, List.all_eq_true]
    exact ⟨fun h e he => by rw [← isArg_cons o P e.obj (hin e he)]; exact h e he,
           fun h e he => by rw [isArg_cons o P e.obj (hin e he)]; exact h e he⟩
  have e4 : (fun s' => body (o :: P) π fixed req s') = (fun s' => body P π fixed req s') := by
    funext s'
    exact body_cons o P hwf π hπ fixed req s' hin hout
  unfold build
  rw [e1, e2, e3]
  simp only [e4]

end Front
