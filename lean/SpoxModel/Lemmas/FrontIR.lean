import SpoxModel.Model.FrontIR
import SpoxModel.Lemmas.Front
/-! The statement-level model of `spox.build` (`Model/FrontIR.lean`) computes `Front.build`. -/
namespace FrontIR
open Front
open Renames (Store Outcome)

/-- `Front.body` is: compile, then the "additional inputs" test, then the re-listing. -/
theorem body_eq (P : List Obj) (π : List Nat → List Nat) (fixed : Bool) (req : Request) (s : Store) :
    body P π fixed req s =
      match compile P π req.outputs (if req.drop then none else some (req.inputs.map (·.obj))) s with
      | .error e => .error e
      | .ok b =>
        if extraInput (req.inputs.map (·.name)) b then .error .key
        else .ok (if req.drop && fixed then (relist req b).model else b.model) := by
  unfold body compile extraInput relist
  cases hd : req.drop <;> simp only [Bool.false_eq_true, if_false, if_true, Bool.false_and, Bool.true_and]
  all_goals
    repeat' split
  all_goals (try simp_all [List.any_map, Function.comp_def])
  all_goals (try subst_vars)
  all_goals (try simp_all [List.any_map, Function.comp_def])
  all_goals first
    | done
    | (rename_i h1 h2; obtain ⟨x, hx, hp⟩ := h1; have hq := h2 x hx
       split at hp <;> split at hq <;> simp_all <;>
         first | done | (obtain ⟨a', ha', hn'⟩ := hq; exact hp a' ha' hn') | (obtain ⟨a', ha', hn'⟩ := hp; exact hq a' ha' hn'))
    | (rename_i h1 h2; obtain ⟨x, ⟨a, ha, rfl⟩, hp⟩ := h2; have hq := h1 a ha
       split at hp <;> split at hq <;> simp_all <;>
         first | done | (obtain ⟨a', ha', hn'⟩ := hq; exact hp a' ha' hn') | (obtain ⟨a', ha', hn'⟩ := hp; exact hq a' ha' hn'))

/-- The statement list of the fixed `build`, executed by the interpreter, is `Front.build`. -/
theorem run_fixedIR (P : List Obj) (π : List Nat → List Nat) (req : Request) (s : Store) :
    run fixedIR Renames.fixedIR P π req s = Front.build Renames.fixedIR P π true req s := by
  rw [build_fixed, body_eq]
  cases hd : req.drop
  · simp only [run, fixedIR, exec, evalPred, execW, Renames.run_fixed, Renames.restore_enter, outcomeOf,
      hd, Bool.false_eq_true, if_false, Bool.false_and]
    generalize compile P π req.outputs (some (req.inputs.map (·.obj))) (Renames.enter (kwargs req) s) = c
    cases c <;> simp <;> (repeat' split) <;> simp_all
  · simp only [run, fixedIR, exec, evalPred, execW, Renames.run_fixed, Renames.restore_enter, outcomeOf,
      hd, if_true, Bool.true_and]
    generalize compile P π req.outputs none (Renames.enter (kwargs req) s) = c
    cases c <;> simp <;> (repeat' split) <;> simp_all

/-- … and the pinned statement list (no re-listing) is `Front.build … (fixed := false)`. -/
theorem run_pinnedIR (P : List Obj) (π : List Nat → List Nat) (req : Request) (s : Store) :
    run pinnedIR Renames.fixedIR P π req s = Front.build Renames.fixedIR P π false req s := by
  rw [build_fixed, body_eq]
  cases hd : req.drop
  · simp only [run, pinnedIR, exec, evalPred, execW, Renames.run_fixed, Renames.restore_enter, outcomeOf,
      hd, Bool.false_eq_true, if_false, Bool.false_and]
    generalize compile P π req.outputs (some (req.inputs.map (·.obj))) (Renames.enter (kwargs req) s) = c
    cases c <;> simp <;> (repeat' split) <;> simp_all
  · simp only [run, pinnedIR, exec, evalPred, execW, Renames.run_fixed, Renames.restore_enter, outcomeOf,
      hd, if_true, Bool.and_false]
    generalize compile P π req.outputs none (Renames.enter (kwargs req) s) = c
    cases c <;> simp <;> (repeat' split) <;> simp_all

/-! ## Option handling of `Graph`: which arguments a compiled graph has -/

/-- `results(**outs).with_arguments(*l).to_onnx_model()`: the arguments are exactly `l` — order and
    multiplicity as requested (no set is involved when arguments are requested). -/
theorem compile_requested (P : List Obj) (π : List Nat → List Nat) (outs : List Entry) (l : List Nat)
    (s : Store) (b : Built) (h : compile P π outs (some l) s = .ok b) :
    b.args = l ∧ b.names = l.map s ∧ b.model.inputs.map (·.ty) = l.map (tyOf P) := by
  unfold compile at h
  simp only at h
  repeat' split at h
  all_goals cases h
  all_goals simp [List.map_map, Function.comp_def]

/-- `results(**outs).to_onnx_model()` (no arguments requested): the arguments are the discovered
    ones, `all − claimed`, in the iteration order `π` of the set. -/
theorem compile_discovered (P : List Obj) (π : List Nat → List Nat) (outs : List Entry)
    (s : Store) (b : Built) (h : compile P π outs none s = .ok b) :
    b.args = π (freeArgs P outs) ∧ b.names = (π (freeArgs P outs)).map s := by
  unfold compile at h
  simp only at h
  repeat' split at h
  all_goals cases h
  all_goals simp

/-- A compiled graph never has an argument twice, and every argument an output depends on is one
    of its arguments (else `compile_graph` fails with ScopeError / KeyError). -/
theorem compile_args_sound (P : List Obj) (π : List Nat → List Nat) (outs : List Entry)
    (ra : Option (List Nat)) (s : Store) (b : Built) (h : compile P π outs ra s = .ok b) :
    hasDup b.args = false ∧ ∀ a ∈ freeArgs P outs, a ∈ b.args := by
  unfold compile at h
  simp only at h
  repeat' split at h
  all_goals cases h
  all_goals simp_all

/-- `graph = results(**outputs)` forgets arguments requested earlier (a fresh Graph): only a
    `with_arguments` *after* it counts — the order of the two statements in `build` matters. -/
theorem results_resets_arguments (P : List Obj) (π : List Nat → List Nat) (req : Request) (s : Store)
    (r : List WStmt) (l : Locals) :
    execW P π req s (.results :: r) l =
      execW P π req s r { l with graphOuts := some req.outputs, graphArgs := none } := rfl

theorem goodShape_eq {ir : List Stmt} (h : goodShape ir = true) : ir = fixedIR := by
  unfold goodShape at h
  exact of_decide_eq_true h

end FrontIR
