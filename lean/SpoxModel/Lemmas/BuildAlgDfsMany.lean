import SpoxModel.Lemmas.BuildAlgDfs
import SpoxModel.Model.DfsMany
/-! `visitMany` on a DAG (rank function): successors-first, duplicate-free, exactly what the sources reach. -/
namespace BuildAlg
variable {α : Type} [DecidableEq α]

theorem visitMany_spec {adj : α → List α} (rank : α → Nat)
    (hrank : ∀ v, ∀ w ∈ adj v, rank w < rank v) (fuel : Nat) :
    ∀ (sources post : List α), (∀ s ∈ sources, rank s < fuel) → Closed adj post → post.Nodup →
      Closed adj (visitMany adj fuel sources post) ∧ (visitMany adj fuel sources post).Nodup ∧
      post <+: visitMany adj fuel sources post ∧
      ∀ x, x ∈ visitMany adj fuel sources post ↔ x ∈ post ∨ ∃ s ∈ sources, Reach adj s x := by
  intro sources
  induction sources with
  | nil =>
    intro post _ hc hn
    exact ⟨hc, hn, List.prefix_refl _, fun x => by simp [visitMany]⟩
  | cons s ss ih =>
    intro post hf hc hn
    obtain ⟨c1, m1, p1⟩ := visit_spec rank hrank fuel s post (hf s List.mem_cons_self) hc
    have n1 := visit_nodup rank hrank fuel s post hn
    obtain ⟨c2, n2, p2, i2⟩ := ih (visit adj fuel s post)
      (fun s' hs' => hf s' (List.mem_cons_of_mem _ hs')) c1 n1
    have hunf : visitMany adj fuel (s :: ss) post = visitMany adj fuel ss (visit adj fuel s post) := rfl
    rw [hunf]
    refine ⟨c2, n2, List.IsPrefix.trans p1 p2, ?_⟩
    intro x
    rw [i2 x]
    constructor
    · rintro (h | ⟨s', hs', hr⟩)
      · rcases visit_sub fuel s post x h with h | h
        · exact .inl h
        · exact .inr ⟨s, List.mem_cons_self, h⟩
      · exact .inr ⟨s', List.mem_cons_of_mem _ hs', hr⟩
    · rintro (h | ⟨s', hs', hr⟩)
      · exact .inl (p1.subset h)
      · rcases List.mem_cons.mp hs' with h | h
        · subst h; exact .inl (closed_reach c1 m1 hr)
        · exact .inr ⟨s', h, hr⟩

end BuildAlg
