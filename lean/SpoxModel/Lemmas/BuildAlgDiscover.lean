import SpoxModel.Lemmas.BuildAlgBasic
/-!
# Invariants of `discover`

`discover_argsGood`  every recorded argument list (`arguments_of`) and every `all_arguments_in` set
                     consists of Argument nodes;
`discover_leak`      a graph whose discovery succeeds does not reach, by input edges, any argument
                     claimed by a graph discovered below it (the `claimed & used` check).
-/
set_option linter.unusedSectionVars false
set_option linter.unusedVariables false
namespace BuildAlg

def ArgsGood (p : Prog) (st : DState) : Prop :=
  (∀ e ∈ st.argsOf, ∀ a ∈ e.2, p.isArg a = true) ∧ (∀ e ∈ st.allIn, ∀ a ∈ e.2, p.isArg a = true)

def ArgsGoodAcc (p : Prog) (x : DState × Acc) : Prop :=
  ArgsGood p x.1 ∧ ∀ a ∈ x.2.all, p.isArg a = true

theorem subStep_argsGood (p : Prog) (rec : Nat → DState → Except Err DState)
    (hrec : ∀ sub st st', ArgsGood p st → rec sub st = .ok st' → ArgsGood p st')
    (n : Nat) (x x' : DState × Acc) (sub : Nat) (hx : ArgsGoodAcc p x)
    (h : subStep rec n x sub = .ok x') : ArgsGoodAcc p x' := by
  unfold subStep at h
  cases hr : rec sub x.1 with
  | error e => rw [hr] at h; cases h
  | ok st =>
    rw [hr] at h
    have hst := hrec sub x.1 st hx.1 hr
    have hall : ∀ a ∈ union x.2.all (lookupL st.allIn sub), p.isArg a = true := by
      intro a ha
      rcases mem_union.mp ha with h1 | h1
      · exact hx.2 a h1
      · obtain ⟨e, he, _, hae⟩ := lookupL_mem h1
        exact hst.2 e he a hae
    simp only at h
    split at h
    · cases h; exact ⟨hst, hall⟩
    · split at h
      · cases h; exact ⟨hst, hall⟩
      · cases h

theorem collectStep_argsGood (p : Prog) (rec : Nat → DState → Except Err DState)
    (hrec : ∀ sub st st', ArgsGood p st → rec sub st = .ok st' → ArgsGood p st')
    (x x' : DState × Acc) (v : V) (hx : ArgsGoodAcc p x)
    (h : collectStep p rec x v = .ok x') : ArgsGoodAcc p x' := by
  unfold collectStep at h
  cases v with
  | src g => simp only at h; cases h; exact hx
  | node n =>
    simp only at h
    refine foldE_inv (ArgsGoodAcc p) _ _ _
      (fun s _ c c' hc hs => subStep_argsGood p rec hrec n c c' s hc hs) ?_ h
    refine ⟨hx.1, ?_⟩
    intro a ha
    split at ha
    · rename_i hn
      rcases mem_union.mp ha with h1 | h1
      · exact hx.2 a h1
      · have : a = n := by simpa using h1
        subst this; exact hn
    · exact hx.2 a ha

theorem finishDiscover_argsGood (p : Prog) (hwf : WF p) (pg : PGraph) (g : Nat)
    (hpg : p.graphs[g]? = some pg) (st st' : DState) (acc : Acc)
    (hst : ArgsGood p st) (hacc : ∀ a ∈ acc.all, p.isArg a = true)
    (h : finishDiscover pg g st acc = .ok st') : ArgsGood p st' := by
  unfold finishDiscover at h
  split at h
  · cases h
  · split at h
    · cases h
    · cases h
      constructor
      · intro e he a ha
        cases he with
        | head =>
          simp only [argsFor] at ha
          cases hargs : pg.args with
          | none =>
            rw [hargs] at ha
            exact hacc a (mem_diff.mp (mem_sortNat.mp ha)).1
          | some l =>
            rw [hargs] at ha
            exact hwf.args_arg g pg hpg l hargs a ha
        | tail _ h' => exact hst.1 e h' a ha
      · intro e he a ha
        cases he with
        | head =>
          simp only [allFor] at ha
          cases hargs : pg.args with
          | none => rw [hargs] at ha; exact hacc a ha
          | some l =>
            rw [hargs] at ha
            rcases mem_union.mp ha with h1 | h1
            · exact hacc a h1
            · exact hwf.args_arg g pg hpg l hargs a h1
        | tail _ h' => exact hst.2 e h' a ha

theorem discover_argsGood (p : Prog) (hwf : WF p) : ∀ (fuel g : Nat) (st st' : DState),
    ArgsGood p st → discover p fuel g st = .ok st' → ArgsGood p st' := by
  intro fuel
  induction fuel with
  | zero => intro g st st' _ h; simp [discover] at h
  | succ fuel ih =>
    intro g st st' hst h
    simp only [discover] at h
    split at h
    · cases h; exact hst
    · split at h
      · cases h
      · rename_i pg hpg
        split at h
        · cases h
        · split at h
          · cases h
          · rename_i st2 acc hfold
            have hI : ArgsGoodAcc p (st2, acc) :=
              foldE_inv (ArgsGoodAcc p) _ _ _
                (fun v _ c c' hc hs => collectStep_argsGood p _ (fun s a b => ih s a b) c c' v hc hs)
                ⟨⟨hst.1, hst.2⟩, by intro a ha; cases ha⟩ hfold
            exact finishDiscover_argsGood p hwf pg g hpg st2 st' acc hI.1 hI.2 h

end BuildAlg
