import SpoxModel.Model.Prog
/-!
# Lemmas about the program model: unfolding of `table`, the soundness invariant `EnvOK`,
and the mutual induction over a nested emission (used by `Props/C01.lean`).
-/
namespace Prog
variable {Val : Type} [Inhabited Val]

theorem table_cons (S : Sem Val) (n : PNode) (older : List PNode) (bind : Nat → Val) :
    table S (n :: older) bind
      = nodeVal S (table S older) bind older.length n :: table S older bind := by
  simp only [table, nodeVal]

@[simp] theorem table_length (S : Sem Val) (p : List PNode) (b : Nat → Val) :
    (table S p b).length = p.length := by
  induction p generalizing b with
  | nil => rfl
  | cons n older ih => simp [table, ih]

theorem nodeAt_lt {prog : List PNode} {k : Nat} {n : PNode} (h : nodeAt prog k = some n) :
    k < prog.length := by
  induction prog with
  | nil => simp [nodeAt] at h
  | cons m older ih =>
    simp only [nodeAt] at h
    split at h
    · simp; omega
    · have := ih h; simp; omega

theorem WF_tail {m : PNode} {older : List PNode} (h : WF (m :: older)) : WF older := by
  intro k n hk
  have hlt := nodeAt_lt hk
  apply h k n
  simp only [nodeAt]
  have hne : ¬ k = older.length := by omega
  rw [if_neg hne]
  exact hk

theorem getVar_cons_lt (v : List Val) (tbl : List (List Val)) (r : VarRef)
    (h : r.node < tbl.length) : getVar (v :: tbl) r = getVar tbl r := by
  simp only [getVar, valAt]
  have hne : ¬ r.node = tbl.length := by omega
  rw [if_neg hne]

/-- `nodeVal` only looks at table entries below `k`. -/
theorem nodeVal_congr (S : Sem Val) (t1 t2 : (Nat → Val) → List (List Val)) (b : Nat → Val)
    (k : Nat) (n : PNode)
    (hin : ∀ r, some r ∈ n.inputs → r.node < k)
    (hsub : ∀ g ∈ n.subs, ∀ r ∈ g.results, r.node < k)
    (h : ∀ b' (r : VarRef), r.node < k → getVar (t1 b') r = getVar (t2 b') r) :
    nodeVal S t1 b k n = nodeVal S t2 b k n := by
  unfold nodeVal
  split
  · rfl
  · congr 1
    · apply List.map_congr_left
      intro o ho
      cases o with
      | none => rfl
      | some r => simp only [getOpt]; rw [h b r (hin r ho)]
    · apply List.map_congr_left
      intro g hg; funext vals
      apply List.map_congr_left
      intro r hr; exact h _ r (hsub g hg r hr)

/-- Under `WF`, the table entry of node `k` is `nodeVal` of that node over the *whole* table. -/
theorem table_unfold (S : Sem Val) (prog : List PNode) (hwf : WF prog) (b : Nat → Val) (k : Nat)
    (n : PNode) (hk : nodeAt prog k = some n) :
    valAt (table S prog b) k = nodeVal S (table S prog) b k n := by
  induction prog generalizing b with
  | nil => simp [nodeAt] at hk
  | cons m older ih =>
    have hwf' := WF_tail hwf
    obtain ⟨hin, hsub⟩ := hwf k n hk
    simp only [nodeAt] at hk
    rw [table_cons]
    simp only [valAt, table_length]
    split at hk
    · rename_i hkeq
      cases hk
      rw [if_pos hkeq]
      subst hkeq
      apply nodeVal_congr S _ _ b _ _ hin hsub
      intro b' r hr
      rw [table_cons, getVar_cons_lt]
      simpa using hr
    · rename_i hkne
      rw [if_neg hkne]
      have hlt := nodeAt_lt hk
      rw [ih hwf' b hk]
      apply nodeVal_congr S _ _ b _ _ hin hsub
      intro b' r hr
      rw [table_cons, getVar_cons_lt]
      simp only [table_length]; omega

theorem refsBelow_spec {n : PNode} {k : Nat} (h : refsBelow n k = true) :
    (∀ r, some r ∈ n.inputs → r.node < k) ∧ (∀ g ∈ n.subs, ∀ r ∈ g.results, r.node < k) := by
  simp only [refsBelow, Bool.and_eq_true, List.all_eq_true] at h
  obtain ⟨h1, h2⟩ := h
  constructor
  · intro r hr
    have := h1 (some r) hr
    simpa using this
  · intro g hg r hr
    have := h2 g hg r hr
    simpa using this

/-- The executable check implies `WF`. -/
theorem wfCheck_sound : (prog : List PNode) → wfCheck prog = true → WF prog
  | [], _ => by intro k n hk; simp [nodeAt] at hk
  | m :: older, h => by
    simp only [wfCheck, Bool.and_eq_true] at h
    obtain ⟨hm, ho⟩ := h
    have ih := wfCheck_sound older ho
    intro k n hk
    simp only [nodeAt] at hk
    split at hk
    · rename_i hkeq
      cases hk
      subst hkeq
      exact refsBelow_spec hm
    · exact ih k n hk

/-! ## The soundness invariant -/

/-- `b'` agrees with `b` on the visible arguments. -/
def Agree (prog : List PNode) (vis : List Nat) (b' b : Nat → Val) : Prop :=
  ∀ a ∈ vis, isArg prog a = true → b' a = b a

/-- Every visible id holds, in the environment, its direct denotation — under *every* binding that
    agrees with the current one on the visible arguments (a visible value depends on nothing else). -/
def EnvOK (S : Sem Val) (prog : List PNode) (env : Env Val) (vis : List Nat) (b : Nat → Val) : Prop :=
  ∀ id ∈ vis, ∀ b', Agree prog vis b' b → env id = some (valAt (table S prog b') id)

omit [Inhabited Val] in
theorem Agree.refl (prog : List PNode) (vis : List Nat) (b : Nat → Val) : Agree prog vis b b :=
  fun _ _ _ => rfl

theorem updArgs_mem (b1 b2 : Nat → Val) (args : List Nat) (vals : List Val) (i : Nat)
    (h : i ∈ args) : updArgs b1 args vals i = updArgs b2 args vals i := by
  induction args generalizing vals with
  | nil => cases h
  | cons a as ih =>
    simp only [updArgs]
    by_cases hi : i = a
    · simp [hi]
    · simp only [if_neg hi]
      cases h with
      | head => exact absurd rfl hi
      | tail _ h' => exact ih _ h'

theorem updArgs_not_mem (b : Nat → Val) (args : List Nat) (vals : List Val) (i : Nat)
    (h : i ∉ args) : updArgs b args vals i = b i := by
  induction args generalizing vals with
  | nil => rfl
  | cons a as ih =>
    simp only [updArgs]
    have hi : i ≠ a := fun e => h (e ▸ List.mem_cons_self)
    rw [if_neg hi]
    exact ih _ (fun h' => h (List.mem_cons_of_mem _ h'))

theorem bindArgs_mem (env : Env Val) (b : Nat → Val) (args : List Nat) (vals : List Val) (i : Nat)
    (h : i ∈ args) : bindArgs env args vals i = some [updArgs b args vals i] := by
  induction args generalizing vals with
  | nil => cases h
  | cons a as ih =>
    simp only [bindArgs, updArgs]
    by_cases hi : i = a
    · simp [hi]
    · simp only [if_neg hi]
      cases h with
      | head => exact absurd rfl hi
      | tail _ h' => exact ih _ h'

theorem bindArgs_not_mem (env : Env Val) (args : List Nat) (vals : List Val) (i : Nat)
    (h : i ∉ args) : bindArgs env args vals i = env i := by
  induction args generalizing vals with
  | nil => rfl
  | cons a as ih =>
    simp only [bindArgs]
    have hi : i ≠ a := fun e => h (e ▸ List.mem_cons_self)
    rw [if_neg hi]
    exact ih _ (fun h' => h (List.mem_cons_of_mem _ h'))

theorem isArg_label {prog : List PNode} {a : Nat} (h : isArg prog a = true) :
    ∃ pn, nodeAt prog a = some pn ∧ pn.kind.label? = none := by
  unfold isArg at h
  split at h
  · rename_i pn hpn
    refine ⟨pn, hpn, ?_⟩
    have : pn.kind = Kind.arg := by simpa using h
    rw [this]; rfl
  · cases h

theorem valAt_arg (S : Sem Val) (prog : List PNode) (hwf : WF prog) (b : Nat → Val) (a : Nat)
    (h : isArg prog a = true) : valAt (table S prog b) a = [b a] := by
  obtain ⟨pn, hpn, hl⟩ := isArg_label h
  rw [table_unfold S prog hwf b a pn hpn]
  unfold nodeVal
  rw [hl]

/-- Entering a body: the outer environment extended with the formal arguments is OK for the
    extended binding. -/
theorem EnvOK_enter (S : Sem Val) (prog : List PNode) (hwf : WF prog) (env : Env Val)
    (vis : List Nat) (b : Nat → Val) (args : List Nat) (vals : List Val)
    (hfresh : ∀ a ∈ args, a ∉ vis ∧ isArg prog a = true)
    (h : EnvOK S prog env vis b) :
    EnvOK S prog (bindArgs env args vals) (args ++ vis) (updArgs b args vals) := by
  intro id hid b' hag
  by_cases hmem : id ∈ args
  · rw [bindArgs_mem env b args vals id hmem]
    have harg := (hfresh id hmem).2
    rw [valAt_arg S prog hwf b' id harg]
    rw [hag id hid harg]
  · rw [bindArgs_not_mem env args vals id hmem]
    have hvis : id ∈ vis := by
      rcases List.mem_append.mp hid with h1 | h1
      · exact absurd h1 hmem
      · exact h1
    apply h id hvis b'
    intro a ha harg
    rw [hag a (List.mem_append.mpr (Or.inr ha)) harg]
    apply updArgs_not_mem
    intro hin
    exact (hfresh a hin).1 ha

theorem mapM_getVar (S : Sem Val) (prog : List PNode) (env : Env Val) (vis : List Nat)
    (b : Nat → Val) (h : EnvOK S prog env vis b) (rs : List VarRef)
    (hrs : ∀ r ∈ rs, r.node ∈ vis) (b' : Nat → Val) (hag : Agree prog vis b' b) :
    rs.mapM env.getVar = some (rs.map (getVar (table S prog b'))) := by
  induction rs with
  | nil => rfl
  | cons r rs ih =>
    have hr := h r.node (hrs r List.mem_cons_self) b' hag
    have ih' := ih (fun r' hr' => hrs r' (List.mem_cons_of_mem _ hr'))
    simp only [List.mapM_cons, List.map_cons, ih']
    simp [Env.getVar, hr, getVar]

theorem mapM_getOpt (S : Sem Val) (prog : List PNode) (env : Env Val) (vis : List Nat)
    (b : Nat → Val) (h : EnvOK S prog env vis b) (os : List (Option VarRef))
    (hos : ∀ r, some r ∈ os → r.node ∈ vis) (b' : Nat → Val) (hag : Agree prog vis b' b) :
    os.mapM env.getOpt = some (os.map (getOpt (table S prog b'))) := by
  induction os with
  | nil => rfl
  | cons o os ih =>
    have ih' := ih (fun r' hr' => hos r' (List.mem_cons_of_mem _ hr'))
    simp only [List.mapM_cons, List.map_cons, ih']
    cases o with
    | none => simp [Env.getOpt, getOpt]
    | some r =>
      have hr := h r.node (hos r List.mem_cons_self) b' hag
      simp [Env.getOpt, Env.getVar, hr, getOpt, getVar]

theorem isArg_false_of_label {prog : List PNode} {id : Nat} {pn : PNode} {l : Nat}
    (h : nodeAt prog id = some pn) (hk : pn.kind.label? = some l) : isArg prog id = false := by
  simp only [isArg, h]
  cases hkind : pn.kind with
  | arg => rw [hkind] at hk; simp [Kind.label?] at hk
  | init _ => rfl
  | op _ => rfl

theorem EnvOK_step (S : Sem Val) (prog : List PNode) (hwf : WF prog) (env : Env Val)
    (vis : List Nat) (b : Nat → Val) (id : Nat) (pn : PNode) (l : Nat)
    (hpn : nodeAt prog id = some pn) (hk : pn.kind.label? = some l)
    (ins : List (Option Val)) (subs : List (List Val → List Val))
    (hins : ∀ b', Agree prog vis b' b → ins = pn.inputs.map (getOpt (table S prog b')))
    (hsubs : ∀ b', Agree prog vis b' b → subs =
      pn.subs.map (fun g => fun vals =>
        g.results.map (getVar (table S prog (updArgs b' g.args vals)))))
    (h : EnvOK S prog env vis b) :
    EnvOK S prog (env.set id (S.op l ins subs)) (id :: vis) b := by
  intro id' hid' b' hag
  have hag' : Agree prog vis b' b := fun a ha harg => hag a (List.mem_cons_of_mem _ ha) harg
  by_cases he : id' = id
  · subst he
    simp only [Env.set, if_true]
    rw [table_unfold S prog hwf b' id' pn hpn]
    unfold nodeVal
    rw [hk]
    simp only
    rw [hins b' hag', hsubs b' hag']
  · simp only [Env.set, if_neg he]
    have : id' ∈ vis := by
      cases hid' with
      | head => exact absurd rfl he
      | tail _ h' => exact h'
    exact h id' this b' hag'

theorem inputsVisible_spec {ins : List (Option VarRef)} {vis : List Nat}
    (h : inputsVisible ins vis = true) : ∀ r, some r ∈ ins → r.node ∈ vis := by
  intro r hr
  simp only [inputsVisible, List.all_eq_true] at h
  have := h (some r) hr
  simpa using this

mutual
theorem bodyOK (S : Sem Val) (prog : List PNode) (hwf : WF prog) :
    (body : List ENode) → (env : Env Val) → (vis vis' : List Nat) → (b : Nat → Val) →
    validBody prog body vis = some vis' → EnvOK S prog env vis b →
    ∃ env', evalBody S prog body env = some env' ∧ EnvOK S prog env' vis' b ∧
      (∀ x ∈ vis', x ∈ vis ∨ isArg prog x = false)
  | [], env, vis, vis', b, hv, henv => by
    simp only [validBody] at hv
    cases hv
    exact ⟨env, rfl, henv, fun x hx => Or.inl hx⟩
  | (.mk id subs) :: rest, env, vis, vis', b, hv, henv => by
    simp only [validBody] at hv
    split at hv
    · cases hv
    · rename_i pn hpn
      split at hv
      · cases hv
      · rename_i l hk
        split at hv
        · rename_i hcond
          simp only [Bool.and_eq_true] at hcond
          obtain ⟨hin, hsv⟩ := hcond
          have hin' := inputsVisible_spec hin
          have hins := mapM_getOpt S prog env vis b henv pn.inputs hin'
          have hsubs := subsOK S prog hwf subs pn.subs env vis b hsv henv
          have hstep := EnvOK_step S prog hwf env vis b id pn l hpn hk
            (pn.inputs.map (getOpt (table S prog b))) (evalSubs S prog subs env)
            (fun b' hag => by
              have h1 := hins b' hag
              have h2 := hins b (Agree.refl _ _ _)
              rw [h2] at h1
              exact Option.some.inj h1)
            (fun b' hag => hsubs b' hag) henv
          obtain ⟨env', he, hok, hsub⟩ := bodyOK S prog hwf rest _ (id :: vis) vis' b hv hstep
          refine ⟨env', ?_, hok, ?_⟩
          · simp only [evalBody, hpn, hk, hins b (Agree.refl _ _ _)]
            exact he
          · intro x hx
            rcases hsub x hx with h1 | h1
            · cases h1 with
              | head => exact Or.inr (isArg_false_of_label hpn hk)
              | tail _ h' => exact Or.inl h'
            · exact Or.inr h1
        · cases hv
theorem graphOK (S : Sem Val) (prog : List PNode) (hwf : WF prog) :
    (g : EGraph) → (pg : PGraph) → (env : Env Val) → (vis : List Nat) → (b : Nat → Val) →
    validG prog g pg vis = true → EnvOK S prog env vis b →
    ∀ b', Agree prog vis b' b → ∀ vals,
      evalG S prog g env vals
        = some (pg.results.map (getVar (table S prog (updArgs b' pg.args vals))))
  | .mk args body results, pg, env, vis, b, hv, henv => by
    intro b' hag vals
    simp only [validG, Bool.and_eq_true] at hv
    obtain ⟨⟨⟨hargs, hres⟩, hfresh⟩, hbody⟩ := hv
    have hargs' : args = pg.args := by simpa using hargs
    have hres' : results = pg.results := by simpa using hres
    subst hargs' hres'
    have hfresh' : ∀ a ∈ pg.args, a ∉ vis ∧ isArg prog a = true := by
      intro a ha
      have := List.all_eq_true.mp hfresh a ha
      simp only [Bool.and_eq_true, Bool.not_eq_true', List.contains_eq_mem,
        decide_eq_false_iff_not] at this
      exact this
    split at hbody
    · cases hbody
    · rename_i vis' hvb
      have henter := EnvOK_enter S prog hwf env vis b pg.args vals hfresh' henv
      obtain ⟨env1, he, hok, hsub⟩ :=
        bodyOK S prog hwf body _ (pg.args ++ vis) vis' _ hvb henter
      simp only [evalG, he]
      apply mapM_getVar S prog env1 vis' _ hok
      · intro r hr
        have := List.all_eq_true.mp hbody r hr
        simpa using this
      · intro a ha harg
        rcases hsub a ha with h1 | h1
        · rcases List.mem_append.mp h1 with h2 | h2
          · exact updArgs_mem _ _ _ _ _ h2
          · have hna : a ∉ pg.args := fun hin => (hfresh' a hin).1 h2
            rw [updArgs_not_mem _ _ _ _ hna, updArgs_not_mem _ _ _ _ hna]
            exact hag a h2 harg
        · rw [h1] at harg; cases harg
theorem subsOK (S : Sem Val) (prog : List PNode) (hwf : WF prog) :
    (gs : List EGraph) → (pgs : List PGraph) → (env : Env Val) → (vis : List Nat) →
    (b : Nat → Val) →
    validSubs prog gs pgs vis = true → EnvOK S prog env vis b →
    ∀ b', Agree prog vis b' b →
      evalSubs S prog gs env =
        pgs.map (fun g => fun vals =>
          g.results.map (getVar (table S prog (updArgs b' g.args vals))))
  | [], [], env, vis, b, hv, henv => by
    intro b' hag; rfl
  | g :: gs, pg :: pgs, env, vis, b, hv, henv => by
    intro b' hag
    simp only [validSubs, Bool.and_eq_true] at hv
    obtain ⟨hg, hgs⟩ := hv
    simp only [evalSubs, List.map_cons]
    congr 1
    · funext vals
      rw [graphOK S prog hwf g pg env vis b hg henv b' hag vals]
      rfl
    · exact subsOK S prog hwf gs pgs env vis b hgs henv b' hag
  | [], _ :: _, _, _, _, hv, _ => by simp [validSubs] at hv
  | _ :: _, [], _, _, _, hv, _ => by simp [validSubs] at hv
end

end Prog
