import SpoxModel.Model.VPFeed
import SpoxModel.Lemmas.ValueProp
/-! Round-trip lemmas for the feed conversions (C07). -/
namespace VP

theorem toRefs_eq_map (xs : List PropValue) : toRefs xs = xs.map fun x => x.value.toRef := by
  induction xs with
  | nil => rfl
  | cons x xs ih =>
    cases x with
    | mk t v => simp [toRefs, PropValue.toRef, PropValue.value, ih]

theorem PropValue.toRef_eq (x : PropValue) : x.toRef = x.value.toRef := by
  cases x; rfl

/-- Tensor level, REFERENCE: a checked array comes back with exactly the declared element type. -/
theorem leafRef_checked (e : DT) (s : Shape) (dt : DT) (sh : List Nat) (pid : Nat) (he : e.isElem = true)
    (h : checkRec (.tensor e s) (Payload.arr dt sh pid).normalise = true) :
    leafRef (.tensor e s) (.arr dt sh pid) = .ok (.mk (.tensor e s) (.arr e sh pid)) := by
  simp only [Payload.normalise, checkRec, checkTensor_eq, Bool.and_eq_true] at h
  have h2 := h.2
  revert h2 he
  cases dt <;> cases e <;> simp [leafRef, PropValue.new, Payload.normalise, DT.isNumber, DT.norm, dtMatch, DT.isElem]

/-- Tensor level, ONNXRUNTIME. -/
theorem leafOrt_checked (e : DT) (s : Shape) (dt : DT) (sh : List Nat) (pid : Nat) (he : e.isElem = true)
    (h : checkRec (.tensor e s) (Payload.arr dt sh pid).normalise = true) :
    leafOrt (.tensor e s) (.arr dt sh pid) = .ok (.mk (.tensor e s) (.arr e sh pid)) := by
  simp only [Payload.normalise, checkRec, checkTensor_eq, Bool.and_eq_true] at h
  have h2 := h.2
  revert h2 he
  cases dt <;> cases e <;> simp [leafOrt, PropValue.new, Payload.normalise, DT.isNumber, DT.norm, dtMatch, DT.isElem]

theorem mapM_roundtrip (f : RefVal → Except Exc PropValue) (t : Ty) (xs : List PropValue)
    (h : ∀ x ∈ xs, f x.value.toRef = .ok (.mk t (retype t x.value))) :
    (toRefs xs).mapM f = .ok (xs.map fun x => .mk t (retype t x.value)) := by
  induction xs with
  | nil => rfl
  | cons x xs ih =>
    have hx := h x (List.mem_cons_self ..)
    have ih' := ih fun y hy => h y (List.mem_cons_of_mem _ hy)
    simp only [toRefs, PropValue.toRef_eq, List.mapM_cons, hx, ih', List.map_cons]
    rfl

end VP

namespace VP

theorem new_value_normalise (t : Ty) (v : Payload) : (PropValue.new t v).value = v.normalise := rfl

theorem fromRef_opt_arr (t : Ty) (dt : DT) (sh : List Nat) (pid : Nat) :
    fromRef (.opt t) (.list [.arr dt sh pid]) =
      (fromRef t (.arr dt sh pid)).bind fun inner => .ok (PropValue.new (.opt t) (.some inner)) := by
  simp only [fromRef, unwrap1]
  rfl

theorem fromRef_opt_list (t : Ty) (zs : List RefVal) :
    fromRef (.opt t) (.list [.list zs]) =
      (fromRef t (.list zs)).bind fun inner => .ok (PropValue.new (.opt t) (.some inner)) := by
  simp only [fromRef, unwrap1]
  rfl

/-- **REFERENCE round trip**, every nesting depth: a checked value, sent to the reference representation and
    converted back under the same type, is `retype t p`. -/
theorem fromRef_toRef : ∀ (t : Ty) (p : Payload), t.refOk = true → checkRec t p.normalise = true →
    fromRef t p.toRef = .ok (.mk t (retype t p))
  | .tensor e s, .arr dt sh pid, hw, h => by
    simp only [Payload.toRef, fromRef, unwrap1, retype]
    exact leafRef_checked e s dt sh pid (by simpa [Ty.refOk] using hw) h
  | .tensor _ _, .list _, _, h => by simp [Payload.normalise, checkRec] at h
  | .tensor _ _, .some _, _, h => by simp [Payload.normalise, checkRec] at h
  | .tensor _ _, .none, _, h => by simp [Payload.normalise, checkRec] at h
  | .seq t, .list xs, hw, h => by
    simp only [Payload.normalise, checkRec, List.all_eq_true, Bool.and_eq_true] at h
    have hw' : t.refOk = true := by simpa [Ty.refOk] using hw
    have hm := mapM_roundtrip (fromRef t) t xs
      (fun x hx => fromRef_toRef t x.value hw' (by simpa [new_value_normalise] using (h x hx).2))
    simp only [Payload.toRef, fromRef, hm, retype]
    rfl
  | .seq _, .arr _ _ _, _, h => by simp [Payload.normalise, checkRec] at h
  | .seq _, .some _, _, h => by simp [Payload.normalise, checkRec] at h
  | .seq _, .none, _, h => by simp [Payload.normalise, checkRec] at h
  | .opt t, .none, _, _ => by
    simp [Payload.toRef, fromRef, unwrap1, retype, PropValue.new, Payload.normalise]
  | .opt t, .some x, hw, h => by
    simp only [Payload.normalise, checkRec, new_value_normalise] at h
    have ih := fun hw' => fromRef_toRef t x.value hw' h
    cases t with
    | opt t' => simp [Ty.refOk] at hw
    | tensor e s =>
      have ih' := ih (by simpa [Ty.refOk] using hw)
      cases hx : x.value with
      | arr dt sh pid =>
        rw [hx] at ih'
        simp only [Payload.toRef] at ih'
        simp only [Payload.toRef, PropValue.toRef_eq, hx]
        rw [fromRef_opt_arr, ih']
        simp [Except.bind, retype, hx, PropValue.new, Payload.normalise]
      | list _ => rw [hx] at h; simp [checkRec] at h
      | some _ => rw [hx] at h; simp [checkRec] at h
      | none => rw [hx] at h; simp [checkRec] at h
    | seq t' =>
      have ih' := ih (by simpa [Ty.refOk] using hw)
      cases hx : x.value with
      | list ys =>
        rw [hx] at ih'
        simp only [Payload.toRef] at ih'
        simp only [Payload.toRef, PropValue.toRef_eq, hx]
        rw [fromRef_opt_list, ih']
        simp [Except.bind, retype, hx, PropValue.new, Payload.normalise]
      | arr _ _ _ => rw [hx] at h; simp [checkRec] at h
      | some _ => rw [hx] at h; simp [checkRec] at h
      | none => rw [hx] at h; simp [checkRec] at h
  | .opt _, .arr _ _ _, _, h => by simp [Payload.normalise, checkRec] at h
  | .opt _, .list _, _, h => by simp [Payload.normalise, checkRec] at h

end VP

namespace VP

/-- ONNXRUNTIME conversion of a `to_ref_value` image, Optional-free types (what sits below the top level). -/
theorem fromOrt_toRef : ∀ (t : Ty) (p : Payload), t.optFree = true → checkRec t p.normalise = true →
    fromOrt t p.toRef = .ok (.mk t (retype t p))
  | .tensor e s, .arr dt sh pid, hw, h => by
    simp only [Payload.toRef, fromOrt, retype]
    exact leafOrt_checked e s dt sh pid (by simpa [Ty.optFree] using hw) h
  | .tensor _ _, .list _, _, h => by simp [Payload.normalise, checkRec] at h
  | .tensor _ _, .some _, _, h => by simp [Payload.normalise, checkRec] at h
  | .tensor _ _, .none, _, h => by simp [Payload.normalise, checkRec] at h
  | .seq t, .list xs, hw, h => by
    simp only [Payload.normalise, checkRec, List.all_eq_true, Bool.and_eq_true] at h
    have hw' : t.optFree = true := by simpa [Ty.optFree] using hw
    have hm := mapM_roundtrip (fromOrt t) t xs
      (fun x hx => fromOrt_toRef t x.value hw' (by simpa [new_value_normalise] using (h x hx).2))
    simp only [Payload.toRef, fromOrt, hm, retype]
    rfl
  | .seq _, .arr _ _ _, _, h => by simp [Payload.normalise, checkRec] at h
  | .seq _, .some _, _, h => by simp [Payload.normalise, checkRec] at h
  | .seq _, .none, _, h => by simp [Payload.normalise, checkRec] at h
  | .opt _, _, hw, _ => by simp [Ty.optFree] at hw

theorem fromOrt_opt_arr (t : Ty) (dt : DT) (sh : List Nat) (pid : Nat) :
    fromOrt (.opt t) (.arr dt sh pid) =
      (fromOrt t (.arr dt sh pid)).bind fun inner => .ok (PropValue.new (.opt t) (.some inner)) := by
  simp only [fromOrt]
  rfl

theorem fromOrt_opt_list (t : Ty) (zs : List RefVal) :
    fromOrt (.opt t) (.list zs) =
      (fromOrt t (.list zs)).bind fun inner => .ok (PropValue.new (.opt t) (.some inner)) := by
  simp only [fromOrt]
  rfl

theorem toOrt_eq_toRef_of_not_some (p : Payload) (h : ∀ x, p ≠ .some x) : p.toOrt = p.toRef := by
  cases p with
  | some x => exact absurd rfl (h x)
  | arr _ _ _ => rfl
  | list _ => rfl
  | none => rfl

/-- **ONNXRUNTIME round trip**: Optional at most at the top level. -/
theorem fromOrt_toOrt (t : Ty) (p : Payload) (hw : t.ortOk = true) (h : checkRec t p.normalise = true) :
    fromOrt t p.toOrt = .ok (.mk t (retype t p)) := by
  cases t with
  | tensor e s =>
    rw [toOrt_eq_toRef_of_not_some p (by intro x hx; subst hx; simp [Payload.normalise, checkRec] at h)]
    exact fromOrt_toRef _ p (by simpa [Ty.ortOk] using hw) h
  | seq t' =>
    rw [toOrt_eq_toRef_of_not_some p (by intro x hx; subst hx; simp [Payload.normalise, checkRec] at h)]
    exact fromOrt_toRef _ p (by simpa [Ty.ortOk] using hw) h
  | opt t' =>
    have hw' : t'.optFree = true := by simpa [Ty.ortOk] using hw
    cases p with
    | none => simp [Payload.toOrt, fromOrt, retype, PropValue.new, Payload.normalise]
    | arr _ _ _ => simp [Payload.normalise, checkRec] at h
    | list _ => simp [Payload.normalise, checkRec] at h
    | some x =>
      simp only [Payload.normalise, checkRec, new_value_normalise] at h
      have ih := fromOrt_toRef t' x.value hw' h
      simp only [Payload.toOrt, PropValue.toRef_eq]
      cases t' with
      | opt _ => simp [Ty.optFree] at hw'
      | tensor e s =>
        cases hx : x.value with
        | arr dt sh pid =>
          rw [hx] at ih
          simp only [Payload.toRef] at ih
          simp only [Payload.toRef]
          rw [fromOrt_opt_arr, ih]
          simp [Except.bind, retype, hx, PropValue.new, Payload.normalise]
        | list _ => rw [hx] at h; simp [checkRec] at h
        | some _ => rw [hx] at h; simp [checkRec] at h
        | none => rw [hx] at h; simp [checkRec] at h
      | seq t'' =>
        cases hx : x.value with
        | list ys =>
          rw [hx] at ih
          simp only [Payload.toRef] at ih
          simp only [Payload.toRef]
          rw [fromOrt_opt_list, ih]
          simp [Except.bind, retype, hx, PropValue.new, Payload.normalise]
        | arr _ _ _ => rw [hx] at h; simp [checkRec] at h
        | some _ => rw [hx] at h; simp [checkRec] at h
        | none => rw [hx] at h; simp [checkRec] at h

end VP
