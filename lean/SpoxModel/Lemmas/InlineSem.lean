import SpoxModel.Lemmas.InlineRename
/-! Helper lemmas for C08: evaluation is invariant under a hygienic renaming (nested graphs
    included), frame properties, the initializer preamble, the pass-through nodes. -/
namespace Inline
section
variable {V : Type}

/-- hygiene of a renaming `ρ` on the names `S`, protecting the names `I` (the model's inputs, which
    may be mapped anywhere, even onto one another): every other name keeps a private image -/
structure Hyg (ρ : String → String) (S I : List String) : Prop where
  inj : ∀ a ∈ S, ∀ b ∈ S, a ∉ I → ρ a = ρ b → a = b
  empty : ρ "" = ""
  nonempty : ∀ a ∈ S, a ≠ "" → ρ a ≠ ""

/-- the inner environment is the outer one read through `ρ` -/
def Rel (ρ : String → String) (S : List String) (env env' : Env V) : Prop :=
  ∀ n ∈ S, env.get n = env'.get (ρ n)

def RelO (ρ : String → String) (S : List String) : Option (Env V) → Option (Env V) → Prop
  | some e, some e' => Rel ρ S e e'
  | none, none => True
  | _, _ => False

theorem rel_set {ρ : String → String} {S I : List String} (hy : Hyg ρ S I) {env env' : Env V}
    (hr : Rel ρ S env env') (x : String) (v : Option V) (hx : x ∈ S) (hxi : x ∉ I) :
    Rel ρ S (env.set x v) (env'.set (ρ x) v) := by
  intro n hn
  have hrn := hr n hn
  unfold Env.get Env.set at *
  by_cases hx0 : x = ""
  · subst hx0
    simp only [hy.empty, if_true]
    exact hrn
  · have hρx : ρ x ≠ "" := hy.nonempty x hx hx0
    simp only [hx0, hρx, if_false]
    by_cases hn0 : n = ""
    · subst hn0; simp [hy.empty]
    · have hρn : ρ n ≠ "" := hy.nonempty n hn hn0
      simp only [hn0, hρn, if_false] at hrn ⊢
      by_cases hnx : n = x
      · subst hnx; simp
      · have : ρ n ≠ ρ x := fun e => hnx (hy.inj x hx n hn hxi e.symm).symm
        simp only [hnx, this, if_false]
        exact hrn

theorem rel_setMany {ρ : String → String} {S I : List String} (hy : Hyg ρ S I)
    (xs : List String) (vs : List (Option V)) {env env' : Env V}
    (hr : Rel ρ S env env') (hx : ∀ x ∈ xs, x ∈ S) (hxi : ∀ x ∈ xs, x ∉ I) :
    Rel ρ S (env.setMany xs vs) (env'.setMany (xs.map ρ) vs) := by
  induction xs generalizing vs env env' with
  | nil => cases vs <;> simpa [Env.setMany] using hr
  | cons x xs ih =>
    cases vs with
    | nil => simpa [Env.setMany] using hr
    | cons v vs =>
      simp only [Env.setMany, List.map_cons]
      exact ih vs (rel_set hy hr x v (hx x (List.mem_cons_self ..)) (hxi x (List.mem_cons_self ..)))
        (fun y hy' => hx y (List.mem_cons_of_mem _ hy')) (fun y hy' => hxi y (List.mem_cons_of_mem _ hy'))

theorem contains_map_iff {ρ : String → String} {S I : List String} (hy : Hyg ρ S I)
    (inputs : List String) (hx : ∀ x ∈ inputs, x ∈ S) (hxi : ∀ x ∈ inputs, x ∉ I)
    (a : String) (ha : a ∈ S) : (inputs.map ρ).contains (ρ a) = inputs.contains a := by
  by_cases h : a ∈ inputs
  · have : ρ a ∈ inputs.map ρ := List.mem_map.mpr ⟨a, h, rfl⟩
    simp [h, this]
  · have : ρ a ∉ inputs.map ρ := by
      intro hm
      obtain ⟨q, hq, he⟩ := List.mem_map.mp hm
      exact h (hy.inj q (hx q hq) a ha (hxi q hq) he ▸ hq)
    simp [h, this]

theorem rel_bindInits {ρ : String → String} {S I : List String} (hy : Hyg ρ S I) (lit : Lit → V)
    (inputs : List String) (hx : ∀ x ∈ inputs, x ∈ S) (hxi : ∀ x ∈ inputs, x ∉ I)
    (inits : List (String × Lit)) {env env' : Env V} (hr : Rel ρ S env env')
    (hs : ∀ p ∈ inits, p.1 ∈ S) (hi : ∀ p ∈ inits, p.1 ∉ I) :
    Rel ρ S (Env.bindInits lit env (inits.filter fun p => !inputs.contains p.1))
      (Env.bindInits lit env' ((inits.map fun p => (ρ p.1, p.2)).filter
        fun p => !(inputs.map ρ).contains p.1)) := by
  induction inits generalizing env env' with
  | nil => simpa [Env.bindInits] using hr
  | cons p ps ih =>
    have hp := hs p (List.mem_cons_self ..)
    have hc := contains_map_iff hy inputs hx hxi p.1 hp
    simp only [List.filter_cons, List.map_cons, hc]
    have hs' : ∀ q ∈ ps, q.1 ∈ S := fun q hq => hs q (List.mem_cons_of_mem _ hq)
    have hi' : ∀ q ∈ ps, q.1 ∉ I := fun q hq => hi q (List.mem_cons_of_mem _ hq)
    by_cases hin : inputs.contains p.1 = true
    · simp only [hin, Bool.not_true, Bool.false_eq_true, if_false]
      exact ih hr hs' hi'
    · have hin' : inputs.contains p.1 = false := by simpa using hin
      simp only [hin', Bool.not_false, if_true, Env.bindInits]
      exact ih (rel_set hy hr p.1 _ hp (hi p (List.mem_cons_self ..))) hs' hi'

theorem map_get_eq {ρ : String → String} {S : List String} {env env' : Env V}
    (hr : Rel ρ S env env') (xs : List String) (hx : ∀ x ∈ xs, x ∈ S) :
    xs.map env.get = (xs.map ρ).map env'.get := by
  induction xs with
  | nil => rfl
  | cons x xs ih =>
    simp only [List.map_cons]
    rw [hr x (hx x (List.mem_cons_self ..)), ih (fun y hy => hx y (List.mem_cons_of_mem _ hy))]

mutual
/-- evaluation of a node commutes with a hygienic renaming -/
theorem evalNode_rename (sem : OpSem V) (lit : Lit → V) (ρ ν : String → String) (S I : List String)
    (hy : Hyg ρ S I) : (n : Node) → (env env' : Env V) →
    (∀ x ∈ n.valueReqs, x ∈ S) → (∀ x ∈ n.assigned, x ∉ I) → Rel ρ S env env' →
    RelO ρ S (evalNode sem lit n env) (evalNode sem lit (n.rename ρ ν) env')
  | .mk name op ins outs subs, env, env', hS, hA, hR => by
    simp only [Node.valueReqs, List.mem_append] at hS
    simp only [Node.assigned, List.mem_append] at hA
    have hb := evalBodies_rename sem lit ρ ν S I hy subs env env'
      (fun x hx => hS x (Or.inr hx)) (fun x hx => hA x (Or.inr hx)) hR
    have hi := map_get_eq hR ins (fun x hx => hS x (Or.inl (Or.inl hx)))
    simp only [evalNode, Node.rename]
    rw [← hb, ← hi]
    cases hsem : sem op (ins.map env.get) (evalBodies sem lit subs env) with
    | none => simp [RelO]
    | some vs =>
      simp only [RelO]
      exact rel_setMany hy outs vs hR (fun x hx => hS x (Or.inl (Or.inr hx)))
        (fun x hx => hA x (Or.inl hx))
theorem evalNodes_rename (sem : OpSem V) (lit : Lit → V) (ρ ν : String → String) (S I : List String)
    (hy : Hyg ρ S I) : (ns : List Node) → (env env' : Env V) →
    (∀ x ∈ Node.valueReqsL ns, x ∈ S) → (∀ x ∈ Node.assignedL ns, x ∉ I) → Rel ρ S env env' →
    RelO ρ S (evalNodes sem lit ns env) (evalNodes sem lit (Node.renameL ρ ν ns) env')
  | [], env, env', _, _, hR => by simpa [evalNodes, Node.renameL, RelO] using hR
  | n :: ns, env, env', hS, hA, hR => by
    simp only [Node.valueReqsL, List.mem_append] at hS
    simp only [Node.assignedL, List.mem_append] at hA
    have h1 := evalNode_rename sem lit ρ ν S I hy n env env'
      (fun x hx => hS x (Or.inl hx)) (fun x hx => hA x (Or.inl hx)) hR
    simp only [evalNodes, Node.renameL]
    cases he : evalNode sem lit n env with
    | none =>
      cases he' : evalNode sem lit (n.rename ρ ν) env' with
      | none => simp [RelO]
      | some e' => simp [he, he', RelO] at h1
    | some e =>
      cases he' : evalNode sem lit (n.rename ρ ν) env' with
      | none => simp [he, he', RelO] at h1
      | some e' =>
        simp only [he, he', RelO] at h1
        exact evalNodes_rename sem lit ρ ν S I hy ns e e'
          (fun x hx => hS x (Or.inr hx)) (fun x hx => hA x (Or.inr hx)) h1
/-- a (sub)graph denotes the same function of its actual inputs after a hygienic renaming, when the
    environments of outer values correspond -/
theorem evalGraph_rename (sem : OpSem V) (lit : Lit → V) (ρ ν : String → String) (S I : List String)
    (hy : Hyg ρ S I) : (g : Graph) → (env env' : Env V) → (args : List (Option V)) →
    (∀ x ∈ g.valueReqs, x ∈ S) → (∀ x ∈ g.assigned, x ∉ I) → Rel ρ S env env' →
    evalGraph sem lit g env args = evalGraph sem lit (g.rename ρ ν) env' args
  | .mk inputs inits nodes outputs vi, env, env', args, hS, hA, hR => by
    simp only [Graph.valueReqs, List.mem_append, List.mem_map] at hS
    simp only [Graph.assigned, List.mem_append, List.mem_map] at hA
    have hin : ∀ x ∈ inputs, x ∈ S := fun x hx => hS x (Or.inl (Or.inl (Or.inl (Or.inl hx))))
    have hinI : ∀ x ∈ inputs, x ∉ I := fun x hx => hA x (Or.inl (Or.inl hx))
    have h0 := rel_setMany hy inputs args hR hin hinI
    have h1 := rel_bindInits hy lit inputs hin hinI inits h0
      (fun p hp => hS p.1 (Or.inl (Or.inl (Or.inl (Or.inr ⟨p, hp, rfl⟩)))))
      (fun p hp => hA p.1 (Or.inl (Or.inr ⟨p, hp, rfl⟩)))
    have h2 := evalNodes_rename sem lit ρ ν S I hy nodes _ _
      (fun x hx => hS x (Or.inl (Or.inl (Or.inr hx)))) (fun x hx => hA x (Or.inr hx)) h1
    simp only [evalGraph, Graph.rename]
    cases he : evalNodes sem lit nodes (Env.bindInits lit (env.setMany inputs args)
        (inits.filter fun p => !inputs.contains p.1)) with
    | none =>
      rw [he] at h2
      cases he' : evalNodes sem lit (Node.renameL ρ ν nodes) (Env.bindInits lit
          (env'.setMany (inputs.map ρ) args)
          ((inits.map fun p => (ρ p.1, p.2)).filter fun p => !(inputs.map ρ).contains p.1)) with
      | none => rfl
      | some e' => rw [he'] at h2; simp [RelO] at h2
    | some e =>
      rw [he] at h2
      cases he' : evalNodes sem lit (Node.renameL ρ ν nodes) (Env.bindInits lit
          (env'.setMany (inputs.map ρ) args)
          ((inits.map fun p => (ρ p.1, p.2)).filter fun p => !(inputs.map ρ).contains p.1)) with
      | none => rw [he'] at h2; simp [RelO] at h2
      | some e' =>
        rw [he'] at h2
        simp only [RelO] at h2
        simp only [Option.some.injEq]
        exact map_get_eq h2 outputs (fun x hx => hS x (Or.inl (Or.inr hx)))
theorem evalBodies_rename (sem : OpSem V) (lit : Lit → V) (ρ ν : String → String) (S I : List String)
    (hy : Hyg ρ S I) : (gs : List Graph) → (env env' : Env V) →
    (∀ x ∈ Graph.valueReqsL gs, x ∈ S) → (∀ x ∈ Graph.assignedL gs, x ∉ I) → Rel ρ S env env' →
    evalBodies sem lit gs env = evalBodies sem lit (Graph.renameL ρ ν gs) env'
  | [], _, _, _, _, _ => by simp [evalBodies, Graph.renameL]
  | g :: gs, env, env', hS, hA, hR => by
    simp only [Graph.valueReqsL, List.mem_append] at hS
    simp only [Graph.assignedL, List.mem_append] at hA
    simp only [evalBodies, Graph.renameL]
    congr 1
    · funext args
      exact evalGraph_rename sem lit ρ ν S I hy g env env' args
        (fun x hx => hS x (Or.inl hx)) (fun x hx => hA x (Or.inl hx)) hR
    · exact evalBodies_rename sem lit ρ ν S I hy gs env env'
        (fun x hx => hS x (Or.inr hx)) (fun x hx => hA x (Or.inr hx)) hR
end

end
end Inline
