import SpoxModel.Model.IfInfer
import SpoxModel.Lemmas.MLShape
/-! Helper lemmas for C06 (round 10): the join of two branch types (`If`) is an upper bound of both in
the `refines` preorder, and the least one. -/
namespace C06M

theorem refinesDim_joinDim_l (t e : Dim) : refinesDim (joinDim t e) t = true := by
  unfold joinDim refinesDim
  by_cases h : t = e <;> simp [h]

theorem refinesDim_joinDim_r (t e : Dim) : refinesDim (joinDim t e) e = true := by
  unfold joinDim refinesDim
  by_cases h : t = e <;> simp [h]

theorem joinDims_upper : ∀ (ts es js : List Dim), joinDims ts es = some js →
    js.length = ts.length ∧ js.length = es.length ∧
    (js.zip ts).all (fun p => refinesDim p.1 p.2) = true ∧
    (js.zip es).all (fun p => refinesDim p.1 p.2) = true
  | [], [], js, h => by
    simp only [joinDims, Option.some.injEq] at h
    subst h; simp
  | [], _ :: _, _, h => by simp [joinDims] at h
  | _ :: _, [], _, h => by simp [joinDims] at h
  | t :: ts, e :: es, js, h => by
    simp only [joinDims, Option.map_eq_some_iff] at h
    obtain ⟨js', h', rfl⟩ := h
    obtain ⟨h1, h2, h3, h4⟩ := joinDims_upper ts es js' h'
    simp only [List.length_cons, List.zip_cons_cons, List.all_cons, Bool.and_eq_true]
    exact ⟨by omega, by omega, ⟨refinesDim_joinDim_l t e, h3⟩, ⟨refinesDim_joinDim_r t e, h4⟩⟩

/-- Both branch types refine their join. -/
theorem joinTy_upper (t e j : Ty) (h : joinTy t e = some j) : refines t j = true ∧ refines e j = true := by
  unfold joinTy at h
  split at h
  · rename_i he
    simp only [Option.some.injEq] at h
    subst h
    rcases t with ⟨te, _ | ts⟩ <;> rcases e with ⟨ee, _ | es⟩ <;> simp only at he <;> subst he
    · simp [refines]
    · simp [refines]
    · simp [refines]
    · cases hj : joinDims ts es with
      | none => simp [refines, hj]
      | some js =>
        obtain ⟨h1, h2, h3, h4⟩ := joinDims_upper ts es js hj
        have h5 : es.length = ts.length := by omega
        simp [refines, hj, h1, h5, h3, h4]
  · simp at h

theorem joinDims_least : ∀ (us ts es : List Dim), ts.length = us.length → es.length = us.length →
    (us.zip ts).all (fun p => refinesDim p.1 p.2) = true →
    (us.zip es).all (fun p => refinesDim p.1 p.2) = true →
    ∃ js, joinDims ts es = some js ∧ js.length = us.length ∧
      (us.zip js).all (fun p => refinesDim p.1 p.2) = true
  | [], [], [], _, _, _, _ => ⟨[], rfl, rfl, rfl⟩
  | [], _ :: _, _, h, _, _, _ => by simp at h
  | [], [], _ :: _, _, h, _, _ => by simp at h
  | _ :: _, [], _, h, _, _, _ => by simp at h
  | _ :: _, _ :: _, [], _, h, _, _ => by simp at h
  | u :: us, t :: ts, e :: es, hl1, hl2, h1, h2 => by
    simp only [List.zip_cons_cons, List.all_cons, Bool.and_eq_true] at h1 h2
    obtain ⟨js, hj, hlen, hall⟩ := joinDims_least us ts es (by simpa using hl1) (by simpa using hl2) h1.2 h2.2
    refine ⟨joinDim t e :: js, by simp [joinDims, hj], by simp [hlen], ?_⟩
    simp only [List.zip_cons_cons, List.all_cons, Bool.and_eq_true]
    refine ⟨?_, hall⟩
    have a1 := h1.1
    have a2 := h2.1
    cases u with
    | const n =>
      simp only [refinesDim, Bool.or_false, beq_iff_eq] at a1 a2 ⊢
      subst a1; subst a2; simp [joinDim]
    | named s => simp [refinesDim]
    | anon => simp [refinesDim]

/-- ... and the join is the LEAST such type: whatever type `u` both branch types refine, the join refines. -/
theorem joinTy_least (t e u : Ty) (ht : refines t u = true) (he : refines e u = true) :
    ∃ j, joinTy t e = some j ∧ refines j u = true := by
  unfold refines at ht he
  split at ht
  · simp at ht
  · rename_i hte
    split at he
    · simp at he
    · rename_i hee
      simp only [ne_eq, Decidable.not_not] at hte hee
      have hteq : t.e = e.e := by rw [hte, hee]
      rcases u with ⟨ue, _ | us⟩
      · refine ⟨_, by simp only [joinTy, hteq, if_true]; rfl, ?_⟩
        simpa [refines] using hee
      · rcases t with ⟨te, _ | ts⟩
        · simp at ht
        · rcases e with ⟨ee, _ | es⟩
          · simp at he
          · simp only [Bool.and_eq_true, beq_iff_eq] at ht he
            obtain ⟨js, hj, hlen, hall⟩ := joinDims_least us ts es ht.1 he.1 ht.2 he.2
            simp only at hteq hte hee
            subst hteq
            refine ⟨⟨te, some js⟩, by simp [joinTy, hj], ?_⟩
            simp [refines, hte, hlen, hall]

theorem refinesDim_trans (c b a : Dim) (h1 : refinesDim c b = true) (h2 : refinesDim b a = true) :
    refinesDim c a = true := by
  cases c with
  | const n =>
    simp only [refinesDim, Bool.or_false, beq_iff_eq] at h1 ⊢
    subst h1
    simpa [refinesDim] using h2
  | named s => simp [refinesDim]
  | anon => simp [refinesDim]

theorem refinesDims_trans : ∀ (cs bs as : List Dim), bs.length = cs.length → as.length = bs.length →
    (cs.zip bs).all (fun p => refinesDim p.1 p.2) = true →
    (bs.zip as).all (fun p => refinesDim p.1 p.2) = true →
    (cs.zip as).all (fun p => refinesDim p.1 p.2) = true
  | [], _, _, _, _, _, _ => by simp
  | _ :: _, [], _, h, _, _, _ => by simp at h
  | _ :: _, _ :: _, [], _, h, _, _ => by simp at h
  | c :: cs, b :: bs, a :: as, hl1, hl2, h1, h2 => by
    simp only [List.zip_cons_cons, List.all_cons, Bool.and_eq_true] at h1 h2 ⊢
    exact ⟨refinesDim_trans c b a h1.1 h2.1,
      refinesDims_trans cs bs as (by simpa using hl1) (by simpa using hl2) h1.2 h2.2⟩

/-- `refines` is transitive. -/
theorem refines_trans (a b c : Ty) (h1 : refines a b = true) (h2 : refines b c = true) :
    refines a c = true := by
  unfold refines at h1 h2 ⊢
  split at h1
  · simp at h1
  · rename_i hab
    split at h2
    · simp at h2
    · rename_i hbc
      simp only [ne_eq, Decidable.not_not] at hab hbc
      have hac : a.e = c.e := by rw [hab, hbc]
      simp only [ne_eq, hac, not_true_eq_false, if_false]
      rcases c with ⟨ce, _ | cs⟩
      · rfl
      · rcases b with ⟨be, _ | bs⟩
        · simp at h2
        · rcases a with ⟨ae, _ | as⟩
          · simp at h1
          · simp only [Bool.and_eq_true, beq_iff_eq] at h1 h2 ⊢
            exact ⟨by omega, refinesDims_trans cs bs as h2.1 h1.1 h2.2 h1.2⟩

theorem allTyped_eq_map : ∀ {T : List ITy} {t : List Ty}, allTyped T = some t → T = t.map some
  | [], t, h => by simp only [allTyped, Option.some.injEq] at h; subst h; rfl
  | none :: _, _, h => by simp [allTyped] at h
  | some a :: r, t, h => by
    simp only [allTyped, Option.map_eq_some_iff] at h
    obtain ⟨t', h', rfl⟩ := h
    simp [allTyped_eq_map h']

theorem conforms_joinTy (v : RtVal) (t e j : Ty) (h : joinTy t e = some j) :
    (conforms v (some t) = true → conforms v (some j) = true) ∧
    (conforms v (some e) = true → conforms v (some j) = true) :=
  ⟨refines_sound v t j (joinTy_upper t e j h).1, refines_sound v e j (joinTy_upper t e j h).2⟩

theorem conformsAll_joinAll : ∀ (vs : List RtVal) (t e js : List Ty), joinAll t e = some js →
    (conformsAll vs (t.map some) = true → conformsAll vs (js.map some) = true) ∧
    (conformsAll vs (e.map some) = true → conformsAll vs (js.map some) = true)
  | vs, [], [], js, h => by
    simp only [joinAll, Option.some.injEq] at h
    subst h; simp
  | _, [], _ :: _, _, h => by simp [joinAll] at h
  | _, _ :: _, [], _, h => by simp [joinAll] at h
  | [], t :: ts, e :: es, js, _ => by simp [conformsAll]
  | v :: vs, t :: ts, e :: es, js, h => by
    simp only [joinAll] at h
    cases hj : joinTy t e with
    | none => simp [hj] at h
    | some j =>
      cases hjs : joinAll ts es with
      | none => simp [hj, hjs] at h
      | some js' =>
        simp only [hj, hjs, Option.some.injEq] at h
        subst h
        have ih := conformsAll_joinAll vs ts es js' hjs
        have hc := conforms_joinTy v t e j hj
        simp only [List.map_cons, conformsAll, Bool.and_eq_true]
        exact ⟨fun hh => ⟨hc.1 hh.1, ih.1 hh.2⟩, fun hh => ⟨hc.2 hh.1, ih.2 hh.2⟩⟩

theorem joinAll_length : ∀ (t e js : List Ty), joinAll t e = some js → js.length = t.length ∧ js.length = e.length
  | [], [], js, h => by
    simp only [joinAll, Option.some.injEq] at h
    subst h; simp
  | [], _ :: _, _, h => by simp [joinAll] at h
  | _ :: _, [], _, h => by simp [joinAll] at h
  | t :: ts, e :: es, js, h => by
    simp only [joinAll] at h
    cases hj : joinTy t e with
    | none => simp [hj] at h
    | some j =>
      cases hjs : joinAll ts es with
      | none => simp [hj, hjs] at h
      | some js' =>
        simp only [hj, hjs, Option.some.injEq] at h
        subst h
        have := joinAll_length ts es js' hjs
        simp [this.1, this.2.symm ▸ this.1]

end C06M
