import SpoxModel.Model.Front
import SpoxModel.Lemmas.Front
/-!
# Reachability specification of `Front.freeArgs` (C03)

`freeArgs` is computed by the `table` recursion (the model of `Builder.discover`). Here it is
related to a declarative reachability relation on the program: the arguments that survive with
`drop_unused_inputs=True` are exactly the Argument Vars some output depends on (through input edges
and subgraph results, to any depth) that are not formal arguments of a reached subgraph.
Core Lean only.
-/
namespace Front

/-- Every reference inside an object points to an older object (programs are newest-first;
    an object's id is the number of older objects). True of every Python program: a node is
    created after its inputs and after the Graph objects in its attributes. -/
def WF : List Obj → Prop
  | [] => True
  | o :: older =>
      (∀ d ∈ o.deps, d < older.length) ∧
      (∀ b ∈ o.subs, (∀ r ∈ b.results, r < older.length) ∧ (∀ f ∈ b.formals, f < older.length)) ∧
      WF older

/-- `Reach P v a`: Var `v` depends on Var `a` — through input edges and through the results of
    subgraph bodies, to any depth. -/
inductive Reach (P : List Obj) : Nat → Nat → Prop
  | refl (v : Nat) : Reach P v v
  | dep {v d a : Nat} {o : Obj} : getObj P v = some o → d ∈ o.deps → Reach P d a → Reach P v a
  | sub {v r a : Nat} {o : Obj} {b : Body} :
      getObj P v = some o → b ∈ o.subs → r ∈ b.results → Reach P r a → Reach P v a

/-- `a` is a formal argument of some subgraph body that `v` reaches. -/
def Bound (P : List Obj) (v a : Nat) : Prop :=
  ∃ w o b, Reach P v w ∧ getObj P w = some o ∧ b ∈ o.subs ∧ a ∈ b.formals

def ArgObj (P : List Obj) (a : Nat) : Prop := ∃ o, getObj P a = some o ∧ o.isArg = true

/-! ## indexing newest-first lists -/

theorem table_length (P : List Obj) : (table P).length = P.length := by
  induction P with
  | nil => rfl
  | cons o older ih => simp [table, ih]

theorem look_cons_lt (x : Info) (t : List Info) (v : Nat) (h : v < t.length) :
    look (x :: t) v = look t v := by
  unfold look
  have h1 : v < (x :: t).length := by simp only [List.length_cons]; omega
  have h2 : (x :: t).length - 1 - v = (t.length - 1 - v) + 1 := by
    simp only [List.length_cons]; omega
  rw [if_pos h1, if_pos h, h2]
  rfl

theorem look_cons_eq (x : Info) (t : List Info) : look (x :: t) t.length = x := by
  unfold look
  have h1 : t.length < (x :: t).length := by simp only [List.length_cons]; omega
  have h2 : (x :: t).length - 1 - t.length = 0 := by simp only [List.length_cons]; omega
  rw [if_pos h1, h2]
  rfl

theorem getObj_cons_lt (o : Obj) (older : List Obj) (v : Nat) (h : v < older.length) :
    getObj (o :: older) v = getObj older v := by
  unfold getObj
  have h1 : v < (o :: older).length := by simp only [List.length_cons]; omega
  have h2 : (o :: older).length - 1 - v = (older.length - 1 - v) + 1 := by
    simp only [List.length_cons]; omega
  rw [if_pos h1, if_pos h, h2]
  rfl

theorem getObj_cons_eq (o : Obj) (older : List Obj) : getObj (o :: older) older.length = some o := by
  unfold getObj
  have h1 : older.length < (o :: older).length := by simp only [List.length_cons]; omega
  have h2 : (o :: older).length - 1 - older.length = 0 := by simp only [List.length_cons]; omega
  rw [if_pos h1, h2]
  rfl

theorem getObj_lt {P : List Obj} {v : Nat} {o : Obj} (h : getObj P v = some o) : v < P.length := by
  unfold getObj at h
  split at h
  · assumption
  · cases h

theorem getObj_of_lt (P : List Obj) (v : Nat) (h : v < P.length) : ∃ o, getObj P v = some o := by
  unfold getObj
  rw [if_pos h]
  have : P.length - 1 - v < P.length := by omega
  exact ⟨P[P.length - 1 - v], List.getElem?_eq_getElem this⟩

/-! ## `table` at an object, under `WF` -/

/-- `objInfo` reads the table only at the object's references. -/
theorem objInfo_congr (t t' : List Info) (id : Nat) (o : Obj)
    (hd : ∀ d ∈ o.deps, look t d = look t' d)
    (hs : ∀ b ∈ o.subs, ∀ r ∈ b.results, look t r = look t' r) :
    objInfo t id o = objInfo t' id o := by
  have h1 : o.deps.map (look t) = o.deps.map (look t') := List.map_congr_left hd
  have h2 : o.subs.map (bodyInfo t) = o.subs.map (bodyInfo t') := by
    apply List.map_congr_left
    intro b hb
    have : b.results.map (look t) = b.results.map (look t') := List.map_congr_left (hs b hb)
    unfold bodyInfo
    rw [this]
  unfold objInfo
  rw [h1, h2]

/-- Under `WF` the references of the object with id `v` are smaller than `v`. -/
theorem getObj_refs {P : List Obj} (hwf : WF P) {v : Nat} {o : Obj} (h : getObj P v = some o) :
    (∀ d ∈ o.deps, d < v) ∧
    (∀ b ∈ o.subs, (∀ r ∈ b.results, r < v) ∧ (∀ f ∈ b.formals, f < v)) := by
  induction P with
  | nil => exact absurd (getObj_lt h) (by simp)
  | cons o' older ih =>
    have hlt := getObj_lt h
    simp only [List.length_cons] at hlt
    by_cases hv : v < older.length
    · rw [getObj_cons_lt _ _ _ hv] at h
      exact ih hwf.2.2 h
    · have hv' : v = older.length := by omega
      subst hv'
      rw [getObj_cons_eq] at h
      cases h
      exact ⟨hwf.1, hwf.2.1⟩

/-- Under `WF` the table entry of an object is `objInfo` of that object over the *whole* table. -/
theorem look_table {P : List Obj} (hwf : WF P) {v : Nat} {o : Obj} (h : getObj P v = some o) :
    look (table P) v = objInfo (table P) v o := by
  induction P with
  | nil => exact absurd (getObj_lt h) (by simp)
  | cons o' older ih =>
    have hlt := getObj_lt h
    simp only [List.length_cons] at hlt
    have hrefs := getObj_refs hwf h
    have hcongr : objInfo (table older) v o = objInfo (table (o' :: older)) v o := by
      apply objInfo_congr
      · intro d hd
        have : d < (table older).length := by rw [table_length]; have := hrefs.1 d hd; omega
        exact (look_cons_lt _ _ _ this).symm
      · intro b hb r hr
        have : r < (table older).length := by
          rw [table_length]; have := (hrefs.2 b hb).1 r hr; omega
        exact (look_cons_lt _ _ _ this).symm
    by_cases hv : v < older.length
    · rw [getObj_cons_lt _ _ _ hv] at h
      have hv' : v < (table older).length := by rw [table_length]; exact hv
      show look (objInfo (table older) older.length o' :: table older) v = _
      rw [look_cons_lt _ _ _ hv', ih hwf.2.2 h, hcongr]
    · have hv' : v = older.length := by omega
      subst hv'
      rw [getObj_cons_eq] at h
      cases h
      rw [← hcongr]
      show look (objInfo (table older) older.length o :: table older) older.length = _
      have := look_cons_eq (objInfo (table older) older.length o) (table older)
      rw [table_length] at this
      exact this

/-! ## membership in the collected sets -/

theorem mem_joinInfos_all (is : List Info) (a : Nat) :
    a ∈ (joinInfos is).all ↔ ∃ i ∈ is, a ∈ i.all := by
  simp [joinInfos, List.mem_flatMap]

theorem mem_joinInfos_claimed (is : List Info) (a : Nat) :
    a ∈ (joinInfos is).claimed ↔ ∃ i ∈ is, a ∈ i.claimed := by
  simp [joinInfos, List.mem_flatMap]

theorem mem_bodyInfo_all (t : List Info) (b : Body) (a : Nat) :
    a ∈ (bodyInfo t b).all ↔ (∃ r ∈ b.results, a ∈ (look t r).all) ∨ a ∈ b.formals := by
  show a ∈ (joinInfos (b.results.map (look t))).all ++ b.formals ↔ _
  rw [List.mem_append, mem_joinInfos_all]
  constructor
  · rintro (⟨i, hi, ha⟩ | ha)
    · obtain ⟨r, hr, rfl⟩ := List.mem_map.mp hi
      exact Or.inl ⟨r, hr, ha⟩
    · exact Or.inr ha
  · rintro (⟨r, hr, ha⟩ | ha)
    · exact Or.inl ⟨_, List.mem_map.mpr ⟨r, hr, rfl⟩, ha⟩
    · exact Or.inr ha

theorem mem_bodyInfo_claimed (t : List Info) (b : Body) (a : Nat) :
    a ∈ (bodyInfo t b).claimed ↔ (∃ r ∈ b.results, a ∈ (look t r).claimed) ∨ a ∈ b.formals := by
  show a ∈ (joinInfos (b.results.map (look t))).claimed ++ b.formals ↔ _
  rw [List.mem_append, mem_joinInfos_claimed]
  constructor
  · rintro (⟨i, hi, ha⟩ | ha)
    · obtain ⟨r, hr, rfl⟩ := List.mem_map.mp hi
      exact Or.inl ⟨r, hr, ha⟩
    · exact Or.inr ha
  · rintro (⟨r, hr, ha⟩ | ha)
    · exact Or.inl ⟨_, List.mem_map.mpr ⟨r, hr, rfl⟩, ha⟩
    · exact Or.inr ha

theorem mem_objInfo_all (t : List Info) (id : Nat) (o : Obj) (a : Nat) :
    a ∈ (objInfo t id o).all ↔
      (o.isArg = true ∧ a = id) ∨ (∃ d ∈ o.deps, a ∈ (look t d).all) ∨
      (∃ b ∈ o.subs, (∃ r ∈ b.results, a ∈ (look t r).all) ∨ a ∈ b.formals) := by
  have h0 : a ∈ (if o.isArg = true then [id] else []) ↔ (o.isArg = true ∧ a = id) := by
    by_cases h : o.isArg = true <;> simp [h]
  show a ∈ (if o.isArg = true then [id] else []) ++ (joinInfos (o.deps.map (look t))).all
      ++ (o.subs.map (bodyInfo t)).flatMap (·.all) ↔ _
  rw [List.mem_append, List.mem_append, h0, mem_joinInfos_all, List.mem_flatMap]
  constructor
  · rintro ((h | ⟨i, hi, ha⟩) | ⟨i, hi, ha⟩)
    · exact Or.inl h
    · obtain ⟨d, hd, rfl⟩ := List.mem_map.mp hi
      exact Or.inr (Or.inl ⟨d, hd, ha⟩)
    · obtain ⟨b, hb, rfl⟩ := List.mem_map.mp hi
      exact Or.inr (Or.inr ⟨b, hb, (mem_bodyInfo_all t b a).mp ha⟩)
  · rintro (h | ⟨d, hd, ha⟩ | ⟨b, hb, ha⟩)
    · exact Or.inl (Or.inl h)
    · exact Or.inl (Or.inr ⟨_, List.mem_map.mpr ⟨d, hd, rfl⟩, ha⟩)
    · exact Or.inr ⟨_, List.mem_map.mpr ⟨b, hb, rfl⟩, (mem_bodyInfo_all t b a).mpr ha⟩

theorem mem_objInfo_claimed (t : List Info) (id : Nat) (o : Obj) (a : Nat) :
    a ∈ (objInfo t id o).claimed ↔
      (∃ d ∈ o.deps, a ∈ (look t d).claimed) ∨
      (∃ b ∈ o.subs, (∃ r ∈ b.results, a ∈ (look t r).claimed) ∨ a ∈ b.formals) := by
  show a ∈ (joinInfos (o.deps.map (look t))).claimed
      ++ (o.subs.map (bodyInfo t)).flatMap (·.claimed) ↔ _
  rw [List.mem_append, mem_joinInfos_claimed, List.mem_flatMap]
  constructor
  · rintro (⟨i, hi, ha⟩ | ⟨i, hi, ha⟩)
    · obtain ⟨d, hd, rfl⟩ := List.mem_map.mp hi
      exact Or.inl ⟨d, hd, ha⟩
    · obtain ⟨b, hb, rfl⟩ := List.mem_map.mp hi
      exact Or.inr ⟨b, hb, (mem_bodyInfo_claimed t b a).mp ha⟩
  · rintro (⟨d, hd, ha⟩ | ⟨b, hb, ha⟩)
    · exact Or.inl ⟨_, List.mem_map.mpr ⟨d, hd, rfl⟩, ha⟩
    · exact Or.inr ⟨_, List.mem_map.mpr ⟨b, hb, rfl⟩, (mem_bodyInfo_claimed t b a).mpr ha⟩

/-! ## inversion of `Reach` and `Bound` at an object -/

theorem Reach.inv {P : List Obj} {v a : Nat} {o : Obj} (h : Reach P v a) (hg : getObj P v = some o) :
    a = v ∨ (∃ d ∈ o.deps, Reach P d a) ∨ (∃ b ∈ o.subs, ∃ r ∈ b.results, Reach P r a) := by
  cases h with
  | refl => exact Or.inl rfl
  | dep hg' hd hr =>
    rw [hg] at hg'; cases hg'
    exact Or.inr (Or.inl ⟨_, hd, hr⟩)
  | sub hg' hb hr hreach =>
    rw [hg] at hg'; cases hg'
    exact Or.inr (Or.inr ⟨_, hb, _, hr, hreach⟩)

theorem Bound.here {P : List Obj} {v a : Nat} {o : Obj} {b : Body} (hg : getObj P v = some o)
    (hb : b ∈ o.subs) (ha : a ∈ b.formals) : Bound P v a :=
  ⟨v, o, b, Reach.refl v, hg, hb, ha⟩

theorem Bound.dep {P : List Obj} {v d a : Nat} {o : Obj} (hg : getObj P v = some o)
    (hd : d ∈ o.deps) (h : Bound P d a) : Bound P v a := by
  obtain ⟨w, o', b, hr, hgw, hb, ha⟩ := h
  exact ⟨w, o', b, Reach.dep hg hd hr, hgw, hb, ha⟩

theorem Bound.sub {P : List Obj} {v r a : Nat} {o : Obj} {b : Body} (hg : getObj P v = some o)
    (hb : b ∈ o.subs) (hr : r ∈ b.results) (h : Bound P r a) : Bound P v a := by
  obtain ⟨w, o', b', hreach, hgw, hb', ha⟩ := h
  exact ⟨w, o', b', Reach.sub hg hb hr hreach, hgw, hb', ha⟩

theorem Bound.inv {P : List Obj} {v a : Nat} {o : Obj} (h : Bound P v a) (hg : getObj P v = some o) :
    (∃ b ∈ o.subs, a ∈ b.formals) ∨ (∃ d ∈ o.deps, Bound P d a) ∨
      (∃ b ∈ o.subs, ∃ r ∈ b.results, Bound P r a) := by
  obtain ⟨w, o', b, hreach, hgw, hb, ha⟩ := h
  rcases hreach.inv hg with hw | ⟨d, hd, hr⟩ | ⟨b', hb', r, hr, hreach'⟩
  · subst hw
    rw [hg] at hgw; cases hgw
    exact Or.inl ⟨b, hb, ha⟩
  · exact Or.inr (Or.inl ⟨d, hd, w, o', b, hr, hgw, hb, ha⟩)
  · exact Or.inr (Or.inr ⟨b', hb', r, hr, w, o', b, hreach', hgw, hb, ha⟩)

/-! ## the specifications -/

/-- `claimed_arguments` of the traversal started at `v`: the formal arguments of every subgraph
    body that `v` reaches. -/
theorem claimed_spec (P : List Obj) (hwf : WF P) (v : Nat) (hv : v < P.length) (a : Nat) :
    a ∈ (look (table P) v).claimed ↔ Bound P v a := by
  induction v using Nat.strongRecOn with
  | _ v ih =>
    obtain ⟨o, hg⟩ := getObj_of_lt P v hv
    have hrefs := getObj_refs hwf hg
    rw [look_table hwf hg, mem_objInfo_claimed]
    constructor
    · rintro (⟨d, hd, ha⟩ | ⟨b, hb, (⟨r, hr, ha⟩ | ha)⟩)
      · have hlt := hrefs.1 d hd
        exact Bound.dep hg hd ((ih d hlt (by omega)).mp ha)
      · have hlt := (hrefs.2 b hb).1 r hr
        exact Bound.sub hg hb hr ((ih r hlt (by omega)).mp ha)
      · exact Bound.here hg hb ha
    · intro h
      rcases h.inv hg with ⟨b, hb, ha⟩ | ⟨d, hd, hbd⟩ | ⟨b, hb, r, hr, hbr⟩
      · exact Or.inr ⟨b, hb, Or.inr ha⟩
      · have hlt := hrefs.1 d hd
        exact Or.inl ⟨d, hd, (ih d hlt (by omega)).mpr hbd⟩
      · have hlt := (hrefs.2 b hb).1 r hr
        exact Or.inr ⟨b, hb, Or.inl ⟨r, hr, (ih r hlt (by omega)).mpr hbr⟩⟩

/-- `all_arguments` of the traversal started at `v`: the Argument Vars `v` depends on, and the
    formal arguments of every subgraph body that `v` reaches. -/
theorem all_spec (P : List Obj) (hwf : WF P) (v : Nat) (hv : v < P.length) (a : Nat) :
    a ∈ (look (table P) v).all ↔ (Reach P v a ∧ ArgObj P a) ∨ Bound P v a := by
  induction v using Nat.strongRecOn with
  | _ v ih =>
    obtain ⟨o, hg⟩ := getObj_of_lt P v hv
    have hrefs := getObj_refs hwf hg
    rw [look_table hwf hg, mem_objInfo_all]
    constructor
    · rintro (⟨harg, rfl⟩ | ⟨d, hd, ha⟩ | ⟨b, hb, (⟨r, hr, ha⟩ | ha)⟩)
      · exact Or.inl ⟨Reach.refl _, o, hg, harg⟩
      · have hlt := hrefs.1 d hd
        rcases (ih d hlt (by omega)).mp ha with ⟨hr, harg⟩ | hbd
        · exact Or.inl ⟨Reach.dep hg hd hr, harg⟩
        · exact Or.inr (Bound.dep hg hd hbd)
      · have hlt := (hrefs.2 b hb).1 r hr
        rcases (ih r hlt (by omega)).mp ha with ⟨hreach, harg⟩ | hbr
        · exact Or.inl ⟨Reach.sub hg hb hr hreach, harg⟩
        · exact Or.inr (Bound.sub hg hb hr hbr)
      · exact Or.inr (Bound.here hg hb ha)
    · rintro (⟨hreach, harg⟩ | hbound)
      · rcases hreach.inv hg with hav | ⟨d, hd, hr⟩ | ⟨b, hb, r, hr, hreach'⟩
        · subst hav
          obtain ⟨o', hg', hisarg⟩ := harg
          rw [hg] at hg'; cases hg'
          exact Or.inl ⟨hisarg, rfl⟩
        · have hlt := hrefs.1 d hd
          exact Or.inr (Or.inl ⟨d, hd, (ih d hlt (by omega)).mpr (Or.inl ⟨hr, harg⟩)⟩)
        · have hlt := (hrefs.2 b hb).1 r hr
          exact Or.inr (Or.inr ⟨b, hb,
            Or.inl ⟨r, hr, (ih r hlt (by omega)).mpr (Or.inl ⟨hreach', harg⟩)⟩⟩)
      · rcases hbound.inv hg with ⟨b, hb, ha⟩ | ⟨d, hd, hbd⟩ | ⟨b, hb, r, hr, hbr⟩
        · exact Or.inr (Or.inr ⟨b, hb, Or.inr ha⟩)
        · have hlt := hrefs.1 d hd
          exact Or.inr (Or.inl ⟨d, hd, (ih d hlt (by omega)).mpr (Or.inr hbd)⟩)
        · have hlt := (hrefs.2 b hb).1 r hr
          exact Or.inr (Or.inr ⟨b, hb,
            Or.inl ⟨r, hr, (ih r hlt (by omega)).mpr (Or.inr hbr)⟩⟩)

/-- `discover_all_arguments_spec`: the arguments that survive with `drop_unused_inputs=True` are
    exactly the Argument Vars some output depends on (any depth of subgraph) that are not formal
    arguments of a reached subgraph. -/
theorem freeArgs_spec (P : List Obj) (hwf : WF P) (outs : List Entry)
    (houts : ∀ e ∈ outs, e.obj < P.length) (a : Nat) :
    a ∈ freeArgs P outs ↔
      (∃ e ∈ outs, Reach P e.obj a) ∧ ArgObj P a ∧ ¬ ∃ e ∈ outs, Bound P e.obj a := by
  have hall : a ∈ (mainInfo P outs).all ↔
      ∃ e ∈ outs, (Reach P e.obj a ∧ ArgObj P a) ∨ Bound P e.obj a := by
    unfold mainInfo
    rw [mem_joinInfos_all]
    constructor
    · rintro ⟨i, hi, ha⟩
      obtain ⟨e, he, rfl⟩ := List.mem_map.mp hi
      exact ⟨e, he, (all_spec P hwf e.obj (houts e he) a).mp ha⟩
    · rintro ⟨e, he, h⟩
      exact ⟨_, List.mem_map.mpr ⟨e, he, rfl⟩, (all_spec P hwf e.obj (houts e he) a).mpr h⟩
  have hcl : a ∈ (mainInfo P outs).claimed ↔ ∃ e ∈ outs, Bound P e.obj a := by
    unfold mainInfo
    rw [mem_joinInfos_claimed]
    constructor
    · rintro ⟨i, hi, ha⟩
      obtain ⟨e, he, rfl⟩ := List.mem_map.mp hi
      exact ⟨e, he, (claimed_spec P hwf e.obj (houts e he) a).mp ha⟩
    · rintro ⟨e, he, h⟩
      exact ⟨_, List.mem_map.mpr ⟨e, he, rfl⟩, (claimed_spec P hwf e.obj (houts e he) a).mpr h⟩
  have hfree : a ∈ freeArgs P outs ↔
      a ∈ (mainInfo P outs).all ∧ a ∉ (mainInfo P outs).claimed := by
    unfold freeArgs
    simp only
    rw [mem_dedup, List.mem_filter]
    constructor
    · rintro ⟨h1, h2⟩
      refine ⟨h1, fun hc => ?_⟩
      rw [List.contains_iff_mem.mpr hc] at h2
      cases h2
    · rintro ⟨h1, h2⟩
      refine ⟨h1, ?_⟩
      cases hc : (mainInfo P outs).claimed.contains a with
      | false => rfl
      | true => exact absurd (List.contains_iff_mem.mp hc) h2
  rw [hfree, hall, hcl]
  constructor
  · rintro ⟨⟨e, he, h⟩, hnb⟩
    rcases h with ⟨hr, harg⟩ | hb
    · exact ⟨⟨e, he, hr⟩, harg, hnb⟩
    · exact absurd ⟨e, he, hb⟩ hnb
  · rintro ⟨⟨e, he, hr⟩, harg, hnb⟩
    exact ⟨⟨e, he, Or.inl ⟨hr, harg⟩⟩, hnb⟩

/-! ## non-vacuity -/

/-- `y = If(c, then: r = f(x, p))` over the outer argument `x` (id 0), the body's formal argument
    `p` (id 1, an Argument node claimed by the subgraph), `r` (id 2), `c` (id 3), `y` (id 4). -/
def reachExP : List Obj :=
  [⟨true, false, "y", [3], [⟨[1], [2]⟩]⟩,
   ⟨true, true, "c", [], []⟩,
   ⟨true, false, "r", [0, 1], []⟩,
   ⟨true, true, "p", [], []⟩,
   ⟨true, true, "x", [], []⟩]

example : WF reachExP := by simp [WF, reachExP]

example : freeArgs reachExP [⟨"y", 4⟩] = [3, 0] := by decide

/-- `y` reaches the outer argument `x` through the subgraph result `r`. -/
example : Reach reachExP 4 0 :=
  Reach.sub (o := ⟨true, false, "y", [3], [⟨[1], [2]⟩]⟩) (b := ⟨[1], [2]⟩) (r := 2)
    rfl (by simp) (by simp)
    (Reach.dep (o := ⟨true, false, "r", [0, 1], []⟩) (d := 0) rfl (by simp) (Reach.refl 0))

/-- … and the formal argument `p` is bound, hence not free although it is reached. -/
example : Bound reachExP 4 1 :=
  ⟨4, ⟨true, false, "y", [3], [⟨[1], [2]⟩]⟩, ⟨[1], [2]⟩, Reach.refl 4, rfl, by simp, by simp⟩

/-- The executable check the driver runs on every program is the hypothesis `WF` of the
    specification theorems. -/
theorem wfb_iff (P : List Obj) : wfb P = true ↔ WF P := by
  induction P with
  | nil => simp [wfb, WF]
  | cons o older ih =>
    simp only [wfb, WF, Bool.and_eq_true, List.all_eq_true, decide_eq_true_eq, ih]
    constructor
    · rintro ⟨⟨h1, h2⟩, h3⟩
      exact ⟨h1, fun b hb => ⟨(h2 b hb).1, (h2 b hb).2⟩, h3⟩
    · rintro ⟨h1, h2, h3⟩
      exact ⟨⟨h1, fun b hb => ⟨(h2 b hb).1, (h2 b hb).2⟩⟩, h3⟩

end Front
