import SpoxModel.Model.Front
import SpoxModel.Lemmas.Renames
/-! Helper lemmas for C03/C12 about the front-end model of `spox.build`. -/
namespace Front

theorem hasDup_false_iff (l : List Nat) : hasDup l = false ↔ l.Nodup := by
  sorry

theorem dedup_nodup (l : List Nat) : (dedup l).Nodup := by
  sorry

theorem mem_dedup (l : List Nat) (a : Nat) : a ∈ dedup l ↔ a ∈ l := by
  sorry

end Front
