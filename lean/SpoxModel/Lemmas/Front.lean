import SpoxModel.Model.Front
import SpoxModel.Lemmas.Renames
/-! Helper lemmas for C03/C12 about the front-end model of `spox.build`. -/
namespace Front
open Renames (Store Outcome)

/-! ## small list facts -/

theorem hasDup_false_iff (l : List Nat) : hasDup l = false ↔ l.Nodup := by
  induction l with
  | nil => simp [hasDup]
  | cons a r ih =>
    simp only [hasDup, Bool.or_eq_false_iff, List.nodup_cons, ih]
    constructor
    · intro h
      refine ⟨?_, h.2⟩
      intro hm
      have := List.contains_iff_mem.mpr hm
      rw [h.1] at this
      cases this
    · intro h
      refine ⟨?_, h.2⟩
      cases hc : r.contains a
      · rfl
      · exact absurd (List.contains_iff_mem.mp hc) h.1

theorem mem_dedup (l : List Nat) (a : Nat) : a ∈ dedup l ↔ a ∈ l := by
  induction l with
  | nil => simp [dedup]
  | cons b r ih =>
    unfold dedup
    by_cases h : r.contains b = true
    · rw [if_pos h, ih]
      have hb : b ∈ r := List.contains_iff_mem.mp h
      constructor
      · exact fun h => List.mem_cons_of_mem _ h
      · intro h
        rcases List.mem_cons.mp h with h | h
        · subst h; exact hb
        · exact h
    · rw [if_neg h, List.mem_cons, List.mem_cons, ih]

theorem dedup_nodup (l : List Nat) : (dedup l).Nodup := by
  induction l with
  | nil => simp [dedup]
  | cons b r ih =>
    unfold dedup
    by_cases h : r.contains b = true
    · rw [if_pos h]; exact ih
    · rw [if_neg h, List.nodup_cons]
      refine ⟨?_, ih⟩
      rw [mem_dedup]
      intro hb
      exact h (List.contains_iff_mem.mpr hb)

theorem filterMap_congr' {α β} (f g : α → Option β) (l : List α) (h : ∀ x ∈ l, f x = g x) :
    l.filterMap f = l.filterMap g := by
  induction l with
  | nil => rfl
  | cons a r ih =>
    have ha := h a List.mem_cons_self
    have hr := ih (fun x hx => h x (List.mem_cons_of_mem _ hx))
    simp only [List.filterMap_cons, ha, hr]

theorem filterMap_ite {α β} (p : α → Bool) (f : α → β) (l : List α) :
    l.filterMap (fun x => if p x = true then some (f x) else none) = (l.filter p).map f := by
  induction l with
  | nil => rfl
  | cons a r ih =>
    by_cases h : p a = true
    · simp [h, ih]
    · simp [h, ih]

/-- Entries of a list with distinct images are identified by their image. -/
theorem eq_of_nodup_map {α β} (f : α → β) (l : List α) (h : (l.map f).Nodup)
    (x y : α) (hx : x ∈ l) (hy : y ∈ l) (hxy : f x = f y) : x = y := by
  induction l with
  | nil => cases hx
  | cons a r ih =>
    simp only [List.map_cons, List.nodup_cons, List.mem_map, not_exists, not_and] at h
    rcases List.mem_cons.mp hx with hx' | hx' <;> rcases List.mem_cons.mp hy with hy' | hy'
    · rw [hx', hy']
    · rw [hx'] at hxy; exact absurd hxy.symm (h.1 y hy')
    · rw [hy'] at hxy; exact absurd hxy (h.1 x hx')
    · exact ih h.2 hx' hy'

/-- `find?` only depends on the set of elements when at most one element satisfies the test. -/
theorem find?_perm_unique {α} (p : α → Bool) (l l' : List α) (hp : l.Perm l')
    (huniq : ∀ x ∈ l, ∀ y ∈ l, p x = true → p y = true → x = y) :
    l.find? p = l'.find? p := by
  cases h : l.find? p with
  | none =>
    symm
    rw [List.find?_eq_none] at h ⊢
    exact fun x hx => h x (hp.mem_iff.mpr hx)
  | some x =>
    have hx := List.mem_of_find?_eq_some h
    have hpx := List.find?_some h
    cases h' : l'.find? p with
    | none =>
      rw [List.find?_eq_none] at h'
      exact absurd hpx (h' x (hp.mem_iff.mp hx))
    | some y =>
      have hy := hp.mem_iff.mpr (List.mem_of_find?_eq_some h')
      have hpy := List.find?_some h'
      rw [huniq x hx y hy hpx hpy]

/-- `find?` when exactly the element `x` of the list satisfies the test. -/
theorem find?_unique {α} (p : α → Bool) (l : List α) (x : α) (hx : x ∈ l) (hpx : p x = true)
    (huniq : ∀ y ∈ l, p y = true → y = x) : l.find? p = some x := by
  cases h : l.find? p with
  | none =>
    rw [List.find?_eq_none] at h
    exact absurd hpx (h x hx)
  | some y =>
    rw [huniq y (List.mem_of_find?_eq_some h) (List.find?_some h)]

/-! ## the names in force -/

theorem mem_kwargs (req : Request) (k : String) (v : Nat) :
    (k, v) ∈ kwargs req ↔ (⟨k, v⟩ : Entry) ∈ req.inputs := by
  unfold kwargs
  rw [List.mem_map]
  constructor
  · rintro ⟨e, he, heq⟩
    cases heq
    exact he
  · intro h
    exact ⟨⟨k, v⟩, h, rfl⟩

theorem kwargs_vars (req : Request) : (kwargs req).map (·.2) = req.inputs.map (·.obj) := by
  simp [kwargs, List.map_map, Function.comp_def]

theorem kwargs_keys (req : Request) : (kwargs req).map (·.1) = req.inputs.map (·.name) := by
  simp [kwargs, List.map_map, Function.comp_def]

/-- A listed Var carries one of the keys it is listed under (the last one). -/
theorem enter_mem (kw : List (String × Nat)) (s : Store) (v : Nat) (h : v ∈ kw.map (·.2)) :
    ∃ k, (k, v) ∈ kw ∧ Renames.enter kw s v = some k := by
  induction kw generalizing s with
  | nil => cases h
  | cons e rest ih =>
    obtain ⟨k', w⟩ := e
    have hunf : Renames.enter ((k', w) :: rest) s = Renames.enter rest (s.set w (some k')) := by
      simp [Renames.enter]
    rw [hunf]
    by_cases hr : v ∈ rest.map (·.2)
    · obtain ⟨k, hk, he⟩ := ih (s.set w (some k')) hr
      exact ⟨k, List.mem_cons_of_mem _ hk, he⟩
    · have hv : v = w := by
        simp only [List.map_cons, List.mem_cons] at h
        rcases h with h | h
        · exact h
        · exact absurd h hr
      subst hv
      exact ⟨k', List.mem_cons_self, by rw [Renames.enter_unlisted _ _ _ hr, Renames.set_same]⟩

/-- Inside the block a listed Var carries a key under which it is listed. -/
theorem enter_listed_entry (req : Request) (s : Store) (a : Nat)
    (h : a ∈ req.inputs.map (·.obj)) :
    ∃ e ∈ req.inputs, e.obj = a ∧ Renames.enter (kwargs req) s a = some e.name := by
  rw [← kwargs_vars] at h
  obtain ⟨k, hk, he⟩ := enter_mem (kwargs req) s a h
  exact ⟨⟨k, a⟩, (mem_kwargs req k a).mp hk, rfl, he⟩

/-- With distinct Vars: each entry's Var carries that entry's key. -/
theorem enter_entry (req : Request) (s : Store) (hobjs : (req.inputs.map (·.obj)).Nodup)
    (e : Entry) (he : e ∈ req.inputs) : Renames.enter (kwargs req) s e.obj = some e.name := by
  apply Renames.enter_listed
  · rw [kwargs_vars]; exact hobjs
  · exact (mem_kwargs req e.name e.obj).mpr he

/-! ## `body` as a function of the argument list -/

/-- The argument list `body` works with. -/
def argsOf (P : List Obj) (π : List Nat → List Nat) (req : Request) : List Nat :=
  if req.drop then π (freeArgs P req.outputs) else req.inputs.map (·.obj)

def vinfo (P : List Obj) (s : Store) (a : Nat) : VInfo := ⟨(s a).getD "", tyOf P a⟩

/-- "Model requires additional inputs" test for one argument. -/
def foreign (keys : List String) (o : Option String) : Bool :=
  match o with | some n => !keys.contains n | none => true

/-- `body`, with the argument list as a parameter. -/
def bodyA (P : List Obj) (fixed : Bool) (req : Request) (s : Store) (args : List Nat) :
    Except Err Model :=
  if (mainInfo P req.outputs).bad
      || args.any (fun a => (mainInfo P req.outputs).claimed.contains a)
      || (mainInfo P req.outputs).claimed.any (fun a => (mainInfo P req.outputs).used.contains a) then
    .error .build
  else if hasDup args then .error .scope
  else if (freeArgs P req.outputs).any (fun a => !args.contains a) then .error .key
  else if req.outputs.any (fun e => args.any (fun a => s a == some e.name)) then .error .scope
  else if args.any (fun a => foreign (req.inputs.map (·.name)) (s a)) then .error .key
  else
    .ok { inputs := if req.drop && fixed
            then req.inputs.filterMap (fun e => (args.map (vinfo P s)).find? (fun i => i.name == e.name))
            else args.map (vinfo P s)
          outputs := req.outputs.map (fun e => ⟨e.name, tyOf P e.obj⟩)
          outVars := req.outputs.map (·.obj) }

theorem body_eq (P : List Obj) (π : List Nat → List Nat) (fixed : Bool) (req : Request) (s : Store) :
    body P π fixed req s = bodyA P fixed req s (argsOf P π req) := rfl

/-- What a successful `body` tells. -/
theorem bodyA_ok {P : List Obj} {fixed : Bool} {req : Request} {s : Store} {args : List Nat}
    {m : Model} (h : bodyA P fixed req s args = .ok m) :
    hasDup args = false ∧
    (∀ a ∈ args, foreign (req.inputs.map (·.name)) (s a) = false) ∧
    m = { inputs := if req.drop && fixed
            then req.inputs.filterMap (fun e => (args.map (vinfo P s)).find? (fun i => i.name == e.name))
            else args.map (vinfo P s)
          outputs := req.outputs.map (fun e => ⟨e.name, tyOf P e.obj⟩)
          outVars := req.outputs.map (·.obj) } := by
  unfold bodyA at h
  split at h
  · cases h
  split at h
  · cases h
  split at h
  · cases h
  split at h
  · cases h
  split at h
  · cases h
  rename_i h1 h2 h3 h4 h5
  refine ⟨by simpa using h2, ?_, ?_⟩
  · intro a ha
    have := List.any_eq_false.mp (by simpa using h5) a ha
    simpa using this
  · injection h with h
    exact h.symm

/-! ## `build` through the fixed shape -/

theorem build_fixed (P : List Obj) (π : List Nat → List Nat) (fixed : Bool) (req : Request)
    (s : Store) :
    build Renames.fixedIR P π fixed req s =
      if !req.inputs.all (fun e => isVar P e.obj) then (s, .error .type)
      else if !req.outputs.all (fun e => isVar P e.obj) then (s, .error .type)
      else if !req.inputs.all (fun e => isArg P e.obj) then (s, .error .type)
      else if req.outputs.isEmpty then (s, .error .value)
      else (s, body P π fixed req (Renames.enter (kwargs req) s)) := by
  unfold build
  simp only [Renames.run_fixed, Renames.restore_enter]

theorem build_fst (P : List Obj) (π : List Nat → List Nat) (fixed : Bool) (req : Request)
    (s : Store) : (build Renames.fixedIR P π fixed req s).1 = s := by
  rw [build_fixed]
  repeat' split
  all_goals rfl

theorem isArg_isVar (P : List Obj) (id : Nat) (h : isArg P id = true) : isVar P id = true := by
  unfold isArg at h
  unfold isVar
  split at h
  · simp only [Bool.and_eq_true] at h; exact h.1
  · cases h

/-- A build that passes the type checks is its `body` run with the names in force. -/
theorem build_checked (P : List Obj) (π : List Nat → List Nat) (fixed : Bool) (req : Request)
    (s : Store) (hin : ∀ e ∈ req.inputs, isArg P e.obj = true)
    (hout : ∀ e ∈ req.outputs, isVar P e.obj = true) (hne : req.outputs ≠ []) :
    (build Renames.fixedIR P π fixed req s).2 = body P π fixed req (Renames.enter (kwargs req) s) := by
  rw [build_fixed]
  have h1 : req.inputs.all (fun e => isVar P e.obj) = true :=
    List.all_eq_true.mpr (fun e he => isArg_isVar P _ (hin e he))
  have h2 : req.outputs.all (fun e => isVar P e.obj) = true := List.all_eq_true.mpr hout
  have h3 : req.inputs.all (fun e => isArg P e.obj) = true := List.all_eq_true.mpr hin
  have h4 : req.outputs.isEmpty = false := by
    cases h : req.outputs with
    | nil => exact absurd h hne
    | cons _ _ => rfl
  simp [h1, h2, h3, h4]

/-- A successful build passed the checks and its `body` succeeded. -/
theorem build_ok {P : List Obj} {π : List Nat → List Nat} {fixed : Bool} {req : Request}
    {s : Store} {m : Model} (h : (build Renames.fixedIR P π fixed req s).2 = .ok m) :
    body P π fixed req (Renames.enter (kwargs req) s) = .ok m := by
  rw [build_fixed] at h
  split at h
  · cases h
  split at h
  · cases h
  split at h
  · cases h
  split at h
  · cases h
  exact h

/-! ## independence of the set iteration order -/

/-- An argument that passes the "additional inputs" test is listed (unlisted Vars are unnamed). -/
theorem listed_of_not_foreign (req : Request) (s : Store)
    (hunnamed : ∀ v, v ∉ req.inputs.map (·.obj) → s v = none) (a : Nat)
    (h : foreign (req.inputs.map (·.name)) (Renames.enter (kwargs req) s a) = false) :
    a ∈ req.inputs.map (·.obj) := by
  apply Classical.byContradiction
  intro hn
  have h1 : Renames.enter (kwargs req) s a = s a :=
    Renames.enter_unlisted _ _ _ (by rw [kwargs_vars]; exact hn)
  rw [h1, hunnamed a hn] at h
  cases h

/-- Inside the block distinct listed arguments carry distinct names (dictionary keys are distinct). -/
theorem named_inj (req : Request) (s : Store) (hkeys : (req.inputs.map (·.name)).Nodup)
    (a b : Nat) (ha : a ∈ req.inputs.map (·.obj)) (hb : b ∈ req.inputs.map (·.obj))
    (h : (Renames.enter (kwargs req) s a).getD "" = (Renames.enter (kwargs req) s b).getD "") :
    a = b := by
  obtain ⟨ea, hea, hoa, hna⟩ := enter_listed_entry req s a ha
  obtain ⟨eb, heb, hob, hnb⟩ := enter_listed_entry req s b hb
  rw [hna, hnb] at h
  simp only [Option.getD_some] at h
  have := eq_of_nodup_map (·.name) req.inputs hkeys ea eb hea heb h
  rw [← hoa, ← hob, this]

theorem hasDup_perm (l l' : List Nat) (hp : l.Perm l') : hasDup l = hasDup l' := by
  cases h : hasDup l' with
  | false => rw [hasDup_false_iff] at h ⊢; exact hp.nodup_iff.mpr h
  | true =>
    cases h2 : hasDup l with
    | true => rfl
    | false =>
      rw [hasDup_false_iff] at h2
      have := (hasDup_false_iff l').mpr (hp.nodup_iff.mp h2)
      rw [this] at h; cases h

/-- In `drop_unused_inputs=True` mode after the fix, `body` only depends on the *set* of arguments. -/
theorem bodyA_perm (P : List Obj) (req : Request) (s : Store) (hdrop : req.drop = true)
    (hkeys : (req.inputs.map (·.name)).Nodup)
    (hunnamed : ∀ v, v ∉ req.inputs.map (·.obj) → s v = none)
    (l l' : List Nat) (hp : l.Perm l') :
    bodyA P true req (Renames.enter (kwargs req) s) l =
      bodyA P true req (Renames.enter (kwargs req) s) l' := by
  have hc1 : l.any (fun a => (mainInfo P req.outputs).claimed.contains a)
      = l'.any (fun a => (mainInfo P req.outputs).claimed.contains a) := hp.any_eq
  have hc2 := hasDup_perm l l' hp
  have hc3 : (fun a => !l.contains a) = (fun a => !l'.contains a) := by
    funext a; rw [hp.contains_eq]
  have hc4 : (fun (e : Entry) => l.any (fun a => Renames.enter (kwargs req) s a == some e.name))
      = (fun (e : Entry) => l'.any (fun a => Renames.enter (kwargs req) s a == some e.name)) := by
    funext e; exact hp.any_eq
  have hc5 : l.any (fun a => foreign (req.inputs.map (·.name)) (Renames.enter (kwargs req) s a))
      = l'.any (fun a => foreign (req.inputs.map (·.name)) (Renames.enter (kwargs req) s a)) :=
    hp.any_eq
  unfold bodyA
  rw [hc1, hc2, hc3, hc4, hc5]
  split
  · rfl
  split
  · rfl
  split
  · rfl
  split
  · rfl
  split
  · rfl
  rename_i h1 h2 h3 h4 h5
  have hfor : ∀ a ∈ l, foreign (req.inputs.map (·.name)) (Renames.enter (kwargs req) s a) = false := by
    intro a ha
    have := List.any_eq_false.mp (by simpa using h5) a (hp.mem_iff.mp ha)
    simpa using this
  have hin : (req.inputs.filterMap (fun e =>
        (l.map (vinfo P (Renames.enter (kwargs req) s))).find? (fun i => i.name == e.name)))
      = (req.inputs.filterMap (fun e =>
        (l'.map (vinfo P (Renames.enter (kwargs req) s))).find? (fun i => i.name == e.name))) := by
    apply filterMap_congr'
    intro e _
    apply find?_perm_unique _ _ _ (hp.map _)
    intro x hx y hy hpx hpy
    obtain ⟨a, ha, rfl⟩ := List.mem_map.mp hx
    obtain ⟨b, hb, rfl⟩ := List.mem_map.mp hy
    have hab : a = b := by
      apply named_inj req s hkeys a b
        (listed_of_not_foreign req s hunnamed a (hfor a ha))
        (listed_of_not_foreign req s hunnamed b (hfor b hb))
      simp only [vinfo, beq_iff_eq] at hpx hpy
      rw [hpx, hpy]
    rw [hab]
  simp only [hdrop, Bool.and_self, if_true, hin]

theorem body_perm_invariant (P : List Obj) (π π' : List Nat → List Nat)
    (hπ : ∀ l, (π l).Perm l) (hπ' : ∀ l, (π' l).Perm l) (req : Request) (s : Store)
    (hkeys : (req.inputs.map (·.name)).Nodup)
    (hunnamed : ∀ v, v ∉ req.inputs.map (·.obj) → s v = none) :
    body P π true req (Renames.enter (kwargs req) s) =
      body P π' true req (Renames.enter (kwargs req) s) := by
  rw [body_eq, body_eq]
  cases hdrop : req.drop with
  | false => simp only [argsOf, hdrop]; rfl
  | true =>
    have h1 : argsOf P π req = π (freeArgs P req.outputs) := by simp [argsOf, hdrop]
    have h2 : argsOf P π' req = π' (freeArgs P req.outputs) := by simp [argsOf, hdrop]
    rw [h1, h2]
    exact bodyA_perm P req s hdrop hkeys hunnamed _ _ ((hπ _).trans (hπ' _).symm)

/-! ## well-formed requests -/

theorem free_not_claimed (P : List Obj) (outs : List Entry) (a : Nat) (h : a ∈ freeArgs P outs) :
    (mainInfo P outs).claimed.contains a = false := by
  unfold freeArgs at h
  simp only at h
  rw [mem_dedup, List.mem_filter] at h
  simpa using h.2

theorem freeArgs_nodup (P : List Obj) (outs : List Entry) : (freeArgs P outs).Nodup :=
  dedup_nodup _

/-- Inside the block every name is a key (unlisted Vars are unnamed). -/
theorem enter_name_key (req : Request) (s : Store)
    (hunnamed : ∀ v, v ∉ req.inputs.map (·.obj) → s v = none) (a : Nat) (n : String)
    (h : Renames.enter (kwargs req) s a = some n) : n ∈ req.inputs.map (·.name) := by
  by_cases hl : a ∈ req.inputs.map (·.obj)
  · obtain ⟨e, he, _, hn⟩ := enter_listed_entry req s a hl
    rw [hn] at h
    cases h
    exact List.mem_map.mpr ⟨e, he, rfl⟩
  · have h1 : Renames.enter (kwargs req) s a = s a :=
      Renames.enter_unlisted _ _ _ (by rw [kwargs_vars]; exact hl)
    rw [h1, hunnamed a hl] at h
    cases h

theorem foreign_listed (req : Request) (s : Store) (a : Nat) (hl : a ∈ req.inputs.map (·.obj)) :
    foreign (req.inputs.map (·.name)) (Renames.enter (kwargs req) s a) = false := by
  obtain ⟨e, he, _, hn⟩ := enter_listed_entry req s a hl
  rw [hn]
  simp only [foreign, Bool.not_eq_false']
  exact List.contains_iff_mem.mpr (List.mem_map.mpr ⟨e, he, rfl⟩)

theorem foreign_unlisted (req : Request) (s : Store)
    (hunnamed : ∀ v, v ∉ req.inputs.map (·.obj) → s v = none) (a : Nat)
    (hl : a ∉ req.inputs.map (·.obj)) :
    foreign (req.inputs.map (·.name)) (Renames.enter (kwargs req) s a) = true := by
  have h1 : Renames.enter (kwargs req) s a = s a :=
    Renames.enter_unlisted _ _ _ (by rw [kwargs_vars]; exact hl)
  rw [h1, hunnamed a hl]
  rfl

/-- For a well-formed request only the two KeyError tests of `body` remain. -/
theorem body_wf (P : List Obj) (π : List Nat → List Nat) (hπ : ∀ l, (π l).Perm l) (fixed : Bool)
    (req : Request) (s : Store)
    (hobjs : (req.inputs.map (·.obj)).Nodup)
    (hdisj : ∀ e ∈ req.outputs, e.name ∉ req.inputs.map (·.name))
    (hbad : (mainInfo P req.outputs).bad = false)
    (hleak : ∀ a ∈ (mainInfo P req.outputs).claimed, a ∉ (mainInfo P req.outputs).used)
    (hformals : ∀ e ∈ req.inputs, e.obj ∉ (mainInfo P req.outputs).claimed)
    (hunnamed : ∀ v, v ∉ req.inputs.map (·.obj) → s v = none) :
    body P π fixed req (Renames.enter (kwargs req) s) =
      if (freeArgs P req.outputs).any (fun a => !(argsOf P π req).contains a) then .error .key
      else if (argsOf P π req).any
          (fun a => foreign (req.inputs.map (·.name)) (Renames.enter (kwargs req) s a)) then .error .key
      else
        .ok { inputs := if req.drop && fixed
                then req.inputs.filterMap (fun e =>
                  ((argsOf P π req).map (vinfo P (Renames.enter (kwargs req) s))).find?
                    (fun i => i.name == e.name))
                else (argsOf P π req).map (vinfo P (Renames.enter (kwargs req) s))
              outputs := req.outputs.map (fun e => ⟨e.name, tyOf P e.obj⟩)
              outVars := req.outputs.map (·.obj) } := by
  rw [body_eq]
  have f1 : (argsOf P π req).any (fun a => (mainInfo P req.outputs).claimed.contains a) = false := by
    rw [List.any_eq_false]
    intro a ha
    unfold argsOf at ha
    cases hd : req.drop with
    | true =>
      rw [hd, if_pos rfl] at ha
      rw [free_not_claimed P req.outputs a ((hπ _).mem_iff.mp ha)]
      simp
    | false =>
      rw [hd] at ha
      simp only [Bool.false_eq_true, if_false] at ha
      obtain ⟨e, he, rfl⟩ := List.mem_map.mp ha
      intro hc
      exact hformals e he (List.contains_iff_mem.mp hc)
  have f1' : (mainInfo P req.outputs).claimed.any
      (fun a => (mainInfo P req.outputs).used.contains a) = false := by
    rw [List.any_eq_false]
    intro a ha hc
    exact hleak a ha (List.contains_iff_mem.mp hc)
  have f2 : hasDup (argsOf P π req) = false := by
    rw [hasDup_false_iff]
    unfold argsOf
    cases hd : req.drop with
    | true => rw [if_pos rfl]; exact (hπ _).nodup_iff.mpr (freeArgs_nodup P req.outputs)
    | false => simp only [Bool.false_eq_true, if_false]; exact hobjs
  have f4 : req.outputs.any (fun e => (argsOf P π req).any
      (fun a => Renames.enter (kwargs req) s a == some e.name)) = false := by
    rw [List.any_eq_false]
    intro e he hc
    obtain ⟨a, _, hn⟩ := List.any_eq_true.mp hc
    have hn' : Renames.enter (kwargs req) s a = some e.name := by simpa using hn
    exact hdisj e he (enter_name_key req s hunnamed a e.name hn')
  unfold bodyA
  simp only [hbad, f1, f1', f2, f4, Bool.or_self, Bool.false_eq_true, if_false]

/-! ## The same with the exact side condition: unlisted Vars may carry (preset) names, as long as
    none of them is a key of `inputs` or the name of an output -/

/-- No unlisted Var carries a name that is a key of `inputs` or a requested output name. -/
def NoClash (req : Request) (s : Store) : Prop :=
  ∀ v, v ∉ req.inputs.map (·.obj) → ∀ n, s v = some n →
    n ∉ req.inputs.map (·.name) ∧ ∀ e ∈ req.outputs, e.name ≠ n

theorem noClash_of_unnamed (req : Request) (s : Store)
    (hunnamed : ∀ v, v ∉ req.inputs.map (·.obj) → s v = none) : NoClash req s := by
  intro v hv n hn
  rw [hunnamed v hv] at hn
  cases hn

theorem foreign_unlisted' (req : Request) (s : Store) (hnc : NoClash req s) (a : Nat)
    (hl : a ∉ req.inputs.map (·.obj)) :
    foreign (req.inputs.map (·.name)) (Renames.enter (kwargs req) s a) = true := by
  have h1 : Renames.enter (kwargs req) s a = s a :=
    Renames.enter_unlisted _ _ _ (by rw [kwargs_vars]; exact hl)
  rw [h1]
  cases hs : s a with
  | none => rfl
  | some n =>
    have := (hnc a hl n hs).1
    simp only [foreign, Bool.not_eq_true']
    cases hc : (req.inputs.map (·.name)).contains n with
    | false => rfl
    | true => exact absurd (List.contains_iff_mem.mp hc) this

theorem listed_of_not_foreign' (req : Request) (s : Store) (hnc : NoClash req s) (a : Nat)
    (h : foreign (req.inputs.map (·.name)) (Renames.enter (kwargs req) s a) = false) :
    a ∈ req.inputs.map (·.obj) := by
  apply Classical.byContradiction
  intro hn
  rw [foreign_unlisted' req s hnc a hn] at h
  cases h

/-- `body_wf` under `NoClash` instead of "unlisted Vars are unnamed". -/
theorem body_wf' (P : List Obj) (π : List Nat → List Nat) (hπ : ∀ l, (π l).Perm l) (fixed : Bool)
    (req : Request) (s : Store)
    (hobjs : (req.inputs.map (·.obj)).Nodup)
    (hdisj : ∀ e ∈ req.outputs, e.name ∉ req.inputs.map (·.name))
    (hbad : (mainInfo P req.outputs).bad = false)
    (hleak : ∀ a ∈ (mainInfo P req.outputs).claimed, a ∉ (mainInfo P req.outputs).used)
    (hformals : ∀ e ∈ req.inputs, e.obj ∉ (mainInfo P req.outputs).claimed)
    (hnc : NoClash req s) :
    body P π fixed req (Renames.enter (kwargs req) s) =
      if (freeArgs P req.outputs).any (fun a => !(argsOf P π req).contains a) then .error .key
      else if (argsOf P π req).any
          (fun a => foreign (req.inputs.map (·.name)) (Renames.enter (kwargs req) s a)) then .error .key
      else
        .ok { inputs := if req.drop && fixed
                then req.inputs.filterMap (fun e =>
                  ((argsOf P π req).map (vinfo P (Renames.enter (kwargs req) s))).find?
                    (fun i => i.name == e.name))
                else (argsOf P π req).map (vinfo P (Renames.enter (kwargs req) s))
              outputs := req.outputs.map (fun e => ⟨e.name, tyOf P e.obj⟩)
              outVars := req.outputs.map (·.obj) } := by
  rw [body_eq]
  have f1 : (argsOf P π req).any (fun a => (mainInfo P req.outputs).claimed.contains a) = false := by
    rw [List.any_eq_false]
    intro a ha
    unfold argsOf at ha
    cases hd : req.drop with
    | true =>
      rw [hd, if_pos rfl] at ha
      rw [free_not_claimed P req.outputs a ((hπ _).mem_iff.mp ha)]
      simp
    | false =>
      rw [hd] at ha
      simp only [Bool.false_eq_true, if_false] at ha
      obtain ⟨e, he, rfl⟩ := List.mem_map.mp ha
      intro hc
      exact hformals e he (List.contains_iff_mem.mp hc)
  have f1' : (mainInfo P req.outputs).claimed.any
      (fun a => (mainInfo P req.outputs).used.contains a) = false := by
    rw [List.any_eq_false]
    intro a ha hc
    exact hleak a ha (List.contains_iff_mem.mp hc)
  have f2 : hasDup (argsOf P π req) = false := by
    rw [hasDup_false_iff]
    unfold argsOf
    cases hd : req.drop with
    | true => rw [if_pos rfl]; exact (hπ _).nodup_iff.mpr (freeArgs_nodup P req.outputs)
    | false => simp only [Bool.false_eq_true, if_false]; exact hobjs
  have f4 : req.outputs.any (fun e => (argsOf P π req).any
      (fun a => Renames.enter (kwargs req) s a == some e.name)) = false := by
    rw [List.any_eq_false]
    intro e he hc
    obtain ⟨a, _, hn⟩ := List.any_eq_true.mp hc
    have hn' : Renames.enter (kwargs req) s a = some e.name := by simpa using hn
    by_cases hl : a ∈ req.inputs.map (·.obj)
    · obtain ⟨e', he', _, hn2⟩ := enter_listed_entry req s a hl
      rw [hn2] at hn'
      have hname : e'.name = e.name := Option.some.inj hn'
      exact hdisj e he (List.mem_map.mpr ⟨e', he', hname⟩)
    · have h1 : Renames.enter (kwargs req) s a = s a :=
        Renames.enter_unlisted _ _ _ (by rw [kwargs_vars]; exact hl)
      rw [h1] at hn'
      exact (hnc a hl e.name hn').2 e he rfl
  unfold bodyA
  simp only [hbad, f1, f1', f2, f4, Bool.or_self, Bool.false_eq_true, if_false]

end Front
