import SpoxModel.Lemmas.OpsetRename
/-!
# Merging function definitions under (domain, name) (C09, round 8)

`Graph.to_onnx_model` keeps one FunctionProto per key and raises when a later occurrence of the key carries a
different definition. `mergeInto` is that loop. If occurrences with equal keys carry equal definitions — every
application of one function yields one definition (`function_instances_agree`) and different functions have
different names (the user's obligation, as `to_function` documents) — the loop never raises, keeps every key
once, in first-occurrence order, and loses no definition.
-/
namespace Opset

theorem lookup_none_of_not_mem {δ : Type} {k : FKey} : ∀ {l : List (FKey × δ)}, k ∉ l.map (·.1) → l.lookup k = none
  | [], _ => rfl
  | (a, b) :: l, h => by
    simp only [List.map_cons, List.mem_cons, not_or] at h
    rw [List.lookup_cons]
    have : (k == a) = false := by simpa using h.1
    simp only [this]
    exact lookup_none_of_not_mem h.2

theorem not_mem_of_lookup_none {δ : Type} {k : FKey} : ∀ {l : List (FKey × δ)}, l.lookup k = none → k ∉ l.map (·.1)
  | [], _ => by simp
  | (a, b) :: l, h => by
    rw [List.lookup_cons] at h
    by_cases hk : (k == a) = true
    · simp [hk] at h
    · simp only [hk] at h
      simp only [List.map_cons, List.mem_cons, not_or]
      exact ⟨by simpa using hk, not_mem_of_lookup_none h⟩

theorem mem_of_lookup_some {δ : Type} {k : FKey} {d : δ} : ∀ {l : List (FKey × δ)}, l.lookup k = some d → (k, d) ∈ l
  | [], h => by simp at h
  | (a, b) :: l, h => by
    rw [List.lookup_cons] at h
    by_cases hk : (k == a) = true
    · simp only [hk] at h
      have hka : k = a := by simpa using hk
      have : b = d := Option.some.inj h
      subst this; subst hka
      exact List.mem_cons_self
    · simp only [hk] at h
      exact List.mem_cons_of_mem _ (mem_of_lookup_some h)

theorem mem_snoc_append {α : Type} (acc rest : List α) (x a : α) :
    a ∈ (acc ++ [x]) ++ rest ↔ a ∈ acc ++ x :: rest := by simp

theorem mem_drop_dup {α : Type} (acc rest : List α) (x a : α) (hx : x ∈ acc) :
    a ∈ acc ++ rest ↔ a ∈ acc ++ x :: rest := by
  simp only [List.mem_append, List.mem_cons]
  constructor
  · rintro (h | h)
    · exact Or.inl h
    · exact Or.inr (Or.inr h)
  · rintro (h | h | h)
    · exact Or.inl h
    · subst h; exact Or.inl hx
    · exact Or.inr h

/-- occurrences with equal keys carry equal definitions -/
def Consistent {δ : Type} (l : List (FKey × δ)) : Prop := ∀ a ∈ l, ∀ b ∈ l, a.1 = b.1 → a.2 = b.2

theorem mergeInto_ok {δ : Type} [DecidableEq δ] : ∀ (l acc : List (FKey × δ)),
    (acc.map (·.1)).Nodup → Consistent (acc ++ l) →
    ∃ r, mergeInto acc l = some r ∧ (r.map (·.1)).Nodup ∧ ∀ a, a ∈ r ↔ a ∈ acc ++ l
  | [], acc, hnd, _ => ⟨acc, rfl, hnd, fun a => by simp⟩
  | (k, d) :: rest, acc, hnd, hc => by
    unfold mergeInto
    cases hl : acc.lookup k with
    | none =>
      simp only
      have hk : k ∉ acc.map (·.1) := not_mem_of_lookup_none hl
      have hnd' : ((acc ++ [(k, d)]).map (·.1)).Nodup := by
        rw [List.map_append, List.nodup_append]
        refine ⟨hnd, by simp, ?_⟩
        intro x hx y hy
        simp only [List.map_cons, List.map_nil, List.mem_singleton] at hy
        subst hy
        intro hxy; subst hxy; exact hk hx
      have hc' : Consistent ((acc ++ [(k, d)]) ++ rest) := by
        intro a ha b hb
        exact hc a ((mem_snoc_append acc rest (k, d) a).mp ha) b ((mem_snoc_append acc rest (k, d) b).mp hb)
      obtain ⟨r, hr, hn, hm⟩ := mergeInto_ok rest (acc ++ [(k, d)]) hnd' hc'
      refine ⟨r, hr, hn, fun a => ?_⟩
      rw [hm a]
      exact mem_snoc_append acc rest (k, d) a
    | some d' =>
      simp only
      have hmem : (k, d') ∈ acc := mem_of_lookup_some hl
      have hdd : d' = d := hc (k, d') (List.mem_append.mpr (Or.inl hmem)) (k, d)
        (List.mem_append.mpr (Or.inr List.mem_cons_self)) rfl
      subst hdd
      simp only [if_true]
      have hc' : Consistent (acc ++ rest) := by
        intro a ha b hb
        exact hc a ((mem_drop_dup acc rest (k, d') a hmem).mp ha) b ((mem_drop_dup acc rest (k, d') b hmem).mp hb)
      obtain ⟨r, hr, hn, hm⟩ := mergeInto_ok rest acc hnd hc'
      refine ⟨r, hr, hn, fun a => ?_⟩
      rw [hm a]
      exact mem_drop_dup acc rest (k, d') a hmem

/-- `mergeFuncs` on consistent occurrences: no raise, every key once, no definition lost or invented. -/
theorem mergeFuncs_ok {δ : Type} [DecidableEq δ] (l : List (FKey × δ)) (hc : Consistent l) :
    ∃ r, mergeFuncs l = some r ∧ (r.map (·.1)).Nodup ∧ ∀ a, a ∈ r ↔ a ∈ l := by
  obtain ⟨r, hr, hn, hm⟩ := mergeInto_ok l [] (by simp) (by simpa using hc)
  exact ⟨r, hr, hn, fun a => by simpa using hm a⟩

/-- …and it raises only on a real conflict. -/
theorem mergeFuncs_none {δ : Type} [DecidableEq δ] (l : List (FKey × δ)) (h : mergeFuncs l = none) : ¬ Consistent l := by
  intro hc
  obtain ⟨r, hr, _⟩ := mergeFuncs_ok l hc
  rw [h] at hr
  cases hr

end Opset
