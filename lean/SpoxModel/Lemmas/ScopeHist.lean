import SpoxModel.Lemmas.Scope
/-! Histories of namespace operations: a successful prefix can be split off (`run_append`). -/
namespace Scope

theorem run_append : ∀ (a : List Op) (s : Space) (b : List Op) (s' : Space),
    run s a = .ok s' → run s (a ++ b) = run s' b
  | [], s, b, s', h => by
    simp only [run] at h
    cases h
    rfl
  | op :: a, s, b, s', h => by
    simp only [run, List.cons_append] at h ⊢
    cases hs : step s op with
    | error e => simp only [hs] at h; cases h
    | ok s1 =>
      simp only [hs] at h ⊢
      exact run_append a s1 b s' h

/-- a history whose next operation raises, raises — whatever follows -/
theorem run_stops (a : List Op) (s : Space) (op : Op) (rest : List Op) (e : Err)
    (h : run {} a = .ok s) (he : step s op = .error e) : run {} (a ++ op :: rest) = .error e := by
  rw [run_append a {} _ s h]
  simp only [run, he]

end Scope
