import SpoxModel.Model.Bridge
import SpoxModel.Lemmas.BuildAlgBasic
/-! # Bridge: the translated program (`toProg`) — node lookup, kinds, well-formedness -/
set_option linter.unusedSectionVars false
set_option linter.unusedVariables false
namespace Bridge
open BuildAlg

theorem toNodesFrom_length (f : Nat → BuildAlg.PNode → Prog.PNode) :
    ∀ (xs : List BuildAlg.PNode) (acc : List Prog.PNode),
      (toNodesFrom f acc xs).length = acc.length + xs.length := by
  intro xs
  induction xs with
  | nil => intro acc; simp [toNodesFrom]
  | cons x xs ih => intro acc; simp only [toNodesFrom, ih, List.length_cons]; omega

theorem nodeAt_toNodesFrom (f : Nat → BuildAlg.PNode → Prog.PNode) :
    ∀ (xs : List BuildAlg.PNode) (acc : List Prog.PNode) (k : Nat), acc.length ≤ k →
      Prog.nodeAt (toNodesFrom f acc xs) k = (xs[k - acc.length]?).map (f k) := by
  intro xs
  induction xs with
  | nil =>
    intro acc k hk
    simp only [toNodesFrom, List.getElem?_nil, Option.map_none]
    -- no node with id ≥ length
    induction acc with
    | nil => rfl
    | cons a as ih =>
      simp only [Prog.nodeAt]
      have h1 : k ≠ as.length := by simp only [List.length_cons] at hk; omega
      simp only [h1, if_false]
      exact ih (by simp only [List.length_cons] at hk; omega)
  | cons x xs ih =>
    intro acc k hk
    simp only [toNodesFrom]
    by_cases hk' : k = acc.length
    · subst hk'
      -- the node just pushed; everything later sits above it
      have : ∀ (ys : List BuildAlg.PNode) (acc' : List Prog.PNode) (n : Prog.PNode) (older : List Prog.PNode),
          acc' = (acc'.take (acc'.length - (older.length + 1))) ++ n :: older →
          Prog.nodeAt (toNodesFrom f acc' ys) older.length = some n := by
        intro ys
        induction ys with
        | nil =>
          intro acc' n older hsplit
          simp only [toNodesFrom]
          rw [hsplit]
          generalize acc'.take (acc'.length - (older.length + 1)) = pre
          induction pre with
          | nil => simp [Prog.nodeAt]
          | cons q qs ihq =>
            simp only [List.cons_append, Prog.nodeAt]
            have : older.length ≠ (qs ++ n :: older).length := by simp; omega
            simp only [this, if_false]; exact ihq
        | cons y ys ihy =>
          intro acc' n older hsplit
          simp only [toNodesFrom]
          apply ihy
          have hl : acc'.length ≥ older.length + 1 := by
            have := congrArg List.length hsplit
            simp at this; omega
          have e : (f acc'.length y :: acc').length - (older.length + 1) = (acc'.length - (older.length + 1)) + 1 := by
            simp only [List.length_cons]; omega
          rw [e, List.take_succ_cons, List.cons_append, ← hsplit]
      have := this xs (f acc.length x :: acc) (f acc.length x) acc (by simp)
      simp [this]
    · have := ih (f acc.length x :: acc) k (by simp only [List.length_cons]; omega)
      rw [this]
      have e : k - acc.length = (k - (f acc.length x :: acc).length) + 1 := by
        simp only [List.length_cons]; omega
      rw [e, List.getElem?_cons_succ]

theorem nodeAt_toProg (p : BuildAlg.Prog) (argsOf : List (Nat × List Nat)) (k : Nat) :
    Prog.nodeAt (toProg p argsOf).nodes k = (p.nodes[k]?).map (toPNode p argsOf k) := by
  simpa [toProg] using nodeAt_toNodesFrom (toPNode p argsOf) p.nodes [] k (by simp)

theorem isArg_toProg (p : BuildAlg.Prog) (argsOf : List (Nat × List Nat)) (a : Nat) :
    Prog.isArg (toProg p argsOf).nodes a = p.isArg a := by
  simp only [Prog.isArg, nodeAt_toProg, BuildAlg.Prog.isArg]
  cases h : p.nodes[a]? with
  | none => rfl
  | some pn =>
    simp only [Option.map_some, toPNode]
    cases pn.isArg <;> simp

/-- the translated program is in creation order -/
theorem wf_toProg (p : BuildAlg.Prog) (hwf : BuildAlg.WF p) (argsOf : List (Nat × List Nat)) :
    Prog.WF (toProg p argsOf).nodes := by
  intro k n hn
  rw [nodeAt_toProg] at hn
  cases hk : p.nodes[k]? with
  | none => rw [hk] at hn; cases hn
  | some pn =>
    rw [hk] at hn
    simp only [Option.map_some, Option.some.injEq] at hn
    subst hn
    constructor
    · intro r hr
      simp only [toPNode, List.mem_map] at hr
      obtain ⟨i, hi, he⟩ := hr
      cases he
      have : i ∈ p.inputs k := by simp only [BuildAlg.Prog.inputs, hk]; exact hi
      exact hwf.inputs_lt k i this
    · intro g hg r hr
      simp only [toPNode, List.mem_map] at hg
      obtain ⟨s, hs, rfl⟩ := hg
      simp only [toPGraph, List.mem_map] at hr
      obtain ⟨i, hi, rfl⟩ := hr
      have : s ∈ p.subs k := by simp only [BuildAlg.Prog.subs, hk]; exact hs
      exact hwf.subs_res_lt k s this i hi

end Bridge
