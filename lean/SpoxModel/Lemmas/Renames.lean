import SpoxModel.Model.Renames
/-! Helper lemmas for C12/C03: what running the fixed-shape `_temporary_renames` IR does. -/
namespace Renames

/-- `pre` after the entry loop of the fixed shape: first occurrences, with the names before. -/
def preOf (kw : List (String × Nat)) (s : Store) : Pre :=
  kw.foldl (fun p e => p.setdefault e.2 (s e.2)) []

/-- the `finally` loop -/
def restore (p : Pre) (s : Store) : Store := p.foldl (fun st e => st.set e.1 e.2) s

theorem has_nil (v : Nat) : Pre.has [] v = false := rfl

theorem has_cons (w : Nat) (n : Option String) (p : Pre) (v : Nat) :
    Pre.has ((w, n) :: p) v = (w == v || Pre.has p v) := by
  simp [Pre.has]

theorem has_append_single (p : Pre) (w : Nat) (n : Option String) (v : Nat) :
    Pre.has (p ++ [(w, n)]) v = (Pre.has p v || w == v) := by
  simp [Pre.has]

theorem has_setdefault (p : Pre) (w : Nat) (n : Option String) (v : Nat) :
    Pre.has (p.setdefault w n) v = (Pre.has p v || w == v) := by
  unfold Pre.setdefault
  by_cases h : Pre.has p w = true
  · rw [if_pos h]
    by_cases hv : w = v
    · subst hv; simp [h]
    · simp [hv]
  · rw [if_neg h, has_append_single]

theorem set_same (s : Store) (v : Nat) (n : Option String) : Store.set s v n v = n := by
  simp [Store.set]

theorem set_other (s : Store) (v w : Nat) (n : Option String) (h : w ≠ v) :
    Store.set s v n w = s w := by
  simp [Store.set, h]

/-- the entry fold of `pre`, from an arbitrary starting dictionary -/
def preFrom (kw : List (String × Nat)) (s : Store) (p : Pre) : Pre :=
  kw.foldl (fun p e => p.setdefault e.2 (s e.2)) p

/-- The entry loop of the fixed shape, from an arbitrary frame in which every Var that is not yet a
    key of `pre` still carries its original name. -/
theorem loopKw_fixed {β} (kw : List (String × Nat)) (s : Store) :
    ∀ (f : Frame β), (∀ v, Pre.has f.pre v = false → f.store v = s v) →
      loopKw [.recordFirst, .renameToKey] kw f = ⟨enter kw f.store, preFrom kw s f.pre, f.ret⟩ := by
  induction kw with
  | nil => intro f _; rfl
  | cons e rest ih =>
    obtain ⟨k, v⟩ := e
    intro f hf
    simp only [loopKw, execKw]
    rw [ih]
    · simp only [enter, preFrom, List.foldl_cons]
      have : f.pre.setdefault v (f.store v) = f.pre.setdefault v (s v) := by
        unfold Pre.setdefault
        by_cases h : Pre.has f.pre v = true
        · rw [if_pos h, if_pos h]
        · have h' : Pre.has f.pre v = false := by simpa using h
          rw [hf v h']
      rw [this]
    · intro w hw
      simp only at hw ⊢
      rw [has_setdefault] at hw
      have h1 : Pre.has f.pre w = false := by
        cases hh : Pre.has f.pre w
        · rfl
        · rw [hh] at hw; simp at hw
      have h2 : w ≠ v := by
        intro heq; subst heq; simp at hw
      rw [set_other _ _ _ _ h2]
      exact hf w h1

/-- The fixed shape, unfolded: rename on entry, run the body, restore the saved names. -/
theorem run_fixed {β} (kw : List (String × Nat)) (body : Store → Store × Outcome × β) (s : Store) :
    run fixedIR kw body s =
      (restore (preOf kw s) (body (enter kw s)).1, (body (enter kw s)).2.1, some (body (enter kw s)).2.2) := by
  have hl := loopKw_fixed (β := β) kw s ⟨s, [], none⟩ (fun _ _ => rfl)
  simp only [run, fixedIR, exec, execStmt]
  rw [hl]
  simp only
  generalize body (enter kw s) = r
  obtain ⟨s1, o, b⟩ := r
  have hr : ∀ (p : Pre) (f : Frame β),
      loopPre [.renameToSaved] p f = ⟨restore p f.store, f.pre, f.ret⟩ := by
    intro p
    induction p with
    | nil => intro f; rfl
    | cons e rest ih =>
      obtain ⟨v, n⟩ := e
      intro f
      simp only [loopPre, execPre]
      rw [ih]
      simp [restore]
  cases o <;> simp [hr, preOf, preFrom]

theorem restore_spec (s : Store) (p : Pre) :
    ∀ (st : Store), (∀ e ∈ p, e.2 = s e.1) →
      ∀ v, restore p st v = if Pre.has p v = true then s v else st v := by
  induction p with
  | nil => intro st _ v; simp [restore, has_nil]
  | cons e rest ih =>
    obtain ⟨w, n⟩ := e
    intro st h v
    have hrest : ∀ e ∈ rest, e.2 = s e.1 := fun e he => h e (List.mem_cons_of_mem _ he)
    have hn : n = s w := h (w, n) List.mem_cons_self
    have : restore ((w, n) :: rest) st = restore rest (st.set w n) := by simp [restore]
    rw [this, ih _ hrest, has_cons]
    by_cases hr : Pre.has rest v = true
    · simp [hr]
    · by_cases hv : w = v
      · subst hv; simp [hr, set_same, hn]
      · have hv' : v ≠ w := fun h => hv h.symm
        simp [hr, hv, set_other _ _ _ _ hv']

theorem restore_enter_gen (s : Store) (kw : List (String × Nat)) :
    ∀ (p : Pre) (st : Store), (∀ e ∈ p, e.2 = s e.1) → (∀ v, Pre.has p v = false → st v = s v) →
      restore (preFrom kw s p) (enter kw st) = s := by
  induction kw with
  | nil =>
    intro p st hp hst
    funext v
    simp only [preFrom, enter, List.foldl_nil]
    rw [restore_spec s p st hp v]
    by_cases h : Pre.has p v = true
    · rw [if_pos h]
    · rw [if_neg h]; exact hst v (by simpa using h)
  | cons e rest ih =>
    obtain ⟨k, w⟩ := e
    intro p st hp hst
    simp only [preFrom, enter, List.foldl_cons]
    apply ih
    · intro e he
      unfold Pre.setdefault at he
      by_cases h : Pre.has p w = true
      · rw [if_pos h] at he; exact hp e he
      · rw [if_neg h] at he
        rcases List.mem_append.mp he with he | he
        · exact hp e he
        · simp only [List.mem_singleton] at he
          subst he; rfl
    · intro v hv
      rw [has_setdefault] at hv
      have h1 : Pre.has p v = false := by
        cases hh : Pre.has p v
        · rfl
        · rw [hh] at hv; simp at hv
      have h2 : v ≠ w := by
        intro heq; subst heq; simp at hv
      rw [set_other _ _ _ _ h2]
      exact hst v h1

/-- Restoring after entering gives back the original names (also with repeated Vars). -/
theorem restore_enter (kw : List (String × Nat)) (s : Store) :
    restore (preOf kw s) (enter kw s) = s :=
  restore_enter_gen s kw [] s (fun _ h => by cases h) (fun _ _ => rfl)

theorem enter_unlisted (kw : List (String × Nat)) (s : Store) (v : Nat) (h : v ∉ kw.map (·.2)) :
    enter kw s v = s v := by
  induction kw generalizing s with
  | nil => rfl
  | cons e rest ih =>
    obtain ⟨k, w⟩ := e
    simp only [List.map_cons, List.mem_cons, not_or] at h
    have : enter ((k, w) :: rest) s = enter rest (s.set w (some k)) := by simp [enter]
    rw [this, ih _ h.2, set_other _ _ _ _ h.1]

/-- The name of a listed Var inside the block is its key, if no Var is listed twice. -/
theorem enter_listed (kw : List (String × Nat)) (s : Store) (h : (kw.map (·.2)).Nodup)
    (k : String) (v : Nat) (hm : (k, v) ∈ kw) : enter kw s v = some k := by
  induction kw generalizing s with
  | nil => cases hm
  | cons e rest ih =>
    obtain ⟨k', w⟩ := e
    simp only [List.map_cons, List.nodup_cons] at h
    have : enter ((k', w) :: rest) s = enter rest (s.set w (some k')) := by simp [enter]
    rw [this]
    rcases List.mem_cons.mp hm with heq | hin
    · cases heq
      rw [enter_unlisted _ _ _ h.1, set_same]
    · exact ih _ h.2 hin

end Renames
