import SpoxModel.Model.Renames
/-! Helper lemmas for C12/C03: what running the fixed-shape `_temporary_renames` IR does. -/
namespace Renames

/-- `pre` after the entry loop of the fixed shape: first occurrences, with the names before. -/
def preOf (kw : List (String × Nat)) (s : Store) : Pre :=
  kw.foldl (fun p e => p.setdefault e.2 (s e.2)) []

/-- the `finally` loop -/
def restore (p : Pre) (s : Store) : Store := p.foldl (fun st e => st.set e.1 e.2) s

/-- The fixed shape, unfolded: rename on entry, run the body, restore the saved names. -/
theorem run_fixed {β} (kw : List (String × Nat)) (body : Store → Store × Outcome × β) (s : Store) :
    run fixedIR kw body s =
      (restore (preOf kw s) (body (enter kw s)).1, (body (enter kw s)).2.1, some (body (enter kw s)).2.2) := by
  sorry

/-- Restoring after entering gives back the original names (also with repeated Vars). -/
theorem restore_enter (kw : List (String × Nat)) (s : Store) :
    restore (preOf kw s) (enter kw s) = s := by
  sorry

/-- The name of a listed Var inside the block is its key, if no Var is listed twice. -/
theorem enter_listed (kw : List (String × Nat)) (s : Store) (h : (kw.map (·.2)).Nodup)
    (k : String) (v : Nat) (hm : (k, v) ∈ kw) : enter kw s v = some k := by
  sorry

theorem enter_unlisted (kw : List (String × Nat)) (s : Store) (v : Nat) (h : v ∉ kw.map (·.2)) :
    enter kw s v = s v := by
  sorry

end Renames
