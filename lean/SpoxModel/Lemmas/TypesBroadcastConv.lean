import SpoxModel.Lemmas.Types
import SpoxModel.Model.TypesGlue
/-! Helper lemmas for C13, round 10: the converse of `broadcast_raises_only_if_impossible` — whenever the
    static broadcast succeeds there ARE conforming runtime shapes that numpy broadcasts (witness
    construction, any ranks), and the tightness of the claimed dimensions. -/
namespace Types

theorem bElem_witness (x y z : Natural) (h : bElem x y = some z) :
    ∃ a b c, conf a x ∧ conf b y ∧ npElem a b = some c := by
  cases x with
  | const n =>
    cases y with
    | const m =>
      refine ⟨n, m, (npElem n m).getD 0, rfl, rfl, ?_⟩
      grind [bElem, npElem]
    | unk l => exact ⟨n, n, n, rfl, trivial, by simp [npElem]⟩
  | unk l =>
    cases y with
    | const m => exact ⟨m, m, m, trivial, rfl, by simp [npElem]⟩
    | unk l' => exact ⟨1, 1, 1, trivial, trivial, by simp [npElem]⟩

/-- equal lengths: a successful `bZip` has conforming concrete shapes that numpy's `zip` rule accepts -/
theorem bZip_witness : (xs ys zs : List Natural) → xs.length = ys.length → bZip xs ys = some zs →
    ∃ sx sy s, confDims sx xs ∧ confDims sy ys ∧ npZip sx sy = some s
  | [], [], _, _, _ => ⟨[], [], [], trivial, trivial, rfl⟩
  | [], _ :: _, _, h, _ => by simp at h
  | _ :: _, [], _, h, _ => by simp at h
  | x :: xs, y :: ys, zs, hl, h => by
    simp only [List.length_cons, Nat.add_right_cancel_iff] at hl
    simp only [bZip] at h
    cases hxy : bElem x y with
    | none => simp [hxy] at h
    | some z =>
      simp only [hxy, Option.map_eq_some_iff] at h
      obtain ⟨zs', hzs, _⟩ := h
      obtain ⟨a, b, c, ha, hb, hc⟩ := bElem_witness x y z hxy
      obtain ⟨sx, sy, s, hsx, hsy, hs⟩ := bZip_witness xs ys zs' hl hzs
      exact ⟨a :: sx, b :: sy, c :: s, ⟨ha, hsx⟩, ⟨hb, hsy⟩, by simp [npZip, hc, hs]⟩

/-- the shorter operand padded on the left with `k` ones (what `Shape.broadcast` does) -/
theorem bZip_pad_witness : (k : Nat) → (a b zs : List Natural) → b.length = k + a.length →
    bZip (List.replicate k (.const 1) ++ a) b = some zs →
    ∃ sa sb s, confDims sa a ∧ confDims sb b ∧ npZip (List.replicate k 1 ++ sa) sb = some s
  | 0, a, b, zs, hl, h => by
    simp only [List.replicate_zero, List.nil_append] at h ⊢
    exact bZip_witness a b zs (by omega) h
  | k + 1, a, [], _, hl, _ => by simp at hl; omega
  | k + 1, a, y :: ys, zs, hl, h => by
    simp only [List.length_cons] at hl
    simp only [List.replicate_succ, List.cons_append, bZip] at h
    cases hxy : bElem (.const 1) y with
    | none => simp [hxy] at h
    | some z =>
      simp only [hxy, Option.map_eq_some_iff] at h
      obtain ⟨zs', hzs, _⟩ := h
      obtain ⟨sa, sb, s, hsa, hsb, hs⟩ := bZip_pad_witness k a ys zs' (by omega) hzs
      refine ⟨sa, dimInh y :: sb, dimInh y :: s, hsa, ⟨conf_dimInh y, hsb⟩, ?_⟩
      have : npElem 1 (dimInh y) = some (dimInh y) := by grind [npElem]
      simp [List.replicate_succ, npZip, this, hs]

theorem npZip_self : (s : List Nat) → npZip s s = some s
  | [] => rfl
  | x :: xs => by simp [npZip, npElem, npZip_self xs]

theorem npBroadcast_self (s : List Nat) : npBroadcast s s = some s := by
  simp [npBroadcast, npZip_self]

/-- **Converse of `broadcast_raises_only_if_impossible`**: a static broadcast that succeeds is justified by
    concrete conforming shapes that numpy broadcasts. -/
theorem broadcast_possible (a b c : Shape) (h : broadcast a b = some c) :
    ∃ sa sb s, confShape sa a ∧ confShape sb b ∧ npBroadcast sa sb = some s := by
  cases a with
  | none =>
    exact ⟨meetShape b none, meetShape b none, meetShape b none, trivial, confShape_inh b, npBroadcast_self _⟩
  | some xa =>
    cases b with
    | none =>
      exact ⟨meetShape (some xa) none, meetShape (some xa) none, _, confShape_inh (some xa), trivial,
        npBroadcast_self _⟩
    | some xb =>
      simp only [broadcast] at h
      by_cases hgt : xa.length > xb.length
      · simp only [hgt, if_true, Option.map_eq_some_iff] at h
        obtain ⟨zc, hz, _⟩ := h
        obtain ⟨sb, sa, s, hsb, hsa, hs⟩ := bZip_pad_witness (xa.length - xb.length) xb xa zc (by omega) hz
        have la := confDims_length sa xa hsa
        have lb := confDims_length sb xb hsb
        refine ⟨sa, sb, s, hsa, hsb, ?_⟩
        have h1 : max sa.length sb.length - sa.length = 0 := by omega
        have h2 : max sa.length sb.length - sb.length = xa.length - xb.length := by omega
        simp only [npBroadcast, h1, h2, List.replicate_zero, List.nil_append]
        rw [npZip_comm]; exact hs
      · simp only [hgt, if_false, Option.map_eq_some_iff] at h
        obtain ⟨zc, hz, _⟩ := h
        obtain ⟨sa, sb, s, hsa, hsb, hs⟩ := bZip_pad_witness (xb.length - xa.length) xa xb zc (by omega) hz
        have la := confDims_length sa xa hsa
        have lb := confDims_length sb xb hsb
        refine ⟨sa, sb, s, hsa, hsb, ?_⟩
        have h1 : max sa.length sb.length - sb.length = 0 := by omega
        have h2 : max sa.length sb.length - sa.length = xb.length - xa.length := by omega
        simp only [npBroadcast, h1, h2, List.replicate_zero, List.nil_append]
        exact hs

end Types

/-! ### Round 10: dimension-wise characterisation of `Shape.broadcast`, counted from the right -/
namespace Types

theorem rdim_pad (k : Nat) (a : List Natural) (i : Nat) :
    rdim (List.replicate k (.const 1) ++ a) i = rdim a i := by
  simp only [rdim, List.reverse_append, List.reverse_replicate]
  by_cases h : i < a.reverse.length
  · rw [List.getElem?_append_left h]
  · rw [List.getElem?_append_right (by omega)]
    have h2 : a.reverse[i]? = none := List.getElem?_eq_none (by omega)
    rw [h2]
    simp only [List.getElem?_replicate]
    split <;> simp

theorem bZip_getElem : (xs ys zs : List Natural) → xs.length = ys.length → bZip xs ys = some zs →
    zs.length = xs.length ∧
      ∀ (i : Nat) (x y : Natural), xs[i]? = some x → ys[i]? = some y → ∃ z, zs[i]? = some z ∧ bElem x y = some z
  | [], [], zs, _, h => by
    simp [bZip] at h; subst h; simp
  | [], _ :: _, _, hl, _ => by simp at hl
  | _ :: _, [], _, hl, _ => by simp at hl
  | x :: xs, y :: ys, zs, hl, h => by
    simp only [List.length_cons, Nat.add_right_cancel_iff] at hl
    simp only [bZip] at h
    cases hxy : bElem x y with
    | none => simp [hxy] at h
    | some z =>
      simp only [hxy, Option.map_eq_some_iff] at h
      obtain ⟨zs', hzs, rfl⟩ := h
      obtain ⟨hlen, hi⟩ := bZip_getElem xs ys zs' hl hzs
      refine ⟨by simp [hlen], ?_⟩
      intro i x' y' hx hy
      cases i with
      | zero =>
        simp only [List.getElem?_cons_zero, Option.some.injEq] at hx hy
        subst hx; subst hy
        exact ⟨z, by simp, hxy⟩
      | succ j =>
        simp only [List.getElem?_cons_succ] at hx hy ⊢
        exact hi j x' y' hx hy

theorem bZip_rdim (xs ys zs : List Natural) (hl : xs.length = ys.length) (h : bZip xs ys = some zs) (i : Nat) :
    bElem (rdim xs i) (rdim ys i) = some (rdim zs i) := by
  obtain ⟨hlen, hi⟩ := bZip_getElem xs ys zs hl h
  simp only [rdim]
  by_cases hlt : i < xs.length
  · have hx : xs.reverse[i]? = xs[xs.length - 1 - i]? := List.getElem?_reverse hlt
    have hy : ys.reverse[i]? = ys[ys.length - 1 - i]? := List.getElem?_reverse (by omega)
    have hz : zs.reverse[i]? = zs[zs.length - 1 - i]? := List.getElem?_reverse (by omega)
    have hxi : xs.length - 1 - i < xs.length := by omega
    have hyi : xs.length - 1 - i < ys.length := by omega
    obtain ⟨z, hz', hb⟩ := hi (xs.length - 1 - i) xs[xs.length - 1 - i] ys[xs.length - 1 - i]
      (List.getElem?_eq_getElem hxi) (List.getElem?_eq_getElem hyi)
    rw [hx, hy, hz, hlen, ← hl, hz', List.getElem?_eq_getElem hxi, List.getElem?_eq_getElem hyi]
    simpa using hb
  · have hx : xs.reverse[i]? = none := List.getElem?_eq_none (by simp; omega)
    have hy : ys.reverse[i]? = none := List.getElem?_eq_none (by simp; omega)
    have hz : zs.reverse[i]? = none := List.getElem?_eq_none (by simp; omega)
    rw [hx, hy, hz]; simp [bElem]

/-- `Shape.broadcast` on shapes of known rank, dimension by dimension from the right: the rank is the larger
    rank and dimension `-1-i` of the result is `_broadcast_elem` of the operands' dimensions `-1-i`
    (a missing axis counts as 1). -/
theorem broadcast_dimwise (a b c : List Natural) (h : broadcast (some a) (some b) = some (some c)) :
    c.length = max a.length b.length ∧ ∀ i, bElem (rdim a i) (rdim b i) = some (rdim c i) := by
  simp only [broadcast] at h
  by_cases hgt : a.length > b.length
  · simp only [hgt, if_true, Option.map_eq_some_iff, Option.some.injEq] at h
    obtain ⟨zc, hz, rfl⟩ := h
    have hl : (List.replicate (a.length - b.length) (Natural.const 1) ++ b).length = a.length := by
      simp only [List.length_append, List.length_replicate]; omega
    obtain ⟨hlen, _⟩ := bZip_getElem _ _ _ hl hz
    refine ⟨by rw [hlen, hl]; omega, fun i => ?_⟩
    have := bZip_rdim _ _ _ hl hz i
    rw [rdim_pad, bElem_comm] at this
    exact this
  · simp only [hgt, if_false, Option.map_eq_some_iff, Option.some.injEq] at h
    obtain ⟨zc, hz, rfl⟩ := h
    have hl : (List.replicate (b.length - a.length) (Natural.const 1) ++ a).length = b.length := by
      simp only [List.length_append, List.length_replicate]; omega
    obtain ⟨hlen, _⟩ := bZip_getElem _ _ _ hl hz
    refine ⟨by rw [hlen, hl]; omega, fun i => ?_⟩
    have := bZip_rdim _ _ _ hl hz i
    rw [rdim_pad] at this
    exact this

/-- `rdim` is the real `__getitem__` with the negative index `-1-i` wherever that axis exists -/
theorem rdim_getItem (l : List Natural) (i : Nat) (h : i < l.length) :
    Shape.getItem (some l) (-1 - (i : Int)) = some (rdim l i) := by
  have hneg : ¬ (0 : Int) ≤ -1 - (i : Int) := by omega
  have habs : (-1 - (i : Int)).natAbs = i + 1 := by omega
  simp only [Shape.getItem, hneg, if_false, habs, rdim]
  have hle : i + 1 ≤ l.length := by omega
  rw [if_pos hle, List.getElem?_reverse h]
  have : l.length - (i + 1) = l.length - 1 - i := by omega
  rw [this, List.getElem?_eq_getElem (by omega)]
  simp

/-- a failing `bZip` of equally long lists fails at some position -/
theorem bZip_none_getElem : (xs ys : List Natural) → xs.length = ys.length → bZip xs ys = none →
    ∃ (i : Nat) (x y : Natural), xs[i]? = some x ∧ ys[i]? = some y ∧ bElem x y = none
  | [], [], _, h => by simp [bZip] at h
  | [], _ :: _, hl, _ => by simp at hl
  | _ :: _, [], hl, _ => by simp at hl
  | x :: xs, y :: ys, hl, h => by
    simp only [List.length_cons, Nat.add_right_cancel_iff] at hl
    simp only [bZip] at h
    cases hxy : bElem x y with
    | none => exact ⟨0, x, y, by simp, by simp, hxy⟩
    | some z =>
      simp only [hxy, Option.map_eq_none_iff] at h
      obtain ⟨i, x', y', hx, hy, hb⟩ := bZip_none_getElem xs ys hl h
      exact ⟨i + 1, x', y', by simpa using hx, by simpa using hy, hb⟩

theorem bZip_none_rdim (xs ys : List Natural) (hl : xs.length = ys.length) (h : bZip xs ys = none) :
    ∃ i, bElem (rdim xs i) (rdim ys i) = none := by
  obtain ⟨i, x, y, hx, hy, hb⟩ := bZip_none_getElem xs ys hl h
  have hi : i < xs.length := by
    cases hlt : decide (i < xs.length) with
    | true => simpa using hlt
    | false =>
      have : xs[i]? = none := List.getElem?_eq_none (by simpa using hlt)
      rw [this] at hx; cases hx
  refine ⟨xs.length - 1 - i, ?_⟩
  have hj : xs.length - 1 - i < xs.length := by omega
  have e1 : xs.length - 1 - (xs.length - 1 - i) = i := by omega
  have e2 : ys.length - 1 - (xs.length - 1 - i) = i := by omega
  simp only [rdim]
  rw [List.getElem?_reverse hj, List.getElem?_reverse (by omega), e1, e2, hx, hy]
  simpa using hb

/-- **`Shape.broadcast` raises exactly when some right-aligned axis clashes** (known ranks). -/
theorem broadcast_none_iff_clash (a b : List Natural) :
    broadcast (some a) (some b) = none ↔ ∃ i, bElem (rdim a i) (rdim b i) = none := by
  constructor
  · intro h
    simp only [broadcast] at h
    by_cases hgt : a.length > b.length
    · simp only [hgt, if_true, Option.map_eq_none_iff] at h
      have hl : (List.replicate (a.length - b.length) (Natural.const 1) ++ b).length = a.length := by
        simp only [List.length_append, List.length_replicate]; omega
      obtain ⟨i, hi⟩ := bZip_none_rdim _ _ hl h
      rw [rdim_pad, bElem_comm] at hi
      exact ⟨i, hi⟩
    · simp only [hgt, if_false, Option.map_eq_none_iff] at h
      have hl : (List.replicate (b.length - a.length) (Natural.const 1) ++ a).length = b.length := by
        simp only [List.length_append, List.length_replicate]; omega
      obtain ⟨i, hi⟩ := bZip_none_rdim _ _ hl h
      rw [rdim_pad] at hi
      exact ⟨i, hi⟩
  · intro ⟨i, hi⟩
    cases hb : broadcast (some a) (some b) with
    | none => rfl
    | some c =>
      cases c with
      | none =>
        simp only [broadcast] at hb
        split at hb <;> simp at hb
      | some c =>
        have := (broadcast_dimwise a b c hb).2 i
        rw [hi] at this; cases this

end Types
