import SpoxModel.Lemmas.Types
/-! Helper lemmas for C13, round 10: the converse of `broadcast_raises_only_if_impossible` — whenever the
    static broadcast succeeds there ARE conforming runtime shapes that numpy broadcasts (witness
    construction, any ranks), and the tightness of the claimed dimensions. -/
namespace Types

theorem bElem_witness (x y z : Natural) (h : bElem x y = some z) :
    ∃ a b c, conf a x ∧ conf b y ∧ npElem a b = some c := by
  cases x with
  | const n =>
    cases y with
    | const m =>
      refine ⟨n, m, (npElem n m).getD 0, rfl, rfl, ?_⟩
      grind [bElem, npElem]
    | unk l => exact ⟨n, n, n, rfl, trivial, by simp [npElem]⟩
  | unk l =>
    cases y with
    | const m => exact ⟨m, m, m, trivial, rfl, by simp [npElem]⟩
    | unk l' => exact ⟨1, 1, 1, trivial, trivial, by simp [npElem]⟩

/-- equal lengths: a successful `bZip` has conforming concrete shapes that numpy's `zip` rule accepts -/
theorem bZip_witness : (xs ys zs : List Natural) → xs.length = ys.length → bZip xs ys = some zs →
    ∃ sx sy s, confDims sx xs ∧ confDims sy ys ∧ npZip sx sy = some s
  | [], [], _, _, _ => ⟨[], [], [], trivial, trivial, rfl⟩
  | [], _ :: _, _, h, _ => by simp at h
  | _ :: _, [], _, h, _ => by simp at h
  | x :: xs, y :: ys, zs, hl, h => by
    simp only [List.length_cons, Nat.add_right_cancel_iff] at hl
    simp only [bZip] at h
    cases hxy : bElem x y with
    | none => simp [hxy] at h
    | some z =>
      simp only [hxy, Option.map_eq_some_iff] at h
      obtain ⟨zs', hzs, _⟩ := h
      obtain ⟨a, b, c, ha, hb, hc⟩ := bElem_witness x y z hxy
      obtain ⟨sx, sy, s, hsx, hsy, hs⟩ := bZip_witness xs ys zs' hl hzs
      exact ⟨a :: sx, b :: sy, c :: s, ⟨ha, hsx⟩, ⟨hb, hsy⟩, by simp [npZip, hc, hs]⟩

/-- the shorter operand padded on the left with `k` ones (what `Shape.broadcast` does) -/
theorem bZip_pad_witness : (k : Nat) → (a b zs : List Natural) → b.length = k + a.length →
    bZip (List.replicate k (.const 1) ++ a) b = some zs →
    ∃ sa sb s, confDims sa a ∧ confDims sb b ∧ npZip (List.replicate k 1 ++ sa) sb = some s
  | 0, a, b, zs, hl, h => by
    simp only [List.replicate_zero, List.nil_append] at h ⊢
    exact bZip_witness a b zs (by omega) h
  | k + 1, a, [], _, hl, _ => by simp at hl; omega
  | k + 1, a, y :: ys, zs, hl, h => by
    simp only [List.length_cons] at hl
    simp only [List.replicate_succ, List.cons_append, bZip] at h
    cases hxy : bElem (.const 1) y with
    | none => simp [hxy] at h
    | some z =>
      simp only [hxy, Option.map_eq_some_iff] at h
      obtain ⟨zs', hzs, _⟩ := h
      obtain ⟨sa, sb, s, hsa, hsb, hs⟩ := bZip_pad_witness k a ys zs' (by omega) hzs
      refine ⟨sa, dimInh y :: sb, dimInh y :: s, hsa, ⟨conf_dimInh y, hsb⟩, ?_⟩
      have : npElem 1 (dimInh y) = some (dimInh y) := by grind [npElem]
      simp [List.replicate_succ, npZip, this, hs]

theorem npZip_self : (s : List Nat) → npZip s s = some s
  | [] => rfl
  | x :: xs => by simp [npZip, npElem, npZip_self xs]

theorem npBroadcast_self (s : List Nat) : npBroadcast s s = some s := by
  simp [npBroadcast, npZip_self]

/-- **Converse of `broadcast_raises_only_if_impossible`**: a static broadcast that succeeds is justified by
    concrete conforming shapes that numpy broadcasts. -/
theorem broadcast_possible (a b c : Shape) (h : broadcast a b = some c) :
    ∃ sa sb s, confShape sa a ∧ confShape sb b ∧ npBroadcast sa sb = some s := by
  cases a with
  | none =>
    exact ⟨meetShape b none, meetShape b none, meetShape b none, trivial, confShape_inh b, npBroadcast_self _⟩
  | some xa =>
    cases b with
    | none =>
      exact ⟨meetShape (some xa) none, meetShape (some xa) none, _, confShape_inh (some xa), trivial,
        npBroadcast_self _⟩
    | some xb =>
      simp only [broadcast] at h
      by_cases hgt : xa.length > xb.length
      · simp only [hgt, if_true, Option.map_eq_some_iff] at h
        obtain ⟨zc, hz, _⟩ := h
        obtain ⟨sb, sa, s, hsb, hsa, hs⟩ := bZip_pad_witness (xa.length - xb.length) xb xa zc (by omega) hz
        have la := confDims_length sa xa hsa
        have lb := confDims_length sb xb hsb
        refine ⟨sa, sb, s, hsa, hsb, ?_⟩
        have h1 : max sa.length sb.length - sa.length = 0 := by omega
        have h2 : max sa.length sb.length - sb.length = xa.length - xb.length := by omega
        simp only [npBroadcast, h1, h2, List.replicate_zero, List.nil_append]
        rw [npZip_comm]; exact hs
      · simp only [hgt, if_false, Option.map_eq_some_iff] at h
        obtain ⟨zc, hz, _⟩ := h
        obtain ⟨sa, sb, s, hsa, hsb, hs⟩ := bZip_pad_witness (xb.length - xa.length) xa xb zc (by omega) hz
        have la := confDims_length sa xa hsa
        have lb := confDims_length sb xb hsb
        refine ⟨sa, sb, s, hsa, hsb, ?_⟩
        have h1 : max sa.length sb.length - sb.length = 0 := by omega
        have h2 : max sa.length sb.length - sa.length = xb.length - xa.length := by omega
        simp only [npBroadcast, h1, h2, List.replicate_zero, List.nil_append]
        exact hs

end Types
