import SpoxModel.Lemmas.InlineRename
/-! Helper lemmas for C08: in a name space free of the `<node>__` family the memoised renaming
    cannot raise and yields exactly `<node>__<name>`. -/
namespace Inline

theorem str_append_cancel_left (a b c : String) (h : a ++ b = a ++ c) : b = c := by
  have := congrArg String.toList h
  simp only [String.toList_append] at this
  exact String.toList_inj.mp (List.append_cancel_left this)

theorem prefixed_append (p n : String) : prefixed p (p ++ n) = true := by
  unfold prefixed
  rw [String.toList_append, List.isPrefixOf_iff_prefix]
  exact List.prefix_append _ _

/-- invariant of `assign` started in a prefix-free space `s0` -/
structure TInv (pfx : String) (s0 s : Space) (tbl : List (String × String)) : Prop where
  used : ∀ x ∈ s.used, x ∈ s0.used ∨ ∃ k ∈ tbl.map (·.1), x = pfx ++ "__" ++ k
  ctr : ∀ c ∈ s.counters, c ∈ s0.counters ∨ ∃ k ∈ tbl.map (·.1), c.1 = pfx ++ "__" ++ k
  img : ∀ p ∈ tbl, p.2 = if p.1 = "" then "" else pfx ++ "__" ++ p.1

theorem assign_total (pfx : String) (s0 : Space) (hf : s0.prefixFree pfx = true)
    (reqs : List String) : ∀ (s : Space) (tbl : List (String × String)), TInv pfx s0 s tbl →
    ∃ tbl' s', assign pfx reqs s tbl = .ok (tbl', s') ∧ TInv pfx s0 s' tbl' ∧
      (∀ p ∈ tbl, p ∈ tbl') ∧ (∀ r ∈ reqs, r ∈ tbl'.map (·.1)) := by
  have hfu : ∀ x ∈ s0.used, ∀ n, x ≠ pfx ++ "__" ++ n := by
    intro x hx n e
    simp only [Space.prefixFree, Bool.and_eq_true, List.all_eq_true] at hf
    have := hf.1 x hx
    rw [e, prefixed_append] at this
    simp at this
  have hfc : ∀ c ∈ s0.counters, ∀ n, c.1 ≠ pfx ++ "__" ++ n := by
    intro c hc n e
    simp only [Space.prefixFree, Bool.and_eq_true, List.all_eq_true] at hf
    have := hf.2 c hc
    rw [e, prefixed_append] at this
    simp at this
  induction reqs with
  | nil => intro s tbl hi; exact ⟨tbl, s, rfl, hi, fun _ h => h, by intro r hr; cases hr⟩
  | cons n ns ih =>
    intro s tbl hi
    simp only [assign]
    cases hl : tbl.lookup n with
    | some v =>
      obtain ⟨tbl', s', h1, h2, h3, h4⟩ := ih s tbl hi
      refine ⟨tbl', s', h1, h2, h3, ?_⟩
      intro r hr
      cases hr with
      | head => exact List.mem_map.mpr ⟨(n, v), h3 _ (lookup_mem _ _ _ hl), rfl⟩
      | tail _ hr' => exact h4 r hr'
    | none =>
      have hnk : n ∉ tbl.map (·.1) := by
        intro hm
        obtain ⟨v, hv⟩ := lookup_isSome_of_mem_keys _ _ hm
        rw [hl] at hv; cases hv
      by_cases hn : n = ""
      · subst hn
        have hr : s.reservePrefixed pfx "" = .ok ("", s) := by simp [Space.reservePrefixed]
        simp only [hr]
        have hi1 : TInv pfx s0 s (("", "") :: tbl) := by
          refine ⟨?_, ?_, ?_⟩
          · intro x hx
            rcases hi.used x hx with h | ⟨k, hk, e⟩
            · exact Or.inl h
            · exact Or.inr ⟨k, List.mem_cons_of_mem _ hk, e⟩
          · intro c hc
            rcases hi.ctr c hc with h | ⟨k, hk, e⟩
            · exact Or.inl h
            · exact Or.inr ⟨k, List.mem_cons_of_mem _ hk, e⟩
          · intro p hp
            cases hp with
            | head => simp
            | tail _ hp' => exact hi.img p hp'
        obtain ⟨tbl', s', h1, h2, h3, h4⟩ := ih s _ hi1
        refine ⟨tbl', s', h1, h2, fun p hp => h3 p (List.mem_cons_of_mem _ hp), ?_⟩
        intro r hr
        cases hr with
        | head => exact List.mem_map.mpr ⟨("", ""), h3 _ (List.mem_cons_self ..), rfl⟩
        | tail _ hr' => exact h4 r hr'
      · -- the base is neither counted nor visible
        have hbase_ctr : s.counters.lookup (pfx ++ "__" ++ n) = none := by
          apply lookup_none_of_not_mem
          intro hm
          obtain ⟨c, hc, e⟩ := List.mem_map.mp hm
          rcases hi.ctr c hc with h | ⟨k, hk, e'⟩
          · exact hfc c h n e
          · have : k = n := str_append_cancel_left _ _ _ (e'.symm.trans e)
            exact hnk (this ▸ hk)
        have hbase_used : pfx ++ "__" ++ n ∉ s.used := by
          intro hx
          rcases hi.used _ hx with h | ⟨k, hk, e'⟩
          · exact hfu _ h n rfl
          · have : n = k := str_append_cancel_left _ _ _ e'
            exact hnk (this ▸ hk)
        have hme : s.maybeEnum (pfx ++ "__" ++ n) =
            (pfx ++ "__" ++ n, { s with counters := (pfx ++ "__" ++ n, 0) :: s.counters }) := by
          simp [Space.maybeEnum, hbase_ctr]
        have hr : s.reservePrefixed pfx n = .ok (pfx ++ "__" ++ n,
            (⟨(pfx ++ "__" ++ n) :: s.used, (pfx ++ "__" ++ n, 0) :: s.counters⟩ : Space)) := by
          simp [Space.reservePrefixed, hn, hme, Space.reserve, hbase_used]
        simp only [hr]
        have hi1 : TInv pfx s0 (⟨(pfx ++ "__" ++ n) :: s.used, (pfx ++ "__" ++ n, 0) :: s.counters⟩ : Space)
            ((n, pfx ++ "__" ++ n) :: tbl) := by
          refine ⟨?_, ?_, ?_⟩
          · intro x hx
            cases hx with
            | head => exact Or.inr ⟨n, by simp, rfl⟩
            | tail _ hx' =>
              rcases hi.used x hx' with h | ⟨k, hk, e⟩
              · exact Or.inl h
              · exact Or.inr ⟨k, List.mem_cons_of_mem _ hk, e⟩
          · intro c hc
            cases hc with
            | head => exact Or.inr ⟨n, by simp, rfl⟩
            | tail _ hc' =>
              rcases hi.ctr c hc' with h | ⟨k, hk, e⟩
              · exact Or.inl h
              · exact Or.inr ⟨k, List.mem_cons_of_mem _ hk, e⟩
          · intro p hp
            cases hp with
            | head => simp [hn]
            | tail _ hp' => exact hi.img p hp'
        obtain ⟨tbl', s', h1, h2, h3, h4⟩ := ih _ _ hi1
        refine ⟨tbl', s', h1, h2, fun p hp => h3 p (List.mem_cons_of_mem _ hp), ?_⟩
        intro r hr
        cases hr with
        | head => exact List.mem_map.mpr ⟨(n, _), h3 _ (List.mem_cons_self ..), rfl⟩
        | tail _ hr' => exact h4 r hr'

theorem TInv.init (pfx : String) (s : Space) : TInv pfx s s [] :=
  ⟨fun _ h => Or.inl h, fun _ h => Or.inl h, by intro p hp; cases hp⟩

end Inline

namespace Inline

theorem prefixed_iff (p x : String) : prefixed p x = true ↔ p.toList <+: x.toList := by
  unfold prefixed; exact List.isPrefixOf_iff_prefix

/-- two incomparable strings: no extension of the one starts with the other -/
theorem incomp_append (p q r : String) (h : incomp p q = true) : prefixed p (q ++ r) = false := by
  cases hp : prefixed p (q ++ r) with
  | false => rfl
  | true =>
    exfalso
    simp only [incomp, Bool.and_eq_true, Bool.not_eq_true', ] at h
    have h1 := (prefixed_iff _ _).mp hp
    rw [String.toList_append] at h1
    rcases List.prefix_or_prefix_of_prefix h1 (List.prefix_append q.toList r.toList) with h2 | h2
    · have := (prefixed_iff p q).mpr h2; rw [h.1] at this; cases this
    · have := (prefixed_iff q p).mpr h2; rw [h.2] at this; cases this

/-- a prefix of a string that does not start with `p` does not start with `p` either -/
theorem not_prefixed_of_append (p b r : String) (h : prefixed p (b ++ r) = false) :
    prefixed p b = false := by
  cases hb : prefixed p b with
  | false => rfl
  | true =>
    have h1 := (prefixed_iff _ _).mp hb
    have : p.toList <+: (b ++ r).toList := by
      rw [String.toList_append]; exact h1.trans (List.prefix_append _ _)
    rw [(prefixed_iff _ _).mpr this] at h; cases h

/-- **the naming facts and the decidable condition on the names give prefix-freeness** -/
theorem safe_prefixFree (d : NameData) (k : String) (var node : Space)
    (hf : NameFacts d var node) (hs : d.safe k = true) :
    var.prefixFree k = true ∧ node.prefixFree k = true := by
  simp only [NameData.safe, Bool.and_eq_true, List.all_eq_true] at hs
  obtain ⟨⟨⟨hu, hb⟩, hi⟩, hn⟩ := hs
  have hinl : ∀ k' ∈ d.inlines, ∀ r, prefixed (k ++ "__") (k' ++ "__" ++ r) = false :=
    fun k' hk r => incomp_append _ _ _ (hi k' hk)
  have hbase : ∀ b ∈ d.varBases, prefixed (k ++ "__") b = false ∧
      ∀ r, prefixed (k ++ "__") (b ++ "_" ++ r) = false := by
    intro b hbm
    have h0 := incomp_append (k ++ "__") (b ++ "_") "" (hb b hbm)
    refine ⟨not_prefixed_of_append _ b "_" ?_, fun r => incomp_append _ _ _ (hb b hbm)⟩
    simpa using h0
  constructor
  · simp only [Space.prefixFree, Bool.and_eq_true, List.all_eq_true]
    constructor
    · intro x hx
      rcases hf.varUsed x hx with h | ⟨b, hbm, h | ⟨r, h⟩⟩ | ⟨k', hk, r, h⟩
      · exact hu x h
      · rw [h, (hbase b hbm).1]; rfl
      · rw [h, (hbase b hbm).2 r]; rfl
      · rw [h, hinl k' hk r]; rfl
    · intro c hc
      rcases hf.varCtr c hc with h | ⟨k', hk, r, h⟩
      · rw [(hbase c.1 h).1]; rfl
      · rw [h, hinl k' hk r]; rfl
  · simp only [Space.prefixFree, Bool.and_eq_true, List.all_eq_true]
    constructor
    · intro x hx
      rcases hf.nodeUsed x hx with h | ⟨k', hk, r, h⟩
      · exact hn x h
      · rw [h, hinl k' hk r]; rfl
    · intro c hc
      rcases hf.nodeCtr c hc with h | ⟨k', hk, r, h⟩
      · exact hn c.1 h
      · rw [h, hinl k' hk r]; rfl

end Inline

namespace Inline

/-- the Inline node's own generated value names `K_outputs_i[_c]` never fall into its `K__` family -/
theorem own_outputs_incomp (k r : String) : incomp (k ++ "__") (k ++ "_o" ++ r) = true := by
  have h1 : prefixed (k ++ "__") (k ++ "_o" ++ r) = false := by
    cases h : prefixed (k ++ "__") (k ++ "_o" ++ r) with
    | false => rfl
    | true =>
      have := (prefixed_iff _ _).mp h
      simp only [String.toList_append, List.append_assoc] at this
      rw [List.prefix_append_right_inj] at this
      have e1 : ("__" : String).toList = ['_', '_'] := by decide
      have e2 : ("_o" : String).toList = ['_', 'o'] := by decide
      rw [e1, e2] at this
      simp at this
  have h2 : prefixed (k ++ "_o" ++ r) (k ++ "__") = false := by
    cases h : prefixed (k ++ "_o" ++ r) (k ++ "__") with
    | false => rfl
    | true =>
      have := (prefixed_iff _ _).mp h
      simp only [String.toList_append, List.append_assoc] at this
      rw [List.prefix_append_right_inj] at this
      have e1 : ("__" : String).toList = ['_', '_'] := by decide
      have e2 : ("_o" : String).toList = ['_', 'o'] := by decide
      rw [e1, e2] at this
      simp at this
  simp [incomp, h1, h2]

end Inline
