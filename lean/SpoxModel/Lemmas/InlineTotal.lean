import SpoxModel.Lemmas.InlineRename
/-! Helper lemmas for C08: in a name space free of the `<node>__` family the memoised renaming
    cannot raise and yields exactly `<node>__<name>`. -/
namespace Inline

theorem str_append_cancel_left (a b c : String) (h : a ++ b = a ++ c) : b = c := by
  have := congrArg String.toList h
  simp only [String.toList_append] at this
  exact String.toList_inj.mp (List.append_cancel_left this)

theorem prefixed_append (p n : String) : prefixed p (p ++ n) = true := by
  unfold prefixed
  rw [String.toList_append, List.isPrefixOf_iff_prefix]
  exact List.prefix_append _ _

/-- invariant of `assign` started in a prefix-free space `s0` -/
structure TInv (pfx : String) (s0 s : Space) (tbl : List (String × String)) : Prop where
  used : ∀ x ∈ s.used, x ∈ s0.used ∨ ∃ k ∈ tbl.map (·.1), x = pfx ++ "__" ++ k
  ctr : ∀ c ∈ s.counters, c ∈ s0.counters ∨ ∃ k ∈ tbl.map (·.1), c.1 = pfx ++ "__" ++ k
  img : ∀ p ∈ tbl, p.2 = if p.1 = "" then "" else pfx ++ "__" ++ p.1

theorem assign_total (pfx : String) (s0 : Space) (hf : s0.prefixFree pfx = true)
    (reqs : List String) : ∀ (s : Space) (tbl : List (String × String)), TInv pfx s0 s tbl →
    ∃ tbl' s', assign pfx reqs s tbl = .ok (tbl', s') ∧ TInv pfx s0 s' tbl' ∧
      (∀ p ∈ tbl, p ∈ tbl') ∧ (∀ r ∈ reqs, r ∈ tbl'.map (·.1)) := by
  have hfu : ∀ x ∈ s0.used, ∀ n, x ≠ pfx ++ "__" ++ n := by
    intro x hx n e
    simp only [Space.prefixFree, Bool.and_eq_true, List.all_eq_true] at hf
    have := hf.1 x hx
    rw [e, prefixed_append] at this
    simp at this
  have hfc : ∀ c ∈ s0.counters, ∀ n, c.1 ≠ pfx ++ "__" ++ n := by
    intro c hc n e
    simp only [Space.prefixFree, Bool.and_eq_true, List.all_eq_true] at hf
    have := hf.2 c hc
    rw [e, prefixed_append] at this
    simp at this
  induction reqs with
  | nil => intro s tbl hi; exact ⟨tbl, s, rfl, hi, fun _ h => h, by intro r hr; cases hr⟩
  | cons n ns ih =>
    intro s tbl hi
    simp only [assign]
    cases hl : tbl.lookup n with
    | some v =>
      obtain ⟨tbl', s', h1, h2, h3, h4⟩ := ih s tbl hi
      refine ⟨tbl', s', h1, h2, h3, ?_⟩
      intro r hr
      cases hr with
      | head => exact List.mem_map.mpr ⟨(n, v), h3 _ (lookup_mem _ _ _ hl), rfl⟩
      | tail _ hr' => exact h4 r hr'
    | none =>
      have hnk : n ∉ tbl.map (·.1) := by
        intro hm
        obtain ⟨v, hv⟩ := lookup_isSome_of_mem_keys _ _ hm
        rw [hl] at hv; cases hv
      by_cases hn : n = ""
      · subst hn
        have hr : s.reservePrefixed pfx "" = .ok ("", s) := by simp [Space.reservePrefixed]
        simp only [hr]
        have hi1 : TInv pfx s0 s (("", "") :: tbl) := by
          refine ⟨?_, ?_, ?_⟩
          · intro x hx
            rcases hi.used x hx with h | ⟨k, hk, e⟩
            · exact Or.inl h
            · exact Or.inr ⟨k, List.mem_cons_of_mem _ hk, e⟩
          · intro c hc
            rcases hi.ctr c hc with h | ⟨k, hk, e⟩
            · exact Or.inl h
            · exact Or.inr ⟨k, List.mem_cons_of_mem _ hk, e⟩
          · intro p hp
            cases hp with
            | head => simp
            | tail _ hp' => exact hi.img p hp'
        obtain ⟨tbl', s', h1, h2, h3, h4⟩ := ih s _ hi1
        refine ⟨tbl', s', h1, h2, fun p hp => h3 p (List.mem_cons_of_mem _ hp), ?_⟩
        intro r hr
        cases hr with
        | head => exact List.mem_map.mpr ⟨("", ""), h3 _ (List.mem_cons_self ..), rfl⟩
        | tail _ hr' => exact h4 r hr'
      · -- the base is neither counted nor visible
        have hbase_ctr : s.counters.lookup (pfx ++ "__" ++ n) = none := by
          apply lookup_none_of_not_mem
          intro hm
          obtain ⟨c, hc, e⟩ := List.mem_map.mp hm
          rcases hi.ctr c hc with h | ⟨k, hk, e'⟩
          · exact hfc c h n e
          · have : k = n := str_append_cancel_left _ _ _ (e'.symm.trans e)
            exact hnk (this ▸ hk)
        have hbase_used : pfx ++ "__" ++ n ∉ s.used := by
          intro hx
          rcases hi.used _ hx with h | ⟨k, hk, e'⟩
          · exact hfu _ h n rfl
          · have : n = k := str_append_cancel_left _ _ _ e'
            exact hnk (this ▸ hk)
        have hme : s.maybeEnum (pfx ++ "__" ++ n) =
            (pfx ++ "__" ++ n, { s with counters := (pfx ++ "__" ++ n, 0) :: s.counters }) := by
          simp [Space.maybeEnum, hbase_ctr]
        have hr : s.reservePrefixed pfx n = .ok (pfx ++ "__" ++ n,
            (⟨(pfx ++ "__" ++ n) :: s.used, (pfx ++ "__" ++ n, 0) :: s.counters⟩ : Space)) := by
          simp [Space.reservePrefixed, hn, hme, Space.reserve, hbase_used]
        simp only [hr]
        have hi1 : TInv pfx s0 (⟨(pfx ++ "__" ++ n) :: s.used, (pfx ++ "__" ++ n, 0) :: s.counters⟩ : Space)
            ((n, pfx ++ "__" ++ n) :: tbl) := by
          refine ⟨?_, ?_, ?_⟩
          · intro x hx
            cases hx with
            | head => exact Or.inr ⟨n, by simp, rfl⟩
            | tail _ hx' =>
              rcases hi.used x hx' with h | ⟨k, hk, e⟩
              · exact Or.inl h
              · exact Or.inr ⟨k, List.mem_cons_of_mem _ hk, e⟩
          · intro c hc
            cases hc with
            | head => exact Or.inr ⟨n, by simp, rfl⟩
            | tail _ hc' =>
              rcases hi.ctr c hc' with h | ⟨k, hk, e⟩
              · exact Or.inl h
              · exact Or.inr ⟨k, List.mem_cons_of_mem _ hk, e⟩
          · intro p hp
            cases hp with
            | head => simp [hn]
            | tail _ hp' => exact hi.img p hp'
        obtain ⟨tbl', s', h1, h2, h3, h4⟩ := ih _ _ hi1
        refine ⟨tbl', s', h1, h2, fun p hp => h3 p (List.mem_cons_of_mem _ hp), ?_⟩
        intro r hr
        cases hr with
        | head => exact List.mem_map.mpr ⟨(n, _), h3 _ (List.mem_cons_self ..), rfl⟩
        | tail _ hr' => exact h4 r hr'

theorem TInv.init (pfx : String) (s : Space) : TInv pfx s s [] :=
  ⟨fun _ h => Or.inl h, fun _ h => Or.inl h, by intro p hp; cases hp⟩

end Inline
