import SpoxModel.Model.BuildAlg
/-!
# `ScopeTree.lca` (the alternating-ancestor walk, `BuildAlg.lcaLoop`) returns the lowest common ancestor

`lca_spec`     on any tree given by a parent function and a depth function, with fuel
               ≥ 2·(depth P + depth Q) + 3, the walk returns a common ancestor of maximal depth;
`lca_lowest`   … hence every common ancestor of P and Q is an ancestor of the result;
`relax_fold_lowest`  folding the relaxation `acc ↦ lca G acc` over the graphs that reach a node
               (on a fixed tree) ends in the lowest common ancestor of all of them.
-/
set_option linter.unusedSectionVars false
set_option linter.unusedVariables false
namespace BuildAlg

variable (par : Nat → Nat) (d : Nat → Nat)

structure Tree : Prop where
  root : ∀ x, d x = 0 → par x = x
  step : ∀ x, d x ≠ 0 → d (par x) + 1 = d x
  uniq : ∀ x y, d x = 0 → d y = 0 → x = y

def up : Nat → Nat → Nat
  | 0, x => x
  | k + 1, x => up k (par x)

variable {par d}

theorem up_succ' (k x : Nat) : up par (k + 1) x = par (up par k x) := by
  induction k generalizing x with
  | zero => rfl
  | succ k ih => simp only [up]; exact ih (par x)

theorem d_up (T : Tree par d) (k x : Nat) : d (up par k x) = d x - k := by
  induction k generalizing x with
  | zero => rfl
  | succ k ih =>
    simp only [up]
    rw [ih]
    by_cases h : d x = 0
    · rw [T.root x h]; omega
    · have := T.step x h; omega

theorem up_root (T : Tree par d) (k x : Nat) (h : d x = 0) : up par k x = x := by
  induction k with
  | zero => rfl
  | succ k ih => simp only [up]; rw [T.root x h]; exact ih

theorem up_add (i j x : Nat) : up par (i + j) x = up par j (up par i x) := by
  induction i generalizing x with
  | zero => simp [up]
  | succ i ih => rw [Nat.succ_add]; simp only [up]; exact ih (par x)

/-- on one chain, a point is determined by its depth -/
theorem up_eq_of_depth (T : Tree par d) (i j x : Nat) (h : d (up par i x) = d (up par j x)) :
    up par i x = up par j x := by
  rw [d_up T, d_up T] at h
  by_cases hi : i ≤ d x
  · by_cases hj : j ≤ d x
    · have : i = j := by omega
      rw [this]
    · -- j beyond the root, so depth 0, so i = d x
      have hi' : i = d x := by omega
      have hj' : j = i + (j - i) := by omega
      rw [hj', up_add]
      have h0 : d (up par i x) = 0 := by rw [d_up T]; omega
      rw [up_root T _ _ h0]
  · by_cases hj : j ≤ d x
    · have hj' : j = d x := by omega
      have hi' : i = j + (i - j) := by omega
      rw [hi', up_add]
      have h0 : d (up par j x) = 0 := by rw [d_up T]; omega
      rw [up_root T _ _ h0]
    · have hi' : i = d x + (i - d x) := by omega
      have hj' : j = d x + (j - d x) := by omega
      rw [hi', hj', up_add, up_add]
      have h0 : d (up par (d x) x) = 0 := by rw [d_up T]; omega
      rw [up_root T _ _ h0, up_root T _ _ h0]

def Anc (par : Nat → Nat) (c x : Nat) : Prop := ∃ k, up par k x = c
def Common (par : Nat → Nat) (c p q : Nat) : Prop := Anc par c p ∧ Anc par c q

/-- State invariant of the loop. Role-a walker: origin `P`, index `i`; role-b walker: origin `Q`,
    index `j = i + δ`, δ ∈ {0,1}. `visA`/`visB` are the positions visited strictly before the current
    one (plus the origin), and every earlier membership test failed. -/
structure Inv (par : Nat → Nat) (P Q i j δ a b : Nat) (visA visB : List Nat) : Prop where
  hδ : δ ≤ 1
  hj : j = i + δ
  ha : a = up par i P
  hb : b = up par j Q
  hvA : ∀ x, x ∈ visA ↔ ∃ k, k < max i 1 ∧ up par k P = x
  hvB : ∀ x, x ∈ visB ↔ ∃ k, k < max j 1 ∧ up par k Q = x
  histA : ∀ i', i' < i → ¬ ∃ k, k < max (i' + δ) 1 ∧ up par k Q = up par i' P
  histB : ∀ j', j' < j → ¬ ∃ k, k < max (j' + 1 - δ) 1 ∧ up par k P = up par j' Q

theorem Inv.next {P Q i j δ a b : Nat} {visA visB : List Nat}
    (h : Inv par P Q i j δ a b visA visB) (hfail : a ∉ visB) :
    Inv par Q P j (i + 1) (1 - δ) b (par a) visB (a :: visA) := by
  obtain ⟨hδ, hj, ha, hb, hvA, hvB, histA, histB⟩ := h
  refine ⟨by omega, by omega, hb, ?_, hvB, ?_, ?_, ?_⟩
  · rw [ha, up_succ']
  · intro x
    simp only [List.mem_cons, hvA]
    constructor
    · rintro (rfl | ⟨k, hk, rfl⟩)
      · exact ⟨i, by omega, ha.symm⟩
      · exact ⟨k, by omega, rfl⟩
    · rintro ⟨k, hk, rfl⟩
      by_cases hki : k = i
      · left; rw [hki, ha]
      · right; exact ⟨k, by omega, rfl⟩
  · intro j' hj'
    have := histB j' hj'
    have e : max (j' + (1 - δ)) 1 = max (j' + 1 - δ) 1 := by omega
    rw [e]; exact this
  · intro i' hi'
    have e : max (i' + 1 - (1 - δ)) 1 = max (i' + δ) 1 := by omega
    rw [e]
    by_cases hlt : i' < i
    · exact histA i' hlt
    · have : i' = i := by omega
      subst this
      intro ⟨k, hk, hk'⟩
      apply hfail
      rw [hvB, ha]
      exact ⟨k, by omega, hk'⟩

/-- If the test succeeds, the current node is a common ancestor of maximal depth. -/
theorem Inv.hit (T : Tree par d) {P Q i j δ a b : Nat} {visA visB : List Nat}
    (h : Inv par P Q i j δ a b visA visB) (hhit : a ∈ visB) :
    Common par a P Q ∧ ∀ c, Common par c P Q → d c ≤ d a := by
  obtain ⟨hδ, hj, ha, hb, hvA, hvB, histA, histB⟩ := h
  obtain ⟨k, hk, hka⟩ := (hvB a).mp hhit
  refine ⟨⟨⟨i, ha.symm⟩, ⟨k, hka⟩⟩, ?_⟩
  intro c ⟨⟨n', hn'⟩, ⟨k', hk'⟩⟩
  apply Nat.le_of_not_lt
  intro hlt
  -- depths
  have dc1 : d c = d P - n' := by rw [← hn', d_up T]
  have dc2 : d c = d Q - k' := by rw [← hk', d_up T]
  have da1 : d a = d P - i := by rw [ha, d_up T]
  have da2 : d a = d Q - k := by rw [← hka, d_up T]
  have hn'i : n' < i := by omega
  have hk'k : k' < k := by omega
  by_cases hcase : k' < max (n' + δ) 1
  · exact histA n' hn'i ⟨k', hcase, by rw [hk', hn']⟩
  · have hk'j : k' < j := by omega
    apply histB k' hk'j
    exact ⟨n', by omega, by rw [hk', hn']⟩

theorem loop_spec (T : Tree par d) : ∀ (fuel P Q i j δ a b : Nat) (visA visB : List Nat),
    Inv par P Q i j δ a b visA visB → 2 * (d P + d Q) + 3 ≤ fuel + i + j →
    (Anc par (lcaLoop par fuel a b visA visB) P ∧ Anc par (lcaLoop par fuel a b visA visB) Q) ∧
      ∀ c, Anc par c P → Anc par c Q → d c ≤ d (lcaLoop par fuel a b visA visB) := by
  intro fuel
  induction fuel with
  | zero =>
    intro P Q i j δ a b visA visB h hf
    simp only [lcaLoop]
    have ha := h.ha; have hj := h.hj; have hδ := h.hδ
    have d0 : d a = 0 := by rw [ha, d_up T]; omega
    have hroot : up par (d Q) Q = a := T.uniq _ _ (by rw [d_up T]; omega) d0
    have hhit : a ∈ visB := by
      rw [h.hvB]; exact ⟨d Q, by omega, hroot⟩
    obtain ⟨h1, h2⟩ := h.hit T hhit
    exact ⟨h1, fun c hcP hcQ => h2 c ⟨hcP, hcQ⟩⟩
  | succ fuel ih =>
    intro P Q i j δ a b visA visB h hf
    simp only [lcaLoop]
    split
    · rename_i hhit
      obtain ⟨h1, h2⟩ := h.hit T hhit
      exact ⟨h1, fun c hcP hcQ => h2 c ⟨hcP, hcQ⟩⟩
    · rename_i hfail
      have hn := h.next hfail
      have hj := h.hj
      obtain ⟨⟨r1, r2⟩, r3⟩ := ih Q P j (i + 1) (1 - δ) b (par a) visB (a :: visA) hn (by omega)
      exact ⟨⟨r2, r1⟩, fun c hcP hcQ => r3 c hcQ hcP⟩

/-- `ScopeTree.lca`: with enough fuel the walk returns a common ancestor of maximal depth,
    i.e. the lowest common ancestor. -/
theorem lca_spec (T : Tree par d) (P Q fuel : Nat) (hf : 2 * (d P + d Q) + 3 ≤ fuel) :
    (Anc par (lca par fuel P Q) P ∧ Anc par (lca par fuel P Q) Q) ∧
      ∀ c, Anc par c P → Anc par c Q → d c ≤ d (lca par fuel P Q) := by
  apply loop_spec T fuel P Q 0 0 0 P Q [P] [Q]
  · refine ⟨by omega, rfl, rfl, rfl, ?_, ?_, ?_, ?_⟩
    · intro x; simp only [List.mem_singleton]
      constructor
      · rintro rfl; exact ⟨0, by omega, rfl⟩
      · rintro ⟨k, hk, rfl⟩
        have : k = 0 := by omega
        subst this; rfl
    · intro x; simp only [List.mem_singleton]
      constructor
      · rintro rfl; exact ⟨0, by omega, rfl⟩
      · rintro ⟨k, hk, rfl⟩
        have : k = 0 := by omega
        subst this; rfl
    · intro i' hi'; omega
    · intro j' hj'; omega
  · omega



theorem Anc.refl (x : Nat) : Anc par x x := ⟨0, rfl⟩

theorem Anc.trans {a b c : Nat} (h1 : Anc par a b) (h2 : Anc par b c) : Anc par a c := by
  obtain ⟨i, hi⟩ := h1
  obtain ⟨j, hj⟩ := h2
  exact ⟨j + i, by rw [up_add, hj, hi]⟩

/-- two ancestors of one vertex are comparable: the shallower one is an ancestor of the deeper one -/
theorem anc_of_depth (T : Tree par d) {c c' P : Nat} (h : Anc par c P) (h' : Anc par c' P)
    (hd : d c' ≤ d c) : Anc par c' c := by
  obtain ⟨i, hi⟩ := h
  obtain ⟨j, hj⟩ := h'
  by_cases hij : i ≤ j
  · refine ⟨j - i, ?_⟩
    have e : j = i + (j - i) := by omega
    rw [← hi, ← hj]
    conv => rhs; rw [e, up_add]
  · have e : up par i P = up par j P := by
      apply up_eq_of_depth T
      have h1 := d_up T i P
      have h2 := d_up T j P
      rw [hi] at h1; rw [hj] at h2
      rw [hi, hj]; omega
    rw [hi, hj] at e
    exact ⟨0, by simp [up, e]⟩

/-- the walk returns the *lowest* common ancestor: every common ancestor lies above it -/
theorem lca_lowest (T : Tree par d) (P Q fuel : Nat) (hf : 2 * (d P + d Q) + 3 ≤ fuel) :
    Anc par (lca par fuel P Q) P ∧ Anc par (lca par fuel P Q) Q ∧
      ∀ c, Anc par c P → Anc par c Q → Anc par c (lca par fuel P Q) := by
  obtain ⟨⟨h1, h2⟩, h3⟩ := lca_spec T P Q fuel hf
  exact ⟨h1, h2, fun c hP hQ => anc_of_depth T h1 hP (h3 c hP hQ)⟩

/-- `c` is the lowest common ancestor of all graphs in `S` -/
def Lowest (par : Nat → Nat) (S : List Nat) (c : Nat) : Prop :=
  (∀ G ∈ S, Anc par c G) ∧ ∀ c', (∀ G ∈ S, Anc par c' G) → Anc par c' c

/-- The relaxation of one node's scope by the graphs `Gs` that reach it, on a fixed tree:
    `scope := lca(G, scope)` for each `G` in turn, starting from the first graph. -/
theorem relax_fold_lowest (T : Tree par d) (D fuel : Nat) (hD : ∀ x, d x ≤ D) (hf : 4 * D + 3 ≤ fuel)
    (Gs : List Nat) : ∀ (S : List Nat) (acc : Nat), Lowest par S acc →
      Lowest par (S ++ Gs) (Gs.foldl (fun acc G => lca par fuel G acc) acc) := by
  induction Gs with
  | nil => intro S acc h; simpa using h
  | cons G Gs ih =>
    intro S acc h
    have hfuel : 2 * (d G + d acc) + 3 ≤ fuel := by
      have := hD G; have := hD acc; omega
    obtain ⟨l1, l2, l3⟩ := lca_lowest T G acc fuel hfuel
    have step : Lowest par (S ++ [G]) (lca par fuel G acc) := by
      constructor
      · intro H hH
        rcases List.mem_append.mp hH with hH | hH
        · exact Anc.trans l2 (h.1 H hH)
        · have : H = G := by simpa using hH
          subst this; exact l1
      · intro c' hc'
        apply l3 c'
        · exact hc' G (by simp)
        · exact h.2 c' (fun H hH => hc' H (List.mem_append_left _ hH))
    have := ih (S ++ [G]) _ step
    simpa [List.append_assoc] using this

/-! ### trees on a domain, and independence of the walk from the parent function outside it -/

theorem up_congr {par par' : Nat → Nat} (X : Nat → Prop) (hcl : ∀ x, X x → X (par x))
    (hag : ∀ x, X x → par' x = par x) : ∀ k x, X x → up par' k x = up par k x ∧ X (up par k x) := by
  intro k
  induction k with
  | zero => intro x hx; exact ⟨rfl, hx⟩
  | succ k ih =>
    intro x hx
    simp only [up]
    rw [hag x hx]
    exact ih (par x) (hcl x hx)

theorem anc_congr {par par' : Nat → Nat} (X : Nat → Prop) (hcl : ∀ x, X x → X (par x))
    (hag : ∀ x, X x → par' x = par x) {c x : Nat} (hx : X x) : Anc par' c x ↔ Anc par c x := by
  constructor
  · rintro ⟨k, hk⟩; exact ⟨k, by rw [← (up_congr X hcl hag k x hx).1]; exact hk⟩
  · rintro ⟨k, hk⟩; exact ⟨k, by rw [(up_congr X hcl hag k x hx).1]; exact hk⟩

theorem anc_mem {par : Nat → Nat} (X : Nat → Prop) (hcl : ∀ x, X x → X (par x)) {c x : Nat}
    (hx : X x) (h : Anc par c x) : X c := by
  obtain ⟨k, hk⟩ := h
  rw [← hk]
  exact (up_congr X hcl (fun _ _ => rfl) k x hx).2

theorem lcaLoop_congr {par par' : Nat → Nat} (X : Nat → Prop) (hcl : ∀ x, X x → X (par x))
    (hag : ∀ x, X x → par' x = par x) : ∀ fuel a b visA visB, X a → X b →
      lcaLoop par' fuel a b visA visB = lcaLoop par fuel a b visA visB := by
  intro fuel
  induction fuel with
  | zero => intro a b visA visB _ _; rfl
  | succ fuel ih =>
    intro a b visA visB ha hb
    simp only [lcaLoop]
    split
    · rfl
    · rw [hag a ha]
      exact ih b (par a) visB (a :: visA) hb (hcl a ha)

/-- a tree on the domain `D` with root `r` -/
structure TreeOn (D : Nat → Prop) (par d : Nat → Nat) (r : Nat) : Prop where
  hr : D r
  dr : d r = 0
  rpar : par r = r
  closed : ∀ x, D x → D (par x)
  root : ∀ x, D x → d x = 0 → x = r
  step : ∀ x, D x → d x ≠ 0 → d (par x) + 1 = d x

theorem TreeOn.congr {D : Nat → Prop} {par par' d : Nat → Nat} {r : Nat} (T : TreeOn D par d r)
    (hag : ∀ x, D x → par' x = par x) : TreeOn D par' d r :=
  ⟨T.hr, T.dr, by rw [hag r T.hr]; exact T.rpar, fun x hx => by rw [hag x hx]; exact T.closed x hx,
   T.root, fun x hx h => by rw [hag x hx]; exact T.step x hx h⟩

/-- `lca_lowest` for a tree that is only known on a domain closed under `par` -/
theorem lca_lowest_on {D : Nat → Prop} {par d : Nat → Nat} {r : Nat} (T : TreeOn D par d r)
    (P Q fuel : Nat) (hP : D P) (hQ : D Q) (hf : 2 * (d P + d Q) + 3 ≤ fuel) :
    Anc par (lca par fuel P Q) P ∧ Anc par (lca par fuel P Q) Q ∧ D (lca par fuel P Q) ∧
      ∀ c, Anc par c P → Anc par c Q → Anc par c (lca par fuel P Q) := by
  classical
  let par' : Nat → Nat := fun x => if D x then par x else r
  let d' : Nat → Nat := fun x => if D x then d x else 1
  have hag : ∀ x, D x → par' x = par x := fun x hx => by simp only [par', hx, if_true]
  have T' : Tree par' d' := by
    refine ⟨?_, ?_, ?_⟩
    · intro x h0
      by_cases hx : D x
      · have hd : d x = 0 := by simpa only [d', hx, if_true] using h0
        have := T.root x hx hd
        subst this
        rw [hag _ hx]; exact T.rpar
      · simp only [d', hx, if_false] at h0; cases h0
    · intro x h0
      by_cases hx : D x
      · have hd : d x ≠ 0 := by simpa only [d', hx, if_true] using h0
        have hpx := T.closed x hx
        simp only [d', par', hx, hpx, if_true]
        exact T.step x hx hd
      · have hr := T.hr
        simp only [d', par', hx, hr, if_false, if_true, T.dr]
    · intro x y hx hy
      by_cases hxD : D x
      · by_cases hyD : D y
        · have h1 : d x = 0 := by simpa only [d', hxD, if_true] using hx
          have h2 : d y = 0 := by simpa only [d', hyD, if_true] using hy
          rw [T.root x hxD h1, T.root y hyD h2]
        · simp only [d', hyD, if_false] at hy; cases hy
      · simp only [d', hxD, if_false] at hx; cases hx
  have hf' : 2 * (d' P + d' Q) + 3 ≤ fuel := by simpa only [d', hP, hQ, if_true] using hf
  obtain ⟨l1, l2, l3⟩ := lca_lowest T' P Q fuel hf'
  have hsame : lca par' fuel P Q = lca par fuel P Q :=
    lcaLoop_congr D T.closed hag fuel P Q [P] [Q] hP hQ
  rw [hsame] at l1 l2 l3
  have a1 := (anc_congr D T.closed hag hP).mp l1
  have a2 := (anc_congr D T.closed hag hQ).mp l2
  refine ⟨a1, a2, anc_mem D T.closed hP a1, ?_⟩
  intro c hcP hcQ
  have hL := anc_mem D T.closed hP a1
  exact (anc_congr D T.closed hag hL).mp
    (l3 c ((anc_congr D T.closed hag hP).mpr hcP) ((anc_congr D T.closed hag hQ).mpr hcQ))

/-- `c` is the lowest common ancestor of the graphs satisfying `P` -/
def LowestP (par : Nat → Nat) (P : Nat → Prop) (c : Nat) : Prop :=
  (∀ G, P G → Anc par c G) ∧ ∀ c', (∀ G, P G → Anc par c' G) → Anc par c' c

theorem LowestP.congr {par par' : Nat → Nat} (D : Nat → Prop) (hcl : ∀ x, D x → D (par x))
    (hag : ∀ x, D x → par' x = par x) {P : Nat → Prop} {c : Nat} (hP : ∀ G, P G → D G) (hc : D c)
    (h : LowestP par P c) : LowestP par' P c := by
  constructor
  · intro G hG
    exact (anc_congr D hcl hag (hP G hG)).mpr (h.1 G hG)
  · intro c' hc'
    apply (anc_congr D hcl hag hc).mpr
    apply h.2 c'
    intro G hG
    exact (anc_congr D hcl hag (hP G hG)).mp (hc' G hG)

theorem LowestP.iff {par : Nat → Nat} {P Q : Nat → Prop} {c : Nat} (hPQ : ∀ G, P G ↔ Q G)
    (h : LowestP par P c) : LowestP par Q c :=
  ⟨fun G hG => h.1 G ((hPQ G).mpr hG), fun c' hc' => h.2 c' (fun G hG => hc' G ((hPQ G).mp hG))⟩

end BuildAlg
