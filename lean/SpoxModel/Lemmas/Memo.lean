import SpoxModel.Model.Memo
/-! `cache_transparent` for the memo model. -/
namespace Memo

theorem reads_eq_spec {K R} (compute : K → R) (ops : List (Op K)) :
    ∀ (g : G K R), resetting ops = true → Inv compute g → reads compute g ops = spec compute g.key ops := by
  induction ops with
  | nil => intro g _ _; rfl
  | cons op rest ih =>
    intro g hr hg
    cases op with
    | get =>
      simp only [resetting] at hr
      rcases hg with hg | hg
      · have : step compute g Op.get = ({ g with cache := some (compute g.key) }, some (compute g.key)) := by
          simp [step, hg]
        simp only [reads, this, spec]
        rw [ih { g with cache := some (compute g.key) } hr (Or.inr rfl)]
      · have : step compute g Op.get = (g, some (compute g.key)) := by simp [step, hg]
        simp only [reads, this, spec]
        rw [ih g hr (Or.inr hg)]
    | setKey k reset =>
      simp only [resetting, Bool.and_eq_true] at hr
      obtain ⟨h1, h2⟩ := hr
      subst h1
      simp only [reads, step, spec]
      exact ih ⟨k, none⟩ h2 (Or.inl rfl)
    | setOther =>
      simp only [resetting] at hr
      simp only [reads, step, spec]
      exact ih g hr hg

end Memo
