import SpoxModel.Model.Singleton
/-! Helper lemmas for C05: the singleton scope (first key wins), trimming, renaming, list plumbing. -/
set_option linter.unusedSimpArgs false
set_option linter.unusedVariables false
namespace Sing

/-! ## generic list facts -/

theorem filter_filterMap_comm {α β} (h : α → Option β) (P : β → Bool) (Q : α → Bool)
    (hc : ∀ a b, h a = some b → P b = Q a) (l : List α) :
    (l.filterMap h).filter P = (l.filter Q).filterMap h := by
  induction l with
  | nil => rfl
  | cons a l ih =>
    cases hh : h a with
    | none =>
      by_cases hq : Q a = true
      · simp [List.filterMap_cons, hh, List.filter_cons, hq, ih]
      · simp [List.filterMap_cons, hh, List.filter_cons, hq, ih]
    | some b =>
      have := hc a b hh
      by_cases hq : Q a = true
      · have hp : P b = true := by rw [this]; exact hq
        simp [List.filterMap_cons, hh, List.filter_cons, hq, hp, ih]
      · have hp : ¬ P b = true := by rw [this]; exact hq
        simp [List.filterMap_cons, hh, List.filter_cons, hq, hp, ih]

theorem filter_map_comm {α β} (f : α → β) (P : β → Bool) (l : List α) :
    (l.map f).filter P = (l.filter (fun a => P (f a))).map f := by
  induction l with
  | nil => rfl
  | cons a l ih =>
    by_cases hp : P (f a) = true
    · simp [List.filter_cons, hp, ih]
    · simp [List.filter_cons, hp, ih]

theorem filter_congr_mem {α} (P Q : α → Bool) (l : List α) (h : ∀ a ∈ l, P a = Q a) :
    l.filter P = l.filter Q := by
  induction l with
  | nil => rfl
  | cons a l ih =>
    have ha := h a (List.mem_cons_self ..)
    have ih' := ih (fun b hb => h b (List.mem_cons_of_mem _ hb))
    simp [List.filter_cons, ha, ih']

theorem filterMap_congr_mem {α β} (f g : α → Option β) (l : List α) (h : ∀ a ∈ l, f a = g a) :
    l.filterMap f = l.filterMap g := by
  induction l with
  | nil => rfl
  | cons a l ih =>
    have ha := h a (List.mem_cons_self ..)
    have ih' := ih (fun b hb => h b (List.mem_cons_of_mem _ hb))
    simp [List.filterMap_cons, ha, ih']

/-! ## trimming -/

theorem trimRev_map (σ : String → String) (m : Nat) (xs : List String)
    (h : ∀ x ∈ xs, (σ x = "" ↔ x = "")) :
    trimRev m (xs.map σ) = (trimRev m xs).map σ := by
  induction xs with
  | nil => rfl
  | cons x rest ih =>
    have hx := h x (List.mem_cons_self ..)
    have ih' := ih (fun y hy => h y (List.mem_cons_of_mem _ hy))
    simp only [List.map_cons, trimRev, List.length_map]
    by_cases hc : x = "" ∧ rest.length + 1 > m
    · have hc' : σ x = "" ∧ rest.length + 1 > m := ⟨hx.mpr hc.1, hc.2⟩
      rw [if_pos hc, if_pos hc', ih']
    · have hc' : ¬ (σ x = "" ∧ rest.length + 1 > m) := fun hh => hc ⟨hx.mp hh.1, hh.2⟩
      rw [if_neg hc, if_neg hc', List.map_cons]

theorem trim_map (σ : String → String) (m : Nat) (xs : List String)
    (h : ∀ x ∈ xs, (σ x = "" ↔ x = "")) :
    trim m (xs.map σ) = (trim m xs).map σ := by
  unfold trim
  rw [← List.map_reverse, trimRev_map σ m xs.reverse (fun x hx => h x (List.mem_reverse.mp hx)),
    List.map_reverse]

theorem trimRev_sub (m : Nat) (xs : List String) : ∀ x ∈ trimRev m xs, x ∈ xs := by
  induction xs with
  | nil => intro x hx; simp [trimRev] at hx
  | cons y rest ih =>
    intro x hx
    simp only [trimRev] at hx
    split at hx
    · exact List.mem_cons_of_mem _ (ih x hx)
    · exact hx

theorem trimRev_keeps (m : Nat) (xs : List String) : ∀ x ∈ xs, x ≠ "" → x ∈ trimRev m xs := by
  induction xs with
  | nil => intro x hx; simp at hx
  | cons y rest ih =>
    intro x hx hne
    simp only [trimRev]
    split
    · rename_i hc
      rcases List.mem_cons.mp hx with h | h
      · exact absurd (h ▸ hc.1) hne
      · exact ih x h hne
    · exact hx

theorem mem_trim_sub (m : Nat) (xs : List String) (x : String) (h : x ∈ trim m xs) : x ∈ xs := by
  unfold trim at h
  exact List.mem_reverse.mp (trimRev_sub m _ x (List.mem_reverse.mp h))

theorem mem_trim_of_ne (m : Nat) (xs : List String) (x : String) (h : x ∈ xs) (hne : x ≠ "") :
    x ∈ trim m xs := by
  unfold trim
  exact List.mem_reverse.mpr (trimRev_keeps m _ x (List.mem_reverse.mpr h) hne)

theorem trimRev_suffix (m : Nat) (xs : List String) : trimRev m xs <:+ xs := by
  induction xs with
  | nil => exact List.suffix_refl _
  | cons x rest ih =>
    simp only [trimRev]
    split
    · exact List.IsSuffix.trans ih (List.suffix_cons _ _)
    · exact List.suffix_refl _

theorem trimRev_dropped (m : Nat) (xs : List String) :
    ∃ k, xs = List.replicate k "" ++ trimRev m xs := by
  induction xs with
  | nil => exact ⟨0, rfl⟩
  | cons x rest ih =>
    simp only [trimRev]
    split
    · rename_i hc
      obtain ⟨k, hk⟩ := ih
      refine ⟨k + 1, ?_⟩
      rw [List.replicate_succ, List.cons_append, ← hk, hc.1]
    · exact ⟨0, rfl⟩

theorem trimRev_min (m : Nat) (xs : List String) (h : m ≤ xs.length) :
    m ≤ (trimRev m xs).length := by
  induction xs with
  | nil => simpa [trimRev] using h
  | cons x rest ih =>
    simp only [trimRev]
    split
    · rename_i hc; apply ih; omega
    · simpa using h

/-! ## the singleton scope -/

theorem lookupR_append (sc : ScopeL) (r0 : Ref) (k : String) (r : Ref) :
    lookupR (sc ++ [(r0, k)]) r =
      match lookupR sc r with
      | some x => some x
      | none => if r0 = r then some k else none := by
  induction sc with
  | nil => simp [lookupR]
  | cons e sc ih =>
    obtain ⟨r', k'⟩ := e
    simp only [List.cons_append, lookupR]
    by_cases h : r' = r
    · simp [h]
    · simp [h, ih]

theorem lookupR_buildScope (items : List (String × Ref)) : ∀ (sc : ScopeL) (r : Ref),
    lookupR (buildScope items sc) r =
      match lookupR sc r with
      | some k => some k
      | none => firstKey items r := by
  induction items with
  | nil => intro sc r; simp only [buildScope, firstKey]; cases lookupR sc r <;> rfl
  | cons e rest ih =>
    obtain ⟨k, r0⟩ := e
    intro sc r
    simp only [buildScope, firstKey]
    cases h0 : lookupR sc r0 with
    | some k0 =>
      simp only
      rw [ih]
      cases hr : lookupR sc r with
      | some x => rfl
      | none =>
        have hne : ¬ r0 = r := by
          intro he; rw [he] at h0; rw [h0] at hr; cases hr
        simp [hne]
    | none =>
      simp only
      rw [ih, lookupR_append]
      cases hr : lookupR sc r with
      | some x => rfl
      | none =>
        by_cases he : r0 = r
        · simp [he]
        · simp [he]

theorem singName_eq (c : Call) (r : Ref) : c.singName r = (firstKey c.items r).getD "" := by
  unfold Call.singName nameIn Call.scope
  rw [lookupR_buildScope]
  rfl

theorem firstKey_mem (items : List (String × Ref)) (r : Ref) (k : String)
    (h : firstKey items r = some k) : (k, r) ∈ items := by
  induction items with
  | nil => simp [firstKey] at h
  | cons e rest ih =>
    obtain ⟨k', r'⟩ := e
    simp only [firstKey] at h
    by_cases he : r' = r
    · rw [if_pos he] at h
      cases h
      rw [he]
      exact List.mem_cons_self ..
    · rw [if_neg he] at h
      exact List.mem_cons_of_mem _ (ih h)

theorem firstKey_isSome (items : List (String × Ref)) (r : Ref) (k : String)
    (h : (k, r) ∈ items) : ∃ k', firstKey items r = some k' := by
  induction items with
  | nil => simp at h
  | cons e rest ih =>
    obtain ⟨k', r'⟩ := e
    simp only [firstKey]
    by_cases he : r' = r
    · exact ⟨k', by rw [if_pos he]⟩
    · rw [if_neg he]
      rcases List.mem_cons.mp h with h | h
      · cases h; exact absurd rfl he
      · exact ih h

/-- with pairwise distinct keys, a key determines its value -/
theorem key_det {β} (items : List (String × β)) (hnd : (items.map (fun p => p.1)).Nodup)
    (k : String) (a b : β) (ha : (k, a) ∈ items) (hb : (k, b) ∈ items) : a = b := by
  induction items with
  | nil => simp at ha
  | cons e rest ih =>
    simp only [List.map_cons, List.nodup_cons] at hnd
    rcases List.mem_cons.mp ha with ha | ha <;> rcases List.mem_cons.mp hb with hb | hb
    · rw [← ha] at hb; cases hb; rfl
    · exfalso; apply hnd.1; rw [← ha]; exact List.mem_map.mpr ⟨(k, b), hb, rfl⟩
    · exfalso; apply hnd.1; rw [← hb]; exact List.mem_map.mpr ⟨(k, a), ha, rfl⟩
    · exact ih hnd.2 ha hb

/-- `scope.var[var] = key` never raises: the names already given are keys of earlier items, and
    keys are pairwise distinct -/
theorem scopeClash_false (items : List (String × Ref)) : ∀ (sc : ScopeL),
    (items.map (fun p => p.1)).Nodup →
    (∀ e ∈ sc, e.2 ∉ items.map (fun p => p.1)) →
    scopeClash items sc = false := by
  induction items with
  | nil => intro sc _ _; rfl
  | cons e rest ih =>
    obtain ⟨k, r⟩ := e
    intro sc hnd hsc
    simp only [List.map_cons, List.nodup_cons] at hnd
    simp only [scopeClash]
    cases hl : lookupR sc r with
    | some x =>
      simp only
      exact ih sc hnd.2 (fun e he hm => hsc e he (List.mem_cons_of_mem _ hm))
    | none =>
      simp only [Bool.or_eq_false_iff]
      constructor
      · rw [List.any_eq_false]
        intro e he
        have := hsc e he
        simp only [List.map_cons, List.mem_cons, not_or] at this
        simpa using this.1
      · apply ih _ hnd.2
        intro e he
        rcases List.mem_append.mp he with he | he
        · exact fun hm => hsc e he (List.mem_cons_of_mem _ hm)
        · simp only [List.mem_singleton] at he
          rw [he]; exact hnd.1

/-! ## well-formedness of a call's field keys -/

structure WF (c : Call) : Prop where
  nodup : c.keys.Nodup
  nonempty : "" ∉ c.keys

theorem nodupB_iff (l : List String) : nodupB l = true ↔ l.Nodup := by
  induction l with
  | nil => simp [nodupB]
  | cons x xs ih => simp [nodupB, ih, List.nodup_cons]

theorem wfB_iff (c : Call) : c.wfB = true ↔ WF c := by
  unfold Call.wfB
  constructor
  · intro h
    simp only [Bool.and_eq_true, Bool.not_eq_true', List.contains_eq_mem, decide_eq_false_iff_not] at h
    exact ⟨(nodupB_iff _).mp h.1, h.2⟩
  · intro h
    simp only [Bool.and_eq_true, Bool.not_eq_true', List.contains_eq_mem, decide_eq_false_iff_not]
    exact ⟨(nodupB_iff _).mpr h.nodup, h.nonempty⟩

def Call.refs (c : Call) : List Ref := c.items.map (fun p => p.2)

theorem singName_spec (c : Call) (r : Ref) (hr : r ∈ c.refs) :
    ∃ k, firstKey c.items r = some k ∧ c.singName r = k ∧ (k, r) ∈ c.items := by
  obtain ⟨p, hp, rfl⟩ := List.mem_map.mp hr
  obtain ⟨k', hk'⟩ := firstKey_isSome c.items p.2 p.1 hp
  exact ⟨k', hk', by rw [singName_eq, hk']; rfl, firstKey_mem _ _ _ hk'⟩

theorem singName_ne (c : Call) (hwf : WF c) (r : Ref) (hr : r ∈ c.refs) : c.singName r ≠ "" := by
  obtain ⟨k, _, hk, hmem⟩ := singName_spec c r hr
  intro he
  apply hwf.nonempty
  rw [hk] at he
  rw [← he]
  exact List.mem_map.mpr ⟨(k, r), hmem, rfl⟩

theorem singName_inj (c : Call) (hwf : WF c) (r1 r2 : Ref) (h1 : r1 ∈ c.refs) (h2 : r2 ∈ c.refs)
    (h : c.singName r1 = c.singName r2) : r1 = r2 := by
  obtain ⟨k1, _, hk1, hm1⟩ := singName_spec c r1 h1
  obtain ⟨k2, _, hk2, hm2⟩ := singName_spec c r2 h2
  have : k1 = k2 := by rw [← hk1, ← hk2, h]
  subst this
  exact key_det c.items hwf.nodup k1 r1 r2 hm1 hm2

/-- a pair is "first" iff its key is the singleton name of its Var -/
theorem first_iff (c : Call) (hwf : WF c) (k : String) (r : Ref) (hmem : (k, r) ∈ c.items) :
    firstKey c.items r = some k ↔ c.singName r = k := by
  have hr : r ∈ c.refs := List.mem_map.mpr ⟨(k, r), hmem, rfl⟩
  obtain ⟨k', hk', hs, _⟩ := singName_spec c r hr
  constructor
  · intro h; rw [hs]; rw [hk'] at h; cases h; rfl
  · intro h; rw [hk', ← hs, h]

/-! ## the renaming from arbitrary value names to the singleton names -/

/-- `σ (nm r) = singName r` for the values of the call, identity elsewhere -/
def sigmaOf (nm : Ref → String) (c : Call) (s : String) : String :=
  match c.refs.find? (fun r => nm r == s) with
  | some r => c.singName r
  | none => s

structure GoodNames (nm : Ref → String) (c : Call) : Prop where
  inj : ∀ r1 ∈ c.refs, ∀ r2 ∈ c.refs, nm r1 = nm r2 → r1 = r2
  ne : ∀ r ∈ c.refs, nm r ≠ ""

theorem sigmaOf_nm (nm : Ref → String) (c : Call) (hg : GoodNames nm c) (r : Ref) (hr : r ∈ c.refs) :
    sigmaOf nm c (nm r) = c.singName r := by
  unfold sigmaOf
  cases hf : c.refs.find? (fun r' => nm r' == nm r) with
  | none =>
    have := List.find?_eq_none.mp hf r hr
    simp at this
  | some r' =>
    have hmem := List.mem_of_find?_eq_some hf
    have hp := List.find?_some hf
    simp only [beq_iff_eq] at hp
    rw [hg.inj r' hmem r hr hp]

theorem sigmaOf_empty (nm : Ref → String) (c : Call) (hg : GoodNames nm c) : sigmaOf nm c "" = "" := by
  unfold sigmaOf
  cases hf : c.refs.find? (fun r' => nm r' == "") with
  | none => rfl
  | some r' =>
    have hmem := List.mem_of_find?_eq_some hf
    have hp := List.find?_some hf
    simp only [beq_iff_eq] at hp
    exact absurd hp (hg.ne r' hmem)

/-- a naming that is good for every call (tally marks): good namings exist, so the theorems
    quantifying over them are never vacuous -/
def tally (tag : Char) (n : Nat) : String := String.ofList (tag :: List.replicate n '|')

def tallyNames : Ref → String
  | .inp v => tally 'i' v
  | .out i => tally 'o' i

theorem tally_inj (t1 t2 : Char) (a b : Nat) (h : tally t1 a = tally t2 b) : t1 = t2 ∧ a = b := by
  unfold tally at h
  have h' := String.ofList_injective h
  simp only [List.cons.injEq] at h'
  refine ⟨h'.1, ?_⟩
  have := congrArg List.length h'.2
  simpa using this

theorem tally_ne (t : Char) (a : Nat) : tally t a ≠ "" := by
  unfold tally
  intro h
  have := congrArg String.toList h
  simp at this

theorem goodNames_tally (c : Call) : GoodNames tallyNames c where
  inj := by
    intro r1 _ r2 _ h
    cases r1 <;> cases r2 <;> simp only [tallyNames] at h
    · rw [(tally_inj _ _ _ _ h).2]
    · exact absurd (tally_inj _ _ _ _ h).1 (by decide)
    · exact absurd (tally_inj _ _ _ _ h).1 (by decide)
    · rw [(tally_inj _ _ _ _ h).2]
  ne := by
    intro r _
    cases r <;> exact tally_ne _ _

/-! ## membership plumbing for `flat`, `inPairs`, `outPairs`, `items` -/

theorem mem_inPairs (c : Call) (k : String) (v : Nat) : (k, v) ∈ c.inPairs ↔ (k, some v) ∈ c.flat := by
  unfold Call.inPairs
  rw [List.mem_filterMap]
  constructor
  · rintro ⟨⟨k', ov⟩, hmem, h⟩
    cases ov with
    | none => simp at h
    | some v' =>
      simp only [Option.map_some, Option.some.injEq, Prod.mk.injEq] at h
      obtain ⟨rfl, rfl⟩ := h
      exact hmem
  · intro h
    exact ⟨(k, some v), h, rfl⟩

theorem inp_mem_items (c : Call) (k : String) (v : Nat) : (k, Ref.inp v) ∈ c.items ↔ (k, v) ∈ c.inPairs := by
  unfold Call.items
  rw [List.mem_append]
  constructor
  · rintro (h | h)
    · obtain ⟨p, hp, he⟩ := List.mem_map.mp h
      simp only [Prod.mk.injEq, Ref.inp.injEq] at he
      obtain ⟨rfl, rfl⟩ := he
      exact hp
    · obtain ⟨p, _, he⟩ := List.mem_map.mp h
      simp at he
  · intro h
    exact Or.inl (List.mem_map.mpr ⟨(k, v), h, rfl⟩)

theorem out_mem_items (c : Call) (k : String) (i : Nat) : (k, Ref.out i) ∈ c.items ↔ (k, i) ∈ c.outPairs := by
  unfold Call.items
  rw [List.mem_append]
  constructor
  · rintro (h | h)
    · obtain ⟨p, _, he⟩ := List.mem_map.mp h
      simp at he
    · obtain ⟨p, hp, he⟩ := List.mem_map.mp h
      simp only [Prod.mk.injEq, Ref.out.injEq] at he
      obtain ⟨rfl, rfl⟩ := he
      exact hp
  · intro h
    exact Or.inr (List.mem_map.mpr ⟨(k, i), h, rfl⟩)

theorem inp_ref (c : Call) (k : String) (v : Nat) (h : (k, v) ∈ c.inPairs) : Ref.inp v ∈ c.refs :=
  List.mem_map.mpr ⟨(k, Ref.inp v), (inp_mem_items c k v).mpr h, rfl⟩

theorem out_ref (c : Call) (k : String) (i : Nat) (h : (k, i) ∈ c.outPairs) : Ref.out i ∈ c.refs :=
  List.mem_map.mpr ⟨(k, Ref.out i), (out_mem_items c k i).mpr h, rfl⟩

/-- output Vars are fresh: each index occurs once -/
theorem enumFrom_idx {α} (l : List α) : ∀ (n i : Nat) (a : α), (i, a) ∈ enumFrom n l → n ≤ i := by
  induction l with
  | nil => intro n i a h; simp [enumFrom] at h
  | cons x xs ih =>
    intro n i a h
    simp only [enumFrom, List.mem_cons, Prod.mk.injEq] at h
    rcases h with ⟨rfl, _⟩ | h
    · exact Nat.le_refl _
    · exact Nat.le_of_succ_le (ih (n + 1) i a h)

theorem enumFrom_det {α} (l : List α) : ∀ (n i : Nat) (a b : α),
    (i, a) ∈ enumFrom n l → (i, b) ∈ enumFrom n l → a = b := by
  induction l with
  | nil => intro n i a b h; simp [enumFrom] at h
  | cons x xs ih =>
    intro n i a b ha hb
    simp only [enumFrom, List.mem_cons, Prod.mk.injEq] at ha hb
    rcases ha with ⟨rfl, rfl⟩ | ha <;> rcases hb with ⟨hi, rfl⟩ | hb
    · rfl
    · have := enumFrom_idx xs (i + 1) i b hb; omega
    · have := enumFrom_idx xs (n + 1) i a ha; omega
    · exact ih (n + 1) i a b ha hb

theorem enumFrom_snd {α} (l : List α) : ∀ n, (enumFrom n l).map (fun p => p.2) = l := by
  induction l with
  | nil => intro n; rfl
  | cons x xs ih => intro n; simp [enumFrom, ih]

theorem outPairs_fst (c : Call) : c.outPairs.map (fun p => p.1) = c.outKeys := by
  unfold Call.outPairs
  rw [List.map_map]
  exact enumFrom_snd c.outKeys 0

theorem outPairs_det (c : Call) (k k' : String) (i : Nat) (h : (k, i) ∈ c.outPairs)
    (h' : (k', i) ∈ c.outPairs) : k = k' := by
  unfold Call.outPairs at h h'
  obtain ⟨p, hp, he⟩ := List.mem_map.mp h
  obtain ⟨p', hp', he'⟩ := List.mem_map.mp h'
  obtain ⟨i1, a⟩ := p
  obtain ⟨i2, b⟩ := p'
  simp only [Prod.mk.injEq] at he he'
  obtain ⟨rfl, rfl⟩ := he
  obtain ⟨rfl, rfl⟩ := he'
  exact enumFrom_det _ 0 _ _ _ hp hp'

/-- the singleton scope names every output Var by its field key -/
theorem singName_out (c : Call) (k : String) (i : Nat) (h : (k, i) ∈ c.outPairs) :
    c.singName (Ref.out i) = k := by
  obtain ⟨k', _, hs, hmem⟩ := singName_spec c (Ref.out i) (out_ref c k i h)
  rw [hs]
  exact outPairs_det c k' k i ((out_mem_items c k' i).mp hmem) h

/-! ## result mapping -/

theorem lookupTy_some_mem (k : String) (res : List (String × Option Ty)) (t : Ty)
    (h : lookupTy k res = some t) : k ∈ res.map (fun p => p.1) := by
  induction res with
  | nil => simp [lookupTy] at h
  | cons e rest ih =>
    obtain ⟨k', t'⟩ := e
    simp only [lookupTy] at h
    cases hr : lookupTy k rest with
    | some x =>
      rw [hr] at h
      simp only [Option.some.injEq] at h
      exact List.mem_cons_of_mem _ (ih (by rw [hr, h]))
    | none =>
      rw [hr] at h
      by_cases he : k' = k
      · simp [he]
      · simp [he] at h

theorem lookupTy_not_mem (k : String) (res : List (String × Option Ty))
    (h : k ∉ res.map (fun p => p.1)) : lookupTy k res = none := by
  cases hr : lookupTy k res with
  | none => rfl
  | some t => exact absurd (lookupTy_some_mem k res t hr) h

/-- looking a result up by name = taking it by position, when the names are pairwise distinct -/
theorem lookupTy_by_position (res : List (String × Option Ty))
    (hnd : (res.map (fun p => p.1)).Nodup) :
    (res.map (fun p => p.1)).map (fun k => lookupTy k res) = res.map (fun p => p.2) := by
  induction res with
  | nil => rfl
  | cons e rest ih =>
    obtain ⟨k, t⟩ := e
    simp only [List.map_cons, List.nodup_cons] at hnd
    simp only [List.map_cons]
    have h0 : lookupTy k ((k, t) :: rest) = t := by
      simp only [lookupTy]
      rw [lookupTy_not_mem k rest hnd.1]
      simp
    rw [h0]
    congr 1
    rw [← ih hnd.2]
    apply List.map_congr_left
    intro k' hk'
    simp only [lookupTy]
    cases hr : lookupTy k' rest with
    | some x => rfl
    | none =>
      have hne : ¬ k = k' := by intro he; rw [he] at hnd; exact hnd.1 hk'
      simp [hne]

/-- renaming result names injectively does not change what a lookup by (renamed) name finds -/
theorem lookupTy_rename (σ : String → String) (a : String) (res : List (String × Option Ty))
    (hinj : ∀ b ∈ res.map (fun p => p.1), σ b = σ a → b = a) :
    lookupTy (σ a) (res.map (fun p => (σ p.1, p.2))) = lookupTy a res := by
  induction res with
  | nil => rfl
  | cons e rest ih =>
    obtain ⟨k, t⟩ := e
    simp only [List.map_cons, lookupTy]
    rw [ih (fun b hb => hinj b (List.mem_cons_of_mem _ hb))]
    cases lookupTy a rest with
    | some x => rfl
    | none =>
      by_cases he : k = a
      · simp [he]
      · have : ¬ σ k = σ a := fun h => he (hinj k (by simp) h)
        simp [he, this]

/-! ## names occurring in a one-node model -/

def namesOf (m : OneNodeModel) : List String :=
  m.node.inputs ++ m.node.outputs ++ m.graphInputs.map (fun p => p.1) ++ m.inits.map (fun p => p.1)
    ++ m.graphOutputs

theorem names_hand (nm : Ref → String) (c : Call) (a : String) (h : a ∈ namesOf (handModel nm c)) :
    a = "" ∨ ∃ r ∈ c.refs, a = nm r := by
  unfold namesOf handModel emitNode at h
  simp only [List.mem_append] at h
  rcases h with (((h | h) | h) | h) | h
  · have h' := mem_trim_sub _ _ _ h
    obtain ⟨p, hp, rfl⟩ := List.mem_map.mp h'
    obtain ⟨k, ov⟩ := p
    cases ov with
    | none => exact Or.inl rfl
    | some v => exact Or.inr ⟨_, inp_ref c k v ((mem_inPairs c k v).mpr hp), rfl⟩
  · have h' := mem_trim_sub _ _ _ h
    obtain ⟨p, hp, rfl⟩ := List.mem_map.mp h'
    exact Or.inr ⟨_, out_ref c p.1 p.2 hp, rfl⟩
  · rw [List.map_map] at h
    obtain ⟨p, hp, rfl⟩ := List.mem_map.mp h
    exact Or.inr ⟨_, inp_ref c p.1 p.2 (List.mem_filter.mp hp).1, rfl⟩
  · obtain ⟨q, hq, rfl⟩ := List.mem_map.mp h
    obtain ⟨p, hp, he⟩ := List.mem_filterMap.mp hq
    cases hv : (c.info p.2).val with
    | none => simp [hv] at he
    | some v =>
      simp only [hv, Option.map_some, Option.some.injEq] at he
      rw [← he]
      exact Or.inr ⟨_, inp_ref c p.1 p.2 (List.mem_filter.mp hp).1, rfl⟩
  · obtain ⟨p, hp, rfl⟩ := List.mem_map.mp h
    exact Or.inr ⟨_, out_ref c p.1 p.2 hp, rfl⟩

/-! ## `stripUnk` -/

/-- `d'` says no more than `d` -/
def Dim.weaker (d' d : Dim) : Prop := d' = Dim.unk ∨ d' = d

inductive ShapeWeaker : List Dim → List Dim → Prop
  | nil : ShapeWeaker [] []
  | cons {d' d s' s} : Dim.weaker d' d → ShapeWeaker s' s → ShapeWeaker (d' :: s') (d :: s)

/-- `t'` is `t` with some dimensions forgotten: same constructor, element type and rank -/
inductive Weaker : Ty → Ty → Prop
  | tensorNone (e : Nat) : Weaker (.tensor e none) (.tensor e none)
  | tensorSome (e : Nat) (s' s : List Dim) : ShapeWeaker s' s → Weaker (.tensor e (some s')) (.tensor e (some s))
  | seq {t' t} : Weaker t' t → Weaker (.seq t') (.seq t)
  | opt {t' t} : Weaker t' t → Weaker (.opt t') (.opt t)

theorem stripDim_weaker (g : List String) (d : Dim) : Dim.weaker (stripDim g d) d := by
  cases d with
  | const n => exact Or.inr rfl
  | unk => exact Or.inr rfl
  | sym s =>
    simp only [stripDim]
    split
    · exact Or.inl rfl
    · exact Or.inr rfl

theorem stripShape_weaker (g : List String) (s : List Dim) : ShapeWeaker (s.map (stripDim g)) s := by
  induction s with
  | nil => exact .nil
  | cons d s ih => exact .cons (stripDim_weaker g d) ih

theorem stripDim_idem (g : List String) (d : Dim) : stripDim g (stripDim g d) = stripDim g d := by
  cases d with
  | const n => rfl
  | unk => rfl
  | sym s =>
    show stripDim g (if (isUnkName s && !g.contains s) = true then Dim.unk else Dim.sym s)
      = (if (isUnkName s && !g.contains s) = true then Dim.unk else Dim.sym s)
    by_cases h : (isUnkName s && !g.contains s) = true
    · rw [if_pos h]; rfl
    · rw [if_neg h]; show (if (isUnkName s && !g.contains s) = true then Dim.unk else Dim.sym s) = Dim.sym s
      rw [if_neg h]

def dimInvented (g : List String) : Dim → Bool
  | .sym s => isUnkName s && !g.contains s
  | _ => false

def tyInvented (g : List String) : Ty → Bool
  | .tensor _ none => false
  | .tensor _ (some s) => s.any (dimInvented g)
  | .seq t => tyInvented g t
  | .opt t => tyInvented g t

theorem stripDim_id (g : List String) (d : Dim) (h : dimInvented g d = false) : stripDim g d = d := by
  cases d with
  | const n => rfl
  | unk => rfl
  | sym s =>
    simp only [dimInvented] at h
    show (if (isUnkName s && !g.contains s) = true then Dim.unk else Dim.sym s) = Dim.sym s
    rw [h]; rfl

/-! ### helper lemmas for the supplements' own rules (Compress, Loop) -/

theorem dimLe_refl (d : Dim) : dimLe d d = true := by simp [dimLe]

theorem zip_all_dimLe_refl : ∀ ds : List Dim, (List.zip ds ds).all (fun p => dimLe p.1 p.2) = true
  | [] => rfl
  | d :: ds => by simp [List.zip_cons_cons, List.all_cons, dimLe_refl, zip_all_dimLe_refl ds]

theorem setUnkAt_length : ∀ (ds : List Dim) (i : Nat), (setUnkAt ds i).length = ds.length
  | [], _ => rfl
  | _ :: _, 0 => rfl
  | _ :: ds, i + 1 => by simp [setUnkAt, setUnkAt_length ds i]

theorem loopOverlay_keys : ∀ (ps : List (Option Ty × Option Ty)) (std : List (String × Option Ty)),
    (loopOverlay ps std).map Prod.fst = std.map Prod.fst
  | [], std => by simp [loopOverlay]
  | _ :: _, [] => by simp [loopOverlay]
  | (some r, some a) :: ps, (k, t) :: std => by simp [loopOverlay, loopOverlay_keys ps std]
  | (none, _) :: ps, e :: std => by simp [loopOverlay, loopOverlay_keys ps std]
  | (some _, none) :: ps, e :: std => by simp [loopOverlay, loopOverlay_keys ps std]

theorem loopOverlay_drop : ∀ (ps : List (Option Ty × Option Ty)) (std : List (String × Option Ty)),
    (loopOverlay ps std).drop ps.length = std.drop ps.length
  | [], std => by simp [loopOverlay]
  | _ :: _, [] => by simp [loopOverlay]
  | (some r, some a) :: ps, (k, t) :: std => by simp [loopOverlay, loopOverlay_drop ps std]
  | (none, _) :: ps, e :: std => by simp [loopOverlay, loopOverlay_drop ps std]
  | (some _, none) :: ps, e :: std => by simp [loopOverlay, loopOverlay_drop ps std]

theorem common_dims_sound : ∀ (as rs : List Dim), as.length = rs.length →
    (List.zip rs ((List.zip as rs).map (fun p => if p.1 = p.2 then p.1 else Dim.unk))).all (fun p => dimLe p.1 p.2) = true
    ∧ (List.zip as ((List.zip as rs).map (fun p => if p.1 = p.2 then p.1 else Dim.unk))).all (fun p => dimLe p.1 p.2) = true
  | [], [], _ => ⟨rfl, rfl⟩
  | a :: as, r :: rs, h => by
    have ih := common_dims_sound as rs (by simpa using h)
    have h1 : dimLe r (if a = r then a else Dim.unk) = true := by
      by_cases hd : a = r
      · subst hd; simp [dimLe]
      · simp [dimLe, hd]
    have h2 : dimLe a (if a = r then a else Dim.unk) = true := by
      by_cases hd : a = r
      · subst hd; simp [dimLe]
      · simp [dimLe, hd]
    constructor
    · show (dimLe r (if a = r then a else Dim.unk) && _) = true
      rw [h1, Bool.true_and]; exact ih.1
    · show (dimLe a (if a = r then a else Dim.unk) && _) = true
      rw [h2, Bool.true_and]; exact ih.2
  | [], _ :: _, h => by simp at h
  | _ :: _, [], h => by simp at h

end Sing
