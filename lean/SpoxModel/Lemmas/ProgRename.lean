import SpoxModel.Lemmas.Prog
/-!
# The denotation only reads the dataflow

`denote_embed`: if (a dataflow-closed part `D` of) program `p` is found inside program `p'` under an
injective renaming `σ` of node ids — i.e. `p'` was written in another creation order, with other
values created in between, with anything else constructed besides — then every value of `D` is the
same in both programs.  `table_append`: nodes created later never change older values.
-/
namespace Prog
variable {Val : Type} [Inhabited Val]

def mapRef (σ : Nat → Nat) (r : VarRef) : VarRef := ⟨σ r.node, r.idx⟩

def mapGraph (σ : Nat → Nat) (g : PGraph) : PGraph :=
  ⟨g.args.map σ, g.results.map (mapRef σ)⟩

def mapNode (σ : Nat → Nat) (n : PNode) : PNode :=
  ⟨n.kind, n.inputs.map (fun o => o.map (mapRef σ)), n.subs.map (mapGraph σ)⟩

theorem updArgs_map (σ : Nat → Nat) (hσ : ∀ x y, σ x = σ y → x = y) (b b' : Nat → Val)
    (hb : ∀ a, b' (σ a) = b a) (args : List Nat) (vals : List Val) :
    ∀ a, updArgs b' (args.map σ) vals (σ a) = updArgs b args vals a := by
  induction args generalizing vals with
  | nil => intro a; simpa [updArgs] using hb a
  | cons x xs ih =>
    intro a
    simp only [List.map_cons, updArgs]
    by_cases h : a = x
    · subst h; simp
    · have h' : ¬ σ a = σ x := fun e => h (hσ _ _ e)
      rw [if_neg h, if_neg h']
      exact ih _ a

/-- Nodes created later do not change the value of older nodes (no well-formedness needed). -/
theorem table_append (S : Sem Val) (extra p : List PNode) (b : Nat → Val) (k : Nat)
    (hk : k < p.length) : valAt (table S (extra ++ p) b) k = valAt (table S p b) k := by
  induction extra with
  | nil => rfl
  | cons m rest ih =>
    rw [List.cons_append, table_cons]
    simp only [valAt, table_length, List.length_append]
    have hne : ¬ k = rest.length + p.length := by omega
    rw [if_neg hne]
    exact ih

theorem denote_embed (S : Sem Val) (p p' : List PNode) (hwf : WF p) (hwf' : WF p')
    (σ : Nat → Nat) (hσ : ∀ x y, σ x = σ y → x = y) (D : Nat → Prop)
    (hD : ∀ k, D k → ∃ n, nodeAt p k = some n ∧ nodeAt p' (σ k) = some (mapNode σ n) ∧
      (∀ r, some r ∈ n.inputs → D r.node) ∧ (∀ g ∈ n.subs, ∀ r ∈ g.results, D r.node)) :
    ∀ k, D k → ∀ (b b' : Nat → Val), (∀ a, b' (σ a) = b a) →
      valAt (table S p' b') (σ k) = valAt (table S p b) k := by
  intro k
  induction k using Nat.strongRecOn with
  | _ k ih =>
    intro hk b b' hb
    obtain ⟨n, hn, hn', hin, hsub⟩ := hD k hk
    obtain ⟨hwin, hwsub⟩ := hwf k n hn
    rw [table_unfold S p' hwf' b' (σ k) _ hn', table_unfold S p hwf b k n hn]
    unfold nodeVal
    have hkind : (mapNode σ n).kind = n.kind := rfl
    rw [hkind]
    cases hl : n.kind.label? with
    | none => simp only; rw [hb k]
    | some l =>
      simp only
      congr 1
      · simp only [mapNode, List.map_map]
        apply List.map_congr_left
        intro o ho
        cases o with
        | none => rfl
        | some r =>
          simp only [Function.comp, Option.map, getOpt, getVar, mapRef]
          rw [ih r.node (hwin r ho) (hin r ho) b b' hb]
      · simp only [mapNode, List.map_map]
        apply List.map_congr_left
        intro g hg
        funext vals
        simp only [Function.comp, mapGraph, List.map_map]
        apply List.map_congr_left
        intro r hr
        simp only [Function.comp, getVar, mapRef]
        rw [ih r.node (hwsub g hg r hr) (hsub g hg r hr) _ _
          (updArgs_map σ hσ b b' hb g.args vals)]

end Prog
