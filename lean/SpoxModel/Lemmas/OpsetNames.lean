import SpoxModel.Lemmas.OpsetRename
/-!
# Names introduced by adaptation are a function of the node's name and the decision (C09, round 7)

Every application of a function is compiled in a scope of its own, so the nodes of two applications carry
the same names; the names given to converter-introduced values must then coincide as well, or the two
FunctionProtos differ ("has two different definitions"). In the model a name introduced for a node is
`fresh node k`: nothing else — no history, no counter — enters.
-/
namespace Opset

/-- what `allNames` reads of an entry -/
def Entry.key (e : Entry) : Nat × Decision := (e.node.id, e.decision)

theorem entryNames_key (q : Bool) (nOut : Nat → Nat) (conv : Nat → List Nat) (e₁ e₂ : Entry)
    (h : e₁.key = e₂.key) : entryNames q nOut conv e₁ = entryNames q nOut conv e₂ := by
  have h1 : e₁.node.id = e₂.node.id := congrArg Prod.fst h
  have h2 : e₁.decision = e₂.decision := congrArg Prod.snd h
  simp only [entryNames, h1, h2]

theorem allNames_key (q : Bool) (nOut : Nat → Nat) (conv : Nat → List Nat) :
    ∀ (es₁ es₂ : List Entry), es₁.map Entry.key = es₂.map Entry.key →
      allNames q nOut conv es₁ = allNames q nOut conv es₂
  | [], [], _ => rfl
  | [], _ :: _, h => by simp at h
  | _ :: _, [], h => by simp at h
  | e₁ :: r₁, e₂ :: r₂, h => by
    simp only [List.map_cons, List.cons.injEq] at h
    simp only [allNames, List.flatMap_cons]
    rw [entryNames_key q nOut conv e₁ e₂ h.1]
    have := allNames_key q nOut conv r₁ r₂ h.2
    simp only [allNames] at this
    rw [this]

end Opset
