import SpoxModel.Lemmas.Types
/-! Helper lemmas for C13 (mini-round): algebra of `Shape.broadcast` - idempotence. -/
namespace Types

theorem bElem_self (x : Natural) : bElem x x = some x := by simp [bElem]

theorem bZip_self : (a : List Natural) → bZip a a = some a
  | [] => rfl
  | x :: xs => by simp [bZip, bElem_self, bZip_self xs]

theorem broadcast_self (a : Shape) : broadcast a a = some a := by
  cases a with
  | none => rfl
  | some l => simp [broadcast, bZip_self]

end Types
