import SpoxModel.Lemmas.Subgraph
import SpoxModel.Model.SubgraphNested
/-! Lemmas about nested subgraph callbacks (`runTree` / `runForest`): exact invocation log, counts,
    freshness, and the flat constructor as the special case of leaves. -/
namespace SubgraphNestedLemmas
open Subgraph SubgraphNested SubgraphLemmas

mutual
/-- the events a tree produces when the fresh-id counter stands at `s`, oldest first -/
def evs : Tree → Nat → List Event
  | .node cb types _ children, s => ⟨cb, freshIds s types.length, types⟩ :: evsF children (s + types.length)
def evsF : List Tree → Nat → List Event
  | [], _ => []
  | t :: ts, s => evs t s ++ evsF ts (s + nArgs t)
end

/-- One node = one `subgraph` call with a well-behaved callback, then the callback's own calls. -/
theorem runTree_eq (cb : Nat) (types : List Ty) (n : Nat) (ch : List Tree) (w : World) :
    runTree (.node cb types n ch) w = runForest ch (subgraphCall types cb (.returnsVars n) w).2 := by
  simp [runTree, subgraphCall, CbBehaviour.callable, CbBehaviour.result]

mutual
theorem runTree_fresh_counter : ∀ (t : Tree) (w : World), (runTree t w).fresh = w.fresh + nArgs t
  | .node cb types n ch, w => by
    rw [runTree, runForest_fresh_counter ch]
    simp [nArgs, Nat.add_assoc]
theorem runForest_fresh_counter : ∀ (ts : List Tree) (w : World), (runForest ts w).fresh = w.fresh + nArgsF ts
  | [], w => by simp [runForest, nArgsF]
  | t :: ts, w => by
    rw [runForest, runForest_fresh_counter ts, runTree_fresh_counter t]
    simp [nArgsF, Nat.add_assoc]
end

mutual
/-- **The exact log.** -/
theorem runTree_events : ∀ (t : Tree) (w : World), (runTree t w).events = (evs t w.fresh).reverse ++ w.events
  | .node cb types n ch, w => by
    rw [runTree, runForest_events ch]
    simp [evs]
theorem runForest_events : ∀ (ts : List Tree) (w : World),
    (runForest ts w).events = (evsF ts w.fresh).reverse ++ w.events
  | [], w => by simp [runForest, evsF]
  | t :: ts, w => by
    rw [runForest, runForest_events ts, runTree_events t, runTree_fresh_counter t]
    simp [evsF]
end

mutual
theorem evs_sigs : ∀ (t : Tree) (s : Nat), (evs t s).map (fun e => (e.cb, e.types)) = sigs t
  | .node cb types n ch, s => by simp [evs, sigs, evsF_sigs ch]
theorem evsF_sigs : ∀ (ts : List Tree) (s : Nat), (evsF ts s).map (fun e => (e.cb, e.types)) = sigsF ts
  | [], s => by simp [evsF, sigsF]
  | t :: ts, s => by simp [evsF, sigsF, evs_sigs t, evsF_sigs ts]
end

mutual
theorem runTree_count : ∀ (t : Tree) (w : World) (c : Nat), (runTree t w).count c = w.count c + (ids t).count c
  | .node cb types n ch, w, c => by
    rw [runTree_eq, runForest_count ch, subgraphCall_count]
    by_cases h : cb = c <;> simp [ids, CbBehaviour.callable, h] <;> omega
theorem runForest_count : ∀ (ts : List Tree) (w : World) (c : Nat),
    (runForest ts w).count c = w.count c + (idsF ts).count c
  | [], w, c => by simp [runForest, idsF]
  | t :: ts, w, c => by
    rw [runForest, runForest_count ts, runTree_count t]
    simp [idsF, List.count_append]; omega
end

mutual
theorem runTree_fresh : ∀ (t : Tree) (w : World), Fresh w → Fresh (runTree t w)
  | .node cb types n ch, w, hw => by
    rw [runTree_eq]
    exact runForest_fresh ch _ (subgraphCall_fresh types cb _ w hw)
theorem runForest_fresh : ∀ (ts : List Tree) (w : World), Fresh w → Fresh (runForest ts w)
  | [], w, hw => by simpa [runForest] using hw
  | t :: ts, w, hw => by
    rw [runForest]
    exact runForest_fresh ts _ (runTree_fresh t w hw)
end

mutual
/-- Failing or not: no callback is invoked more often than it occurs in the tree. -/
theorem runTreeE_count_le : ∀ (t : TreeE) (w : World) (c : Nat),
    (runTreeE t w).2.count c ≤ w.count c + (idsE t).count c
  | .node cb types beh ch, w, c => by
    unfold runTreeE
    cases hcall : beh.callable
    · simp [World.count]
    · simp only [if_true]
      have h := runForestE_count_le ch
        { events := ⟨cb, freshIds w.fresh types.length, types⟩ :: w.events, fresh := w.fresh + types.length } c
      have hc : World.count ⟨⟨cb, freshIds w.fresh types.length, types⟩ :: w.events, w.fresh + types.length⟩ c
          = w.count c + (if cb = c then 1 else 0) := by
        rw [count_cons]; simp
      rw [hc] at h
      generalize runForestE ch _ = r at h
      obtain ⟨e, w2⟩ := r
      have hb : (if cb = c then 1 else 0) + (idsFE ch).count c = (idsE (.node cb types beh ch)).count c := by
        by_cases hcc : cb = c <;> simp [idsE, hcc] <;> omega
      cases e with
      | some err => simp only at h ⊢; omega
      | none =>
        simp only at h ⊢
        cases beh.result <;> simp only <;> omega
theorem runForestE_count_le : ∀ (ts : List TreeE) (w : World) (c : Nat),
    (runForestE ts w).2.count c ≤ w.count c + (idsFE ts).count c
  | [], w, c => by simp [runForestE, idsFE]
  | t :: ts, w, c => by
    unfold runForestE
    have h1 := runTreeE_count_le t w c
    generalize runTreeE t w = r at h1
    obtain ⟨e, w1⟩ := r
    cases e with
    | some err => simp only at h1 ⊢; simp [idsFE, List.count_append]; omega
    | none =>
      simp only at h1 ⊢
      have h2 := runForestE_count_le ts w1 c
      simp [idsFE, List.count_append]; omega
end

mutual
/-- **Refinement.** A nested call that does not fail is exactly the successful model on the erased tree. -/
theorem runTreeE_ok : ∀ (t : TreeE) (w : World), (runTreeE t w).1 = none → (runTreeE t w).2 = runTree (erase t) w
  | .node cb types beh ch, w => by
    unfold runTreeE
    cases hcall : beh.callable
    · simp
    · simp only [if_true]
      have h := runForestE_ok ch
        { events := ⟨cb, freshIds w.fresh types.length, types⟩ :: w.events, fresh := w.fresh + types.length }
      generalize runForestE ch _ = r at h
      obtain ⟨e, w2⟩ := r
      cases e with
      | some err => simp
      | none =>
        simp only at h ⊢
        cases beh.result with
        | ok n => intro _; simp [erase, runTree, h trivial]
        | error err => simp
theorem runForestE_ok : ∀ (ts : List TreeE) (w : World),
    (runForestE ts w).1 = none → (runForestE ts w).2 = runForest (eraseF ts) w
  | [], w => by simp [runForestE, eraseF, runForest]
  | t :: ts, w => by
    unfold runForestE
    have h1 := runTreeE_ok t w
    generalize runTreeE t w = r at h1
    obtain ⟨e, w1⟩ := r
    cases e with
    | some err => simp
    | none =>
      simp only at h1 ⊢
      intro h
      rw [runForestE_ok ts w1 h, eraseF, runForest, ← h1 trivial]
end

/-- The leaves a flat constructor call amounts to: one per `subgraph(…)` call whose type expression
    evaluates and whose callback returns Vars. -/
def leavesOf (env : Env) (cbs : Callbacks) : List (String × ListExpr) → List Tree
  | [] => []
  | (nm, e) :: rest =>
    match evalList env e, (cbs nm).2 with
    | .ok types, .returnsVars n => leaf (cbs nm).1 types n :: leavesOf env cbs rest
    | _, _ => leavesOf env cbs rest

/-- A successful flat constructor call is the forest of its leaves. -/
theorem runSubgraphs_forest (env : Env) (cbs : Callbacks) :
    ∀ (subs : List (String × ListExpr)) (w w' : World) (gs : List (String × Graph)),
      runSubgraphs env cbs subs w = (.ok gs, w') → w' = runForest (leavesOf env cbs subs) w := by
  intro subs
  induction subs with
  | nil => intro w w' gs h; simp [runSubgraphs] at h; simp [leavesOf, runForest, h.2]
  | cons p rest ih =>
    intro w w' gs h
    obtain ⟨nm, e⟩ := p
    simp only [runSubgraphs] at h
    cases he : evalList env e with
    | error err => simp [he] at h
    | ok types =>
      simp only [he] at h
      cases hb : (cbs nm).2 with
      | returnsVars n =>
        have hsc : subgraphCall types (cbs nm).1 (.returnsVars n) w
            = (.ok ⟨(cbs nm).1, freshIds w.fresh types.length, n⟩,
                ⟨⟨(cbs nm).1, freshIds w.fresh types.length, types⟩ :: w.events, w.fresh + types.length⟩) := by
          simp [subgraphCall, CbBehaviour.callable, CbBehaviour.result]
        rw [hb, hsc] at h
        simp only at h
        generalize hr : runSubgraphs env cbs rest _ = r at h
        obtain ⟨res, w2⟩ := r
        cases res with
        | error err => simp at h
        | ok gs2 =>
          simp only [Prod.mk.injEq] at h
          have := ih _ _ _ hr
          simp [leavesOf, he, hb, runForest, leaf, runTree, ← h.2, this]
      | notCallable =>
        rw [hb] at h; simp [subgraphCall, CbBehaviour.callable] at h
      | nonIterable =>
        rw [hb] at h; simp [subgraphCall, CbBehaviour.callable, CbBehaviour.result] at h
      | hasNonVar k =>
        rw [hb] at h; simp [subgraphCall, CbBehaviour.callable, CbBehaviour.result] at h
      | raises =>
        rw [hb] at h; simp [subgraphCall, CbBehaviour.callable, CbBehaviour.result] at h

end SubgraphNestedLemmas
