import SpoxModel.Model.InitTable
/-! Dict lemmas behind C10 part 10 (initializers reach the GraphProto once, by name). Core Lean only. -/
namespace InitTable
open Tensor

variable {κ α β : Type} [DecidableEq κ]

theorem dset_fresh (d : List (κ × α)) (k : κ) (v : α) (h : k ∉ d.map Prod.fst) :
    dset d k v = d ++ [(k, v)] := by
  induction d with
  | nil => rfl
  | cons p r ih =>
    obtain ⟨k', v'⟩ := p
    simp only [List.map_cons, List.mem_cons, not_or] at h
    have hne : ¬ k' = k := fun e => h.1 e.symm
    simp only [dset, hne, if_false, ih h.2, List.cons_append]

/-- The keys after `d[k] = v`: unchanged if `k` was present, `k` appended otherwise. -/
theorem dset_keys (d : List (κ × α)) (k : κ) (v : α) :
    (dset d k v).map Prod.fst = if k ∈ d.map Prod.fst then d.map Prod.fst else d.map Prod.fst ++ [k] := by
  induction d with
  | nil => simp [dset]
  | cons p r ih =>
    obtain ⟨k', v'⟩ := p
    by_cases e : k' = k
    · subst e; simp [dset]
    · have e' : ¬ k = k' := fun h => e h.symm
      simp only [dset, e, if_false, List.map_cons, ih, List.mem_cons, e', false_or]
      split <;> simp

theorem dset_keys_nodup (d : List (κ × α)) (k : κ) (v : α) (h : (d.map Prod.fst).Nodup) :
    ((dset d k v).map Prod.fst).Nodup := by
  rw [dset_keys]
  split
  · exact h
  · rename_i hk
    rw [List.nodup_append]
    refine ⟨h, by simp, ?_⟩
    intro a ha b hb
    simp only [List.mem_singleton] at hb
    subst hb
    intro e; subst e; exact hk ha

/-- `d[k] = v` makes `d.get(k) == v` and leaves every other key alone. -/
theorem dget_dset (d : List (κ × α)) (k k' : κ) (v : α) :
    dget (dset d k v) k' = if k = k' then some v else dget d k' := by
  induction d with
  | nil => simp [dset, dget]
  | cons p r ih =>
    obtain ⟨k0, v0⟩ := p
    by_cases e : k0 = k
    · subst e
      by_cases e2 : k0 = k' <;> simp [dset, dget, e2]
    · by_cases e2 : k0 = k'
      · subst e2
        have : ¬ k = k0 := fun h => e h.symm
        simp [dset, dget, e, this]
      · simp [dset, dget, e, e2, ih]

/-- Writing a list of pairs with pairwise different keys, none of them present, appends the list. -/
theorem foldl_dset_fresh (g : β → κ × α) :
    ∀ (l : List β) (acc : List (κ × α)), (acc.map Prod.fst ++ l.map (fun b => (g b).1)).Nodup →
      l.foldl (fun acc b => dset acc (g b).1 (g b).2) acc = acc ++ l.map g := by
  intro l
  induction l with
  | nil => intro acc _; simp
  | cons b l ih =>
    intro acc h
    have hb : (g b).1 ∉ acc.map Prod.fst := by
      intro hm
      rw [List.nodup_append] at h
      exact h.2.2 _ hm _ (by simp) rfl
    simp only [List.foldl_cons, List.map_cons]
    rw [dset_fresh _ _ _ hb, ih]
    · simp
    · simpa [List.append_assoc] using h

/-- Whatever is written, in whatever order, a dict never has a key twice. -/
theorem foldl_dset_keys_nodup (g : β → κ × α) :
    ∀ (l : List β) (acc : List (κ × α)), (acc.map Prod.fst).Nodup →
      ((l.foldl (fun acc b => dset acc (g b).1 (g b).2) acc).map Prod.fst).Nodup := by
  intro l
  induction l with
  | nil => intro acc h; simpa using h
  | cons b l ih => intro acc h; exact ih _ (dset_keys_nodup _ _ _ h)

/-- `update_metadata` over a list of nodes = writing the entries of the initializer-bearing ones. -/
theorem foldl_update (l : List Node) (acc : List (Nat × Arr)) :
    l.foldl Node.update acc = (l.filterMap Node.entry).foldl (fun acc p => dset acc p.1 p.2) acc := by
  induction l generalizing acc with
  | nil => rfl
  | cons n l ih =>
    simp only [List.foldl_cons, List.filterMap_cons]
    cases hn : n.entry with
    | none => simp only [Node.update, hn]; exact ih _
    | some p => obtain ⟨v, a⟩ := p; simp only [Node.update, hn, List.foldl_cons]; exact ih _

theorem allSome_eq_some {δ : Type} (xs : List (Option δ)) (ts : List δ) :
    allSome xs = some ts ↔ xs = ts.map some := by
  induction xs generalizing ts with
  | nil => cases ts <;> simp [allSome]
  | cons x r ih =>
    cases x with
    | none => cases ts <;> simp [allSome]
    | some x =>
      cases ts with
      | nil => simp [allSome]
      | cons t ts =>
        simp only [allSome, Option.map_eq_some_iff, List.cons.injEq, List.map_cons, Option.some.injEq]
        constructor
        · rintro ⟨r', h1, h2, h3⟩; subst h3; exact ⟨h2, (ih _).mp h1⟩
        · rintro ⟨h1, h2⟩; exact ⟨ts, (ih _).mpr h2, h1, rfl⟩

theorem allSome_map_total {γ δ : Type} (f : γ → Option δ) (hf : ∀ a, (f a).isSome = true) (l : List γ) :
    ∃ ts, allSome (l.map f) = some ts := by
  induction l with
  | nil => exact ⟨[], rfl⟩
  | cons a l ih =>
    obtain ⟨ts, h1⟩ := ih
    obtain ⟨t, ht⟩ := Option.isSome_iff_exists.mp (hf a)
    exact ⟨t :: ts, by simp only [List.map_cons, ht, allSome, h1, Option.map_some]⟩

/-- `from_array(arr, name)` names the tensor `name`. -/
theorem fromArray_name (q : Bool) (a : Arr) (n : String) (t : TProto) (h : fromArray q a n = some t) :
    t.name = n := by
  obtain ⟨d, shape, words, strs⟩ := a
  cases d <;>
    simp only [fromArray, Generated.TensorEnum.enumOf, onnxDType, Generated.TensorEnum.fieldOf, ne_eq,
      not_true_eq_false, if_false, Option.some.injEq] at h <;> subst h <;> rfl

/-- Reading a per-item fact off `l.map f = ts.map some`. -/
theorem map_of_map_some {γ δ ε : Type} (f : γ → Option δ) (g : γ → ε) (h : δ → ε)
    (hfg : ∀ a t, f a = some t → h t = g a) :
    ∀ (l : List γ) (ts : List δ), l.map f = ts.map some → ts.map h = l.map g := by
  intro l
  induction l with
  | nil => intro ts e; cases ts <;> simp_all
  | cons a l ih =>
    intro ts e
    cases ts with
    | nil => simp at e
    | cons t ts =>
      simp only [List.map_cons, List.cons.injEq] at e ⊢
      exact ⟨hfg a t e.1, ih ts e.2⟩

theorem mem_of_map_some {γ δ : Type} (f : γ → Option δ) :
    ∀ (l : List γ) (ts : List δ), l.map f = ts.map some → ∀ a ∈ l, ∃ t ∈ ts, f a = some t := by
  intro l
  induction l with
  | nil => intro ts _ a ha; simp at ha
  | cons b l ih =>
    intro ts e a ha
    cases ts with
    | nil => simp at e
    | cons t ts =>
      simp only [List.map_cons, List.cons.injEq] at e
      rcases List.mem_cons.mp ha with rfl | ha
      · exact ⟨t, by simp, e.1⟩
      · obtain ⟨t', ht', h'⟩ := ih ts e.2 a ha
        exact ⟨t', by simp [ht'], h'⟩

theorem mem_of_map_some' {γ δ : Type} (f : γ → Option δ) :
    ∀ (l : List γ) (ts : List δ), l.map f = ts.map some → ∀ t ∈ ts, ∃ a ∈ l, f a = some t := by
  intro l
  induction l with
  | nil => intro ts e t ht; cases ts <;> simp_all
  | cons b l ih =>
    intro ts e t ht
    cases ts with
    | nil => simp at ht
    | cons t0 ts =>
      simp only [List.map_cons, List.cons.injEq] at e
      rcases List.mem_cons.mp ht with rfl | ht
      · exact ⟨b, by simp, e.1⟩
      · obtain ⟨a, ha, h'⟩ := ih ts e.2 t ht
        exact ⟨a, by simp [ha], h'⟩

/-- With every Var written once, `BuildResult.initializers` is the list of contributions in visiting order. -/
theorem collect_eq_bearing (args own : List Node) (hv : ((bearing args own).map Prod.fst).Nodup) :
    collect args own = bearing args own := by
  unfold collect bearing at *
  rw [foldl_update]
  have := foldl_dset_fresh (fun p : Nat × Arr => p) ((visited args own).filterMap Node.entry) []
    (by simpa using hv)
  simpa using this

theorem byName_of_distinct (name : Nat → String) (d : List (Nat × Arr))
    (hn : (d.map (fun p => name p.1)).Nodup) : byName name d = d.map (fun p => (name p.1, p.2)) := by
  unfold byName
  have := foldl_dset_fresh (fun p : Nat × Arr => (name p.1, p.2)) d [] (by simpa using hn)
  simpa using this

theorem byName_keys_nodup (name : Nat → String) (d : List (Nat × Arr)) :
    ((byName name d).map Prod.fst).Nodup := by
  unfold byName
  exact foldl_dset_keys_nodup (fun p : Nat × Arr => (name p.1, p.2)) d [] (by simp)

end InitTable
