import SpoxModel.Model.BuildAlg
/-!
# DFS post-order (`iterative_dfs` as modelled by `BuildAlg.visit`) on a ranked DAG

`visit_spec`   the post-order lists every vertex after all of its successors, contains the root and
               extends the post-order it started from;
`visit_nodup`  no vertex is listed twice;
`mem_visit_iff` started from the empty list it lists exactly the vertices reachable from the root.
-/
set_option linter.unusedSectionVars false
namespace BuildAlg

variable {α : Type} [DecidableEq α]

/-- Every listed vertex comes after all of its successors. -/
def Closed (adj : α → List α) (post : List α) : Prop :=
  ∀ pre v suf, post = pre ++ v :: suf → ∀ w ∈ adj v, w ∈ pre

inductive Reach (adj : α → List α) : α → α → Prop
  | refl (v : α) : Reach adj v v
  | step {u v w : α} : Reach adj u v → w ∈ adj v → Reach adj u w

theorem Reach.head {adj : α → List α} {u v w : α} (h : v ∈ adj u) (r : Reach adj v w) :
    Reach adj u w := by
  induction r with
  | refl => exact Reach.step (Reach.refl u) h
  | step _ hw ih => exact Reach.step ih hw

theorem Reach.trans {adj : α → List α} {u v w : α} (r1 : Reach adj u v) (r2 : Reach adj v w) :
    Reach adj u w := by
  induction r2 with
  | refl => exact r1
  | step _ hw ih => exact Reach.step ih hw

theorem closed_nil (adj : α → List α) : Closed adj [] := by
  intro pre v suf h
  cases pre <;> simp at h

theorem closed_snoc {adj : α → List α} {post : List α} {v : α} (h : Closed adj post)
    (hv : ∀ w ∈ adj v, w ∈ post) : Closed adj (post ++ [v]) := by
  intro pre u suf heq w hw
  rcases List.eq_nil_or_concat suf with hs | ⟨suf', x, hs⟩
  · subst hs
    have := List.append_inj' heq (by simp)
    obtain ⟨h1, h2⟩ := this
    have : u = v := by simpa using h2.symm
    subst this; subst h1
    exact hv w hw
  · subst hs
    have heq' : post ++ [v] = (pre ++ u :: suf') ++ [x] := by simpa using heq
    have := List.append_inj' heq' (by simp)
    exact h pre u suf' this.1 w hw

/-- In a closed list, everything reachable from a listed vertex is listed. -/
theorem closed_reach {adj : α → List α} {post : List α} (hc : Closed adj post) {u x : α}
    (hu : u ∈ post) (r : Reach adj u x) : x ∈ post := by
  induction r with
  | refl => exact hu
  | step _ hw ih =>
    obtain ⟨pre, suf, hsplit⟩ := List.append_of_mem ih
    have := hc pre _ suf hsplit _ hw
    rw [hsplit]; exact List.mem_append_left _ this

theorem visit_spec {adj : α → List α} (rank : α → Nat) (hrank : ∀ v, ∀ w ∈ adj v, rank w < rank v) :
    ∀ fuel v post, rank v < fuel → Closed adj post →
      Closed adj (visit adj fuel v post) ∧ v ∈ visit adj fuel v post ∧
        post <+: visit adj fuel v post := by
  intro fuel
  induction fuel with
  | zero => intro v post h; omega
  | succ fuel ih =>
    intro v post hf hc
    simp only [visit]
    split
    · rename_i hmem
      exact ⟨hc, hmem, List.prefix_refl _⟩
    · have hfold : ∀ (ws : List α) (p : List α), (∀ w ∈ ws, rank w < fuel) → Closed adj p →
          Closed adj (ws.foldl (fun p w => visit adj fuel w p) p) ∧
          (∀ w ∈ ws, w ∈ ws.foldl (fun p w => visit adj fuel w p) p) ∧
          p <+: ws.foldl (fun p w => visit adj fuel w p) p := by
        intro ws
        induction ws with
        | nil => intro p _ hp; exact ⟨hp, by simp, List.prefix_refl _⟩
        | cons w ws ihw =>
          intro p hr hp
          obtain ⟨h1, h2, h3⟩ := ih w p (hr w List.mem_cons_self) hp
          obtain ⟨g1, g2, g3⟩ := ihw (visit adj fuel w p)
            (fun w' hw' => hr w' (List.mem_cons_of_mem _ hw')) h1
          refine ⟨g1, ?_, List.IsPrefix.trans h3 g3⟩
          intro w' hw'
          cases hw' with
          | head => exact g3.subset h2
          | tail _ h' => exact g2 w' h'
      obtain ⟨f1, f2, f3⟩ := hfold (adj v) post
        (fun w hw => by have := hrank v w hw; omega) hc
      refine ⟨closed_snoc f1 f2, by simp, ?_⟩
      exact List.IsPrefix.trans f3 (List.prefix_append _ _)

/-- Everything the traversal adds is reachable from the root. -/
theorem visit_sub {adj : α → List α} : ∀ fuel v post x, x ∈ visit adj fuel v post →
    x ∈ post ∨ Reach adj v x := by
  intro fuel
  induction fuel with
  | zero => intro v post x h; left; simpa [visit] using h
  | succ fuel ih =>
    intro v post x h
    simp only [visit] at h
    split at h
    · left; exact h
    · have hfold : ∀ (ws : List α) (p : List α), x ∈ ws.foldl (fun p w => visit adj fuel w p) p →
          x ∈ p ∨ ∃ w ∈ ws, Reach adj w x := by
        intro ws
        induction ws with
        | nil => intro p hx; left; simpa using hx
        | cons w ws ihw =>
          intro p hx
          simp only [List.foldl_cons] at hx
          rcases ihw _ hx with h1 | ⟨w', hw', r⟩
          · rcases ih w p x h1 with h2 | r
            · left; exact h2
            · right; exact ⟨w, List.mem_cons_self, r⟩
          · right; exact ⟨w', List.mem_cons_of_mem _ hw', r⟩
      rcases List.mem_append.mp h with h1 | h1
      · rcases hfold _ _ h1 with h2 | ⟨w, hw, r⟩
        · left; exact h2
        · right; exact Reach.head hw r
      · right
        have : x = v := by simpa using h1
        subst this; exact Reach.refl _

theorem reach_rank {adj : α → List α} (rank : α → Nat)
    (hrank : ∀ v, ∀ w ∈ adj v, rank w < rank v) {u x : α} (r : Reach adj u x) :
    x = u ∨ rank x < rank u := by
  induction r with
  | refl => left; rfl
  | step _ hw ih =>
    right
    have := hrank _ _ hw
    rcases ih with h | h
    · subst h; exact this
    · omega

/-- The post-order has no duplicates. -/
theorem visit_nodup {adj : α → List α} (rank : α → Nat)
    (hrank : ∀ v, ∀ w ∈ adj v, rank w < rank v) :
    ∀ fuel v post, post.Nodup → (visit adj fuel v post).Nodup := by
  intro fuel
  induction fuel with
  | zero => intro v post h; simpa [visit] using h
  | succ fuel ih =>
    intro v post hnd
    simp only [visit]
    split
    · exact hnd
    · rename_i hv
      have hfold : ∀ (ws : List α) (p : List α), p.Nodup →
          (ws.foldl (fun p w => visit adj fuel w p) p).Nodup := by
        intro ws
        induction ws with
        | nil => intro p hp; simpa using hp
        | cons w ws ihw => intro p hp; exact ihw _ (ih w p hp)
      have hfold2 : ∀ (ws : List α) (p : List α) (x : α),
          x ∈ ws.foldl (fun p w => visit adj fuel w p) p → x ∈ p ∨ ∃ w ∈ ws, Reach adj w x := by
        intro ws
        induction ws with
        | nil => intro p x hx; left; simpa using hx
        | cons w ws ihw =>
          intro p x hx
          simp only [List.foldl_cons] at hx
          rcases ihw _ x hx with h1 | ⟨w', hw', r⟩
          · rcases visit_sub fuel w p x h1 with h2 | r
            · left; exact h2
            · right; exact ⟨w, List.mem_cons_self, r⟩
          · right; exact ⟨w', List.mem_cons_of_mem _ hw', r⟩
      rw [List.nodup_append]
      refine ⟨hfold _ _ hnd, by simp, ?_⟩
      intro a ha b hb
      have hb' : b = v := by simpa using hb
      subst hb'
      intro hab
      subst hab
      rcases hfold2 _ _ _ ha with h1 | ⟨w, hw, r⟩
      · exact hv h1
      · have h1 := hrank _ w hw
        rcases reach_rank rank hrank r with h2 | h2
        · subst h2; omega
        · omega

/-- Started from the empty list, the traversal lists exactly the reachable vertices. -/
theorem mem_visit_iff {adj : α → List α} (rank : α → Nat)
    (hrank : ∀ v, ∀ w ∈ adj v, rank w < rank v) (fuel : Nat) (v x : α) (hf : rank v < fuel) :
    x ∈ visit adj fuel v [] ↔ Reach adj v x := by
  constructor
  · intro h
    rcases visit_sub fuel v [] x h with h1 | h1
    · simp at h1
    · exact h1
  · intro r
    obtain ⟨hc, hv, _⟩ := visit_spec rank hrank fuel v [] hf (closed_nil adj)
    exact closed_reach hc hv r

end BuildAlg
