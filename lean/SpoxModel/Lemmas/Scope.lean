import SpoxModel.Model.Scope
/-! Invariant of `ScopeSpace` chains and its preservation by every operation (C02). -/
namespace Scope

/-- names and objects are in bijection, no assigned name is reserved, no name is reserved twice -/
structure PInv (A : List (Nat × String)) (R : List String) : Prop where
  objs : (A.map (·.1)).Nodup
  names : (A.map (·.2)).Nodup
  disj : ∀ n ∈ A.map (·.2), n ∉ R
  res : R.Nodup

/-- the invariant of a chain of namespaces (innermost first), over everything visible -/
def FInv (fs : List Frame) : Prop := PInv (allPairs fs) (allReserved fs)
def Inv (s : Space) : Prop := FInv s.frames

theorem PInv.nil : PInv [] [] := ⟨List.nodup_nil, List.nodup_nil, by simp, List.nodup_nil⟩

theorem PInv.cons_pair {A R} (h : PInv A R) {o : Nat} {n : String}
    (ho : o ∉ A.map (·.1)) (hn : n ∉ A.map (·.2)) (hr : n ∉ R) : PInv ((o, n) :: A) R := by
  refine ⟨?_, ?_, ?_, h.res⟩
  · simpa [List.nodup_cons] using ⟨by simpa using ho, h.objs⟩
  · simpa [List.nodup_cons] using ⟨by simpa using hn, h.names⟩
  · intro m hm
    simp only [List.map_cons, List.mem_cons] at hm
    rcases hm with rfl | hm
    · exact hr
    · exact h.disj m hm

theorem PInv.cons_res {A R} (h : PInv A R) {n : String}
    (hn : n ∉ A.map (·.2)) (hr : n ∉ R) : PInv A (n :: R) := by
  refine ⟨h.objs, h.names, ?_, List.nodup_cons.mpr ⟨hr, h.res⟩⟩
  intro m hm hmem
  rcases List.mem_cons.mp hmem with rfl | h'
  · exact hn hm
  · exact h.disj m hm h'

theorem PInv.sub {A R A' R'} (h : PInv A R) (hA : A'.Sublist A) (hR : R'.Sublist R) : PInv A' R' := by
  refine ⟨(hA.map _).nodup h.objs, (hA.map _).nodup h.names, ?_, hR.nodup h.res⟩
  intro m hm hmem
  exact h.disj m ((hA.map _).subset hm) (hR.subset hmem)

@[simp] theorem allPairs_cons (f : Frame) (ps : List Frame) : allPairs (f :: ps) = f.pairs ++ allPairs ps := by
  simp [allPairs]
@[simp] theorem allReserved_cons (f : Frame) (ps : List Frame) :
    allReserved (f :: ps) = f.reserved ++ allReserved ps := by
  simp [allReserved]
@[simp] theorem allPairs_nil : allPairs [] = [] := rfl
@[simp] theorem allReserved_nil : allReserved [] = [] := rfl

theorem ofNameLocal_isSome (f : Frame) (n : String) :
    (f.ofNameLocal n).isSome = true ↔ n ∈ f.pairs.map (·.2) := by
  simp only [Frame.ofNameLocal, Option.isSome_map, List.find?_isSome, List.mem_map]
  constructor
  · rintro ⟨p, hp, he⟩; exact ⟨p, hp, by simpa using he⟩
  · rintro ⟨p, hp, rfl⟩; exact ⟨p, hp, by simp⟩

theorem nameOfLocal_isSome (f : Frame) (o : Nat) :
    (f.nameOfLocal o).isSome = true ↔ o ∈ f.pairs.map (·.1) := by
  simp only [Frame.nameOfLocal, Option.isSome_map, List.find?_isSome, List.mem_map]
  constructor
  · rintro ⟨p, hp, he⟩; exact ⟨p, hp, by simpa using he⟩
  · rintro ⟨p, hp, rfl⟩; exact ⟨p, hp, by simp⟩

theorem containsName_iff (fs : List Frame) (n : String) :
    containsName fs n = true ↔ n ∈ allReserved fs ∨ n ∈ (allPairs fs).map (·.2) := by
  induction fs with
  | nil => simp [containsName]
  | cons f ps ih =>
    simp only [containsName, Bool.or_eq_true, ih, ofNameLocal_isSome, allReserved_cons, allPairs_cons,
      List.mem_append, List.map_append, List.contains_iff_mem]
    constructor
    · rintro ((h | h) | h)
      · rcases h with h | h
        · exact Or.inl (Or.inr h)
        · exact Or.inr (Or.inr h)
      · exact Or.inl (Or.inl h)
      · exact Or.inr (Or.inl h)
    · rintro ((h | h) | (h | h))
      · exact Or.inl (Or.inr h)
      · exact Or.inl (Or.inl (Or.inl h))
      · exact Or.inr h
      · exact Or.inl (Or.inl (Or.inr h))

theorem containsObj_iff (fs : List Frame) (o : Nat) :
    containsObj fs o = true ↔ o ∈ (allPairs fs).map (·.1) := by
  induction fs with
  | nil => simp [containsObj]
  | cons f ps ih =>
    simp only [containsObj, Bool.or_eq_true, ih, nameOfLocal_isSome, allPairs_cons, List.map_append,
      List.mem_append]
    exact Or.comm

theorem not_containsName {fs : List Frame} {n : String} (h : containsName fs n = false) :
    n ∉ allReserved fs ∧ n ∉ (allPairs fs).map (·.2) := by
  constructor
  · intro hc; have := (containsName_iff fs n).mpr (Or.inl hc); simp [h] at this
  · intro hc; have := (containsName_iff fs n).mpr (Or.inr hc); simp [h] at this

theorem not_containsObj {fs : List Frame} {o : Nat} (h : containsObj fs o = false) :
    o ∉ (allPairs fs).map (·.1) := by
  intro hc; have := (containsObj_iff fs o).mpr hc; simp [h] at this

theorem FInv.tail {f : Frame} {ps : List Frame} (h : FInv (f :: ps)) : FInv ps := by
  unfold FInv at *
  simp only [allPairs_cons, allReserved_cons] at h
  exact h.sub (List.sublist_append_right _ _) (List.sublist_append_right _ _)

/-- first pair with a given name in a list whose names are duplicate-free -/
theorem find_name_of_mem {ps : List (Nat × String)} {o : Nat} {n : String}
    (hnd : (ps.map (·.2)).Nodup) (hm : (o, n) ∈ ps) :
    (ps.find? (·.2 == n)).map (·.1) = some o := by
  induction ps with
  | nil => cases hm
  | cons p ps ih =>
    simp only [List.map_cons, List.nodup_cons] at hnd
    rcases List.mem_cons.mp hm with rfl | hm'
    · simp [List.find?_cons]
    · have hne : ¬ p.2 = n := by
        intro he
        exact hnd.1 (he ▸ List.mem_map.mpr ⟨(o, n), hm', rfl⟩)
      have hb : (p.2 == n) = false := by simpa using hne
      rw [List.find?_cons, hb]
      exact ih hnd.2 hm'

theorem find_obj_of_mem {ps : List (Nat × String)} {o : Nat} {n : String}
    (hnd : (ps.map (·.1)).Nodup) (hm : (o, n) ∈ ps) :
    (ps.find? (·.1 == o)).map (·.2) = some n := by
  induction ps with
  | nil => cases hm
  | cons p ps ih =>
    simp only [List.map_cons, List.nodup_cons] at hnd
    rcases List.mem_cons.mp hm with rfl | hm'
    · simp [List.find?_cons]
    · have hne : ¬ p.1 = o := by
        intro he
        exact hnd.1 (he ▸ List.mem_map.mpr ⟨(o, n), hm', rfl⟩)
      have hb : (p.1 == o) = false := by simpa using hne
      rw [List.find?_cons, hb]
      exact ih hnd.2 hm'

/-- under the invariant, looking a bound name up returns exactly its object -/
theorem getName_of_mem {fs : List Frame} (h : FInv fs) {o : Nat} {n : String}
    (hm : (o, n) ∈ allPairs fs) : getName fs n = some o := by
  induction fs with
  | nil => simp at hm
  | cons f ps ih =>
    have h' := h
    unfold FInv at h'
    simp only [allPairs_cons, allReserved_cons] at h' hm
    simp only [getName]
    by_cases hc : containsName ps n = true
    · rw [if_pos hc]
      apply ih h.tail
      rcases List.mem_append.mp hm with hf | hp
      · exfalso
        rcases (containsName_iff ps n).mp hc with hr | hn
        · exact h'.disj n (List.mem_map.mpr ⟨(o, n), hm, rfl⟩) (List.mem_append_right _ hr)
        · have := h'.names
          rw [List.map_append, List.nodup_append] at this
          exact this.2.2 n (List.mem_map.mpr ⟨(o, n), hf, rfl⟩) n hn rfl
      · exact hp
    · rw [if_neg hc]
      have hnp : (o, n) ∉ allPairs ps := by
        intro hp
        exact hc ((containsName_iff ps n).mpr (Or.inr (List.mem_map.mpr ⟨(o, n), hp, rfl⟩)))
      have hf : (o, n) ∈ f.pairs := by
        rcases List.mem_append.mp hm with hf | hp
        · exact hf
        · exact absurd hp hnp
      have hnd := h'.names
      rw [List.map_append, List.nodup_append] at hnd
      exact find_name_of_mem hnd.1 hf

theorem getObj_of_mem {fs : List Frame} (h : FInv fs) {o : Nat} {n : String}
    (hm : (o, n) ∈ allPairs fs) : getObj fs o = some n := by
  induction fs with
  | nil => simp at hm
  | cons f ps ih =>
    have h' := h
    unfold FInv at h'
    simp only [allPairs_cons, allReserved_cons] at h' hm
    simp only [getObj]
    by_cases hc : containsObj ps o = true
    · rw [if_pos hc]
      apply ih h.tail
      rcases List.mem_append.mp hm with hf | hp
      · exfalso
        have hn := (containsObj_iff ps o).mp hc
        have := h'.objs
        rw [List.map_append, List.nodup_append] at this
        exact this.2.2 o (List.mem_map.mpr ⟨(o, n), hf, rfl⟩) o hn rfl
      · exact hp
    · rw [if_neg hc]
      have hnp : (o, n) ∉ allPairs ps := by
        intro hp
        exact hc ((containsObj_iff ps o).mpr (List.mem_map.mpr ⟨(o, n), hp, rfl⟩))
      have hf : (o, n) ∈ f.pairs := by
        rcases List.mem_append.mp hm with hf | hp
        · exact hf
        · exact absurd hp hnp
      have hnd := h'.objs
      rw [List.map_append, List.nodup_append] at hnd
      exact find_obj_of_mem hnd.1 hf

/-- what a successful `__setitem__` does: nothing, or one fresh pair in the innermost namespace -/
theorem setitem_ok {s s' : Space} {n : String} {o : Nat} (hs : s.setitem n o = .ok s') :
    s' = s ∨ (s' = { s with cur := { s.cur with pairs := (o, n) :: s.cur.pairs } } ∧
      s.hasName n = false ∧ s.hasObj o = false) := by
  unfold Space.setitem at hs
  by_cases hN : s.hasName n = true
  · simp only [hN, ↓reduceIte] at hs
    split at hs
    · cases hs
    · rename_i o' hgo
      split at hs
      · cases hs
      · -- name already bound to this very object
        by_cases hO : s.hasObj o = true
        · simp only [hO, ↓reduceIte] at hs
          split at hs
          · cases hs
          · split at hs
            · cases hs
            · cases hs; exact Or.inl rfl
        · -- (unreachable when of_name/name_of are in sync, but the code path exists)
          exfalso
          rename_i hoo
          have hoo' : o' = o := by simpa using hoo
          subst hoo'
          -- the name is bound to o somewhere visible, so o is visible
          have : s.hasObj o' = true := by
            clear hs hN
            unfold Space.hasObj
            generalize s.frames = fs at hgo
            induction fs with
            | nil => simp [getName] at hgo
            | cons f ps ih =>
              simp only [getName] at hgo
              simp only [containsObj, Bool.or_eq_true]
              split at hgo
              · exact Or.inl (ih hgo)
              · right
                simp only [Frame.ofNameLocal, Option.map_eq_some_iff] at hgo
                obtain ⟨p, hp, rfl⟩ := hgo
                rw [nameOfLocal_isSome]
                exact List.mem_map.mpr ⟨p, List.mem_of_find?_eq_some hp, rfl⟩
          exact hO this
  · have hN' : s.hasName n = false := by simpa using hN
    simp only [hN', Bool.false_eq_true, ↓reduceIte] at hs
    by_cases hO : s.hasObj o = true
    · simp only [hO, ↓reduceIte] at hs
      split at hs
      · cases hs
      · split at hs
        · cases hs
        · cases hs; exact Or.inl rfl
    · have hO' : s.hasObj o = false := by simpa using hO
      simp only [hO', Bool.false_eq_true, ↓reduceIte] at hs
      cases hs
      exact Or.inr ⟨rfl, hN', hO'⟩

theorem setitem_inv {s s' : Space} {n : String} {o : Nat} (h : Inv s)
    (hs : s.setitem n o = .ok s') : Inv s' := by
  rcases setitem_ok hs with rfl | ⟨rfl, hN, hO⟩
  · exact h
  · unfold Inv FInv Space.frames at *
    have hN' := not_containsName (fs := s.cur :: s.parents) hN
    have hO' := not_containsObj (fs := s.cur :: s.parents) hO
    simp only [allPairs_cons, allReserved_cons, List.cons_append] at *
    exact h.cons_pair hO' hN'.2 hN'.1

theorem reserve_inv {s s' : Space} {n : String} (h : Inv s) (hs : s.reserve n = .ok s') : Inv s' := by
  unfold Space.reserve at hs
  split at hs
  · cases hs
  · rename_i hN
    cases hs
    have hN' := not_containsName (fs := s.cur :: s.parents) (by simpa [Space.hasName, Space.frames] using hN)
    unfold Inv FInv Space.frames at *
    simp only [allPairs_cons, allReserved_cons, List.cons_append] at *
    exact h.cons_res hN'.2 hN'.1

theorem delName_inv {s s' : Space} {n : String} (h : Inv s) (hs : s.delName n = .ok s') : Inv s' := by
  unfold Space.delName at hs
  split at hs
  · cases hs
  · cases hs
    unfold Inv FInv Space.frames at *
    simp only [allPairs_cons, allReserved_cons] at *
    exact h.sub (List.Sublist.append (List.filter_sublist) (List.Sublist.refl _)) (List.Sublist.refl _)

theorem push_inv {s : Space} (h : Inv s) : Inv s.push := by
  unfold Inv FInv Space.frames Space.push at *
  simpa using h

theorem pop_inv {s : Space} (h : Inv s) : Inv s.pop := by
  unfold Space.pop
  split
  · exact h
  · rename_i p ps hp
    unfold Inv Space.frames at *
    rw [hp] at h
    exact FInv.tail h

theorem enum_frames (s : Space) (b : String) : (s.enum b).2.frames = s.frames := rfl
theorem maybeEnum_frames (s : Space) (b : String) : (s.maybeEnum b).2.frames = s.frames := by
  unfold Space.maybeEnum
  split <;> rfl

theorem maybeEnum_inv {s : Space} {b : String} (h : Inv s) : Inv (s.maybeEnum b).2 := by
  unfold Inv; rw [maybeEnum_frames]; exact h

theorem step_inv {s s' : Space} (op : Op) (h : Inv s) (hs : step s op = .ok s') : Inv s' := by
  cases op with
  | set n o => exact setitem_inv h hs
  | reserve n => exact reserve_inv h hs
  | enum b => simp only [step, Except.ok.injEq] at hs; subst hs; unfold Inv; rw [enum_frames]; exact h
  | maybeEnum b =>
    simp only [step, Except.ok.injEq] at hs; subst hs; unfold Inv; rw [maybeEnum_frames]; exact h
  | del n => exact delName_inv h hs
  | push => simp only [step, Except.ok.injEq] at hs; subst hs; exact push_inv h
  | pop => simp only [step, Except.ok.injEq] at hs; subst hs; exact pop_inv h

theorem run_inv {s s' : Space} (ops : List Op) (h : Inv s) (hr : run s ops = .ok s') : Inv s' := by
  induction ops generalizing s with
  | nil => simp only [run, Except.ok.injEq] at hr; subst hr; exact h
  | cons op ops ih =>
    simp only [run] at hr
    split at hr
    · rename_i s1 hs1
      exact ih (step_inv op h hs1) hr
    · cases hr

theorem empty_inv : Inv {} := by
  unfold Inv FInv Space.frames
  simpa [allPairs, allReserved] using PInv.nil

/-! ### `Scope.update` preserves the invariant of both namespaces -/

theorem nameOutputs_inv {var var' : Space} {nm : String} (outs : List OutVar) (h : Inv var)
    (hs : nameOutputs var nm outs = .ok var') : Inv var' := by
  induction outs generalizing var with
  | nil => simp only [nameOutputs, Except.ok.injEq] at hs; subst hs; exact h
  | cons ov rest ih =>
    simp only [nameOutputs] at hs
    split at hs
    · rename_i var2 hset
      refine ih ?_ hs
      refine setitem_inv ?_ hset
      cases ov.preset with
      | some p => exact h
      | none => simp only; unfold Inv; rw [maybeEnum_frames]; exact h
    · cases hs

def SInv (sc : Scope) : Prop := Inv sc.var ∧ Inv sc.node

theorem update_inv {sc sc' : Scope} {pfx opId nm : String} {nodeId : Nat} {outs : List OutVar}
    (h : SInv sc) (hs : sc.update pfx nodeId opId outs = .ok (nm, sc')) : SInv sc' := by
  unfold Scope.update at hs
  simp only at hs
  split at hs
  · cases hs
  · rename_i node2 hnode
    split at hs
    · cases hs
    · rename_i var2 hvar
      simp only [Except.ok.injEq, Prod.mk.injEq] at hs
      obtain ⟨_, rfl⟩ := hs
      refine ⟨nameOutputs_inv outs h.1 hvar, setitem_inv ?_ hnode⟩
      unfold Inv; rw [enum_frames]; exact h.2

end Scope
