import SpoxModel.Model.Float
/-! `rne` is round-to-nearest, ties-to-even — over *all* naturals. -/
namespace FloatBits

theorem rne_cases (M k : Nat) : rne M k = M / 2 ^ k ∨ rne M k = M / 2 ^ k + 1 := by
  unfold rne; simp only; split
  · exact Or.inl rfl
  · split
    · exact Or.inl rfl
    · exact Or.inr rfl

/-- No multiple of `2^k` is closer to `M` than `rne M k * 2^k`. -/
theorem rne_nearest (M k z : Nat) :
    absDiff M (rne M k * 2 ^ k) ≤ absDiff M (z * 2 ^ k) := by
  have hP : 0 < 2 ^ k := Nat.pos_of_ne_zero (by simp)
  have hM : 2 ^ k * (M / 2 ^ k) + M % 2 ^ k = M := Nat.div_add_mod M (2 ^ k)
  have hr : M % 2 ^ k < 2 ^ k := Nat.mod_lt _ hP
  unfold rne absDiff
  simp only
  generalize 2 ^ k = P at hP hM hr ⊢
  generalize M / P = t at hM ⊢
  generalize M % P = r at hM hr ⊢
  have e1 : (t + 1) * P = t * P + P := by rw [Nat.add_mul, Nat.one_mul]
  have e0 : P * t = t * P := Nat.mul_comm _ _
  have hz : z * P ≤ t * P ∨ t * P + P ≤ z * P := by
    rcases Nat.lt_or_ge t z with h | h
    · exact Or.inr (e1 ▸ Nat.mul_le_mul_right P h)
    · exact Or.inl (Nat.mul_le_mul_right P h)
  rw [e0] at hM
  by_cases c1 : 2 * r < P
  · rw [if_pos c1]; split <;> split <;> omega
  · rw [if_neg c1]
    by_cases c2 : 2 * r = P ∧ t % 2 = 0
    · rw [if_pos c2]; split <;> split <;> omega
    · rw [if_neg c2, e1]; split <;> split <;> omega

/-- Exactly half way between two multiples, the even one is taken. -/
theorem rne_tie_even (M k : Nat) (h : 2 * (M % 2 ^ k) = 2 ^ k) : rne M k % 2 = 0 := by
  unfold rne
  simp only
  split
  · omega
  · split
    · rename_i h2; exact h2.2
    · rename_i h1 h2
      have : ¬ (M / 2 ^ k) % 2 = 0 := fun h3 => h2 ⟨h, h3⟩
      omega

/-- Strictly inside the lower / upper half it rounds down / up. -/
theorem rne_down (M k : Nat) (h : 2 * (M % 2 ^ k) < 2 ^ k) : rne M k = M / 2 ^ k := by
  unfold rne; simp [h]
theorem rne_up (M k : Nat) (h : 2 ^ k < 2 * (M % 2 ^ k)) : rne M k = M / 2 ^ k + 1 := by
  unfold rne
  simp only
  split
  · omega
  · split
    · omega
    · rfl

/-- An exactly representable value is not changed. -/
theorem rne_exact (t k : Nat) : rne (t * 2 ^ k) k = t := by
  have hP : 0 < 2 ^ k := Nat.pos_of_ne_zero (by simp)
  unfold rne
  simp [Nat.mul_div_cancel _ hP, hP]

end FloatBits
