import SpoxModel.Lemmas.BuildAlgEmit
/-!
# Where the compile walk puts a vertex (`placed`) is its scope (`scope_of`)

`placed tr []` reads the nested emission the way the ModelProto is read: a vertex sits in the innermost
graph that is open when it is emitted. The compile walk of graph `g` emits exactly `scope_own[g]` — the
vertices whose `scope_of` is `g` — between `enter g` and `leave g`, and recurses into the bodies of a
node right after the node; so every pair of `placed` agrees with `scope_of`. This is the step from the
theorems about `scope_of` (`least_enclosing`) to the position in the built model.
-/
set_option linter.unusedSectionVars false
set_option linter.unusedVariables false
namespace BuildAlg

/-- a balanced piece of the trace (newest first): whatever the stack of open graphs, every vertex it
    places is placed in its scope, and the stack is the same afterwards -/
def PlacedOK (b : Built) (new : List Ev) : Prop :=
  ∀ (rest : List Ev) (st : List Nat), ∃ pl, placed (new.reverse ++ rest) st = pl ++ placed rest st ∧
    ∀ e ∈ pl, b.scopeOf.get e.1 = some e.2

/-- a piece of the walk of graph `g` (between its `enter` and its `leave`) -/
def PlacedIn (b : Built) (g : Nat) (new : List Ev) : Prop :=
  ∀ (rest : List Ev) (st : List Nat), ∃ pl,
    placed (new.reverse ++ rest) (g :: st) = pl ++ placed rest (g :: st) ∧
    ∀ e ∈ pl, b.scopeOf.get e.1 = some e.2

theorem PlacedOK.toIn {b : Built} {new : List Ev} (h : PlacedOK b new) (g : Nat) : PlacedIn b g new :=
  fun rest st => h rest (g :: st)

theorem placedOK_nil (b : Built) : PlacedOK b [] := fun rest st => ⟨[], by simp, by simp⟩
theorem placedIn_nil (b : Built) (g : Nat) : PlacedIn b g [] := (placedOK_nil b).toIn g

theorem PlacedOK.append {b : Built} {n1 n2 : List Ev} (h1 : PlacedOK b n1) (h2 : PlacedOK b n2) :
    PlacedOK b (n2 ++ n1) := by
  intro rest st
  obtain ⟨pl2, e2, q2⟩ := h2 rest st
  obtain ⟨pl1, e1, q1⟩ := h1 (n2.reverse ++ rest) st
  refine ⟨pl1 ++ pl2, ?_, ?_⟩
  · rw [List.reverse_append, List.append_assoc, e1, e2, List.append_assoc]
  · intro e he
    rcases List.mem_append.mp he with h | h
    · exact q1 e h
    · exact q2 e h

theorem PlacedIn.append {b : Built} {g : Nat} {n1 n2 : List Ev} (h1 : PlacedIn b g n1)
    (h2 : PlacedIn b g n2) : PlacedIn b g (n2 ++ n1) := by
  intro rest st
  obtain ⟨pl2, e2, q2⟩ := h2 rest st
  obtain ⟨pl1, e1, q1⟩ := h1 (n2.reverse ++ rest) st
  refine ⟨pl1 ++ pl2, ?_, ?_⟩
  · rw [List.reverse_append, List.append_assoc, e1, e2, List.append_assoc]
  · intro e he
    rcases List.mem_append.mp he with h | h
    · exact q1 e h
    · exact q2 e h

def RelOK (b : Built) (c c' : CState) : Prop := ∃ new, c'.trace = new ++ c.trace ∧ PlacedOK b new
def RelIn (b : Built) (g : Nat) (c c' : CState) : Prop :=
  ∃ new, c'.trace = new ++ c.trace ∧ PlacedIn b g new

theorem RelOK.refl (b : Built) (c : CState) : RelOK b c c := ⟨[], by simp, placedOK_nil b⟩
theorem RelIn.refl (b : Built) (g : Nat) (c : CState) : RelIn b g c c := ⟨[], by simp, placedIn_nil b g⟩

theorem RelOK.trans {b : Built} {c0 c1 c2 : CState} (h1 : RelOK b c0 c1) (h2 : RelOK b c1 c2) :
    RelOK b c0 c2 := by
  obtain ⟨n1, t1, p1⟩ := h1
  obtain ⟨n2, t2, p2⟩ := h2
  exact ⟨n2 ++ n1, by rw [t2, t1, List.append_assoc], p1.append p2⟩

theorem RelIn.trans {b : Built} {g : Nat} {c0 c1 c2 : CState} (h1 : RelIn b g c0 c1)
    (h2 : RelIn b g c1 c2) : RelIn b g c0 c2 := by
  obtain ⟨n1, t1, p1⟩ := h1
  obtain ⟨n2, t2, p2⟩ := h2
  exact ⟨n2 ++ n1, by rw [t2, t1, List.append_assoc], p1.append p2⟩

theorem RelOK.toIn {b : Built} {c c' : CState} (h : RelOK b c c') (g : Nat) : RelIn b g c c' := by
  obtain ⟨n, t, p⟩ := h
  exact ⟨n, t, p.toIn g⟩

theorem relIn_argStep (b : Built) (g : Nat) (cs cs' : CState) (a : Nat)
    (h : argStep cs a = .ok cs') : RelIn b g cs cs' := by
  unfold argStep at h
  split at h
  · cases h
  · cases h
    refine ⟨[Ev.arg a], rfl, ?_⟩
    intro rest st
    exact ⟨[], by simp [placed], by simp⟩

theorem relOK_subs (b : Built) (rec : Nat → CState → Except Err CState)
    (hrec : ∀ sub c c', rec sub c = .ok c' → RelOK b c c') :
    ∀ (subs : List Nat) (cs cs' : CState), foldE (fun c sub => rec sub c) cs subs = .ok cs' →
      RelOK b cs cs' := by
  intro subs cs cs' h
  exact foldE_rel (RelOK b) (RelOK.refl b) (fun _ _ _ => RelOK.trans) subs cs cs'
    (fun a _ c c' hc => hrec a c c' hc) h

theorem relIn_emitStep (p : Prog) (b : Built) (g : Nat) (rec : Nat → CState → Except Err CState)
    (hrec : ∀ sub c c', rec sub c = .ok c' → RelOK b c c')
    (cs cs' : CState) (v : V) (hv : b.scopeOf.get v = some g)
    (h : emitStep p rec cs v = .ok cs') : RelIn b g cs cs' := by
  unfold emitStep at h
  split at h
  · cases h
  · simp only at h
    split at h
    · have h0 : RelIn b g cs ⟨v :: cs.intro, Ev.emit v :: cs.trace⟩ := by
        refine ⟨[Ev.emit v], rfl, ?_⟩
        intro rest st
        refine ⟨[(v, g)], by simp [placed], ?_⟩
        intro e he
        have : e = (v, g) := by simpa using he
        subst this; exact hv
      cases v with
      | node n =>
        simp only at h
        exact h0.trans ((relOK_subs b rec hrec (p.subs n) _ cs' h).toIn g)
      | src s =>
        simp only at h
        cases h
        exact h0
    · cases h

theorem relOK_compileG (p : Prog) (b : Built) : ∀ (fuel g : Nat) (cs cs' : CState),
    compileG p b fuel g cs = .ok cs' → RelOK b cs cs' := by
  intro fuel
  induction fuel with
  | zero => intro g cs cs' h; simp [compileG] at h
  | succ fuel ih =>
    intro g cs cs' h
    simp only [compileG] at h
    split at h
    · cases h
    · rename_i cs1 h1
      split at h
      · cases h
      · rename_i cs2 h2
        split at h
        · cases h
          have r1 : RelIn b g ⟨cs.intro, Ev.enter g :: cs.trace⟩ cs1 :=
            foldE_rel (RelIn b g) (RelIn.refl b g) (fun _ _ _ => RelIn.trans) _ _ _
              (fun a _ c c' hc => relIn_argStep b g c c' a hc) h1
          have r2 : RelIn b g cs1 cs2 :=
            foldE_rel (RelIn b g) (RelIn.refl b g) (fun _ _ _ => RelIn.trans) _ _ _
              (fun v hv c c' hc => by
                have hv' := (List.mem_filter.mp (List.mem_filter.mp hv).1).2
                have hs : b.scopeOf.get v = some g := by simpa using hv'
                exact relIn_emitStep p b g (compileG p b fuel) ih c c' v hs hc) h2
          obtain ⟨mid, tm, pm⟩ := r1.trans r2
          refine ⟨Ev.leave g :: (mid ++ [Ev.enter g]), by simp [tm], ?_⟩
          intro rest st
          obtain ⟨pl, e, q⟩ := pm (Ev.leave g :: rest) st
          refine ⟨pl, ?_, q⟩
          simp only [List.reverse_cons, List.reverse_append, List.reverse_nil, List.nil_append,
            List.singleton_append, List.cons_append, List.append_assoc, placed]
          rw [e]
          simp [placed]
        · cases h

/-- every pair of `placed` comes from an `emit` event, and every `emit` event yields a pair -/
theorem placed_fst (tr : List Ev) : ∀ st, (placed tr st).map Prod.fst = emitted tr := by
  induction tr with
  | nil => intro st; rfl
  | cons e tr ih =>
    intro st
    cases e <;> simp [placed, emitted, ih]

end BuildAlg
