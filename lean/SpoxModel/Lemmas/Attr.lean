import SpoxModel.Model.Attr
import SpoxModel.Generated.Capture
/-! Helper lemmas for C10: list conversions and the heap. -/
namespace Attr

theorem mapM_isSome {α β} (f : α → Option β) (l : List α) :
    (l.mapM f).isSome = l.all fun a => (f a).isSome := by
  induction l with
  | nil => rfl
  | cons x xs ih =>
    simp only [List.mapM_cons, List.all_cons]
    cases hx : f x with
    | none => simp
    | some y =>
      cases hxs : xs.mapM f with
      | none => simp [hxs] at ih; simp [ih]
      | some ys => simp [hxs] at ih; simpa using ih

theorem mapM_length {α β} (f : α → Option β) : ∀ (l : List α) (r : List β), l.mapM f = some r → r.length = l.length
  | [], r, h => by simp at h; subst h; rfl
  | x :: xs, r, h => by
    simp only [List.mapM_cons] at h
    cases hx : f x with
    | none => simp [hx] at h
    | some y =>
      cases hxs : xs.mapM f with
      | none => simp [hx, hxs] at h
      | some ys =>
        simp [hx, hxs] at h
        subst h
        simp [mapM_length f xs ys hxs]

end Attr

namespace Capture

theorem mutate_nil (h : Heap) : mutate h [] = h := rfl
theorem mutate_cons (h : Heap) (m : Mut) (ms : List Mut) : mutate h (m :: ms) = mutate (m.apply h) ms := rfl

end Capture
