import SpoxModel.Lemmas.BridgeFacts
/-!
# `ReadersEnclosed` from a condition on the main graph only

`adjCut p s` = input and subgraph edges without the edges into the source of body `s`: a vertex reaches
an argument `a` of `s` along `adjCut p s` iff it depends on `a` *freely* (not through the body `s` that
binds it). If the main graph reads no value that freely depends on an argument of a body, then every
discovered graph reading such a value is enclosed by that body in the final scope tree: the owner of
the reading graph depends freely on the argument too, it is read only by graphs processed earlier
(`TopoFacts`), by induction they are enclosed by `s`, hence so is their lowest common ancestor — the
owner's scope, which is the parent of the reading graph. Every leak, outer or sibling, surfaces in main.
-/
set_option linter.unusedSectionVars false
set_option linter.unusedVariables false
namespace Bridge
open BuildAlg

theorem adjIn_sub_cut (p : BuildAlg.Prog) (s : Nat) (x w : V) (hw : w ∈ p.adjIn x) :
    w ∈ adjCut p s x := by
  cases x with
  | node n =>
    simp only [BuildAlg.Prog.adjIn, List.mem_map] at hw
    obtain ⟨i, hi, rfl⟩ := hw
    simp only [adjCut, BuildAlg.Prog.adjFull, List.mem_filter, List.mem_append, List.mem_map]
    exact ⟨Or.inl ⟨i, hi, rfl⟩, by simp⟩
  | src g =>
    simp only [BuildAlg.Prog.adjIn, List.mem_map] at hw
    obtain ⟨i, hi, rfl⟩ := hw
    simp only [adjCut, BuildAlg.Prog.adjFull, List.mem_filter, List.mem_map]
    exact ⟨⟨i, hi, rfl⟩, by simp⟩

theorem reach_in_cut {p : BuildAlg.Prog} {s : Nat} {u v : V} (h : Reach p.adjIn u v) :
    Reach (adjCut p s) u v := by
  induction h with
  | refl => exact Reach.refl _
  | step _ hw ih => exact Reach.step ih (adjIn_sub_cut p s _ _ hw)

section
variable (p : BuildAlg.Prog) (hwf : BuildAlg.WF p) (b : Built) (st : DState)
  (hdi : DI p st) (hgt : b.graphTopo = st.topo.reverse) (how : b.owner = st.owner)
  (TF : TopoFacts p b.owner b.graphTopo) (SI : SInv p b.owner b.scopeOf b.graphTopo)
  (htopo : b.topo = visit p.adjFull p.fuel (.src 0) [])
include hwf hdi hgt how TF SI htopo

theorem freeDep_enclosed (s a : Nat)
    (hclean : s ≠ 0 → ∀ v, Reach (adjCut p s) v (.node a) → ¬ Reach p.adjIn (.src 0) v) :
    ∀ (n : Nat) (pre : List Nat) (G : Nat) (suf : List Nat), pre.length = n →
      b.graphTopo = pre ++ G :: suf → ∀ v, Reach p.adjIn (.src G) v →
      Reach (adjCut p s) v (.node a) → Anc (parent b.owner b.scopeOf) s G := by
  intro n
  induction n using Nat.strongRecOn with
  | _ n ih =>
    intro pre G suf hlen hsplit v hGv hdep
    by_cases e : G = s
    · subst e; exact Anc.refl _
    by_cases h0 : G = 0
    · subst h0
      exact absurd hGv (hclean (fun e' => e e'.symm) v hdep)
    obtain ⟨o, ho, h', hh', hoh'⟩ := TF.ownerEarlier pre G suf hsplit h0
    have hsub : G ∈ p.subs o := (hdi.OW (G, o) (lookupN_mem (by rw [← how]; exact ho))).1
    -- the owner depends freely on `a` too
    have hodep : Reach (adjCut p s) (.node o) (.node a) := by
      have e1 : V.src G ∈ adjCut p s (.node o) := by
        simp only [adjCut, BuildAlg.Prog.adjFull, List.mem_filter, List.mem_append, List.mem_map]
        refine ⟨Or.inr ⟨G, hsub, rfl⟩, ?_⟩
        simp only [ne_eq, V.src.injEq, decide_eq_true_eq]
        exact e
      exact Reach.trans (Reach.trans (Reach.step (Reach.refl _) e1) (reach_in_cut hGv)) hdep
    have hh'gt : h' ∈ b.graphTopo := by rw [hsplit]; exact List.mem_append_left _ hh'
    obtain ⟨c, hc⟩ := SI.dfn (.node o) h' hh'gt hoh'
    have hsc : Anc (parent b.owner b.scopeOf) s c := by
      apply (SI.low (.node o) c hc).2 s
      rintro H ⟨hH, hHo⟩
      have hHr : Reach p.adjIn (.src H) (.node o) :=
        (mem_postIn_iff p hwf b st hdi hgt how TF SI htopo H _).mp hHo
      rw [hsplit] at hH
      rcases List.mem_append.mp hH with hpre | hrest
      · obtain ⟨p1, p2, hp⟩ := List.append_of_mem hpre
        have hs2 : b.graphTopo = p1 ++ H :: (p2 ++ G :: suf) := by rw [hsplit, hp]; simp
        have hlt : p1.length < n := by
          have hl := congrArg List.length hp
          simp only [List.length_append, List.length_cons] at hl
          omega
        exact ih p1.length hlt p1 H _ rfl hs2 (.node o) hHr hodep
      · rcases List.mem_cons.mp hrest with hHG | hsuf
        · subst hHG
          exact absurd hHo (TF.ownerNotReached pre H suf hsplit H o (Or.inr rfl) ho)
        · obtain ⟨s1, s2, hs⟩ := List.append_of_mem hsuf
          have hs2 : b.graphTopo = (pre ++ G :: s1) ++ H :: s2 := by rw [hsplit, hs]; simp
          exact absurd hHo (TF.ownerNotReached _ H s2 hs2 G o (Or.inl (by simp)) ho)
    have hcG : Anc (parent b.owner b.scopeOf) c G := ⟨1, by simp [up, parent, ho, hc]⟩
    exact Anc.trans hsc hcG

end
end Bridge
