import SpoxModel.Model.Subtype
/-! Helper lemmas about `natLe` / `dimsLe` / `shapeLe` (C05, round 10). -/
namespace Sing

theorem natLe_refl (d : Dim) : natLe d d = true := by
  cases d <;> simp [natLe]

theorem natLe_symm (x y : Dim) : natLe x y = natLe y x := by
  cases x <;> cases y <;> simp [natLe]
  exact Bool.beq_comm

theorem natLe_unk_right (d : Dim) : natLe d Dim.unk = true := by
  cases d <;> simp [natLe]

theorem dimsLe_refl (ds : List Dim) : dimsLe ds ds = true := by
  induction ds with
  | nil => rfl
  | cons d ds ih => simp [dimsLe, natLe_refl, ih]

theorem dimsLe_symm : ∀ xs ys : List Dim, dimsLe xs ys = dimsLe ys xs
  | [], [] => rfl
  | [], _ :: _ => rfl
  | _ :: _, [] => rfl
  | x :: xs, y :: ys => by simp [dimsLe, natLe_symm x y, dimsLe_symm xs ys]

theorem dimsLe_length : ∀ xs ys : List Dim, dimsLe xs ys = true → xs.length = ys.length
  | [], [], _ => rfl
  | [], _ :: _, h => by simp [dimsLe] at h
  | _ :: _, [], h => by simp [dimsLe] at h
  | x :: xs, y :: ys, h => by
    simp only [dimsLe, Bool.and_eq_true] at h
    simp [dimsLe_length xs ys h.2]

theorem shapeLe_refl (s : Option (List Dim)) : shapeLe s s = true := by
  cases s with
  | none => rfl
  | some ds => simp [shapeLe, dimsLe_refl]

theorem shapeLe_symm (s s' : Option (List Dim)) : shapeLe s s' = shapeLe s' s := by
  cases s <;> cases s' <;> simp [shapeLe, dimsLe_symm]

/-- the oracle's pointwise refinement (`tyLe` on dims) implies `Shape.__le__` -/
theorem dimsLe_of_zip_dimLe : ∀ xs ys : List Dim, xs.length = ys.length →
    (List.zip xs ys).all (fun p => dimLe p.1 p.2) = true → dimsLe xs ys = true
  | [], [], _, _ => rfl
  | [], _ :: _, h, _ => by simp at h
  | _ :: _, [], h, _ => by simp at h
  | x :: xs, y :: ys, hl, h => by
    simp only [List.zip_cons_cons, List.all_cons, Bool.and_eq_true] at h
    simp only [List.length_cons, Nat.add_right_cancel_iff] at hl
    have hx : natLe x y = true := by
      have := h.1
      simp only [dimLe, Bool.or_eq_true, beq_iff_eq] at this
      rcases this with h1 | h1
      · subst h1; exact natLe_unk_right x
      · subst h1; exact natLe_refl x
    simp [dimsLe, hx, dimsLe_of_zip_dimLe xs ys hl h.2]

/-- a concrete shape that fits `xs` fits every `ys` that `xs` refines -/
theorem dimsLe_mono : ∀ (cs xs ys : List Dim), dimsLe cs xs = true → xs.length = ys.length →
    (List.zip xs ys).all (fun p => dimLe p.1 p.2) = true → dimsLe cs ys = true
  | [], [], [], _, _, _ => rfl
  | [], [], _ :: _, _, hl, _ => by simp at hl
  | [], _ :: _, _, h, _, _ => by simp [dimsLe] at h
  | _ :: _, [], _, h, _, _ => by simp [dimsLe] at h
  | _ :: _, _ :: _, [], _, hl, _ => by simp at hl
  | c :: cs, x :: xs, y :: ys, h, hl, hz => by
    simp only [dimsLe, Bool.and_eq_true] at h
    simp only [List.zip_cons_cons, List.all_cons, Bool.and_eq_true] at hz
    simp only [List.length_cons, Nat.add_right_cancel_iff] at hl
    have hc : natLe c y = true := by
      have := hz.1
      simp only [dimLe, Bool.or_eq_true, beq_iff_eq] at this
      rcases this with h1 | h1
      · subst h1; exact natLe_unk_right c
      · subst h1; exact h.1
    simp [dimsLe, hc, dimsLe_mono cs xs ys h.2 hl hz.2]

theorem natLe_stripDim (g : List String) (d : Dim) : natLe d (stripDim g d) = true := by
  cases d with
  | const n => simp [stripDim, natLe]
  | unk => simp [natLe]
  | sym s => simp [natLe]

theorem dimLe_stripDim (g : List String) (d : Dim) : dimLe d (stripDim g d) = true := by
  cases d with
  | const n => simp [stripDim, dimLe]
  | unk => simp [stripDim, dimLe]
  | sym s =>
    simp only [stripDim]
    split <;> simp [dimLe]

theorem zip_dimLe_stripDim (g : List String) (ds : List Dim) :
    (List.zip ds (ds.map (stripDim g))).all (fun p => dimLe p.1 p.2) = true := by
  induction ds with
  | nil => rfl
  | cons d ds ih => simp [dimLe_stripDim, ih]

/-- concrete array shapes: `dimsLe` between two of them is equality -/
theorem dimsLe_arrayShape : ∀ vs ws : List Nat, dimsLe (arrayShape vs) (arrayShape ws) = decide (vs = ws)
  | [], [] => by simp [arrayShape, dimsLe]
  | [], _ :: _ => by simp [arrayShape, dimsLe]
  | _ :: _, [] => by simp [arrayShape, dimsLe]
  | v :: vs, w :: ws => by
    have ih := dimsLe_arrayShape vs ws
    simp only [arrayShape] at ih
    simp only [arrayShape, List.map_cons, dimsLe, natLe, ih]
    by_cases h1 : v = w <;> by_cases h2 : vs = ws <;> simp [h1, h2] <;> omega

/-! the oracle's refinement on dims is a partial order; bookkeeping of `runFlow` -/

theorem dimLe_trans (x y z : Dim) (h1 : dimLe x y = true) (h2 : dimLe y z = true) : dimLe x z = true := by
  simp only [dimLe, Bool.or_eq_true, beq_iff_eq] at *
  rcases h2 with h2 | h2
  · exact Or.inl h2
  · subst h2; exact h1

theorem dimLe_antisymm (x y : Dim) (h1 : dimLe x y = true) (h2 : dimLe y x = true) : x = y := by
  simp only [dimLe, Bool.or_eq_true, beq_iff_eq] at *
  rcases h1 with h1 | h1 <;> rcases h2 with h2 | h2 <;> simp_all

theorem zipAll_trans : ∀ xs ys zs : List Dim, xs.length = ys.length → ys.length = zs.length →
    (List.zip xs ys).all (fun p => dimLe p.1 p.2) = true →
    (List.zip ys zs).all (fun p => dimLe p.1 p.2) = true →
    (List.zip xs zs).all (fun p => dimLe p.1 p.2) = true
  | [], _, _, _, _, _, _ => by simp
  | _ :: _, [], _, h, _, _, _ => by simp at h
  | _ :: _, _ :: _, [], _, h, _, _ => by simp at h
  | x :: xs, y :: ys, z :: zs, h1, h2, a, b => by
    simp only [List.zip_cons_cons, List.all_cons, Bool.and_eq_true] at a b ⊢
    simp only [List.length_cons, Nat.add_right_cancel_iff] at h1 h2
    exact ⟨dimLe_trans x y z a.1 b.1, zipAll_trans xs ys zs h1 h2 a.2 b.2⟩

theorem zipAll_antisymm : ∀ xs ys : List Dim, xs.length = ys.length →
    (List.zip xs ys).all (fun p => dimLe p.1 p.2) = true →
    (List.zip ys xs).all (fun p => dimLe p.1 p.2) = true → xs = ys
  | [], [], _, _, _ => rfl
  | [], _ :: _, h, _, _ => by simp at h
  | _ :: _, [], h, _, _ => by simp at h
  | x :: xs, y :: ys, h, a, b => by
    simp only [List.zip_cons_cons, List.all_cons, Bool.and_eq_true] at a b
    simp only [List.length_cons, Nat.add_right_cancel_iff] at h
    rw [dimLe_antisymm x y a.1 b.1, zipAll_antisymm xs ys h a.2 b.2]

theorem runFlow_append (Infer : InferFn) : ∀ (pre post : List Step) (st : Env × Nat),
    runFlow Infer st (pre ++ post) =
      ((runFlow Infer (runFlow Infer st pre).1 post).1,
       (runFlow Infer st pre).2 ++ (runFlow Infer (runFlow Infer st pre).1 post).2)
  | [], post, st => by simp [runFlow]
  | s :: ss, post, st => by
    simp only [List.cons_append, runFlow]
    rw [runFlow_append Infer ss post]

theorem stepEnv_result (Infer : InferFn) (st : Env × Nat) (s : Step) :
    (stepEnv Infer st s).2 = construct Infer (s.call st.1) := rfl

theorem runFlow_length (Infer : InferFn) : ∀ (steps : List Step) (st : Env × Nat),
    (runFlow Infer st steps).2.length = steps.length
  | [], _ => rfl
  | s :: ss, st => by simp [runFlow, runFlow_length Infer ss]

theorem stepOut_next (st : Env × Nat) (s : Step) (c : Call) (r : Result) :
    (stepOut st s c r).2 = st.2 + (match r with | .ok tys => tys.length | .error _ => 0) := by
  cases r <;> simp [stepOut]

theorem stepOut_old (st : Env × Nat) (s : Step) (c : Call) (r : Result) (v : Nat) (hv : v < st.2) :
    (stepOut st s c r).1 v = st.1 v := by
  cases r with
  | error e => rfl
  | ok tys =>
    simp only [stepOut]
    rw [if_neg (by omega)]

end Sing
