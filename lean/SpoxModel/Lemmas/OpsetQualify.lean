import SpoxModel.Model.OpsetQualify
import SpoxModel.Model.OpsetInits
/-!
# Lemmas about the renaming step of `adapt_node` (C09)
-/
namespace Opset.Qualify

theorem mem_introduced {known : List Nm} {nodes : List QNode} {n : Nm} :
    n ∈ introduced known nodes ↔ (∃ nd ∈ nodes, n ∈ nd.outs) ∧ n ≠ [] ∧ n ∉ known := by
  simp [introduced, List.mem_filter, List.mem_flatMap]

theorem ren_of_not_mem {p : Nm} {intro : List Nm} {n : Nm} (h : n ∉ intro) : ren p intro n = n := by
  simp [ren, h]

theorem ren_of_mem {p : Nm} {intro : List Nm} {n : Nm} (h : n ∈ intro) : ren p intro n = qual p n := by
  simp [ren, h]

theorem ren_of_known {p : Nm} {known : List Nm} {nodes : List QNode} {n : Nm} (h : n ∈ known) :
    ren p (introduced known nodes) n = n :=
  ren_of_not_mem (fun hi => (mem_introduced.mp hi).2.2 h)

theorem ren_nil {p : Nm} {known : List Nm} {nodes : List QNode} :
    ren p (introduced known nodes) [] = [] :=
  ren_of_not_mem (fun hi => (mem_introduced.mp hi).2.1 rfl)

theorem qual_inj_right {p a b : Nm} (h : qual p a = qual p b) : a = b :=
  List.append_cancel_left (List.append_cancel_left h)

/-- renaming is injective on names that do not already look like a qualified introduced name -/
theorem ren_inj {p : Nm} {intro : List Nm} {a b : Nm}
    (ha : a ∉ intro → ∀ x ∈ intro, a ≠ qual p x) (hb : b ∉ intro → ∀ x ∈ intro, b ≠ qual p x)
    (h : ren p intro a = ren p intro b) : a = b := by
  by_cases h1 : a ∈ intro <;> by_cases h2 : b ∈ intro
  · rw [ren_of_mem h1, ren_of_mem h2] at h
    exact qual_inj_right h
  · rw [ren_of_mem h1, ren_of_not_mem h2] at h
    exact absurd h.symm (hb h2 a h1)
  · rw [ren_of_not_mem h1, ren_of_mem h2] at h
    exact absurd h (ha h1 b h2)
  · rwa [ren_of_not_mem h1, ren_of_not_mem h2] at h

private theorem clean_aux {q p c a b : Nm} (hq : EndsClean q) (ha : NoSep a) (h1 : q = p ++ c)
    (h2 : '_' :: '_' :: a = c ++ ('_' :: '_' :: b)) : c = [] := by
  match c, h1, h2 with
  | [], _, _ => rfl
  | [x], h1, h2 =>
    simp only [List.cons_append, List.nil_append, List.cons.injEq] at h2
    obtain ⟨hx, _⟩ := h2
    subst hx
    exact absurd h1 (hq p)
  | x :: y :: r, h1, h2 =>
    simp only [List.cons_append, List.cons.injEq] at h2
    obtain ⟨_, _, h3⟩ := h2
    exact absurd h3 (ha r b)

/-- Two node names that do not end in `_`, qualifying names without `__`, give the same string only if they are
    the same node name and the same introduced name. -/
theorem qual_prefix_inj {p₁ p₂ a b : Nm} (h₁ : EndsClean p₁) (h₂ : EndsClean p₂) (ha : NoSep a) (hb : NoSep b)
    (h : qual p₁ a = qual p₂ b) : p₁ = p₂ ∧ a = b := by
  have h' : p₁ ++ ('_' :: '_' :: a) = p₂ ++ ('_' :: '_' :: b) := h
  rcases List.append_eq_append_iff.mp h' with ⟨c, hc1, hc2⟩ | ⟨c, hc1, hc2⟩
  · have := clean_aux h₂ ha hc1 hc2
    subst this
    simp only [List.append_nil] at hc1
    subst hc1
    exact ⟨rfl, qual_inj_right h⟩
  · have := clean_aux h₁ hb hc1 hc2
    subst this
    simp only [List.append_nil] at hc1
    subst hc1
    exact ⟨rfl, qual_inj_right h⟩

theorem endsCleanB_sound : ∀ p : Nm, endsCleanB p = true → EndsClean p
  | [], _ => fun u h => by cases u <;> simp at h
  | [c], h => fun u hu => by
    match u, hu with
    | [], hu =>
      simp only [List.nil_append, List.cons.injEq, and_true] at hu
      subst hu
      simp [endsCleanB] at h
    | x :: u', hu =>
      simp only [List.cons_append, List.cons.injEq] at hu
      cases u' <;> simp at hu
  | c :: d :: r, h => fun u hu => by
    simp only [endsCleanB] at h
    have ih := endsCleanB_sound (d :: r) h
    match u, hu with
    | [], hu => simp at hu
    | x :: u', hu =>
      simp only [List.cons_append, List.cons.injEq] at hu
      exact ih u' hu.2

theorem noSepB_sound : ∀ p : Nm, noSepB p = true → NoSep p
  | [], _ => fun u v h => by cases u <;> simp at h
  | [c], _ => fun u v hu => by
    match u, hu with
    | [], hu => simp at hu
    | x :: u', hu =>
      simp only [List.cons_append, List.cons.injEq] at hu
      cases u' <;> simp at hu
  | c :: d :: r, h => fun u v hu => by
    simp only [noSepB, Bool.and_eq_true, Bool.not_eq_true'] at h
    have ih := noSepB_sound (d :: r) h.2
    match u, hu with
    | [], hu =>
      simp only [List.nil_append, List.cons.injEq] at hu
      obtain ⟨rfl, rfl, _⟩ := hu
      simp at h
    | x :: u', hu =>
      simp only [List.cons_append, List.cons.injEq] at hu
      exact ih u' v hu.2

/-- Every name `ScopeSpace.enum` makes — `f"{base}_{i}"`, whatever the base (operator identifier, with or without
    the `f"{subgraph}__"` prefix of a body) — does not end in `_`: the decimal digits of `i` are not empty and
    contain no `_`. -/
theorem enum_name_endsClean (base ds : Nm) (hd : ds ≠ []) (hds : '_' ∉ ds) : EndsClean (base ++ '_' :: ds) := by
  intro u hu
  have h := congrArg List.reverse hu
  simp only [List.reverse_append, List.reverse_cons, List.reverse_nil, List.nil_append, List.append_assoc,
    List.singleton_append] at h
  cases hr : ds.reverse with
  | nil => exact hd (List.reverse_eq_nil_iff.mp hr)
  | cons x xs =>
    rw [hr] at h
    simp only [List.cons_append, List.cons.injEq] at h
    have : x ∈ ds := by
      have : x ∈ ds.reverse := by rw [hr]; exact List.mem_cons_self
      exact List.mem_reverse.mp this
    exact hds (h.1 ▸ this)

/-- The qualified names of any number of converted nodes with pairwise different node names are pairwise
    different strings. -/
theorem qualified_nodup (cs : List (Nm × List Nm))
    (hp : (cs.map (·.1)).Nodup) (hc : ∀ c ∈ cs, EndsClean c.1) (hs : ∀ c ∈ cs, ∀ a ∈ c.2, NoSep a)
    (hn : ∀ c ∈ cs, c.2.Nodup) :
    (cs.flatMap (fun c => c.2.map (qual c.1))).Nodup := by
  induction cs with
  | nil => simp
  | cons c cs ih =>
    rw [List.map_cons, List.nodup_cons] at hp
    rw [List.flatMap_cons, List.nodup_append]
    refine ⟨?_, ih hp.2 (fun c' h => hc c' (List.mem_cons_of_mem _ h))
      (fun c' h => hs c' (List.mem_cons_of_mem _ h))
      (fun c' h => hn c' (List.mem_cons_of_mem _ h)), ?_⟩
    · have := hn c List.mem_cons_self
      unfold List.Nodup at this ⊢
      rw [List.pairwise_map]
      exact this.imp (fun hne e => hne (qual_inj_right e))
    · intro a ha b hb hab
      subst hab
      obtain ⟨x, hx, rfl⟩ := List.mem_map.mp ha
      obtain ⟨c', hc', hb'⟩ := List.mem_flatMap.mp hb
      obtain ⟨y, hy', hy⟩ := List.mem_map.mp hb'
      have := (qual_prefix_inj (hc c' (List.mem_cons_of_mem _ hc')) (hc c List.mem_cons_self)
        (hs c' (List.mem_cons_of_mem _ hc') y hy') (hs c List.mem_cons_self x hx) hy).1
      exact hp.1 (List.mem_map.mpr ⟨c', hc', this⟩)

end Opset.Qualify

namespace Opset.Inits

theorem mem_movable (g : IGraph) (n : Nm) : n ∈ movable g ↔ n ∈ g.inits ∧ n ∉ g.inputs := by
  simp [movable, List.mem_filter]

end Opset.Inits
