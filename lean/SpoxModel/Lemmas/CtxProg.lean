import SpoxModel.Model.CtxProg
import SpoxModel.Lemmas.Ctx
/-! Helper lemmas for the program-level theorems of C16 (round 10). -/
namespace Ctx

/-- Executing a manager IR of an accepted shape around ANY body is: run the body with the setting
    overridden, then put the setting back — equationally, for the whole frame and the outcome. -/
theorem exec_good_eq (ir : List Stmt) (hir : goodShape ir = true) (which : Fin 3) (arg : Nat)
    (body : World → World × Outcome) (w : World) :
    exec which arg body ir ⟨w, 0⟩ =
      (⟨(body (w.put (setG w.glob which arg))).1.put
          (setG (body (w.put (setG w.glob which arg))).1.glob which (w.glob which)), w.glob which⟩,
        (body (w.put (setG w.glob which arg))).2) := by
  rcases goodShape_cases hir with h | h <;> subst h <;>
    simp only [shapeA, shapeB, exec, execStmt, World.put] <;>
    generalize body _ = r <;> obtain ⟨w1, o⟩ := r <;> cases o <;> rfl

theorem specCmds_single (c : Cmd) (w : World) : specCmds [c] w = specCmd c w := by
  simp only [specCmds]
  generalize specCmd c w = r
  obtain ⟨w1, o⟩ := r
  cases o <;> rfl

theorem enter_append (g : Globals) (p : List (Fin 3 × Nat)) (i : Fin 3) (a : Nat) :
    enter g (p ++ [(i, a)]) = setG (enter g p) i a := by
  induction p generalizing g with
  | nil => rfl
  | cons x p ih => obtain ⟨j, b⟩ := x; simp only [List.cons_append, enter]; exact ih _

/-- A *history*: top-level programs run one after another, each caught by the caller
    (`try: p except BaseException: pass`); the worlds after each of them, in order. -/
def historyStates (M : Managers) : List (List Cmd) → World → List World
  | [], _ => []
  | p :: ps, w => (runCmds M p w).1 :: historyStates M ps (runCmds M p w).1

/-- The world at the end of a history. -/
def runHistory (M : Managers) : List (List Cmd) → World → World
  | [], w => w
  | p :: ps, w => runHistory M ps (runCmds M p w).1

/-- A history is the program `try: p₁ …; try: p₂ …; …` of the command language the driver runs. -/
theorem runHistory_eq_tryC (M : Managers) :
    (ps : List (List Cmd)) → (w : World) → runCmds M (ps.map .tryC) w = (runHistory M ps w, .ok)
  | [], _ => rfl
  | p :: ps, w => by
    simp only [List.map, runCmds, runCmd, runHistory]
    exact runHistory_eq_tryC M ps _

theorem historyStates_getLast (M : Managers) :
    (ps : List (List Cmd)) → (w : World) → (historyStates M ps w).getLast? = if ps = [] then none else some (runHistory M ps w)
  | [], _ => rfl
  | [p], w => rfl
  | p :: q :: ps, w => by
    have ih := historyStates_getLast M (q :: ps) (runCmds M p w).1
    simp only [historyStates, runHistory, List.getLast?_cons_cons] at ih ⊢
    simpa using ih

/-! ### The older `Block` histories as `Cmd` programs (the fragment without raising bodies: `runBlock` takes its
    snapshot after a block exit also on the way out of an exception, which no `Cmd` program does) -/

mutual
def blockNoRaise : Block → Bool
  | .withB _ _ inner raises => !raises && blocksNoRaise inner
def blocksNoRaise : List Block → Bool
  | [] => true
  | b :: bs => blockNoRaise b && blocksNoRaise bs
end

mutual
def blockCmd : Block → Cmd
  | .withB which arg inner _ => .withC which arg (.snap :: blocksCmds inner)
/-- every block is followed by the snapshot `runBlock` takes after its exit -/
def blocksCmds : List Block → List Cmd
  | [] => []
  | b :: bs => blockCmd b :: .snap :: blocksCmds bs
end

theorem runCmds_snap_cons (M : Managers) (cs : List Cmd) (w : World) :
    runCmds M (.snap :: cs) w = runCmds M cs w.snap := by
  simp only [runCmds, runCmd]

mutual
theorem runBlock_as_cmd (M : Managers) (hM : M.Good) :
    (b : Block) → (w : World) → blockNoRaise b = true →
      runBlock M b w = ((runCmd M (blockCmd b) w).1.snap, .ok) ∧ (runCmd M (blockCmd b) w).2 = .ok
  | .withB which arg inner raises, w, h => by
    simp only [blockNoRaise, Bool.and_eq_true, Bool.not_eq_true'] at h
    obtain ⟨hr, hin⟩ := h
    subst hr
    have hok : (runCmd M (blockCmd (.withB which arg inner false)) w).2 = .ok := by
      simp only [blockCmd, runCmd, exec_good_eq _ (hM which), runCmds_snap_cons]
      rw [← (runBlocks_as_cmds M hM inner _ hin).1]
      exact (runBlocks_as_cmds M hM inner _ hin).2
    refine ⟨?_, hok⟩
    rw [← hok]
    simp only [runBlock, blockCmd, runCmd]
    have key : ∀ f g : World → World × Outcome, f = g →
        ((exec which arg f (M.ir which) ⟨w, 0⟩).1.world.snap, (exec which arg f (M.ir which) ⟨w, 0⟩).2) =
        ((exec which arg g (M.ir which) ⟨w, 0⟩).1.world.snap, (exec which arg g (M.ir which) ⟨w, 0⟩).2) := by
      intro f g h; rw [h]
    apply key
    funext w'
    rw [runCmds_snap_cons, ← (runBlocks_as_cmds M hM inner w'.snap hin).1]
    generalize runBlocks M inner w'.snap = r
    obtain ⟨w'', o⟩ := r
    cases o <;> rfl
theorem runBlocks_as_cmds (M : Managers) (hM : M.Good) :
    (bs : List Block) → (w : World) → blocksNoRaise bs = true →
      runBlocks M bs w = runCmds M (blocksCmds bs) w ∧ (runBlocks M bs w).2 = .ok
  | [], _, _ => ⟨rfl, rfl⟩
  | b :: bs, w, h => by
    simp only [blocksNoRaise, Bool.and_eq_true] at h
    obtain ⟨h1, h2⟩ := runBlock_as_cmd M hM b w h.1
    have ih := runBlocks_as_cmds M hM bs (runCmd M (blockCmd b) w).1.snap h.2
    simp only [runBlocks, blocksCmds, runCmds, h1]
    generalize runCmd M (blockCmd b) w = r at h2 ih ⊢
    obtain ⟨w1, o⟩ := r
    simp only at h2
    subst h2
    simpa [runCmd] using ih
end

theorem blocksCmds_noSet (j : Fin 3) : (bs : List Block) → cmdsSets j (blocksCmds bs) = false
  | [] => rfl
  | .withB which arg inner raises :: bs => by
    simp [blocksCmds, blockCmd, cmdsSets, cmdSets, blocksCmds_noSet j inner, blocksCmds_noSet j bs]

end Ctx
