import SpoxModel.Model.CtxProg
import SpoxModel.Lemmas.Ctx
/-! Helper lemmas for the program-level theorems of C16 (round 10). -/
namespace Ctx

/-- Executing a manager IR of an accepted shape around ANY body is: run the body with the setting
    overridden, then put the setting back — equationally, for the whole frame and the outcome. -/
theorem exec_good_eq (ir : List Stmt) (hir : goodShape ir = true) (which : Fin 3) (arg : Nat)
    (body : World → World × Outcome) (w : World) :
    exec which arg body ir ⟨w, 0⟩ =
      (⟨(body (w.put (setG w.glob which arg))).1.put
          (setG (body (w.put (setG w.glob which arg))).1.glob which (w.glob which)), w.glob which⟩,
        (body (w.put (setG w.glob which arg))).2) := by
  rcases goodShape_cases hir with h | h <;> subst h <;>
    simp only [shapeA, shapeB, exec, execStmt, World.put] <;>
    generalize body _ = r <;> obtain ⟨w1, o⟩ := r <;> cases o <;> rfl

theorem specCmds_single (c : Cmd) (w : World) : specCmds [c] w = specCmd c w := by
  simp only [specCmds]
  generalize specCmd c w = r
  obtain ⟨w1, o⟩ := r
  cases o <;> rfl

theorem enter_append (g : Globals) (p : List (Fin 3 × Nat)) (i : Fin 3) (a : Nat) :
    enter g (p ++ [(i, a)]) = setG (enter g p) i a := by
  induction p generalizing g with
  | nil => rfl
  | cons x p ih => obtain ⟨j, b⟩ := x; simp only [List.cons_append, enter]; exact ih _

/-- A *history*: top-level programs run one after another, each caught by the caller
    (`try: p except BaseException: pass`); the worlds after each of them, in order. -/
def historyStates (M : Managers) : List (List Cmd) → World → List World
  | [], _ => []
  | p :: ps, w => (runCmds M p w).1 :: historyStates M ps (runCmds M p w).1

/-- The world at the end of a history. -/
def runHistory (M : Managers) : List (List Cmd) → World → World
  | [], w => w
  | p :: ps, w => runHistory M ps (runCmds M p w).1

/-- A history is the program `try: p₁ …; try: p₂ …; …` of the command language the driver runs. -/
theorem runHistory_eq_tryC (M : Managers) :
    (ps : List (List Cmd)) → (w : World) → runCmds M (ps.map .tryC) w = (runHistory M ps w, .ok)
  | [], _ => rfl
  | p :: ps, w => by
    simp only [List.map, runCmds, runCmd, runHistory]
    exact runHistory_eq_tryC M ps _

theorem historyStates_getLast (M : Managers) :
    (ps : List (List Cmd)) → (w : World) → (historyStates M ps w).getLast? = if ps = [] then none else some (runHistory M ps w)
  | [], _ => rfl
  | [p], w => rfl
  | p :: q :: ps, w => by
    have ih := historyStates_getLast M (q :: ps) (runCmds M p w).1
    simp only [historyStates, runHistory, List.getLast?_cons_cons] at ih ⊢
    simpa using ih

end Ctx
