import SpoxModel.Model.CtxProg
import SpoxModel.Lemmas.Ctx
/-! Helper lemmas for the program-level theorems of C16 (round 10). -/
namespace Ctx

/-- Executing a manager IR of an accepted shape around ANY body is: run the body with the setting
    overridden, then put the setting back — equationally, for the whole frame and the outcome. -/
theorem exec_good_eq (ir : List Stmt) (hir : goodShape ir = true) (which : Fin 3) (arg : Nat)
    (body : World → World × Outcome) (w : World) :
    exec which arg body ir ⟨w, 0⟩ =
      (⟨(body (w.put (setG w.glob which arg))).1.put
          (setG (body (w.put (setG w.glob which arg))).1.glob which (w.glob which)), w.glob which⟩,
        (body (w.put (setG w.glob which arg))).2) := by
  rcases goodShape_cases hir with h | h <;> subst h <;>
    simp only [shapeA, shapeB, exec, execStmt, World.put] <;>
    generalize body _ = r <;> obtain ⟨w1, o⟩ := r <;> cases o <;> rfl

theorem specCmds_single (c : Cmd) (w : World) : specCmds [c] w = specCmd c w := by
  simp only [specCmds]
  generalize specCmd c w = r
  obtain ⟨w1, o⟩ := r
  cases o <;> rfl

theorem enter_append (g : Globals) (p : List (Fin 3 × Nat)) (i : Fin 3) (a : Nat) :
    enter g (p ++ [(i, a)]) = setG (enter g p) i a := by
  induction p generalizing g with
  | nil => rfl
  | cons x p ih => obtain ⟨j, b⟩ := x; simp only [List.cons_append, enter]; exact ih _

end Ctx
