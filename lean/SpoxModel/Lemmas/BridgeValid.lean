import SpoxModel.Lemmas.BridgeBasic
import SpoxModel.Lemmas.BuildAlgEmit
import SpoxModel.Lemmas.BuildAlgLca
/-!
# Bridge: the emission of the Builder model is accepted by `Prog.validG`

The proof follows the compile walk (`compileG`) with a ghost stack of frames — one per open graph,
holding what was introduced in it — and shows that `Prog.validBody`'s visible list is exactly the
concatenation of the open frames.  Ordering comes from the walk's own flat-scope look-ups
(`scope.var[...]` ⇒ every input was introduced before), nesting from the scope facts
(`BridgeFacts`: the scope of an input encloses the scope of its user; arguments are used inside the
graph that owns them; a graph's parent is the scope of its unique owner).
-/
set_option linter.unusedSectionVars false
set_option linter.unusedVariables false
namespace Bridge
open BuildAlg

abbrev Stack := List (Nat × List Nat)

def visOf (st : Stack) : List Nat := st.flatMap (·.2)

def ChainOK (par : Nat → Nat) : Stack → Prop
  | [] => True
  | [e] => e.1 = 0
  | e :: f :: rest => par e.1 = f.1 ∧ e.1 ≠ 0 ∧ ChainOK par (f :: rest)

/-- every ancestor-or-equal of the top graph has a frame on the stack -/
theorem chain_anc {par : Nat → Nat} (hroot : par 0 = 0) :
    ∀ (st : Stack) (e : Nat × List Nat) (rest : Stack), st = e :: rest → ChainOK par st →
      ∀ t, Anc par t e.1 → ∃ f ∈ st, f.1 = t := by
  intro st
  induction st with
  | nil => intro e rest h; cases h
  | cons e0 st0 ih =>
    intro e rest h hc t ht
    cases h
    obtain ⟨k, hk⟩ := ht
    cases k with
    | zero => exact ⟨e0, List.mem_cons_self, hk⟩
    | succ k =>
      cases st0 with
      | nil =>
        have he0 : e0.1 = 0 := hc
        simp only [up] at hk
        rw [he0, hroot] at hk
        have : ∀ k, up par k 0 = 0 := by
          intro k; induction k with
          | zero => rfl
          | succ k ih => simp only [up]; rw [hroot]; exact ih
        rw [this k] at hk
        exact ⟨e0, List.mem_cons_self, by rw [he0]; exact hk⟩
      | cons f rest' =>
        obtain ⟨h1, h2, h3⟩ := hc
        simp only [up] at hk
        rw [h1] at hk
        obtain ⟨f', hf', hft⟩ := ih f rest' rfl h3 t ⟨k, hk⟩
        exact ⟨f', List.mem_cons_of_mem _ hf', hft⟩

/-- every frame on the stack is an ancestor-or-equal of the top graph -/
theorem chain_anc' {par : Nat → Nat} :
    ∀ (st : Stack) (e : Nat × List Nat) (rest : Stack), st = e :: rest → ChainOK par st →
      ∀ f ∈ st, Anc par f.1 e.1 := by
  intro st
  induction st with
  | nil => intro e rest h; cases h
  | cons e0 st0 ih =>
    intro e rest h hc f hf
    cases h
    cases hf with
    | head => exact Anc.refl _
    | tail _ hf' =>
      cases st0 with
      | nil => cases hf'
      | cons g rest' =>
        obtain ⟨h1, h2, h3⟩ := hc
        have := ih g rest' rfl h3 f hf'
        exact Anc.trans this ⟨1, by simp [up, h1]⟩

theorem mem_visOf {st : Stack} {x : Nat} : x ∈ visOf st ↔ ∃ e ∈ st, x ∈ e.2 := by
  simp [visOf, List.mem_flatMap]

theorem anc_depth_le {D : Nat → Prop} {par d : Nat → Nat} {r : Nat} (T : TreeOn D par d r)
    {t g : Nat} (hg : D g) (h : Anc par t g) : d t ≤ d g := by
  obtain ⟨k, hk⟩ := h
  subst hk
  have key : ∀ k g, D g → d (up par k g) ≤ d g := by
    intro k
    induction k with
    | zero => intro g _; exact Nat.le_refl _
    | succ k ih =>
      intro g hg
      simp only [up]
      have h1 := ih (par g) (T.closed g hg)
      by_cases h0 : d g = 0
      · have := T.root g hg h0
        subst this
        rw [T.rpar] at h1 ⊢; exact h1
      · have := T.step g hg h0; omega
  exact key k g hg

/-- What the algorithm guarantees about scopes, as needed by the walk (all are derived from the C04
    theorems except the two `arg…` fields, which say that no argument is used outside its body). -/
structure BridgeFacts (p : BuildAlg.Prog) (b : Built) (d : Nat → Nat) : Prop where
  tree : TreeOn (· ∈ b.graphTopo) (parent b.owner b.scopeOf) d 0
  inRange : ∀ n, V.node n ∈ b.topo → n < p.nodes.length
  srcOwn : ∀ g ∈ b.graphTopo, V.src g ∈ ownNodes p b g
  ownerU : ∀ w s, V.node w ∈ b.topo → s ∈ p.subs w → lookupN b.owner s = some w
  subIn : ∀ w s, V.node w ∈ b.topo → s ∈ p.subs w → s ∈ b.graphTopo ∧ s ≠ 0
  argsArg : ∀ g, ∀ a ∈ lookupL b.argsOf g, p.isArg a = true
  scopeIn : ∀ n c u, V.node n ∈ b.topo → b.scopeOf.get (.node n) = some c → u ∈ p.inputs n →
    p.isArg u = false → ∃ t, b.scopeOf.get (.node u) = some t ∧ Anc (parent b.owner b.scopeOf) t c
  scopeRes : ∀ s r, s ∈ b.graphTopo → r ∈ p.results s → p.isArg r = false →
    ∃ t, b.scopeOf.get (.node r) = some t ∧ Anc (parent b.owner b.scopeOf) t s
  argIn : ∀ n c a, V.node n ∈ b.topo → b.scopeOf.get (.node n) = some c → a ∈ p.inputs n →
    p.isArg a = true → ∃ t, Anc (parent b.owner b.scopeOf) t c ∧ a ∈ lookupL b.argsOf t
  argRes : ∀ s a, s ∈ b.graphTopo → a ∈ p.results s → p.isArg a = true →
    ∃ t, Anc (parent b.owner b.scopeOf) t s ∧ a ∈ lookupL b.argsOf t
  noSelfIn : ∀ w s c n i, V.node w ∈ b.topo → s ∈ p.subs w → Anc (parent b.owner b.scopeOf) s c →
    V.node n ∈ b.topo → b.scopeOf.get (.node n) = some c → i ∈ p.inputs n → i ≠ w
  noSelfRes : ∀ w s c r, V.node w ∈ b.topo → s ∈ p.subs w → Anc (parent b.owner b.scopeOf) s c →
    c ∈ b.graphTopo → r ∈ p.results c → r ≠ w

/-- the ghost invariant of the walk -/
structure WInv (p : BuildAlg.Prog) (b : Built) (cs : CState) (st : Stack)
    (closed pending exc : List Nat) : Prop where
  v1 : ∀ x ∈ visOf st, V.node x ∈ cs.intro
  chain : ChainOK (parent b.owner b.scopeOf) st
  ingt : ∀ e ∈ st, e.1 ∈ b.graphTopo
  v3 : ∀ e ∈ st, e.1 ∉ closed
  v4 : ∀ c ∈ closed, V.src c ∈ cs.intro
  v5 : ∀ e ∈ st, ∀ a ∈ lookupL b.argsOf e.1, a ∈ e.2
  v6 : ∀ x, V.node x ∈ cs.intro → p.isArg x = false → ∃ c, b.scopeOf.get (.node x) = some c ∧
        (c ∈ closed ∨ (∃ e ∈ st, e.1 = c ∧ x ∈ e.2) ∨ x ∈ pending ∨ x ∈ exc)
  v9 : ∀ w ∈ pending, ∃ s e rest, st = e :: rest ∧ V.node w ∈ b.topo ∧ s ∈ p.subs w ∧
        Anc (parent b.owner b.scopeOf) s e.1

/-- an introduced value whose home encloses the current graph is visible -/
theorem visible_arg {p : BuildAlg.Prog} {b : Built} {d : Nat → Nat} (F : BridgeFacts p b d)
    {cs : CState} {st : Stack} {closed pending exc : List Nat}
    (I : WInv p b cs st closed pending exc)
    (e : Nat × List Nat) (rest : Stack) (hst : st = e :: rest) (a t : Nat)
    (ht : Anc (parent b.owner b.scopeOf) t e.1) (ha : a ∈ lookupL b.argsOf t) : a ∈ visOf st := by
  obtain ⟨f, hf, hft⟩ := chain_anc F.tree.rpar st e rest hst I.chain t ht
  subst hft
  exact mem_visOf.mpr ⟨f, hf, I.v5 f hf a ha⟩

theorem visible_node {p : BuildAlg.Prog} {b : Built} {d : Nat → Nat} (F : BridgeFacts p b d)
    {cs : CState} {st : Stack} {closed pending exc : List Nat}
    (I : WInv p b cs st closed pending exc)
    (e : Nat × List Nat) (rest : Stack) (hst : st = e :: rest) (x t : Nat)
    (hx : V.node x ∈ cs.intro) (hna : p.isArg x = false)
    (hs : b.scopeOf.get (.node x) = some t) (ht : Anc (parent b.owner b.scopeOf) t e.1)
    (hnp : x ∉ pending) (hne : x ∉ exc) : x ∈ visOf st := by
  obtain ⟨c, hc, hcase⟩ := I.v6 x hx hna
  rw [hs] at hc; cases hc
  obtain ⟨f, hf, hft⟩ := chain_anc F.tree.rpar st e rest hst I.chain t ht
  rcases hcase with h1 | ⟨g, hg, hgt, hxg⟩ | h3 | h4
  · exact absurd h1 (hft ▸ I.v3 f hf)
  · exact mem_visOf.mpr ⟨g, hg, hxg⟩
  · exact absurd h3 hnp
  · exact absurd h4 hne

/-! ### small facts about the walk's steps and the translated nodes -/

theorem argFold_spec : ∀ (args : List Nat) (c0 c1 : CState), foldE argStep c0 args = .ok c1 →
    (∀ a ∈ args, V.node a ∉ c0.intro) ∧
    (∀ x, x ∈ c1.intro ↔ x ∈ c0.intro ∨ ∃ a ∈ args, x = V.node a) := by
  intro args
  induction args with
  | nil => intro c0 c1 h; simp only [foldE] at h; cases h; simp
  | cons a as ih =>
    intro c0 c1 h
    simp only [foldE] at h
    cases hs : argStep c0 a with
    | error e => rw [hs] at h; cases h
    | ok c =>
      rw [hs] at h
      unfold argStep at hs
      split at hs
      · cases hs
      · rename_i hfresh
        cases hs
        obtain ⟨i1, i2⟩ := ih _ c1 h
        constructor
        · intro a' ha'
          cases ha' with
          | head => exact hfresh
          | tail _ h' => exact fun hc => i1 a' h' (List.mem_cons_of_mem _ hc)
        · intro x
          rw [i2 x]
          simp only [List.mem_cons]
          constructor
          · rintro ((h1 | h1) | ⟨a', ha', rfl⟩)
            · right; exact ⟨a, Or.inl rfl, h1⟩
            · left; exact h1
            · right; exact ⟨a', Or.inr ha', rfl⟩
          · rintro (h1 | ⟨a', (rfl | ha'), rfl⟩)
            · left; right; exact h1
            · left; left; rfl
            · right; exact ⟨a', ha', rfl⟩

theorem compileG_mono (p : BuildAlg.Prog) (b : Built) (fuel g : Nat) (c c' : CState)
    (h : compileG p b fuel g c = .ok c') : ∀ x ∈ c.intro, x ∈ c'.intro := by
  obtain ⟨⟨_, _, m, _⟩, _⟩ := post_compileG p b fuel g c c' h
  exact m

theorem subsFold_mono (p : BuildAlg.Prog) (b : Built) (fuel : Nat) : ∀ (ss : List Nat) (c c' : CState),
    foldE (fun c s => compileG p b fuel s c) c ss = .ok c' → ∀ x ∈ c.intro, x ∈ c'.intro := by
  intro ss c c' h
  exact foldE_rel (fun a b' => ∀ x ∈ a.intro, x ∈ b'.intro) (fun _ _ h => h)
    (fun _ _ _ h1 h2 x hx => h2 x (h1 x hx)) ss c c'
    (fun s _ c1 c2 hc => compileG_mono p b fuel s c1 c2 hc) h

/-- what one successful `emitStep` tells -/
theorem emitStep_spec (p : BuildAlg.Prog) (b : Built) (fuel : Nat) (c c' : CState) (v : V)
    (h : emitStep p (compileG p b fuel) c v = .ok c') :
    v ∉ c.intro ∧ (∀ u ∈ p.adjIn v, u ∈ v :: c.intro) ∧
    (match v with
      | .node n => foldE (fun c s => compileG p b fuel s c) ⟨v :: c.intro, Ev.emit v :: c.trace⟩ (p.subs n) = .ok c'
      | .src _ => c' = ⟨v :: c.intro, Ev.emit v :: c.trace⟩) := by
  unfold emitStep at h
  split at h
  · cases h
  · rename_i hfresh
    simp only at h
    split at h
    · rename_i hall
      refine ⟨hfresh, ?_, ?_⟩
      · intro u hu
        have := List.all_eq_true.mp hall u hu
        simpa using this
      · cases v with
        | node n => simpa using h
        | src g => simp only at h; cases h; rfl
    · cases h

theorem emitStep_mono (p : BuildAlg.Prog) (b : Built) (fuel : Nat) (c c' : CState) (v : V)
    (h : emitStep p (compileG p b fuel) c v = .ok c') :
    v ∈ c'.intro ∧ ∀ x ∈ c.intro, x ∈ c'.intro := by
  obtain ⟨_, _, h3⟩ := emitStep_spec p b fuel c c' v h
  cases v with
  | node n =>
    have := subsFold_mono p b fuel (p.subs n) _ c' h3
    exact ⟨this _ List.mem_cons_self, fun x hx => this x (List.mem_cons_of_mem _ hx)⟩
  | src g =>
    simp only at h3; subst h3
    exact ⟨List.mem_cons_self, fun x hx => List.mem_cons_of_mem _ hx⟩

theorem ownFold_fresh (p : BuildAlg.Prog) (b : Built) (fuel : Nat) : ∀ (vs : List V) (c c' : CState),
    foldE (emitStep p (compileG p b fuel)) c vs = .ok c' →
    (∀ v ∈ vs, v ∉ c.intro) ∧ ∀ x ∈ c.intro, x ∈ c'.intro := by
  intro vs
  induction vs with
  | nil => intro c c' h; simp only [foldE] at h; cases h; exact ⟨by simp, fun _ h => h⟩
  | cons v vs ih =>
    intro c c' h
    simp only [foldE] at h
    cases hs : emitStep p (compileG p b fuel) c v with
    | error e => rw [hs] at h; cases h
    | ok c1 =>
      rw [hs] at h
      obtain ⟨i1, i2⟩ := ih c1 c' h
      obtain ⟨f1, _, _⟩ := emitStep_spec p b fuel c c1 v hs
      obtain ⟨_, m1⟩ := emitStep_mono p b fuel c c1 v hs
      refine ⟨?_, fun x hx => i2 x (m1 x hx)⟩
      intro v' hv'
      cases hv' with
      | head => exact f1
      | tail _ h' => exact fun hc => i1 v' h' (m1 v' hc)

theorem node_toProg (p : BuildAlg.Prog) (argsOf : List (Nat × List Nat)) (n : Nat)
    (hn : n < p.nodes.length) (hna : p.isArg n = false) :
    ∃ pn', Prog.nodeAt (toProg p argsOf).nodes n = some pn' ∧ pn'.kind.label? = some n ∧
      pn'.inputs = (p.inputs n).map (fun i => some (toRef i)) ∧
      pn'.subs = (p.subs n).map (toPGraph p argsOf) := by
  rw [nodeAt_toProg]
  have hget : p.nodes[n]? = some p.nodes[n] := List.getElem?_eq_getElem hn
  refine ⟨toPNode p argsOf n p.nodes[n], by rw [hget]; rfl, ?_, ?_, ?_⟩
  · have : p.nodes[n].isArg = false := by simpa [BuildAlg.Prog.isArg, hget] using hna
    simp [toPNode, this, Prog.Kind.label?]
  · simp [toPNode, BuildAlg.Prog.inputs, hget]
  · simp [toPNode, BuildAlg.Prog.subs, hget]

theorem inputsVisible_map (ins : List Nat) (vis : List Nat) (h : ∀ i ∈ ins, i ∈ vis) :
    Prog.inputsVisible (ins.map (fun i => some (toRef i))) vis = true := by
  simp only [Prog.inputsVisible, List.all_eq_true, List.mem_map]
  rintro o ⟨i, hi, rfl⟩
  simpa [toRef] using h i hi

end Bridge
