import SpoxModel.Model.BuildAlg
import SpoxModel.Lemmas.BuildAlgDfs
/-!
# Basic facts about the `Builder` model: well-formed programs (creation order), the rank that makes
  both edge relations acyclic, list-as-set helpers, `foldE`.
-/
set_option linter.unusedSectionVars false
set_option linter.unusedVariables false
namespace BuildAlg

/-- Creation order, as a proposition (what `Prog.WFb` computes). -/
structure WF (p : Prog) : Prop where
  inputs_lt : ∀ n, ∀ i ∈ p.inputs n, i < n
  subs_res_lt : ∀ n, ∀ g ∈ p.subs n, ∀ r ∈ p.results g, r < n
  arg_leaf : ∀ n, p.isArg n = true → p.inputs n = [] ∧ p.subs n = []
  res_lt : ∀ g, ∀ r ∈ p.results g, r < p.nodes.length
  args_arg : ∀ (g : Nat) (pg : PGraph), p.graphs[g]? = some pg → ∀ a, pg.args = some a → ∀ x ∈ a, p.isArg x = true
  /-- the main graph is not held in an attribute of one of its own nodes -/
  main_free : ∀ n, (0 : Nat) ∉ p.subs n

theorem Prog.inputs_oob (p : Prog) (n : Nat) (h : p.nodes.length ≤ n) : p.inputs n = [] := by
  simp [Prog.inputs, List.getElem?_eq_none h]

theorem Prog.subs_oob (p : Prog) (n : Nat) (h : p.nodes.length ≤ n) : p.subs n = [] := by
  simp [Prog.subs, List.getElem?_eq_none h]

theorem Prog.isArg_oob (p : Prog) (n : Nat) (h : p.nodes.length ≤ n) : p.isArg n = false := by
  simp [Prog.isArg, List.getElem?_eq_none h]

/-- the executable check implies the proposition -/
theorem wf_of_wfb (p : Prog) (h : p.WFb = true) : WF p := by
  simp only [Prog.WFb, Bool.and_eq_true, List.all_eq_true, List.mem_range, decide_eq_true_eq,
    Bool.or_eq_true, Bool.not_eq_eq_eq_not, Bool.not_true] at h
  obtain ⟨hn, hg⟩ := h
  refine ⟨?_, ?_, ?_, ?_, ?_, ?_⟩
  · intro n i hi
    by_cases hlt : n < p.nodes.length
    · exact (hn n hlt).1.1 i hi
    · rw [p.inputs_oob n (by omega)] at hi; cases hi
  · intro n g hgm r hr
    by_cases hlt : n < p.nodes.length
    · exact ((hn n hlt).1.2 g hgm).2 r hr
    · rw [p.subs_oob n (by omega)] at hgm; cases hgm
  · intro n ha
    by_cases hlt : n < p.nodes.length
    · rcases (hn n hlt).2 with h1 | h1
      · rw [ha] at h1; cases h1
      · simpa [List.isEmpty_iff] using h1
    · rw [p.isArg_oob n (by omega)] at ha; cases ha
  · intro g r hr
    unfold Prog.results at hr
    split at hr
    · rename_i pg hpg
      exact (hg pg (List.mem_of_getElem? hpg)).1 r hr
    · cases hr
  · intro g pg hpg a ha x hx
    have := (hg pg (List.mem_of_getElem? hpg)).2
    rw [ha] at this
    simp only [List.all_eq_true] at this
    exact this x hx
  · intro n h0
    by_cases hlt : n < p.nodes.length
    · have := ((hn n hlt).1.2 0 h0).1.2
      omega
    · rw [p.subs_oob n (by omega)] at h0; cases h0

/-! ### rank: both edge relations go strictly down -/

def listMax : List Nat → Nat
  | [] => 0
  | x :: xs => max x (listMax xs)

theorem le_listMax {l : List Nat} {x : Nat} (h : x ∈ l) : x ≤ listMax l := by
  induction l with
  | nil => cases h
  | cons y ys ih =>
    simp only [listMax]
    cases h with
    | head => omega
    | tail _ h' => have := ih h'; omega

theorem listMax_le {l : List Nat} {b : Nat} (h : ∀ x ∈ l, x ≤ b) : listMax l ≤ b := by
  induction l with
  | nil => simp [listMax]
  | cons y ys ih =>
    simp only [listMax]
    have := h y List.mem_cons_self
    have := ih (fun x hx => h x (List.mem_cons_of_mem _ hx))
    omega

def rankV (p : Prog) : V → Nat
  | .node n => 2 * n + 2
  | .src g => listMax ((p.results g).map (fun r => 2 * r + 3))

theorem rank_src_gt (p : Prog) (g r : Nat) (h : r ∈ p.results g) :
    2 * r + 2 < rankV p (.src g) := by
  have : 2 * r + 3 ≤ rankV p (.src g) := by
    apply le_listMax
    exact List.mem_map.mpr ⟨r, h, rfl⟩
  omega

theorem rank_adjFull (p : Prog) (hwf : WF p) : ∀ v, ∀ w ∈ p.adjFull v, rankV p w < rankV p v := by
  intro v w hw
  cases v with
  | node n =>
    simp only [Prog.adjFull, List.mem_append, List.mem_map] at hw
    rcases hw with ⟨i, hi, rfl⟩ | ⟨g, hg, rfl⟩
    · have := hwf.inputs_lt n i hi
      simp only [rankV]; omega
    · have hb : rankV p (.src g) ≤ 2 * n + 1 := by
        apply listMax_le
        intro x hx
        obtain ⟨r, hr, rfl⟩ := List.mem_map.mp hx
        have := hwf.subs_res_lt n g hg r hr
        omega
      simp only [rankV] at hb ⊢; omega
  | src g =>
    simp only [Prog.adjFull, List.mem_map] at hw
    obtain ⟨r, hr, rfl⟩ := hw
    exact rank_src_gt p g r hr

theorem rank_adjIn (p : Prog) (hwf : WF p) : ∀ v, ∀ w ∈ p.adjIn v, rankV p w < rankV p v := by
  intro v w hw
  apply rank_adjFull p hwf v w
  cases v with
  | node n => simp only [Prog.adjFull, Prog.adjIn] at hw ⊢; exact List.mem_append_left _ hw
  | src g => exact hw

theorem rank_src_lt_fuel (p : Prog) (hwf : WF p) (g : Nat) : rankV p (.src g) < p.fuel := by
  have : rankV p (.src g) ≤ 2 * p.nodes.length + 1 := by
    apply listMax_le
    intro x hx
    obtain ⟨r, hr, rfl⟩ := List.mem_map.mp hx
    have := hwf.res_lt g r hr
    omega
  simp only [Prog.fuel]; omega

/-! ### list-as-set helpers -/

theorem mem_union {a b : List Nat} {x : Nat} : x ∈ union a b ↔ x ∈ a ∨ x ∈ b := by
  simp only [union, List.mem_append, List.mem_filter, Bool.not_eq_eq_eq_not, Bool.not_true,
    List.contains_eq_mem, decide_eq_false_iff_not]
  constructor
  · rintro (h | ⟨h, _⟩)
    · left; exact h
    · right; exact h
  · rintro (h | h)
    · left; exact h
    · by_cases hx : x ∈ a
      · left; exact hx
      · right; exact ⟨h, hx⟩

theorem mem_inter {a b : List Nat} {x : Nat} : x ∈ inter a b ↔ x ∈ a ∧ x ∈ b := by
  simp [inter, List.mem_filter]

theorem mem_diff {a b : List Nat} {x : Nat} : x ∈ diff a b ↔ x ∈ a ∧ x ∉ b := by
  simp [diff, List.mem_filter]

theorem mem_insertSorted {x y : Nat} {l : List Nat} : y ∈ insertSorted x l ↔ y = x ∨ y ∈ l := by
  induction l with
  | nil => simp [insertSorted]
  | cons z zs ih =>
    simp only [insertSorted]
    split
    · simp
    · simp only [List.mem_cons, ih]
      constructor
      · rintro (h | h | h)
        · right; left; exact h
        · left; exact h
        · right; right; exact h
      · rintro (h | h | h)
        · right; left; exact h
        · left; exact h
        · right; right; exact h

theorem mem_sortNat {y : Nat} {l : List Nat} : y ∈ sortNat l ↔ y ∈ l := by
  induction l with
  | nil => simp [sortNat]
  | cons z zs ih =>
    have : sortNat (z :: zs) = insertSorted z (sortNat zs) := rfl
    rw [this, mem_insertSorted, ih]
    simp

theorem lookupL_mem {l : List (Nat × List Nat)} {g a : Nat} (h : a ∈ lookupL l g) :
    ∃ e ∈ l, e.1 = g ∧ a ∈ e.2 := by
  unfold lookupL at h
  split at h
  · rename_i e he
    refine ⟨e, List.mem_of_find?_eq_some he, ?_, h⟩
    have := List.find?_some he
    simpa using this
  · cases h

/-! ### foldE -/

theorem foldE_rel {α β ε : Type} {f : β → α → Except ε β} (R : β → β → Prop)
    (hrefl : ∀ b, R b b) (htrans : ∀ a b c, R a b → R b c → R a c) :
    ∀ (l : List α) (b b' : β), (∀ a ∈ l, ∀ c c', f c a = .ok c' → R c c') →
      foldE f b l = .ok b' → R b b' := by
  intro l
  induction l with
  | nil =>
    intro b b' _ h
    simp only [foldE] at h
    cases h; exact hrefl b
  | cons a as ih =>
    intro b b' hstep h
    simp only [foldE] at h
    cases hfa : f b a with
    | error e => rw [hfa] at h; cases h
    | ok b1 =>
      rw [hfa] at h
      exact htrans _ _ _ (hstep a List.mem_cons_self b b1 hfa)
        (ih b1 b' (fun a' ha' => hstep a' (List.mem_cons_of_mem _ ha')) h)

theorem foldE_inv {α β ε : Type} {f : β → α → Except ε β} (I : β → Prop) :
    ∀ (l : List α) (b b' : β), (∀ a ∈ l, ∀ c c', I c → f c a = .ok c' → I c') → I b →
      foldE f b l = .ok b' → I b' := by
  intro l
  induction l with
  | nil =>
    intro b b' _ hb h
    simp only [foldE] at h
    cases h; exact hb
  | cons a as ih =>
    intro b b' hstep hb h
    simp only [foldE] at h
    cases hfa : f b a with
    | error e => rw [hfa] at h; cases h
    | ok b1 =>
      rw [hfa] at h
      exact ih b1 b' (fun a' ha' => hstep a' (List.mem_cons_of_mem _ ha'))
        (hstep a List.mem_cons_self b b1 hb hfa) h

theorem nodup_reverse' {α : Type} {l : List α} (h : l.Nodup) : l.reverse.Nodup := by
  unfold List.Nodup at *
  rw [List.pairwise_reverse]
  exact h.imp (fun h => fun e => h e.symm)

theorem count_eq_one_of_nodup {α : Type} [DecidableEq α] {l : List α} {a : α} (h : l.Nodup)
    (hm : a ∈ l) : l.count a = 1 := by
  induction l with
  | nil => cases hm
  | cons x xs ih =>
    rw [List.nodup_cons] at h
    by_cases hx : x = a
    · subst hx
      rw [List.count_cons_self, List.count_eq_zero.mpr h.1]
    · rw [List.count_cons_of_ne hx]
      cases hm with
      | head => exact absurd rfl hx
      | tail _ h' => exact ih h.2 h'

theorem foldE_prefix {α β ε : Type} {f : β → α → Except ε β} (I : List α → β → Prop) :
    ∀ (l pre : List α) (b b' : β),
      (∀ pre' a c c', a ∈ l → I pre' c → f c a = .ok c' → I (pre' ++ [a]) c') →
      I pre b → foldE f b l = .ok b' → I (pre ++ l) b' := by
  intro l
  induction l with
  | nil =>
    intro pre b b' _ hb h
    simp only [foldE] at h
    cases h; simpa using hb
  | cons a as ih =>
    intro pre b b' hstep hb h
    simp only [foldE] at h
    cases hfa : f b a with
    | error e => rw [hfa] at h; cases h
    | ok b1 =>
      rw [hfa] at h
      have := ih (pre ++ [a]) b1 b'
        (fun pre' a' c c' ha' => hstep pre' a' c c' (List.mem_cons_of_mem _ ha'))
        (hstep pre a b b1 List.mem_cons_self hb hfa) h
      simpa [List.append_assoc] using this

theorem lookupL_cons_ne (l : List (Nat × List Nat)) (g h : Nat) (X : List Nat) (hne : h ≠ g) :
    lookupL ((g, X) :: l) h = lookupL l h := by
  have : (g == h) = false := by simpa using fun e => hne e.symm
  simp [lookupL, List.find?_cons, this]

theorem lookupL_cons_self (l : List (Nat × List Nat)) (g : Nat) (X : List Nat) :
    lookupL ((g, X) :: l) g = X := by
  simp [lookupL, List.find?_cons]

theorem lookupL_nokey (l : List (Nat × List Nat)) (g : Nat) (h : ∀ e ∈ l, e.1 ≠ g) :
    lookupL l g = [] := by
  unfold lookupL
  split
  · rename_i e he
    have h1 := List.mem_of_find?_eq_some he
    have h2 := List.find?_some he
    exact absurd (by simpa using h2) (h e h1)
  · rfl

end BuildAlg
