import SpoxModel.Model.ProgUsed
import SpoxModel.Lemmas.Prog
/-!
# Values depend on the needed arguments only (used by `Props/C01.lean`)
-/
namespace Prog
variable {Val : Type} [Inhabited Val]

omit [Inhabited Val] in
theorem valAt_ge (tbl : List (List Val)) (k : Nat) (h : tbl.length < k ∨ tbl = []) :
    valAt tbl k = [] := by
  induction tbl with
  | nil => rfl
  | cons v t ih =>
    rcases h with h | h
    · simp only [valAt]
      have hne : ¬ k = t.length := by simp at h; omega
      rw [if_neg hne]
      exact ih (Or.inl (by simp at h; omega))
    · cases h

theorem needed_mono (p : List PNode) (w : List Nat) : ∀ x ∈ w, x ∈ needed p w := by
  induction p generalizing w with
  | nil => intro x hx; simpa [needed] using hx
  | cons n older ih =>
    intro x hx
    simp only [needed]
    split
    · exact ih _ x (List.mem_append_right _ hx)
    · exact ih _ x hx

theorem mem_refs_input {n : PNode} {r : VarRef} (h : some r ∈ n.inputs) : r.node ∈ n.refs := by
  unfold PNode.refs
  apply List.mem_append_left
  rw [List.mem_filterMap]
  exact ⟨some r, h, rfl⟩

theorem mem_refs_sub {n : PNode} {g : PGraph} {r : VarRef} (hg : g ∈ n.subs) (hr : r ∈ g.results) :
    r.node ∈ n.refs := by
  unfold PNode.refs
  apply List.mem_append_right
  rw [List.mem_flatMap]
  exact ⟨g, hg, List.mem_map.mpr ⟨r, hr, rfl⟩⟩

theorem refs_lt {n : PNode} {k : Nat}
    (hin : ∀ r, some r ∈ n.inputs → r.node < k) (hsub : ∀ g ∈ n.subs, ∀ r ∈ g.results, r.node < k) :
    ∀ x ∈ n.refs, x < k := by
  intro x hx
  unfold PNode.refs at hx
  rcases List.mem_append.mp hx with h | h
  · rw [List.mem_filterMap] at h
    obtain ⟨o, ho, hox⟩ := h
    cases o with
    | none => simp at hox
    | some r =>
      simp at hox
      subst hox
      exact hin r ho
  · rw [List.mem_flatMap] at h
    obtain ⟨g, hg, hx'⟩ := h
    obtain ⟨r, hr, rfl⟩ := List.mem_map.mp hx'
    exact hsub g hg r hr

/-- Under `WF`, the traversal only ever adds ids of older nodes. -/
theorem needed_bound (p : List PNode) (hwf : WF p) (w : List Nat) :
    ∀ x ∈ needed p w, x ∈ w ∨ x < p.length := by
  induction p generalizing w with
  | nil => intro x hx; left; simpa [needed] using hx
  | cons n older ih =>
    intro x hx
    have hwf' := WF_tail hwf
    obtain ⟨hin, hsub⟩ := hwf older.length n (by simp [nodeAt])
    simp only [needed] at hx
    split at hx
    · rcases ih hwf' _ x hx with h | h
      · rcases List.mem_append.mp h with h1 | h1
        · right
          have := refs_lt hin hsub x h1
          simp; omega
        · left; exact h1
      · right; simp; omega
    · rcases ih hwf' _ x hx with h | h
      · left; exact h
      · right; simp; omega

theorem updArgs_congr (b b' : Nat → Val) (args : List Nat) (vals : List Val) (x : Nat)
    (h : b x = b' x) : updArgs b args vals x = updArgs b' args vals x := by
  induction args generalizing vals with
  | nil => simpa [updArgs] using h
  | cons a as ih =>
    simp only [updArgs]
    split
    · rfl
    · exact ih vals.tail

/-- **Values of needed nodes depend on the needed arguments only.** -/
theorem table_congr_needed (S : Sem Val) (p : List PNode) (hwf : WF p) (w : List Nat)
    (b b' : Nat → Val) (hb : ∀ a ∈ needed p w, b a = b' a) :
    ∀ k ∈ needed p w, k < p.length → valAt (table S p b) k = valAt (table S p b') k := by
  induction p generalizing w b b' with
  | nil => intro k _ hk; simp at hk
  | cons n older ih =>
    intro k hk hlt
    have hwf' := WF_tail hwf
    obtain ⟨hin, hsub⟩ := hwf older.length n (by simp [nodeAt])
    rw [table_cons, table_cons]
    simp only [valAt, table_length]
    by_cases hkeq : k = older.length
    · rw [if_pos hkeq, if_pos hkeq]
      -- the newest node is wanted, hence its references were added
      have hin_w : w.contains older.length = true := by
        by_cases hc : w.contains older.length = true
        · exact hc
        · exfalso
          simp only [needed, hc] at hk
          rcases needed_bound older hwf' w k hk with h | h
          · apply hc; subst hkeq; simpa using h
          · omega
      simp only [needed, hin_w, if_true] at hk hb
      have hN : ∀ x ∈ n.refs, x ∈ needed older (n.refs ++ w) := fun x hx =>
        needed_mono older _ x (List.mem_append_left _ hx)
      have hval : ∀ (c c' : Nat → Val), (∀ a ∈ needed older (n.refs ++ w), c a = c' a) →
          ∀ r : VarRef, r.node ∈ n.refs → r.node < older.length →
            getVar (table S older c) r = getVar (table S older c') r := by
        intro c c' hc r hr hrlt
        unfold getVar
        rw [ih hwf' _ c c' hc r.node (hN _ hr) hrlt]
      unfold nodeVal
      split
      · have : b older.length = b' older.length := hb _ (by subst hkeq; exact hk)
        rw [this]
      · congr 1
        · apply List.map_congr_left
          intro o ho
          cases o with
          | none => rfl
          | some r =>
            simp only [getOpt]
            rw [hval b b' hb r (mem_refs_input ho) (hin r ho)]
        · apply List.map_congr_left
          intro g hg; funext vals
          apply List.map_congr_left
          intro r hr
          exact hval _ _ (fun a ha => updArgs_congr b b' g.args vals a (hb a ha)) r
            (mem_refs_sub hg hr) (hsub g hg r hr)
    · rw [if_neg hkeq, if_neg hkeq]
      have hlt' : k < older.length := by simp at hlt; omega
      simp only [needed] at hk hb
      split at hk
      · rename_i hc
        simp only [hc, if_true] at hb
        exact ih hwf' _ b b' hb k hk hlt'
      · rename_i hc
        simp only [hc] at hb
        exact ih hwf' _ b b' hb k hk hlt'

/-- Binding only the kept arguments (with their own actual values) is the same, on every kept id,
    as binding all of them. -/
theorem updArgs_filter (keep : Nat → Bool) (b : Nat → Val) (args : List Nat) (vals : List Val)
    (x : Nat) (hx : keep x = true) :
    updArgs b (args.filter keep) (usedVals keep args vals) x = updArgs b args vals x := by
  induction args generalizing vals with
  | nil => simp [updArgs, usedVals]
  | cons a as ih =>
    by_cases hk : keep a = true
    · simp only [List.filter_cons, hk, if_true, usedVals, updArgs, List.headD_cons, List.tail_cons]
      split
      · rfl
      · exact ih vals.tail
    · have hne : ¬ x = a := by intro h; subst h; exact hk hx
      simp only [List.filter_cons, hk, usedVals, updArgs, if_neg hne]
      simpa using ih vals.tail

end Prog
