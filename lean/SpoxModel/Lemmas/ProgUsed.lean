import SpoxModel.Model.ProgUsed
import SpoxModel.Lemmas.Prog
/-!
# Values depend on the needed arguments only (used by `Props/C01.lean`)
-/
namespace Prog
variable {Val : Type} [Inhabited Val]

omit [Inhabited Val] in
theorem valAt_ge (tbl : List (List Val)) (k : Nat) (h : tbl.length < k ∨ tbl = []) :
    valAt tbl k = [] := by
  induction tbl with
  | nil => rfl
  | cons v t ih =>
    rcases h with h | h
    · simp only [valAt]
      have hne : ¬ k = t.length := by simp at h; omega
      rw [if_neg hne]
      exact ih (Or.inl (by simp at h; omega))
    · cases h

theorem needed_mono (p : List PNode) (w : List Nat) : ∀ x ∈ w, x ∈ needed p w := by
  induction p generalizing w with
  | nil => intro x hx; simpa [needed] using hx
  | cons n older ih =>
    intro x hx
    simp only [needed]
    split
    · exact ih _ x (List.mem_append_right _ hx)
    · exact ih _ x hx

theorem mem_refs_input {n : PNode} {r : VarRef} (h : some r ∈ n.inputs) : r.node ∈ n.refs := by
  unfold PNode.refs
  apply List.mem_append_left
  rw [List.mem_filterMap]
  exact ⟨some r, h, rfl⟩

theorem mem_refs_sub {n : PNode} {g : PGraph} {r : VarRef} (hg : g ∈ n.subs) (hr : r ∈ g.results) :
    r.node ∈ n.refs := by
  unfold PNode.refs
  apply List.mem_append_right
  rw [List.mem_flatMap]
  exact ⟨g, hg, List.mem_map.mpr ⟨r, hr, rfl⟩⟩

theorem refs_lt {n : PNode} {k : Nat}
    (hin : ∀ r, some r ∈ n.inputs → r.node < k) (hsub : ∀ g ∈ n.subs, ∀ r ∈ g.results, r.node < k) :
    ∀ x ∈ n.refs, x < k := by
  intro x hx
  unfold PNode.refs at hx
  rcases List.mem_append.mp hx with h | h
  · rw [List.mem_filterMap] at h
    obtain ⟨o, ho, hox⟩ := h
    cases o with
    | none => simp at hox
    | some r =>
      simp at hox
      subst hox
      exact hin r ho
  · rw [List.mem_flatMap] at h
    obtain ⟨g, hg, hx'⟩ := h
    obtain ⟨r, hr, rfl⟩ := List.mem_map.mp hx'
    exact hsub g hg r hr

/-- Under `WF`, the traversal only ever adds ids of older nodes. -/
theorem needed_bound (p : List PNode) (hwf : WF p) (w : List Nat) :
    ∀ x ∈ needed p w, x ∈ w ∨ x < p.length := by
  induction p generalizing w with
  | nil => intro x hx; left; simpa [needed] using hx
  | cons n older ih =>
    intro x hx
    have hwf' := WF_tail hwf
    obtain ⟨hin, hsub⟩ := hwf older.length n (by simp [nodeAt])
    simp only [needed] at hx
    split at hx
    · rcases ih hwf' _ x hx with h | h
      · rcases List.mem_append.mp h with h1 | h1
        · right
          have := refs_lt hin hsub x h1
          simp; omega
        · left; exact h1
      · right; simp; omega
    · rcases ih hwf' _ x hx with h | h
      · left; exact h
      · right; simp; omega

theorem updArgs_congr (b b' : Nat → Val) (args : List Nat) (vals : List Val) (x : Nat)
    (h : b x = b' x) : updArgs b args vals x = updArgs b' args vals x := by
  induction args generalizing vals with
  | nil => simpa [updArgs] using h
  | cons a as ih =>
    simp only [updArgs]
    split
    · rfl
    · exact ih vals.tail

/-- **Values of needed nodes depend on the needed arguments only.** -/
theorem table_congr_needed (S : Sem Val) (p : List PNode) (hwf : WF p) (w : List Nat)
    (b b' : Nat → Val) (hb : ∀ a ∈ needed p w, b a = b' a) :
    ∀ k ∈ needed p w, k < p.length → valAt (table S p b) k = valAt (table S p b') k := by
  induction p generalizing w b b' with
  | nil => intro k _ hk; simp at hk
  | cons n older ih =>
    intro k hk hlt
    have hwf' := WF_tail hwf
    obtain ⟨hin, hsub⟩ := hwf older.length n (by simp [nodeAt])
    rw [table_cons, table_cons]
    simp only [valAt, table_length]
    by_cases hkeq : k = older.length
    · rw [if_pos hkeq, if_pos hkeq]
      -- the newest node is wanted, hence its references were added
      have hin_w : w.contains older.length = true := by
        by_cases hc : w.contains older.length = true
        · exact hc
        · exfalso
          simp only [needed, hc] at hk
          rcases needed_bound older hwf' w k hk with h | h
          · apply hc; subst hkeq; simpa using h
          · omega
      simp only [needed, hin_w, if_true] at hk hb
      have hN : ∀ x ∈ n.refs, x ∈ needed older (n.refs ++ w) := fun x hx =>
        needed_mono older _ x (List.mem_append_left _ hx)
      have hval : ∀ (c c' : Nat → Val), (∀ a ∈ needed older (n.refs ++ w), c a = c' a) →
          ∀ r : VarRef, r.node ∈ n.refs → r.node < older.length →
            getVar (table S older c) r = getVar (table S older c') r := by
        intro c c' hc r hr hrlt
        unfold getVar
        rw [ih hwf' _ c c' hc r.node (hN _ hr) hrlt]
      unfold nodeVal
      split
      · have : b older.length = b' older.length := hb _ (by subst hkeq; exact hk)
        rw [this]
      · congr 1
        · apply List.map_congr_left
          intro o ho
          cases o with
          | none => rfl
          | some r =>
            simp only [getOpt]
            rw [hval b b' hb r (mem_refs_input ho) (hin r ho)]
        · apply List.map_congr_left
          intro g hg; funext vals
          apply List.map_congr_left
          intro r hr
          exact hval _ _ (fun a ha => updArgs_congr b b' g.args vals a (hb a ha)) r
            (mem_refs_sub hg hr) (hsub g hg r hr)
    · rw [if_neg hkeq, if_neg hkeq]
      have hlt' : k < older.length := by simp at hlt; omega
      simp only [needed] at hk hb
      split at hk
      · rename_i hc
        simp only [hc, if_true] at hb
        exact ih hwf' _ b b' hb k hk hlt'
      · rename_i hc
        simp only [hc] at hb
        exact ih hwf' _ b b' hb k hk hlt'

/-- Binding only the kept arguments (with their own actual values) is the same, on every kept id,
    as binding all of them. -/
theorem updArgs_filter (keep : Nat → Bool) (b : Nat → Val) (args : List Nat) (vals : List Val)
    (x : Nat) (hx : keep x = true) :
    updArgs b (args.filter keep) (usedVals keep args vals) x = updArgs b args vals x := by
  induction args generalizing vals with
  | nil => simp [updArgs, usedVals]
  | cons a as ih =>
    by_cases hk : keep a = true
    · simp only [List.filter_cons, hk, if_true, usedVals, updArgs, List.headD_cons, List.tail_cons]
      split
      · rfl
      · exact ih vals.tail
    · have hne : ¬ x = a := by intro h; subst h; exact hk hx
      simp only [List.filter_cons, hk, usedVals, updArgs, if_neg hne]
      simpa using ih vals.tail

/-! ## Every argument that is read must be listed (necessity)

`definedG e`: the ids an emission binds or emits at any depth.  For an accepted emission this set
contains the requested results and is closed under the references of its members (`graphCl`), so it
contains `needed` (`needed_least`); below the top-level argument list it holds only operator nodes and
formals of bodies (`graphInner`).  Hence a needed argument that is no formal is a listed input. -/

mutual
/-- Every id an emission binds as a formal argument or emits as a node, at any nesting depth. -/
def definedG : EGraph → List Nat
  | .mk args body _ => args ++ definedB body
def definedB : List ENode → List Nat
  | [] => []
  | (.mk id subs) :: rest => id :: (definedS subs ++ definedB rest)
def definedS : List EGraph → List Nat
  | [] => []
  | g :: gs => definedG g ++ definedS gs
end

theorem refs_forall {n : PNode} {P : Nat → Prop}
    (hin : ∀ r, some r ∈ n.inputs → P r.node) (hsub : ∀ g ∈ n.subs, ∀ r ∈ g.results, P r.node) :
    ∀ x ∈ n.refs, P x := by
  intro x hx
  unfold PNode.refs at hx
  rcases List.mem_append.mp hx with h | h
  · rw [List.mem_filterMap] at h
    obtain ⟨o, ho, hox⟩ := h
    cases o with
    | none => simp at hox
    | some r =>
      simp at hox
      subst hox
      exact hin r ho
  · rw [List.mem_flatMap] at h
    obtain ⟨g, hg, hx'⟩ := h
    obtain ⟨r, hr, rfl⟩ := List.mem_map.mp hx'
    exact hsub g hg r hr

/-- `needed` is the LEAST set containing `want` and closed under references. -/
theorem needed_least (T : Nat → Prop) (p : List PNode) (w : List Nat)
    (hw : ∀ x ∈ w, T x)
    (hcl : ∀ k n, nodeAt p k = some n → T k → ∀ y ∈ n.refs, T y) :
    ∀ x ∈ needed p w, T x := by
  induction p generalizing w with
  | nil => simpa [needed] using hw
  | cons n older ih =>
    have hcl' : ∀ k m, nodeAt older k = some m → T k → ∀ y ∈ m.refs, T y := by
      intro k m hk
      have hlt := nodeAt_lt hk
      apply hcl k m
      simp only [nodeAt]
      have hne : ¬ k = older.length := by omega
      rw [if_neg hne]; exact hk
    simp only [needed]
    split
    · rename_i hc
      apply ih _ _ hcl'
      intro x hx
      rcases List.mem_append.mp hx with h | h
      · have hT : T older.length := hw _ (by simpa using hc)
        exact hcl older.length n (by simp [nodeAt]) hT x h
      · exact hw x h
    · exact ih _ hw hcl'

/-- The references of `x` (if it is a node of the program) all satisfy `T`. -/
def Cl (prog : List PNode) (T : Nat → Prop) (x : Nat) : Prop :=
  ∀ pn, nodeAt prog x = some pn → ∀ y ∈ pn.refs, T y

theorem Cl_of_isArg (prog : List PNode) (T : Nat → Prop)
    (hargs : ∀ k n, nodeAt prog k = some n → n.kind.label? = none → n.refs = [])
    (a : Nat) (ha : isArg prog a = true) : Cl prog T a := by
  intro pn hpn y hy
  have hl : pn.kind.label? = none := by
    unfold isArg at ha
    rw [hpn] at ha
    cases hk : pn.kind <;> simp [hk, Kind.label?] at ha ⊢
  rw [hargs a pn hpn hl] at hy
  cases hy

mutual
theorem bodyCl (prog : List PNode) (T : Nat → Prop)
    (hargs : ∀ k n, nodeAt prog k = some n → n.kind.label? = none → n.refs = []) :
    (body : List ENode) → (vis vis' : List Nat) → validBody prog body vis = some vis' →
    (∀ x ∈ vis, T x) → (∀ x ∈ definedB body, T x) →
    (∀ x ∈ vis', T x) ∧ (∀ x ∈ definedB body, Cl prog T x)
  | [], vis, vis', hv, hvis, _ => by
    simp only [validBody] at hv
    cases hv
    exact ⟨hvis, fun x hx => (by simp [definedB] at hx)⟩
  | (.mk id subs) :: rest, vis, vis', hv, hvis, hdef => by
    simp only [validBody] at hv
    split at hv
    · cases hv
    · rename_i pn hpn
      split at hv
      · cases hv
      · rename_i l hk
        split at hv
        · rename_i hcond
          simp only [Bool.and_eq_true] at hcond
          obtain ⟨hin, hsv⟩ := hcond
          have hin' := inputsVisible_spec hin
          simp only [definedB] at hdef ⊢
          have hTid : T id := hdef id (List.mem_cons_self ..)
          have hdS : ∀ x ∈ definedS subs, T x := fun x hx =>
            hdef x (List.mem_cons_of_mem _ (List.mem_append_left _ hx))
          have hdR : ∀ x ∈ definedB rest, T x := fun x hx =>
            hdef x (List.mem_cons_of_mem _ (List.mem_append_right _ hx))
          obtain ⟨hsres, hscl⟩ := subsCl prog T hargs subs pn.subs vis hsv hvis hdS
          have hvis2 : ∀ x ∈ id :: vis, T x := by
            intro x hx
            cases hx with
            | head => exact hTid
            | tail _ h => exact hvis x h
          obtain ⟨hv', hrcl⟩ := bodyCl prog T hargs rest (id :: vis) vis' hv hvis2 hdR
          refine ⟨hv', ?_⟩
          intro x hx
          cases hx with
          | head =>
            intro pn' hpn' y hy
            rw [hpn] at hpn'
            cases hpn'
            exact refs_forall (P := T) (fun r hr => hvis _ (hin' r hr)) (fun g hg r hr => hsres g hg r hr) y hy
          | tail _ h =>
            rcases List.mem_append.mp h with h1 | h1
            · exact hscl x h1
            · exact hrcl x h1
        · cases hv
theorem graphCl (prog : List PNode) (T : Nat → Prop)
    (hargs : ∀ k n, nodeAt prog k = some n → n.kind.label? = none → n.refs = []) :
    (g : EGraph) → (pg : PGraph) → (vis : List Nat) → validG prog g pg vis = true →
    (∀ x ∈ vis, T x) → (∀ x ∈ definedG g, T x) →
    (∀ r ∈ pg.results, T r.node) ∧ (∀ x ∈ definedG g, Cl prog T x)
  | .mk args body results, pg, vis, hv, hvis, hdef => by
    simp only [validG, Bool.and_eq_true] at hv
    obtain ⟨⟨⟨_, hres⟩, hfresh⟩, hbody⟩ := hv
    have hres' : results = pg.results := by simpa using hres
    subst hres'
    have hfresh' : ∀ a ∈ args, isArg prog a = true := by
      intro a ha
      have := List.all_eq_true.mp hfresh a ha
      simp only [Bool.and_eq_true] at this
      exact this.2
    simp only [definedG] at hdef ⊢
    split at hbody
    · cases hbody
    · rename_i vis' hvb
      have hvis2 : ∀ x ∈ args ++ vis, T x := by
        intro x hx
        rcases List.mem_append.mp hx with h | h
        · exact hdef x (List.mem_append_left _ h)
        · exact hvis x h
      obtain ⟨hv', hcl⟩ := bodyCl prog T hargs body (args ++ vis) vis' hvb hvis2
        (fun x hx => hdef x (List.mem_append_right _ hx))
      refine ⟨?_, ?_⟩
      · intro r hr
        have := List.all_eq_true.mp hbody r hr
        exact hv' _ (by simpa using this)
      · intro x hx
        rcases List.mem_append.mp hx with h | h
        · exact Cl_of_isArg prog T hargs x (hfresh' x h)
        · exact hcl x h
theorem subsCl (prog : List PNode) (T : Nat → Prop)
    (hargs : ∀ k n, nodeAt prog k = some n → n.kind.label? = none → n.refs = []) :
    (gs : List EGraph) → (pgs : List PGraph) → (vis : List Nat) →
    validSubs prog gs pgs vis = true → (∀ x ∈ vis, T x) → (∀ x ∈ definedS gs, T x) →
    (∀ pg ∈ pgs, ∀ r ∈ pg.results, T r.node) ∧ (∀ x ∈ definedS gs, Cl prog T x)
  | [], [], _, _, _, _ => by
    exact ⟨fun pg hpg => (by cases hpg), fun x hx => (by simp [definedS] at hx)⟩
  | g :: gs, pg :: pgs, vis, hv, hvis, hdef => by
    simp only [validSubs, Bool.and_eq_true] at hv
    obtain ⟨hg, hgs⟩ := hv
    simp only [definedS] at hdef ⊢
    obtain ⟨h1, h2⟩ := graphCl prog T hargs g pg vis hg hvis
      (fun x hx => hdef x (List.mem_append_left _ hx))
    obtain ⟨h3, h4⟩ := subsCl prog T hargs gs pgs vis hgs hvis
      (fun x hx => hdef x (List.mem_append_right _ hx))
    refine ⟨?_, ?_⟩
    · intro pg' hpg'
      cases hpg' with
      | head => exact h1
      | tail _ h => exact h3 pg' h
    · intro x hx
      rcases List.mem_append.mp hx with h | h
      · exact h2 x h
      · exact h4 x h
  | [], _ :: _, _, hv, _, _ => by simp [validSubs] at hv
  | _ :: _, [], _, hv, _, _ => by simp [validSubs] at hv
end


/-- `pg` is a body of some node of the program. -/
def IsSub (prog : List PNode) (pg : PGraph) : Prop :=
  ∃ k pn, nodeAt prog k = some pn ∧ pg ∈ pn.subs

/-- What an accepted emission defines below the top-level argument list: operator nodes and the
    formals of bodies of the program. -/
def Inner (prog : List PNode) (x : Nat) : Prop :=
  (∃ pn l, nodeAt prog x = some pn ∧ pn.kind.label? = some l) ∨ (∃ pg, IsSub prog pg ∧ x ∈ pg.args)

mutual
theorem bodyInner (prog : List PNode) :
    (body : List ENode) → (vis vis' : List Nat) → validBody prog body vis = some vis' →
    ∀ x ∈ definedB body, Inner prog x
  | [], _, _, _ => by
    intro x hx; simp [definedB] at hx
  | (.mk id subs) :: rest, vis, vis', hv => by
    simp only [validBody] at hv
    split at hv
    · cases hv
    · rename_i pn hpn
      split at hv
      · cases hv
      · rename_i l hk
        split at hv
        · rename_i hcond
          simp only [Bool.and_eq_true] at hcond
          obtain ⟨_, hsv⟩ := hcond
          intro x hx
          simp only [definedB] at hx
          cases hx with
          | head => exact Or.inl ⟨pn, l, hpn, hk⟩
          | tail _ h =>
            rcases List.mem_append.mp h with h1 | h1
            · exact subsInner prog subs pn.subs vis hsv (fun pg hpg => ⟨id, pn, hpn, hpg⟩) x h1
            · exact bodyInner prog rest (id :: vis) vis' hv x h1
        · cases hv
theorem graphInner (prog : List PNode) :
    (g : EGraph) → (pg : PGraph) → (vis : List Nat) → validG prog g pg vis = true →
    IsSub prog pg → ∀ x ∈ definedG g, Inner prog x
  | .mk args body results, pg, vis, hv, hsub => by
    simp only [validG, Bool.and_eq_true] at hv
    obtain ⟨⟨⟨hargs, _⟩, _⟩, hbody⟩ := hv
    have hargs' : args = pg.args := by simpa using hargs
    subst hargs'
    intro x hx
    simp only [definedG] at hx
    split at hbody
    · cases hbody
    · rename_i vis' hvb
      rcases List.mem_append.mp hx with h | h
      · exact Or.inr ⟨pg, hsub, h⟩
      · exact bodyInner prog body _ vis' hvb x h
theorem subsInner (prog : List PNode) :
    (gs : List EGraph) → (pgs : List PGraph) → (vis : List Nat) →
    validSubs prog gs pgs vis = true → (∀ pg ∈ pgs, IsSub prog pg) →
    ∀ x ∈ definedS gs, Inner prog x
  | [], [], _, _, _ => by
    intro x hx; simp [definedS] at hx
  | g :: gs, pg :: pgs, vis, hv, hsub => by
    simp only [validSubs, Bool.and_eq_true] at hv
    obtain ⟨hg, hgs⟩ := hv
    intro x hx
    simp only [definedS] at hx
    rcases List.mem_append.mp hx with h | h
    · exact graphInner prog g pg vis hg (hsub pg (List.mem_cons_self ..)) x h
    · exact subsInner prog gs pgs vis hgs (fun pg' h' => hsub pg' (List.mem_cons_of_mem _ h')) x h
  | [], _ :: _, _, hv, _ => by simp [validSubs] at hv
  | _ :: _, [], _, hv, _ => by simp [validSubs] at hv
end

/-- **Every input that is read must be listed.**  If an emission is accepted for the main graph
    `main'` (nothing visible outside), then every argument reached from the requested results through
    node inputs and bodies (at whatever depth), which is not a formal of some body, is one of the
    listed inputs `main'.args`. -/
theorem needed_arg_listed (prog : List PNode)
    (hargs : ∀ k n, nodeAt prog k = some n → n.kind.label? = none → n.refs = [])
    (e : EGraph) (main' : PGraph) (hv : validG prog e main' [] = true)
    (a : Nat) (ha : a ∈ needed prog (main'.results.map (·.node))) (hisarg : isArg prog a = true)
    (hnf : ∀ pg, IsSub prog pg → a ∉ pg.args) : a ∈ main'.args := by
  obtain ⟨args, body, results⟩ := e
  obtain ⟨hres, hcl⟩ := graphCl prog (· ∈ definedG (.mk args body results)) hargs
    (.mk args body results) main' [] hv (fun x hx => by cases hx) (fun x hx => hx)
  have hT : a ∈ definedG (.mk args body results) := by
    apply needed_least (· ∈ definedG (.mk args body results)) prog _ _ _ a ha
    · intro x hx
      obtain ⟨r, hr, rfl⟩ := List.mem_map.mp hx
      exact hres r hr
    · intro k n hk hTk y hy
      exact hcl k hTk n hk y hy
  simp only [validG, Bool.and_eq_true] at hv
  obtain ⟨⟨⟨hargs', _⟩, _⟩, hbody⟩ := hv
  have hargs'' : args = main'.args := by simpa using hargs'
  subst hargs''
  simp only [definedG] at hT
  rcases List.mem_append.mp hT with h | h
  · exact h
  · exfalso
    split at hbody
    · cases hbody
    · rename_i vis' hvb
      rcases bodyInner prog body _ vis' hvb a h with ⟨pn, l, hpn, hl⟩ | ⟨pg, hsub, hin⟩
      · obtain ⟨pn', hpn', hl'⟩ := isArg_label hisarg
        rw [hpn] at hpn'
        cases hpn'
        rw [hl] at hl'
        cases hl'
      · exact hnf pg hsub hin

theorem argsLeaf_sound : (prog : List PNode) → argsLeaf prog = true →
    ∀ k n, nodeAt prog k = some n → n.kind.label? = none → n.refs = []
  | [], _ => by intro k n hk; simp [nodeAt] at hk
  | m :: older, h => by
    simp only [argsLeaf, Bool.and_eq_true, Bool.or_eq_true] at h
    obtain ⟨hm, ho⟩ := h
    intro k n hk hl
    simp only [nodeAt] at hk
    split at hk
    · cases hk
      rcases hm with h1 | h1
      · rw [hl] at h1; cases h1
      · simpa using h1
    · exact argsLeaf_sound older ho k n hk hl

theorem nodeAt_mem {prog : List PNode} {k : Nat} {n : PNode} (h : nodeAt prog k = some n) :
    n ∈ prog := by
  induction prog with
  | nil => simp [nodeAt] at h
  | cons m older ih =>
    simp only [nodeAt] at h
    split at h
    · cases h; exact List.mem_cons_self ..
    · exact List.mem_cons_of_mem _ (ih h)

theorem notFormal_sound (prog : List PNode) (a : Nat) (h : notFormal prog a = true) :
    ∀ k n, nodeAt prog k = some n → ∀ g ∈ n.subs, a ∉ g.args := by
  intro k n hk g hg
  simp only [notFormal, List.all_eq_true] at h
  have := h n (nodeAt_mem hk) g hg
  simpa using this

end Prog
