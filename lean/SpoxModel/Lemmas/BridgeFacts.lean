import SpoxModel.Lemmas.BridgeValid
import SpoxModel.Lemmas.BuildAlgOrder
/-!
# Bridge: the scope facts the walk needs (`BridgeFacts`) follow from the C04 invariants

Inputs: the discovery invariant `DI`, the order facts `TopoFacts`, the scope invariant `SInv` of the
final state (i.e. `least_enclosing` / `scope_defined`), and `LeakFree` — no argument is used outside
the graph that owns it (the Builder rejects the outer-scope half itself, `no_outer_leak`; the sibling
half is the checker's).
-/
set_option linter.unusedSectionVars false
set_option linter.unusedVariables false
namespace Bridge
open BuildAlg

/-- Arguments are only used inside the graph that owns them (or a body nested in it). -/
structure LeakFree (p : BuildAlg.Prog) (b : Built) : Prop where
  argIn : ∀ n c a, V.node n ∈ b.topo → b.scopeOf.get (.node n) = some c → a ∈ p.inputs n →
    p.isArg a = true → ∃ t, Anc (parent b.owner b.scopeOf) t c ∧ a ∈ lookupL b.argsOf t
  argRes : ∀ s a, s ∈ b.graphTopo → a ∈ p.results s → p.isArg a = true →
    ∃ t, Anc (parent b.owner b.scopeOf) t s ∧ a ∈ lookupL b.argsOf t

theorem anc_of_ancestors {par : Nat → Nat} : ∀ (fuel g t : Nat), t ∈ ancestors par fuel g →
    Anc par t g := by
  intro fuel
  induction fuel with
  | zero =>
    intro g t h
    have : t = g := by simpa [ancestors] using h
    subst this; exact Anc.refl _
  | succ fuel ih =>
    intro g t h
    simp only [ancestors, List.mem_cons] at h
    rcases h with h | h
    · subst h; exact Anc.refl _
    · exact Anc.trans (ih (par g) t h) ⟨1, by simp [up]⟩

/-- the executable check implies the proposition -/
theorem leakFree_of_check (p : BuildAlg.Prog) (b : Built) (h : leakFreeB p b = true) :
    LeakFree p b := by
  simp only [leakFreeB, Bool.and_eq_true, List.all_eq_true] at h
  obtain ⟨h1, h2⟩ := h
  have conv : ∀ c a, (!p.isArg a || (ancestors (parent b.owner b.scopeOf) b.graphTopo.length c).any
        (fun t => (lookupL b.argsOf t).contains a)) = true → p.isArg a = true →
      ∃ t, Anc (parent b.owner b.scopeOf) t c ∧ a ∈ lookupL b.argsOf t := by
    intro c a hok ha
    simp only [ha, Bool.not_true, Bool.false_or, List.any_eq_true, List.contains_eq_mem,
      decide_eq_true_eq] at hok
    obtain ⟨t, ht, hat⟩ := hok
    exact ⟨t, anc_of_ancestors _ _ _ ht, hat⟩
  constructor
  · intro n c a hn hc ha hia
    have := h1 _ hn
    simp only [hc] at this
    exact conv c a (List.all_eq_true.mp this a ha) hia
  · intro s a hs ha hia
    exact conv s a (h2 s hs a ha) hia

theorem reach_adjIn_src {p : BuildAlg.Prog} {u : V} {g : Nat} (h : Reach p.adjIn u (.src g)) :
    u = .src g := by
  have key : ∀ w, Reach p.adjIn u w → ∀ g, w = V.src g → u = V.src g := by
    intro w hw
    induction hw with
    | refl => intro g hg; exact hg
    | @step v w' _ hmem _ =>
      intro g hg
      subst hg
      cases v with
      | node n => simp [BuildAlg.Prog.adjIn] at hmem
      | src g' => simp [BuildAlg.Prog.adjIn] at hmem
  exact key _ h g rfl

theorem reach_in_full {p : BuildAlg.Prog} {u v : V} (h : Reach p.adjIn u v) : Reach p.adjFull u v := by
  induction h with
  | refl => exact Reach.refl _
  | @step x w _ hmem ih =>
    apply Reach.step ih
    cases x with
    | node n => simp only [BuildAlg.Prog.adjFull, BuildAlg.Prog.adjIn] at hmem ⊢; exact List.mem_append_left _ hmem
    | src g => exact hmem

theorem up_root {par : Nat → Nat} {r : Nat} (h : par r = r) : ∀ k, up par k r = r := by
  intro k
  induction k with
  | zero => rfl
  | succ k ih => simp only [up]; rw [h]; exact ih

theorem anc_antisymm {D : Nat → Prop} {par d : Nat → Nat} {r : Nat} (T : TreeOn D par d r)
    {c g : Nat} (hg : D g) (hc : D c) (h1 : Anc par c g) (h2 : Anc par g c) : c = g := by
  have l1 := anc_depth_le T hg h1
  have l2 := anc_depth_le T hc h2
  obtain ⟨k, hk⟩ := h1
  cases k with
  | zero => exact hk.symm
  | succ k =>
    by_cases h0 : d g = 0
    · have := T.root g hg h0
      subst this
      rw [up_root T.rpar] at hk; exact hk.symm
    · exfalso
      simp only [up] at hk
      have l3 : d c ≤ d (par g) := by
        rw [← hk]; exact anc_depth_le T (T.closed g hg) ⟨k, rfl⟩
      have := T.step g hg h0
      omega

section
variable (p : BuildAlg.Prog) (hwf : BuildAlg.WF p) (b : Built) (st : DState)
  (hdi : DI p st) (hgt : b.graphTopo = st.topo.reverse) (how : b.owner = st.owner)
  (TF : TopoFacts p b.owner b.graphTopo) (SI : SInv p b.owner b.scopeOf b.graphTopo)
  (htopo : b.topo = visit p.adjFull p.fuel (.src 0) [])
include hwf hdi hgt how TF SI htopo

theorem mem_postIn_iff (g : Nat) (v : V) : v ∈ p.postIn g ↔ Reach p.adjIn (.src g) v :=
  mem_visit_iff (rankV p) (rank_adjIn p hwf) p.fuel (.src g) v (rank_src_lt_fuel p hwf g)

theorem mem_topo_iff (v : V) : v ∈ b.topo ↔ Reach p.adjFull (.src 0) v := by
  rw [htopo]
  exact mem_visit_iff (rankV p) (rank_adjFull p hwf) p.fuel (.src 0) v (rank_src_lt_fuel p hwf 0)

theorem gt_mem (g : Nat) : g ∈ b.graphTopo ↔ g ∈ st.topo := by rw [hgt]; simp

/-- a vertex the outputs depend on is used (through input edges) by some discovered graph -/
theorem full_reach_decomp (v : V) (h : Reach p.adjFull (.src 0) v) :
    ∃ g ∈ b.graphTopo, Reach p.adjIn (.src g) v := by
  induction h with
  | refl =>
    obtain ⟨rest, hr⟩ := TF.head
    exact ⟨0, by rw [hr]; simp, Reach.refl _⟩
  | @step u w _ hmem ih =>
    obtain ⟨g, hg, hr⟩ := ih
    cases u with
    | node n =>
      simp only [BuildAlg.Prog.adjFull, List.mem_append, List.mem_map] at hmem
      rcases hmem with ⟨i, hi, rfl⟩ | ⟨s, hs, rfl⟩
      · exact ⟨g, hg, Reach.step hr (by simp only [BuildAlg.Prog.adjIn, List.mem_map]; exact ⟨i, hi, rfl⟩)⟩
      · have hn : V.node n ∈ p.postIn g := (mem_postIn_iff p hwf b st hdi hgt how TF SI htopo g _).mpr hr
        have := hdi.C g ((gt_mem p hwf b st hdi hgt how TF SI htopo g).mp hg) n hn s hs
        exact ⟨s, (gt_mem p hwf b st hdi hgt how TF SI htopo s).mpr this, Reach.refl _⟩
    | src g' => exact ⟨g, hg, Reach.step hr hmem⟩

theorem owner_unique (w s : Nat) (hw : V.node w ∈ b.topo) (hs : s ∈ p.subs w) :
    lookupN b.owner s = some w := by
  obtain ⟨g, hg, hr⟩ := full_reach_decomp p hwf b st hdi hgt how TF SI htopo _
    ((mem_topo_iff p hwf b st hdi hgt how TF SI htopo _).mp hw)
  rw [how]
  exact hdi.OU g ((gt_mem p hwf b st hdi hgt how TF SI htopo g).mp hg) w
    ((mem_postIn_iff p hwf b st hdi hgt how TF SI htopo g _).mpr hr) s hs

theorem sub_discovered (w s : Nat) (hw : V.node w ∈ b.topo) (hs : s ∈ p.subs w) :
    s ∈ b.graphTopo ∧ s ≠ 0 := by
  obtain ⟨g, hg, hr⟩ := full_reach_decomp p hwf b st hdi hgt how TF SI htopo _
    ((mem_topo_iff p hwf b st hdi hgt how TF SI htopo _).mp hw)
  refine ⟨(gt_mem p hwf b st hdi hgt how TF SI htopo s).mpr
    (hdi.C g ((gt_mem p hwf b st hdi hgt how TF SI htopo g).mp hg) w
      ((mem_postIn_iff p hwf b st hdi hgt how TF SI htopo g _).mpr hr) s hs), ?_⟩
  intro e; subst e; exact hwf.main_free w hs

/-- every discovered graph's source is a vertex the outputs depend on -/
theorem discovered_reach : ∀ (n : Nat) (pre : List Nat) (g : Nat) (suf : List Nat),
    pre.length = n → b.graphTopo = pre ++ g :: suf → Reach p.adjFull (.src 0) (.src g) := by
  intro n
  induction n using Nat.strongRecOn with
  | _ n ih =>
    intro pre g suf hlen hsplit
    by_cases hg0 : g = 0
    · subst hg0; exact Reach.refl _
    · obtain ⟨o, ho, h, hh, hreach⟩ := TF.ownerEarlier pre g suf hsplit hg0
      obtain ⟨a, c, hac⟩ := List.append_of_mem hh
      have hsplit' : b.graphTopo = a ++ h :: (c ++ g :: suf) := by
        rw [hsplit, hac]; simp
      have hlt : a.length < n := by
        rw [← hlen, hac, List.length_append, List.length_cons]; omega
      have r1 := ih a.length hlt a h _ rfl hsplit'
      have r2 := reach_in_full ((mem_postIn_iff p hwf b st hdi hgt how TF SI htopo h _).mp hreach)
      have hsub : g ∈ p.subs o := by
        rw [how] at ho
        exact (hdi.OW _ (lookupN_mem ho)).1
      exact Reach.step (Reach.trans r1 r2)
        (by simp only [BuildAlg.Prog.adjFull]; exact List.mem_append_right _ (List.mem_map.mpr ⟨g, hsub, rfl⟩))

theorem node_in_range (n : Nat) (h : V.node n ∈ b.topo) : n < p.nodes.length := by
  have hr := (mem_topo_iff p hwf b st hdi hgt how TF SI htopo _).mp h
  have key : ∀ v, Reach p.adjFull (.src 0) v → ∀ m, v = V.node m → m < p.nodes.length := by
    intro v hv
    induction hv with
    | refl => intro m hm; cases hm
    | @step u w _ hmem ih =>
      intro m hm
      subst hm
      cases u with
      | node k =>
        simp only [BuildAlg.Prog.adjFull, List.mem_append, List.mem_map] at hmem
        rcases hmem with ⟨i, hi, he⟩ | ⟨s, _, he⟩
        · cases he
          have := hwf.inputs_lt k m hi
          have := ih k rfl
          omega
        · cases he
      | src g =>
        simp only [BuildAlg.Prog.adjFull, List.mem_map] at hmem
        obtain ⟨r, hr', he⟩ := hmem
        cases he
        exact hwf.res_lt g m hr'
  exact key _ hr n rfl

theorem postIn_input (G n u : Nat) (hn : V.node n ∈ p.postIn G) (hu : u ∈ p.inputs n) :
    V.node u ∈ p.postIn G := by
  rw [mem_postIn_iff p hwf b st hdi hgt how TF SI htopo] at hn ⊢
  exact Reach.step hn (by simp only [BuildAlg.Prog.adjIn, List.mem_map]; exact ⟨u, hu, rfl⟩)

theorem postIn_result (s r : Nat) (hr : r ∈ p.results s) : V.node r ∈ p.postIn s := by
  rw [mem_postIn_iff p hwf b st hdi hgt how TF SI htopo]
  exact Reach.step (Reach.refl _) (by simp only [BuildAlg.Prog.adjIn, List.mem_map]; exact ⟨r, hr, rfl⟩)

theorem tree_exists : ∃ d, TreeOn (· ∈ b.graphTopo) (parent b.owner b.scopeOf) d 0 := by
  rcases SI.tree with hnil | ⟨d, T, _⟩
  · obtain ⟨rest, hr⟩ := TF.head
    rw [hr] at hnil; cases hnil
  · exact ⟨d, T⟩

/-- strict ancestors come earlier in `graph_topo` -/
theorem anc_precedes : ∀ (n : Nat) (pre : List Nat) (x : Nat) (suf : List Nat), pre.length = n →
    b.graphTopo = pre ++ x :: suf → ∀ t, Anc (parent b.owner b.scopeOf) t x → t ≠ x → t ∈ pre := by
  obtain ⟨d, T⟩ := tree_exists p hwf b st hdi hgt how TF SI htopo
  intro n
  induction n using Nat.strongRecOn with
  | _ n ih =>
    intro pre x suf hlen hsplit t ht hne
    by_cases hx0 : x = 0
    · subst hx0
      obtain ⟨k, hk⟩ := ht
      rw [up_root T.rpar] at hk
      exact absurd hk.symm hne
    · obtain ⟨o, ho, h, hh, hreach⟩ := TF.ownerEarlier pre x suf hsplit hx0
      have hhgt : h ∈ b.graphTopo := by rw [hsplit]; exact List.mem_append_left _ hh
      obtain ⟨c0, hc0⟩ := SI.dfn _ h hhgt hreach
      have hpar : parent b.owner b.scopeOf x = c0 := by
        simp only [parent, ho, hc0, Option.getD_some]
      have hanc0 : Anc (parent b.owner b.scopeOf) c0 h := (SI.low _ c0 hc0).1 h ⟨hhgt, hreach⟩
      have hc0pre : c0 ∈ pre := by
        by_cases e : c0 = h
        · subst e; exact hh
        · obtain ⟨a, c, hac⟩ := List.append_of_mem hh
          have hsplit' : b.graphTopo = a ++ h :: (c ++ x :: suf) := by rw [hsplit, hac]; simp
          have hlt : a.length < n := by
            rw [← hlen, hac, List.length_append, List.length_cons]; omega
          have := ih a.length hlt a h _ rfl hsplit' c0 hanc0 e
          rw [hac]; exact List.mem_append_left _ this
      obtain ⟨k, hk⟩ := ht
      cases k with
      | zero => exact absurd hk.symm hne
      | succ k =>
        simp only [up] at hk
        rw [hpar] at hk
        by_cases e : t = c0
        · subst e; exact hc0pre
        · obtain ⟨a, c, hac⟩ := List.append_of_mem hc0pre
          have hsplit' : b.graphTopo = a ++ c0 :: (c ++ x :: suf) := by rw [hsplit, hac]; simp
          have hlt : a.length < n := by
            rw [← hlen, hac, List.length_append, List.length_cons]; omega
          have := ih a.length hlt a c0 _ rfl hsplit' t ⟨k, hk⟩ e
          rw [hac]; exact List.mem_append_left _ this

theorem scope_in (n c u : Nat) (hn : V.node n ∈ b.topo) (hc : b.scopeOf.get (.node n) = some c)
    (hu : u ∈ p.inputs n) :
    ∃ t, b.scopeOf.get (.node u) = some t ∧ Anc (parent b.owner b.scopeOf) t c := by
  obtain ⟨G, hG, hnG⟩ := SI.wit _ c hc
  obtain ⟨t, ht⟩ := SI.dfn _ G hG (postIn_input p hwf b st hdi hgt how TF SI htopo G n u hnG hu)
  refine ⟨t, ht, ?_⟩
  apply (SI.low _ c hc).2 t
  rintro G' ⟨hG', hr'⟩
  exact (SI.low _ t ht).1 G' ⟨hG', postIn_input p hwf b st hdi hgt how TF SI htopo G' n u hr' hu⟩

theorem scope_res (s r : Nat) (hs : s ∈ b.graphTopo) (hr : r ∈ p.results s) :
    ∃ t, b.scopeOf.get (.node r) = some t ∧ Anc (parent b.owner b.scopeOf) t s := by
  have hrs := postIn_result p hwf b st hdi hgt how TF SI htopo s r hr
  obtain ⟨t, ht⟩ := SI.dfn _ s hs hrs
  exact ⟨t, ht, (SI.low _ t ht).1 s ⟨hs, hrs⟩⟩

/-- a graph at or below a body `s` of node `w` does not reach `w` through input edges -/
theorem below_not_reach_owner (w s G : Nat) (hw : V.node w ∈ b.topo) (hs : s ∈ p.subs w)
    (hG : G ∈ b.graphTopo) (hanc : Anc (parent b.owner b.scopeOf) s G) : V.node w ∉ p.postIn G := by
  obtain ⟨pre, suf, hsplit⟩ := List.append_of_mem hG
  have hown := owner_unique p hwf b st hdi hgt how TF SI htopo w s hw hs
  apply TF.ownerNotReached pre G suf hsplit s w _ hown
  by_cases e : s = G
  · right; exact e
  · left; exact anc_precedes p hwf b st hdi hgt how TF SI htopo pre.length pre G suf rfl hsplit s hanc e

theorem no_self_in (w s c n i : Nat) (hw : V.node w ∈ b.topo) (hs : s ∈ p.subs w)
    (hanc : Anc (parent b.owner b.scopeOf) s c) (hn : V.node n ∈ b.topo)
    (hc : b.scopeOf.get (.node n) = some c) (hi : i ∈ p.inputs n) : i ≠ w := by
  intro e
  subst e
  obtain ⟨G, hG, hnG⟩ := SI.wit _ c hc
  have h1 : Anc (parent b.owner b.scopeOf) s G := Anc.trans hanc ((SI.low _ c hc).1 G ⟨hG, hnG⟩)
  exact below_not_reach_owner p hwf b st hdi hgt how TF SI htopo i s G hw hs hG h1
    (postIn_input p hwf b st hdi hgt how TF SI htopo G n i hnG hi)

theorem no_self_res (w s c r : Nat) (hw : V.node w ∈ b.topo) (hs : s ∈ p.subs w)
    (hanc : Anc (parent b.owner b.scopeOf) s c) (hc : c ∈ b.graphTopo) (hr : r ∈ p.results c) :
    r ≠ w := by
  intro e
  subst e
  exact below_not_reach_owner p hwf b st hdi hgt how TF SI htopo r s c hw hs hc hanc
    (postIn_result p hwf b st hdi hgt how TF SI htopo c r hr)

theorem src_own (g : Nat) (hg : g ∈ b.graphTopo) : V.src g ∈ ownNodes p b g := by
  obtain ⟨d, T⟩ := tree_exists p hwf b st hdi hgt how TF SI htopo
  have hself : V.src g ∈ p.postIn g :=
    (mem_postIn_iff p hwf b st hdi hgt how TF SI htopo g _).mpr (Reach.refl _)
  obtain ⟨c, hc⟩ := SI.dfn _ g hg hself
  have h1 : Anc (parent b.owner b.scopeOf) c g := (SI.low _ c hc).1 g ⟨hg, hself⟩
  have h2 : Anc (parent b.owner b.scopeOf) g c := by
    apply (SI.low _ c hc).2 g
    rintro G ⟨_, hr⟩
    have := reach_adjIn_src ((mem_postIn_iff p hwf b st hdi hgt how TF SI htopo G _).mp hr)
    cases this
    exact Anc.refl _
  have hcg : c = g := anc_antisymm T hg (SI.val _ c hc) h1 h2
  subst hcg
  obtain ⟨pre, suf, hsplit⟩ := List.append_of_mem hg
  have hreach := discovered_reach p hwf b st hdi hgt how TF SI htopo pre.length pre c suf rfl hsplit
  simp only [ownNodes, Built.scopeOwn, List.mem_filter, V.isArgOf, Bool.not_false, and_true]
  exact ⟨(mem_topo_iff p hwf b st hdi hgt how TF SI htopo _).mpr hreach, by simp [hc]⟩

/-- all the facts the walk needs -/
theorem bridgeFacts (hargs : ∀ g, ∀ a ∈ lookupL b.argsOf g, p.isArg a = true)
    (LF : LeakFree p b) : ∃ d, BridgeFacts p b d := by
  obtain ⟨d, T⟩ := tree_exists p hwf b st hdi hgt how TF SI htopo
  exact ⟨d, T, node_in_range p hwf b st hdi hgt how TF SI htopo,
    src_own p hwf b st hdi hgt how TF SI htopo,
    owner_unique p hwf b st hdi hgt how TF SI htopo,
    sub_discovered p hwf b st hdi hgt how TF SI htopo, hargs,
    fun n c u hn hc hu _ => scope_in p hwf b st hdi hgt how TF SI htopo n c u hn hc hu,
    fun s r hs hr _ => scope_res p hwf b st hdi hgt how TF SI htopo s r hs hr,
    LF.argIn, LF.argRes,
    no_self_in p hwf b st hdi hgt how TF SI htopo,
    no_self_res p hwf b st hdi hgt how TF SI htopo⟩

end
end Bridge
