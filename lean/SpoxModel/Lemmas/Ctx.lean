import SpoxModel.Model.Ctx
/-! Helper lemmas for C16/C12: executing a well-shaped manager IR restores the saved setting. -/
namespace Ctx

theorem setG_setG (g : Globals) (which : Fin 3) (a : Nat) :
    setG (setG g which a) which (g which) = g := by
  funext i; by_cases h : i = which <;> simp [setG, h]

/-- For either accepted shape: if the body leaves the settings as it found them, then after the
    manager has run (whatever the body's outcome) the settings are those before entry. -/
theorem exec_good (ir : List Stmt) (hir : goodShape ir = true) (which : Fin 3) (arg : Nat)
    (body : World → World × Outcome) (w : World)
    (hbody : ∀ l, (body ⟨setG w.glob which arg, l⟩).1.glob = setG w.glob which arg) :
    (exec which arg body ir ⟨w, 0⟩).1.world.glob = w.glob := by
  rcases goodShape_cases hir with h | h <;> subst h
  · simp only [shapeA, exec, execStmt]
    have hb := hbody w.log
    generalize body ⟨setG w.glob which arg, w.log⟩ = r at hb
    obtain ⟨w1, o⟩ := r
    simp only at hb
    cases o <;> simp [hb, setG_setG]
  · simp only [shapeB, exec, execStmt]
    have hb := hbody w.log
    generalize body ⟨setG w.glob which arg, w.log⟩ = r at hb
    obtain ⟨w1, o⟩ := r
    simp only at hb
    cases o <;> simp [hb, setG_setG]

end Ctx
