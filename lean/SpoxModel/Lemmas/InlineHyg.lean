import SpoxModel.Lemmas.InlineTop
/-! Helper lemmas for C08: the renaming built by `_Inline.to_onnx` is hygienic, and the outer
    environment reads as the model's inputs through it. -/
namespace Inline
section
variable {V : Type}

/-- what `rename_injective` establishes about the memo table, relative to the visible names -/
structure TblOk (used reqs : List String) (tbl : List (String × String)) : Prop where
  inj : ∀ a ∈ reqs, ∀ b ∈ reqs, a ≠ "" → tblGet tbl a = tblGet tbl b → a = b
  fresh : ∀ a ∈ reqs, a ≠ "" → tblGet tbl a ≠ "" ∧ tblGet tbl a ∉ used
  empty : tblGet tbl "" = ""

/-- the four ways a name of the model is renamed -/
inductive Kind (ins outs argNames resNames used : List String) (ρ : String → String) (n : String) : Prop
  | arg (h : n ∈ ins) (hi : ins.idxOf n < argNames.length) (e : ρ n = argNames[ins.idxOf n])
  | res (h : n ∉ ins) (ho : n ∈ outs) (hi : outs.idxOf n < resNames.length)
        (e : ρ n = resNames[outs.idxOf n])
  | fresh (h : n ∉ ins) (ho : n ∉ outs) (hne : n ≠ "") (hf : ρ n ∉ used) (hn : ρ n ≠ "")
  | empty (h : n = "") (e : ρ n = "")

theorem kind_of (ins outs argNames resNames used S : List String) (tbl : List (String × String))
    (ht : TblOk used (S.filter fun n => !(ins.contains n) && !(outs.contains n)) tbl)
    (hal : argNames.length = ins.length) (hrl : resNames.length = outs.length)
    (hin0 : "" ∉ ins) (hout0 : "" ∉ outs) (n : String) (hn : n ∈ S) :
    Kind ins outs argNames resNames used (rho ins outs argNames resNames tbl) n := by
  by_cases h1 : n ∈ ins
  · have hi : ins.idxOf n < argNames.length := by
      rw [hal]; exact List.idxOf_lt_length_iff.mpr h1
    exact .arg h1 hi (by unfold rho; rw [if_pos h1]; exact getD_lt _ _ hi)
  · by_cases h2 : n ∈ outs
    · have hi : outs.idxOf n < resNames.length := by
        rw [hrl]; exact List.idxOf_lt_length_iff.mpr h2
      exact .res h1 h2 hi (by unfold rho; rw [if_neg h1, if_pos h2]; exact getD_lt _ _ hi)
    · have e : rho ins outs argNames resNames tbl n = tblGet tbl n := by simp [rho, h1, h2]
      by_cases h3 : n = ""
      · exact .empty h3 (by rw [e, h3]; exact ht.empty)
      · have hm : n ∈ S.filter fun n => !(ins.contains n) && !(outs.contains n) := by
          simp [List.mem_filter, hn, h1, h2]
        obtain ⟨f1, f2⟩ := ht.fresh n hm h3
        exact .fresh h1 h2 h3 (by rw [e]; exact f2) (by rw [e]; exact f1)

theorem rho_hyg (ins outs argNames resNames used S : List String) (tbl : List (String × String))
    (ht : TblOk used (S.filter fun n => !(ins.contains n) && !(outs.contains n)) tbl)
    (hal : argNames.length = ins.length) (hrl : resNames.length = outs.length)
    (hin0 : "" ∉ ins) (hout0 : "" ∉ outs) (hrn : resNames.Nodup)
    (hau : ∀ a ∈ argNames, a ∈ used ∧ a ≠ "")
    (hru : ∀ r ∈ resNames, r ∈ used ∧ r ≠ "" ∧ r ∉ argNames) :
    Hyg (rho ins outs argNames resNames tbl) S ins := by
  have hk := kind_of ins outs argNames resNames used S tbl ht hal hrl hin0 hout0
  have hempty : rho ins outs argNames resNames tbl "" = "" := by
    simp [rho, hin0, hout0, ht.empty]
  refine ⟨?_, hempty, ?_⟩
  · intro a ha b hb hai he
    cases hk a ha with
    | arg h => exact absurd h hai
    | res _ hao hia ea =>
      have hra := hru _ (List.getElem_mem hia)
      cases hk b hb with
      | arg hbi hib eb =>
        exfalso
        rw [ea, eb] at he
        exact hra.2.2 (he ▸ List.getElem_mem hib)
      | res _ hbo hib eb =>
        rw [ea, eb] at he
        have h1 := hrn.idxOf_getElem _ hia
        have h2 := hrn.idxOf_getElem _ hib
        rw [he] at h1
        have hidx : outs.idxOf a = outs.idxOf b := by omega
        have ga := List.getElem_idxOf (List.idxOf_lt_length_iff.mpr hao)
        have gb := List.getElem_idxOf (List.idxOf_lt_length_iff.mpr hbo)
        rw [← ga, ← gb]
        simp [hidx]
      | fresh _ _ _ hf _ =>
        exfalso; rw [← he, ea] at hf; exact hf hra.1
      | empty _ eb =>
        exfalso; rw [eb, ea] at he; exact hra.2.1 he
    | fresh _ hao hane hfa hna =>
      cases hk b hb with
      | arg hbi hib eb =>
        exfalso; rw [he, eb] at hfa; exact hfa (hau _ (List.getElem_mem hib)).1
      | res _ _ hib eb =>
        exfalso; rw [he, eb] at hfa; exact hfa (hru _ (List.getElem_mem hib)).1
      | fresh hbi hbo hbne _ _ =>
        have hma : a ∈ S.filter fun n => !(ins.contains n) && !(outs.contains n) := by
          simp [List.mem_filter, ha, hai, hao]
        have hmb : b ∈ S.filter fun n => !(ins.contains n) && !(outs.contains n) := by
          simp [List.mem_filter, hb, hbi, hbo]
        have ea : rho ins outs argNames resNames tbl a = tblGet tbl a := by simp [rho, hai, hao]
        have eb : rho ins outs argNames resNames tbl b = tblGet tbl b := by simp [rho, hbi, hbo]
        rw [ea, eb] at he
        exact ht.inj a hma b hmb hane he
      | empty _ eb =>
        exfalso; rw [eb] at he; exact hna he
    | empty h0 ea =>
      rw [ea] at he
      cases hk b hb with
      | arg hbi hib eb =>
        exfalso; rw [eb] at he; exact (hau _ (List.getElem_mem hib)).2 he.symm
      | res _ _ hib eb =>
        exfalso; rw [eb] at he; exact (hru _ (List.getElem_mem hib)).2.1 he.symm
      | fresh _ _ _ _ hnb => exact absurd he.symm hnb
      | empty hb0 _ => rw [h0, hb0]
  · intro a ha hane
    cases hk a ha with
    | arg _ hi e => rw [e]; exact (hau _ (List.getElem_mem hi)).2
    | res _ _ hi e => rw [e]; exact (hru _ (List.getElem_mem hi)).2.1
    | fresh _ _ _ _ hn => exact hn
    | empty h => exact absurd h hane

theorem rho_rel (ins outs argNames resNames used S : List String) (tbl : List (String × String))
    (ht : TblOk used (S.filter fun n => !(ins.contains n) && !(outs.contains n)) tbl)
    (hal : argNames.length = ins.length) (hrl : resNames.length = outs.length)
    (hin : ins.Nodup) (hin0 : "" ∉ ins) (hout0 : "" ∉ outs)
    (vals : List V) (hlen : ins.length = vals.length) (E : Env V)
    (hE : ∀ i (h : i < argNames.length) (h' : i < vals.length), E.get argNames[i] = some vals[i])
    (hEf : ∀ n, n ∉ used → E n = none) (hEr : ∀ r ∈ resNames, E r = none) :
    Rel (rho ins outs argNames resNames tbl) S
      (Env.setMany (fun _ => none) ins (vals.map some)) E := by
  have hk := kind_of ins outs argNames resNames used S tbl ht hal hrl hin0 hout0
  have hnone : ∀ n, n ∉ ins → (Env.setMany (fun _ => none) ins (vals.map some)).get n = none := by
    intro n hn
    unfold Env.get
    split
    · rfl
    · rw [setMany_frame _ _ _ _ hn]
  have hget0 : ∀ x, E x = none → E.get x = none := by
    intro x hx; unfold Env.get; split <;> simp [hx]
  intro n hn
  cases hk n hn with
  | arg h hi e =>
    rw [e]
    have hi' : ins.idxOf n < ins.length := List.idxOf_lt_length_iff.mpr h
    have hv : ins.idxOf n < vals.length := by omega
    rw [hE _ hi hv]
    have := setMany_get_idx (fun _ => none) ins (vals.map some) hin (by simp; omega) hin0
      (ins.idxOf n) hi' (by simp; omega)
    rw [List.getElem_idxOf hi'] at this
    simpa using this
  | res h _ hi e =>
    rw [e, hnone n h, hget0 _ (hEr _ (List.getElem_mem hi))]
  | fresh h _ _ hf _ =>
    rw [hnone n h, hget0 _ (hEf _ hf)]
  | empty h e =>
    rw [e, h]; simp [Env.get]

end
end Inline
