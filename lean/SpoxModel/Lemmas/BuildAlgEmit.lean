import SpoxModel.Lemmas.BuildAlgBasic
/-!
# The compilation walk (`compile_graph` through one flat `Scope`)

`Post p b cs cs'`: what a successful piece of the walk guarantees about the events it appended —
every vertex it emitted was fresh, comes from the DFS order, is not an argument, had all its inputs
introduced, and all its bodies were compiled down to their sources; nothing is emitted twice.
These are exactly the guarantees of the code's own run-time checks (`Scope.update(force=True)`,
`scope.var[...]`, `Graph.get_results`).
-/
set_option linter.unusedSectionVars false
set_option linter.unusedVariables false
namespace BuildAlg

theorem emitted_append (a b : List Ev) : emitted (a ++ b) = emitted a ++ emitted b := by
  induction a with
  | nil => rfl
  | cons e a ih => cases e <;> simp [emitted, ih]

theorem emitted_reverse (a : List Ev) : emitted a.reverse = (emitted a).reverse := by
  induction a with
  | nil => rfl
  | cons e a ih =>
    rw [List.reverse_cons, emitted_append, ih]
    cases e <;> simp [emitted]

/-- all inputs of `v` are introduced, and all bodies of `v` were compiled down to their source -/
def Good (p : Prog) (I : List V) (v : V) : Prop :=
  (∀ u ∈ p.adjIn v, u ∈ I) ∧ (∀ n, v = V.node n → ∀ s ∈ p.subs n, V.src s ∈ I)

theorem Good.mono {p : Prog} {I J : List V} {v : V} (h : Good p I v) (hs : ∀ x ∈ I, x ∈ J) :
    Good p J v :=
  ⟨fun u hu => hs u (h.1 u hu), fun n hn s hsn => hs _ (h.2 n hn s hsn)⟩

def Post (p : Prog) (b : Built) (cs cs' : CState) : Prop :=
  ∃ new : List Ev, cs'.trace = new ++ cs.trace ∧
    (∀ x ∈ cs.intro, x ∈ cs'.intro) ∧
    (∀ v ∈ emitted new, Good p cs'.intro v ∧ v ∈ cs'.intro ∧ v ∉ cs.intro ∧ v ∈ b.topo ∧
        v.isArgOf p = false) ∧
    (emitted new).Nodup ∧
    (∀ x ∈ cs'.intro, x ∈ cs.intro ∨ x ∈ emitted new ∨ ∃ a, x = V.node a ∧ Ev.arg a ∈ new) ∧
    (∀ a, Ev.arg a ∈ new → ∃ g, a ∈ lookupL b.argsOf g)

theorem Post.refl (p : Prog) (b : Built) (cs : CState) : Post p b cs cs :=
  ⟨[], by simp, fun _ h => h, by simp [emitted], by simp [emitted], fun x h => Or.inl h, by simp⟩

theorem Post.trans {p : Prog} {b : Built} {c0 c1 c2 : CState} (h1 : Post p b c0 c1)
    (h2 : Post p b c1 c2) : Post p b c0 c2 := by
  obtain ⟨n1, t1, m1, e1, d1, i1, a1⟩ := h1
  obtain ⟨n2, t2, m2, e2, d2, i2, a2⟩ := h2
  refine ⟨n2 ++ n1, by rw [t2, t1, List.append_assoc], fun x hx => m2 x (m1 x hx), ?_, ?_, ?_, ?_⟩
  · intro v hv
    rw [emitted_append] at hv
    rcases List.mem_append.mp hv with hv | hv
    · obtain ⟨g, hi, hni, ht, ha⟩ := e2 v hv
      exact ⟨g, hi, fun hc => hni (m1 v hc), ht, ha⟩
    · obtain ⟨g, hi, hni, ht, ha⟩ := e1 v hv
      exact ⟨g.mono m2, m2 v hi, hni, ht, ha⟩
  · rw [emitted_append, List.nodup_append]
    refine ⟨d2, d1, ?_⟩
    intro x hx y hy hxy
    subst hxy
    exact (e2 x hx).2.2.1 (e1 x hy).2.1
  · intro x hx
    rcases i2 x hx with h | h | ⟨a, ha, hm⟩
    · rcases i1 x h with h | h | ⟨a, ha, hm⟩
      · left; exact h
      · right; left; rw [emitted_append]; exact List.mem_append_right _ h
      · right; right; exact ⟨a, ha, List.mem_append_right _ hm⟩
    · right; left; rw [emitted_append]; exact List.mem_append_left _ h
    · right; right; exact ⟨a, ha, List.mem_append_left _ hm⟩
  · intro a ha
    rcases List.mem_append.mp ha with h | h
    · exact a2 a h
    · exact a1 a h

/-- appending an event that emits nothing and introduces nothing -/
theorem post_silent (p : Prog) (b : Built) (cs : CState) (e : Ev) (he : emitted [e] = [])
    (hna : ∀ a, e ≠ Ev.arg a) : Post p b cs ⟨cs.intro, e :: cs.trace⟩ := by
  refine ⟨[e], rfl, fun _ h => h, ?_, ?_, fun x h => Or.inl h, ?_⟩
  · rw [he]; intro v hv; cases hv
  · rw [he]; exact List.nodup_nil
  · intro a ha
    have : Ev.arg a = e := by simpa using ha
    exact absurd this.symm (hna a)

theorem post_argStep (p : Prog) (b : Built) (g : Nat) (cs cs' : CState) (a : Nat)
    (hg : a ∈ lookupL b.argsOf g) (h : argStep cs a = .ok cs') : Post p b cs cs' := by
  unfold argStep at h
  split at h
  · cases h
  · cases h
    refine ⟨[Ev.arg a], rfl, fun x hx => List.mem_cons_of_mem _ hx, ?_, ?_, ?_, ?_⟩
    · intro v hv; simp [emitted] at hv
    · simp [emitted]
    · intro x hx
      cases hx with
      | head => right; right; exact ⟨a, rfl, by simp⟩
      | tail _ h' => left; exact h'
    · intro a' ha'
      have : a' = a := by simpa using ha'
      subst this; exact ⟨g, hg⟩

/-- the bodies of a node: each compiled, each source introduced -/
theorem post_subs (p : Prog) (b : Built) (rec : Nat → CState → Except Err CState)
    (hrec : ∀ sub c c', rec sub c = .ok c' → Post p b c c' ∧ V.src sub ∈ c'.intro) :
    ∀ (subs : List Nat) (cs cs' : CState), foldE (fun c sub => rec sub c) cs subs = .ok cs' →
      Post p b cs cs' ∧ ∀ s ∈ subs, V.src s ∈ cs'.intro := by
  intro subs
  induction subs with
  | nil =>
    intro cs cs' h
    simp only [foldE] at h
    cases h
    exact ⟨Post.refl p b cs, by simp⟩
  | cons s ss ih =>
    intro cs cs' h
    simp only [foldE] at h
    cases hr : rec s cs with
    | error e => rw [hr] at h; cases h
    | ok c1 =>
      rw [hr] at h
      obtain ⟨p1, s1⟩ := hrec s cs c1 hr
      obtain ⟨p2, s2⟩ := ih c1 cs' h
      refine ⟨p1.trans p2, ?_⟩
      intro s' hs'
      cases hs' with
      | head => obtain ⟨_, _, m, _⟩ := p2; exact m _ s1
      | tail _ h' => exact s2 s' h'

theorem post_emitStep (p : Prog) (b : Built) (rec : Nat → CState → Except Err CState)
    (hrec : ∀ sub c c', rec sub c = .ok c' → Post p b c c' ∧ V.src sub ∈ c'.intro)
    (cs cs' : CState) (v : V) (hvt : v ∈ b.topo) (hva : v.isArgOf p = false)
    (h : emitStep p rec cs v = .ok cs') : Post p b cs cs' := by
  unfold emitStep at h
  split at h
  · cases h
  · rename_i hfresh
    simp only at h
    split at h
    · rename_i hall
      have hin : ∀ u ∈ p.adjIn v, u ∈ v :: cs.intro := by
        intro u hu
        have := List.all_eq_true.mp hall u hu
        simpa using this
      -- common conclusion from the state after the bodies
      have key : ∀ cs', Post p b ⟨v :: cs.intro, Ev.emit v :: cs.trace⟩ cs' →
          (∀ n, v = V.node n → ∀ s ∈ p.subs n, V.src s ∈ cs'.intro) → Post p b cs cs' := by
        intro cs' hp hsubs
        obtain ⟨n1, t1, m1, e1, d1, i1, a1⟩ := hp
        refine ⟨n1 ++ [Ev.emit v], by rw [t1]; simp, fun x hx => m1 x (List.mem_cons_of_mem _ hx),
          ?_, ?_, ?_, ?_⟩
        · intro w hw
          rw [emitted_append] at hw
          rcases List.mem_append.mp hw with hw | hw
          · obtain ⟨g, hi, hni, ht, ha⟩ := e1 w hw
            exact ⟨g, hi, fun hc => hni (List.mem_cons_of_mem _ hc), ht, ha⟩
          · have : w = v := by simpa [emitted] using hw
            subst this
            exact ⟨⟨fun u hu => m1 u (hin u hu), hsubs⟩, m1 _ List.mem_cons_self, hfresh, hvt, hva⟩
        · rw [emitted_append, List.nodup_append]
          refine ⟨d1, by simp [emitted], ?_⟩
          intro x hx y hy hxy
          have : y = v := by simpa [emitted] using hy
          subst this; subst hxy
          exact (e1 x hx).2.2.1 List.mem_cons_self
        · intro x hx
          rcases i1 x hx with h | h | ⟨a, ha, hm⟩
          · cases h with
            | head => right; left; rw [emitted_append]; simp [emitted]
            | tail _ h' => left; exact h'
          · right; left; rw [emitted_append]; exact List.mem_append_left _ h
          · right; right; exact ⟨a, ha, List.mem_append_left _ hm⟩
        · intro a ha
          rcases List.mem_append.mp ha with h | h
          · exact a1 a h
          · simp at h
      cases v with
      | node n =>
        simp only at h
        obtain ⟨p1, s1⟩ := post_subs p b rec hrec (p.subs n) _ cs' h
        exact key cs' p1 (fun n' hn' s hs => by cases hn'; exact s1 s hs)
      | src g =>
        simp only at h
        cases h
        exact key _ (Post.refl p b _) (fun n' hn' => by cases hn')
    · cases h

theorem post_compileG (p : Prog) (b : Built) : ∀ (fuel g : Nat) (cs cs' : CState),
    compileG p b fuel g cs = .ok cs' → Post p b cs cs' ∧ V.src g ∈ cs'.intro := by
  intro fuel
  induction fuel with
  | zero => intro g cs cs' h; simp [compileG] at h
  | succ fuel ih =>
    intro g cs cs' h
    simp only [compileG] at h
    split at h
    · cases h
    · rename_i cs1 h1
      split at h
      · cases h
      · rename_i cs2 h2
        split at h
        · rename_i hsrc
          cases h
          have p0 : Post p b cs ⟨cs.intro, Ev.enter g :: cs.trace⟩ :=
            post_silent p b cs (Ev.enter g) rfl (fun a h => by cases h)
          have p1 : Post p b ⟨cs.intro, Ev.enter g :: cs.trace⟩ cs1 :=
            foldE_rel (Post p b) (Post.refl p b) (fun _ _ _ => Post.trans) _ _ _
              (fun a ha c c' hc => post_argStep p b g c c' a ha hc) h1
          have p2 : Post p b cs1 cs2 :=
            foldE_rel (Post p b) (Post.refl p b) (fun _ _ _ => Post.trans) _ _ _
              (fun v hv c c' hc => by
                have hv' := List.mem_filter.mp hv
                have hvt : v ∈ b.topo := (List.mem_filter.mp hv'.1).1
                have hva : v.isArgOf p = false := by simpa using hv'.2
                exact post_emitStep p b (compileG p b fuel) ih c c' v hvt hva hc) h2
          have p3 : Post p b cs2 ⟨cs2.intro, Ev.leave g :: cs2.trace⟩ :=
            post_silent p b cs2 (Ev.leave g) rfl (fun a h => by cases h)
          exact ⟨(p0.trans p1).trans (p2.trans p3), hsrc⟩
        · cases h

end BuildAlg
