import SpoxModel.Model.Opset
/-!
# Lemmas about the opset model (C09)

`max_opset_policy` (membership, uniqueness, maximality), the collection of requirements over nested
programs (mutual induction), the invariant of adapted entries, the generated schema facts (`decide`)
and the decision tree of `adapt_best_effort` against them. Core Lean only.
-/
namespace Opset


theorem mem_insertOrd {a d : String} {l : List String} : a ∈ insertOrd d l ↔ a = d ∨ a ∈ l := by
  induction l with
  | nil => simp [insertOrd]
  | cons x xs ih =>
    unfold insertOrd
    split
    · simp
    · simp [ih, or_left_comm]

theorem mem_addDom {a d : String} {l : List String} : a ∈ addDom d l ↔ a = d ∨ a ∈ l := by
  unfold addDom
  split
  · rename_i h; constructor
    · intro h'; exact Or.inr h'
    · rintro (rfl | h') <;> assumption
  · exact mem_insertOrd

theorem nodup_insertOrd {d : String} {l : List String} (hd : d ∉ l) (hl : l.Nodup) : (insertOrd d l).Nodup := by
  induction l with
  | nil => simp [insertOrd]
  | cons x xs ih =>
    unfold insertOrd
    have hx : d ≠ x := fun h => hd (h ▸ List.mem_cons_self)
    have hxs : d ∉ xs := fun h => hd (List.mem_cons_of_mem _ h)
    rw [List.nodup_cons] at hl
    split
    · rw [List.nodup_cons]; exact ⟨hd, List.nodup_cons.mpr hl⟩
    · rw [List.nodup_cons]
      refine ⟨?_, ih hxs hl.2⟩
      intro h
      rcases mem_insertOrd.mp h with h | h
      · exact hx h.symm
      · exact hl.1 h

theorem nodup_addDom {d : String} {l : List String} (hl : l.Nodup) : (addDom d l).Nodup := by
  unfold addDom
  split
  · exact hl
  · rename_i h; exact nodup_insertOrd h hl

theorem nodup_foldr_addDom (ds : List String) : (ds.foldr addDom []).Nodup := by
  induction ds with
  | nil => simp
  | cons d ds ih => exact nodup_addDom ih

theorem mem_foldr_addDom {a : String} (ds : List String) : a ∈ ds.foldr addDom [] ↔ a ∈ ds := by
  induction ds with
  | nil => simp
  | cons d ds ih => simp [List.foldr, mem_addDom, ih]

theorem nodup_domains (reqs : List Req) : (domains reqs).Nodup := nodup_foldr_addDom _

theorem mem_domains {d : String} {reqs : List Req} : d ∈ domains reqs ↔ ∃ v, (d, v) ∈ reqs := by
  unfold domains
  rw [mem_foldr_addDom]
  simp

theorem policy_fst (reqs : List Req) : (policy reqs).map (·.1) = domains (reqs.map foldReq) := by
  simp [policy, List.map_map, Function.comp_def]

theorem lookup_map_of_mem {ds : List String} {f : String → Nat} {d : String} (h : d ∈ ds) :
    List.lookup d (ds.map (fun d => (d, f d))) = some (f d) := by
  induction ds with
  | nil => cases h
  | cons x xs ih =>
    simp only [List.map_cons, List.lookup_cons]
    by_cases hx : d = x
    · subst hx; simp
    · have : (d == x) = false := by simpa using hx
      rw [this]
      exact ih (by cases h with | head => exact absurd rfl hx | tail _ h => exact h)

theorem lookup_map_of_not_mem {ds : List String} {f : String → Nat} {d : String} (h : d ∉ ds) :
    List.lookup d (ds.map (fun d => (d, f d))) = none := by
  induction ds with
  | nil => rfl
  | cons x xs ih =>
    simp only [List.map_cons, List.lookup_cons]
    have hx : d ≠ x := fun e => h (e ▸ List.mem_cons_self)
    have : (d == x) = false := by simpa using hx
    rw [this]
    exact ih (fun e => h (List.mem_cons_of_mem _ e))

theorem le_foldl_max_init (l : List Nat) (a : Nat) : a ≤ l.foldl max a := by
  induction l generalizing a with
  | nil => exact Nat.le_refl _
  | cons x xs ih => exact Nat.le_trans (Nat.le_max_left a x) (ih (max a x))

theorem le_foldl_max_mem {l : List Nat} {v : Nat} (a : Nat) (h : v ∈ l) : v ≤ l.foldl max a := by
  induction l generalizing a with
  | nil => cases h
  | cons x xs ih =>
    simp only [List.foldl_cons]
    cases h with
    | head => exact Nat.le_trans (Nat.le_max_right a v) (le_foldl_max_init xs (max a v))
    | tail _ h => exact ih _ h

theorem foldl_max_attained (l : List Nat) (a : Nat) : l.foldl max a = a ∨ l.foldl max a ∈ l := by
  induction l generalizing a with
  | nil => exact Or.inl rfl
  | cons x xs ih =>
    simp only [List.foldl_cons]
    rcases ih (max a x) with h | h
    · rw [h]
      rcases Nat.le_total a x with hax | hax
      · right; rw [Nat.max_eq_right hax]; exact List.mem_cons_self
      · left; exact Nat.max_eq_left hax
    · right; exact List.mem_cons_of_mem _ h


theorem mem_versions {d : String} {folded : List Req} {v : Nat} :
    v ∈ (folded.filter (fun r => r.1 == d)).map (·.2) ↔ (d, v) ∈ folded := by
  simp only [List.mem_map, List.mem_filter, beq_iff_eq]
  constructor
  · rintro ⟨⟨d', v'⟩, ⟨hm, hd⟩, hv⟩
    simp only at hd hv
    subst hd; subst hv; exact hm
  · intro h; exact ⟨(d, v), ⟨h, rfl⟩, rfl⟩

theorem mem_folded {reqs : List Req} {d : String} {v : Nat} :
    (d, v) ∈ reqs.map foldReq ↔ ∃ r ∈ reqs, fold r.1 = d ∧ r.2 = v := by
  simp only [List.mem_map, foldReq]
  constructor
  · rintro ⟨r, hr, he⟩
    refine ⟨r, hr, ?_, ?_⟩
    · exact congrArg Prod.fst he
    · exact congrArg Prod.snd he
  · rintro ⟨r, hr, h1, h2⟩
    exact ⟨r, hr, by rw [h1, h2]⟩

theorem lookup_policy_some {reqs : List Req} {d : String} (h : d ∈ domains (reqs.map foldReq)) :
    lookup d (policy reqs) = some (maxVersion d (reqs.map foldReq)) := by
  unfold lookup policy
  exact lookup_map_of_mem h

theorem lookup_policy_none {reqs : List Req} {d : String} (h : d ∉ domains (reqs.map foldReq)) :
    lookup d (policy reqs) = none := by
  unfold lookup policy
  exact lookup_map_of_not_mem h

/-- What `max_opset_policy` computes: `d ↦ v` iff `v` is required for `d` (with "ai.onnx" read as the
    default domain) and no requirement for `d` is larger. -/
theorem lookup_policy_iff {reqs : List Req} {d : String} {v : Nat} :
    lookup d (policy reqs) = some v ↔
      (∃ r ∈ reqs, fold r.1 = d ∧ r.2 = v) ∧ ∀ r ∈ reqs, fold r.1 = d → r.2 ≤ v := by
  have hub : ∀ r ∈ reqs, fold r.1 = d → r.2 ≤ maxVersion d (reqs.map foldReq) := by
    intro r hr hd
    unfold maxVersion
    apply le_foldl_max_mem
    exact mem_versions.mpr (mem_folded.mpr ⟨r, hr, hd, rfl⟩)
  constructor
  · intro h
    by_cases hd : d ∈ domains (reqs.map foldReq)
    · rw [lookup_policy_some hd] at h
      have hv : maxVersion d (reqs.map foldReq) = v := Option.some.inj h
      obtain ⟨v0, hv0⟩ := mem_domains.mp hd
      refine ⟨?_, fun r hr he => hv ▸ hub r hr he⟩
      rcases foldl_max_attained ((List.filter (fun r => r.1 == d) (reqs.map foldReq)).map (·.2)) 0 with h0 | hm
      · -- the maximum is 0: then the witness requirement is 0 itself
        obtain ⟨r, hr, h1, h2⟩ := mem_folded.mp hv0
        have : r.2 ≤ v := hv ▸ hub r hr h1
        have hz : v = 0 := by rw [← hv]; exact h0
        exact ⟨r, hr, h1, by omega⟩
      · have : (d, maxVersion d (reqs.map foldReq)) ∈ reqs.map foldReq := mem_versions.mp hm
        rw [hv] at this
        exact mem_folded.mp this
    · rw [lookup_policy_none hd] at h; cases h
  · rintro ⟨⟨r, hr, h1, h2⟩, hall⟩
    have hd : d ∈ domains (reqs.map foldReq) := mem_domains.mpr ⟨v, mem_folded.mpr ⟨r, hr, h1, h2⟩⟩
    rw [lookup_policy_some hd]
    congr 1
    apply Nat.le_antisymm
    · -- attained value is bounded by v
      obtain ⟨v0, hv0⟩ := mem_domains.mp hd
      rcases foldl_max_attained ((List.filter (fun r => r.1 == d) (reqs.map foldReq)).map (·.2)) 0 with h0 | hm
      · unfold maxVersion; rw [h0]; exact Nat.zero_le _
      · have : (d, maxVersion d (reqs.map foldReq)) ∈ reqs.map foldReq := mem_versions.mp hm
        obtain ⟨r', hr', h1', h2'⟩ := mem_folded.mp this
        rw [← h2']; exact hall r' hr' h1'
    · rw [← h2]; exact hub r hr h1

theorem fold_ne_aionnx (d : String) : fold d ≠ "ai.onnx" := by
  unfold fold
  split
  · decide
  · assumption

/-- one entry per domain, and "ai.onnx" never appears next to "" -/
theorem policy_domains_nodup (reqs : List Req) :
    ((policy reqs).map (·.1)).Nodup ∧ "ai.onnx" ∉ (policy reqs).map (·.1) := by
  rw [policy_fst]
  refine ⟨nodup_domains _, ?_⟩
  intro h
  obtain ⟨v, hv⟩ := mem_domains.mp h
  obtain ⟨r, _, h1, _⟩ := mem_folded.mp hv
  exact fold_ne_aionnx _ h1


/-! ## collection over nested programs -/


mutual
/-- every node of a graph at any depth: its own nodes, the nodes of their bodies and function graphs -/
def allNodesG : PGraph → List PNode
  | .mk nodes => allNodesNs nodes
def allNodesNs : List PNode → List PNode
  | [] => []
  | n :: ns => allNodesN n ++ allNodesNs ns
def allNodesN : PNode → List PNode
  | .mk k np c subs i => .mk k np c subs i :: allNodesGs subs
def allNodesGs : List PGraph → List PNode
  | [] => []
  | g :: gs => allNodesG g ++ allNodesGs gs
end

mutual
theorem req_sound_G (F : Facts) (r : Req) : ∀ g : PGraph,
    r ∈ reqGraph F g → r = ("", F.minOpset) ∨ ∃ n ∈ allNodesG g, r ∈ kindReq F n.kind
  | .mk nodes => by
    simp only [reqGraph, allNodesG, List.mem_cons]
    rintro (h | h)
    · exact Or.inl h
    · exact req_sound_Ns F r nodes h
theorem req_sound_Ns (F : Facts) (r : Req) : ∀ ns : List PNode,
    r ∈ reqNodes F ns → r = ("", F.minOpset) ∨ ∃ n ∈ allNodesNs ns, r ∈ kindReq F n.kind
  | [] => by simp [reqNodes]
  | n :: ns => by
    simp only [reqNodes, allNodesNs, List.mem_append]
    rintro (h | h)
    · rcases req_sound_N F r n h with h | ⟨m, hm, hr⟩
      · exact Or.inl h
      · exact Or.inr ⟨m, Or.inl hm, hr⟩
    · rcases req_sound_Ns F r ns h with h | ⟨m, hm, hr⟩
      · exact Or.inl h
      · exact Or.inr ⟨m, Or.inr hm, hr⟩
theorem req_sound_N (F : Facts) (r : Req) : ∀ n : PNode,
    r ∈ reqNode F n → r = ("", F.minOpset) ∨ ∃ m ∈ allNodesN n, r ∈ kindReq F m.kind
  | .mk k np c subs i => by
    simp only [reqNode, allNodesN, List.mem_append, List.mem_cons]
    rintro (h | h)
    · exact Or.inr ⟨.mk k np c subs i, Or.inl rfl, h⟩
    · rcases req_sound_Gs F r subs h with h | ⟨m, hm, hr⟩
      · exact Or.inl h
      · exact Or.inr ⟨m, Or.inr hm, hr⟩
theorem req_sound_Gs (F : Facts) (r : Req) : ∀ gs : List PGraph,
    r ∈ reqGraphs F gs → r = ("", F.minOpset) ∨ ∃ m ∈ allNodesGs gs, r ∈ kindReq F m.kind
  | [] => by simp [reqGraphs]
  | g :: gs => by
    simp only [reqGraphs, allNodesGs, List.mem_append]
    rintro (h | h)
    · rcases req_sound_G F r g h with h | ⟨m, hm, hr⟩
      · exact Or.inl h
      · exact Or.inr ⟨m, Or.inl hm, hr⟩
    · rcases req_sound_Gs F r gs h with h | ⟨m, hm, hr⟩
      · exact Or.inl h
      · exact Or.inr ⟨m, Or.inr hm, hr⟩
end

mutual
theorem req_complete_G (F : Facts) (r : Req) : ∀ g : PGraph,
    (∃ n ∈ allNodesG g, r ∈ kindReq F n.kind) → r ∈ reqGraph F g
  | .mk nodes => by
    simp only [reqGraph, allNodesG, List.mem_cons]
    intro h
    exact Or.inr (req_complete_Ns F r nodes h)
theorem req_complete_Ns (F : Facts) (r : Req) : ∀ ns : List PNode,
    (∃ n ∈ allNodesNs ns, r ∈ kindReq F n.kind) → r ∈ reqNodes F ns
  | [] => by simp [allNodesNs]
  | n :: ns => by
    simp only [reqNodes, allNodesNs, List.mem_append]
    rintro ⟨m, hm | hm, hr⟩
    · exact Or.inl (req_complete_N F r n ⟨m, hm, hr⟩)
    · exact Or.inr (req_complete_Ns F r ns ⟨m, hm, hr⟩)
theorem req_complete_N (F : Facts) (r : Req) : ∀ n : PNode,
    (∃ m ∈ allNodesN n, r ∈ kindReq F m.kind) → r ∈ reqNode F n
  | .mk k np c subs i => by
    simp only [reqNode, allNodesN, List.mem_append, List.mem_cons]
    rintro ⟨m, hm | hm, hr⟩
    · subst hm; exact Or.inl hr
    · exact Or.inr (req_complete_Gs F r subs ⟨m, hm, hr⟩)
theorem req_complete_Gs (F : Facts) (r : Req) : ∀ gs : List PGraph,
    (∃ m ∈ allNodesGs gs, r ∈ kindReq F m.kind) → r ∈ reqGraphs F gs
  | [] => by simp [allNodesGs]
  | g :: gs => by
    simp only [reqGraphs, allNodesGs, List.mem_append]
    rintro ⟨m, hm | hm, hr⟩
    · exact Or.inl (req_complete_G F r g ⟨m, hm, hr⟩)
    · exact Or.inr (req_complete_Gs F r gs ⟨m, hm, hr⟩)
end

/-- The requirement set of a compiled graph is exactly: the floor of its result identities, and the
    own requirement of every node anywhere below it (bodies, function graphs, inlined models' imports). -/
theorem mem_reqGraph_iff (F : Facts) (r : Req) (g : PGraph) :
    r ∈ reqGraph F g ↔ r = ("", F.minOpset) ∨ ∃ n ∈ allNodesG g, r ∈ kindReq F n.kind := by
  constructor
  · exact req_sound_G F r g
  · rintro (h | h)
    · cases g with | mk nodes => simp [reqGraph, h]
    · exact req_complete_G F r g h


/-! ## generated facts -/
open Generated.OpsetFacts


def rowsSinceOk (d : String) (rows : List (Nat × Nat × Bool)) : Bool :=
  rows.all (fun r => genSchemaSince d r.1 r.2.1 == some r.2.1)

def rowsInForce (d : String) (mv : Nat) (rows : List (Nat × Nat × Bool)) : Bool :=
  rows.all (fun r => genSchemaSince d r.1 mv == some r.2.1)

/-- accepted at every version from its own up to `hi` -/
def acceptsUpTo (d : String) (o v hi : Nat) : Bool :=
  (List.range (hi + 1)).all (fun t => t < v || genAccepts d o v t)

def rowsKeptOk (d : String) (hi : Nat) (onlyGraph : Bool) (rows : List (Nat × Nat × Bool)) : Bool :=
  rows.all (fun r => (onlyGraph && !r.2.2) || acceptsUpTo d r.1 r.2.1 hi)

theorem since_fix_default : shippedDefault.all (fun m => rowsSinceOk "" m.2) = true := by decide +kernel
theorem since_fix_ml : shippedMl.all (fun m => rowsSinceOk "ai.onnx.ml" m.2) = true := by decide +kernel
theorem in_force_default : shippedDefault.all (fun m => rowsInForce "" m.1 m.2) = true := by decide +kernel
theorem in_force_ml : shippedMl.all (fun m => rowsInForce "ai.onnx.ml" m.1 m.2) = true := by decide +kernel
theorem kept_graph_ok : shippedDefault.all (fun m => rowsKeptOk "" 21 true m.2) = true := by decide +kernel
theorem kept_ml_ok : shippedMl.all (fun m => rowsKeptOk "ai.onnx.ml" 5 false m.2) = true := by decide +kernel

/-! ## adapted entries -/


/-- `opsets` has, for every requirement in `reqs`, an entry for its (folded) domain that is at least as large -/
def Dominates (opsets : List Req) (reqs : List Req) : Prop :=
  ∀ r ∈ reqs, ∃ t, lookup (fold r.1) opsets = some t ∧ r.2 ≤ t

theorem Dominates.mono {opsets a b : List Req} (h : Dominates opsets b) (hs : ∀ r ∈ a, r ∈ b) : Dominates opsets a :=
  fun r hr => h r (hs r hr)


theorem policy_dominates (reqs : List Req) : Dominates (policy reqs) reqs := by
  intro r hr
  have hd : fold r.1 ∈ domains (reqs.map foldReq) := mem_domains.mpr ⟨r.2, mem_folded.mpr ⟨r, hr, rfl, rfl⟩⟩
  refine ⟨_, lookup_policy_some hd, ?_⟩
  have := (lookup_policy_iff.mp (lookup_policy_some hd)).2 r hr rfl
  exact this

/-- Requirements that are already among `b` do not change what the policy answers. -/
theorem lookup_policy_absorb {a b : List Req} (h : ∀ r ∈ a, r ∈ b) (d : String) :
    lookup d (policy (a ++ b)) = lookup d (policy b) := by
  apply Option.ext
  intro v
  show (lookup d (policy (a ++ b)) = some v) ↔ (lookup d (policy b) = some v)
  rw [lookup_policy_iff, lookup_policy_iff]
  constructor
  · rintro ⟨⟨r, hr, h1, h2⟩, hall⟩
    refine ⟨⟨r, ?_, h1, h2⟩, fun r' hr' => hall r' (List.mem_append.mpr (Or.inr hr'))⟩
    rcases List.mem_append.mp hr with hr | hr
    · exact h r hr
    · exact hr
  · rintro ⟨⟨r, hr, h1, h2⟩, hall⟩
    refine ⟨⟨r, List.mem_append.mpr (Or.inr hr), h1, h2⟩, fun r' hr' => ?_⟩
    rcases List.mem_append.mp hr' with hr' | hr'
    · exact hall r' (h r' hr')
    · exact hall r' hr'

/-- invariant of every adapted entry of a build whose model requirement is `ctx`: the decision is
    `adapt_best_effort` on the entry's opsets, these dominate the node's own requirement, and they
    answer every lookup exactly like the opsets of the whole build -/
def EntryOk (F : Facts) (ctx : List Req) (e : Entry) : Prop :=
  e.decision = adaptBestEffort F e.opsets e.node ∧ Dominates e.opsets (kindReq F e.node.kind) ∧
    ∀ d, lookup d e.opsets = lookup d (policy ctx)

mutual
theorem adaptBody_ok (F : Facts) (ctx : List Req) : ∀ g : PGraph,
    (∀ r ∈ reqGraph F g, r ∈ ctx) → ∀ e ∈ adaptBody F ctx g, EntryOk F ctx e
  | .mk nodes => by
    intro hsub e he
    simp only [adaptBody] at he
    refine adaptNodes_ok F ctx _ nodes ?_ (lookup_policy_absorb hsub) ?_ e he
    · apply (policy_dominates _).mono
      intro r hr
      simp only [reqGraph, List.mem_append, List.mem_cons]
      exact Or.inl (Or.inr hr)
    · intro r hr
      apply hsub
      simp only [reqGraph, List.mem_cons]
      exact Or.inr hr
theorem adaptNodes_ok (F : Facts) (ctx opsets : List Req) : ∀ ns : List PNode,
    Dominates opsets (reqNodes F ns) → (∀ d, lookup d opsets = lookup d (policy ctx)) →
    (∀ r ∈ reqNodes F ns, r ∈ ctx) → ∀ e ∈ adaptNodes F ctx opsets ns, EntryOk F ctx e
  | [] => by intro _ _ _ e he; simp [adaptNodes] at he
  | n :: ns => by
    intro h hag hsub e he
    simp only [adaptNodes, List.mem_append] at he
    rcases he with he | he
    · exact adaptNode_ok F ctx opsets n
        (h.mono (by intro r hr; simp only [reqNodes, List.mem_append]; exact Or.inl hr)) hag
        (by intro r hr; apply hsub; simp only [reqNodes, List.mem_append]; exact Or.inl hr) e he
    · exact adaptNodes_ok F ctx opsets ns
        (h.mono (by intro r hr; simp only [reqNodes, List.mem_append]; exact Or.inr hr)) hag
        (by intro r hr; apply hsub; simp only [reqNodes, List.mem_append]; exact Or.inr hr) e he
theorem adaptNode_ok (F : Facts) (ctx opsets : List Req) : ∀ n : PNode,
    Dominates opsets (reqNode F n) → (∀ d, lookup d opsets = lookup d (policy ctx)) →
    (∀ r ∈ reqNode F n, r ∈ ctx) → ∀ e ∈ adaptNode F ctx opsets n, EntryOk F ctx e
  | .mk k np c subs i => by
    intro h hag hsub e he
    simp only [adaptNode, List.mem_cons] at he
    have hsubs : ∀ r ∈ reqGraphs F subs, r ∈ ctx := by
      intro r hr; apply hsub; simp only [reqNode, List.mem_append]; exact Or.inr hr
    rcases he with he | he
    · subst he
      refine ⟨rfl, h.mono ?_, hag⟩
      intro r hr
      simp only [reqNode, List.mem_append]
      exact Or.inl hr
    · cases k with
      | func d v nm => simp at he
      | internal => exact adaptBodies_ok F ctx subs hsubs e he
      | intro => exact adaptBodies_ok F ctx subs hsubs e he
      | introOpt => exact adaptBodies_ok F ctx subs hsubs e he
      | inline a b => exact adaptBodies_ok F ctx subs hsubs e he
      | op d o v => exact adaptBodies_ok F ctx subs hsubs e he
theorem adaptBodies_ok (F : Facts) (ctx : List Req) : ∀ gs : List PGraph,
    (∀ r ∈ reqGraphs F gs, r ∈ ctx) → ∀ e ∈ adaptBodies F ctx gs, EntryOk F ctx e
  | [] => by intro _ e he; simp [adaptBodies] at he
  | g :: gs => by
    intro hsub e he
    simp only [adaptBodies, List.mem_append] at he
    rcases he with he | he
    · exact adaptBody_ok F ctx g
        (by intro r hr; apply hsub; simp only [reqGraphs, List.mem_append]; exact Or.inl hr) e he
    · exact adaptBodies_ok F ctx gs
        (by intro r hr; apply hsub; simp only [reqGraphs, List.mem_append]; exact Or.inr hr) e he
end

/-- Every entry of a build — the graph itself and all bodies below it, at any depth. -/
theorem adaptGraph_ok (F : Facts) (extra : List Req) : ∀ g : PGraph,
    ∀ e ∈ adaptGraph F extra g, EntryOk F (reqGraph F g ++ extra) e
  | .mk nodes => by
    intro e he
    simp only [adaptGraph] at he
    refine adaptNodes_ok F _ _ nodes ?_ (fun _ => rfl) ?_ e he
    · apply (policy_dominates _).mono
      intro r hr
      simp only [reqGraph, List.mem_append, List.mem_cons]
      exact Or.inl (Or.inr hr)
    · intro r hr
      simp only [reqGraph, List.mem_append, List.mem_cons]
      exact Or.inl (Or.inr hr)

/-! ## the decision tree against the schema history -/




/-- `(o, v, hasGraph)` is a constructor row of a shipped module of domain `d` -/
def shippedRow (d : String) (o v : Nat) (hasGraph : Bool) : Bool :=
  if d = "" then shippedDefault.any (fun m => m.2.contains (o, v, hasGraph))
  else if d = "ai.onnx.ml" then shippedMl.any (fun m => m.2.contains (o, v, hasGraph))
  else false

/-- highest shipped module version of a domain -/
def shippedMax (d : String) : Nat := if d = "" then 21 else 5


theorem mem_of_shippedRow {d : String} {o v : Nat} {hg : Bool} (h : shippedRow d o v hg = true) :
    (d = "" ∧ ∃ m ∈ shippedDefault, (o, v, hg) ∈ m.2) ∨ (d = "ai.onnx.ml" ∧ ∃ m ∈ shippedMl, (o, v, hg) ∈ m.2) := by
  unfold shippedRow at h
  by_cases h1 : d = ""
  · rw [if_pos h1, List.any_eq_true] at h
    obtain ⟨m, hm, hc⟩ := h
    exact Or.inl ⟨h1, m, hm, List.contains_iff_mem.mp hc⟩
  · by_cases h2 : d = "ai.onnx.ml"
    · rw [if_neg h1, if_pos h2, List.any_eq_true] at h
      obtain ⟨m, hm, hc⟩ := h
      exact Or.inr ⟨h2, m, hm, List.contains_iff_mem.mp hc⟩
    · rw [if_neg h1, if_neg h2] at h
      cases h

theorem shipped_since_fix {d : String} {o v : Nat} {hg : Bool} (h : shippedRow d o v hg = true) :
    genSchemaSince d o v = some v := by
  rcases mem_of_shippedRow h with ⟨rfl, m, hm, hr⟩ | ⟨rfl, m, hm, hr⟩
  · have h1 := (List.all_eq_true.mp since_fix_default) m hm
    have h2 := (List.all_eq_true.mp h1) (o, v, hg) hr
    simpa using h2
  · have h1 := (List.all_eq_true.mp since_fix_ml) m hm
    have h2 := (List.all_eq_true.mp h1) (o, v, hg) hr
    simpa using h2

theorem shipped_kept_ok {d : String} {o v : Nat} {hg : Bool} (h : shippedRow d o v hg = true)
    (hk : hg = true ∨ d ≠ "") : acceptsUpTo d o v (shippedMax d) = true := by
  rcases mem_of_shippedRow h with ⟨rfl, m, hm, hr⟩ | ⟨rfl, m, hm, hr⟩
  · have h1 := (List.all_eq_true.mp kept_graph_ok) m hm
    have h2 := (List.all_eq_true.mp h1) (o, v, hg) hr
    rcases hk with rfl | hk
    · simpa [shippedMax] using h2
    · exact absurd rfl hk
  · have h1 := (List.all_eq_true.mp kept_ml_ok) m hm
    have h2 := (List.all_eq_true.mp h1) (o, v, hg) hr
    simpa [shippedMax] using h2

theorem acceptsUpTo_spec {d : String} {o v hi t : Nat} (h : acceptsUpTo d o v hi = true) (h1 : v ≤ t) (h2 : t ≤ hi) :
    genAccepts d o v t = true := by
  unfold acceptsUpTo at h
  rw [List.all_eq_true] at h
  have := h t (List.mem_range.mpr (by omega))
  simp only [Bool.or_eq_true, decide_eq_true_eq] at this
  rcases this with h' | h'
  · omega
  · exact h'

theorem shipped_domain {d : String} {o v : Nat} {hg : Bool} (h : shippedRow d o v hg = true) :
    d = "" ∨ d = "ai.onnx.ml" := by
  unfold shippedRow at h
  by_cases h1 : d = ""
  · exact Or.inl h1
  · by_cases h2 : d = "ai.onnx.ml"
    · exact Or.inr h2
    · simp [h1, h2] at h

/-- the emitted form of an adapted entry is well-formed at the imports `imp`
    (`convert`: the converter was asked for exactly the imported version; what it emits is third party) -/
def entryValid (imp : List Req) (e : Entry) : Bool :=
  match e.node.kind, e.decision with
  | .op d _ _, .convert _ t => lookup (fold d) imp == some t
  | .op _ _ _, .convertError _ _ => false
  | .op _ _ _, .pyError => false
  | .op _ _ _, .keepProtos => false
  | .op d o v, _ => match lookup (fold d) imp with
      | some t => genAccepts (fold d) o v t
      | none => false
  | .inline _ _, .convertInline _ t => lookup "" imp == some t
  | .inline imps hd, .keepInline => !hd || (match lookup "" imp with
      | some t => inlineSource imps t == t
      | none => false)
  | .inline _ _, _ => false
  | _, _ => true

theorem fold_eq_self {d : String} (h : d = "" ∨ d = "ai.onnx.ml") : fold d = d := by
  rcases h with rfl | rfl <;> decide

theorem op_valid (opsets : List Req) (d : String) (o v np : Nat) (c : Bool) (subs : List PGraph) (i : Nat)
    (hdom : Dominates opsets [(d, v)]) (hnp : np = 1) (hc : c = true)
    (hship : shippedRow d o v (!subs.isEmpty) = true)
    (hrange : ∀ t, lookup d opsets = some t → t ≤ shippedMax d) :
    entryValid opsets ⟨opsets, .mk (.op d o v) np c subs i,
      adaptBestEffort genFacts opsets (.mk (.op d o v) np c subs i)⟩ = true := by
  have hd := shipped_domain hship
  have hf : fold d = d := fold_eq_self hd
  obtain ⟨t, ht, hvt⟩ := hdom (d, v) List.mem_cons_self
  simp only [hf] at ht
  have hmax := hrange t ht
  have hfix := shipped_since_fix hship
  subst hnp; subst hc
  by_cases hsub : subs.isEmpty = true
  · -- no body
    by_cases hvt' : v = t
    · subst hvt'
      have hdec : adaptBestEffort genFacts opsets (.mk (.op d o v) 1 true subs i) = .keepSameVersion := by
        simp [adaptBestEffort, hsub, hf, ht]
      rw [hdec]
      simp [entryValid, PNode.kind, hf, ht, genAccepts, hfix]
    · by_cases hsame : sameSchema genFacts d o v t = true
      · have hdec : adaptBestEffort genFacts opsets (.mk (.op d o v) 1 true subs i) = .keepSameSchema := by
          simp [adaptBestEffort, hsub, hf, ht, hvt', hsame]
        have hacc : genAccepts d o v t = true := by
          unfold sameSchema at hsame
          simp only [genFacts] at hsame
          rw [hfix] at hsame
          unfold genAccepts
          cases hq : genSchemaSince d o t with
          | none => rw [hq] at hsame; simp at hsame
          | some b =>
            rw [hq] at hsame
            simp only [beq_iff_eq] at hsame
            simp [hsame]
        rw [hdec]
        simp [entryValid, PNode.kind, hf, ht, hacc]
      · by_cases hdd : d = ""
        · subst hdd
          have hdec : adaptBestEffort genFacts opsets (.mk (.op "" o v) 1 true subs i) = .convert v t := by
            simp [adaptBestEffort, hsub, hf, ht, hvt', hsame]
          rw [hdec]
          simp [entryValid, PNode.kind, hf, ht]
        · have hdec : adaptBestEffort genFacts opsets (.mk (.op d o v) 1 true subs i) = .keepNonDefault v t := by
            simp [adaptBestEffort, hsub, hf, ht, hvt', hsame, hdd]
          have hacc : genAccepts d o v t = true :=
            acceptsUpTo_spec (shipped_kept_ok hship (Or.inr hdd)) hvt hmax
          rw [hdec]
          simp [entryValid, PNode.kind, hf, ht, hacc]
  · -- a graph-valued attribute: kept as it is
    have hdec : adaptBestEffort genFacts opsets (.mk (.op d o v) 1 true subs i) = .keepSubgraph := by
      simp [adaptBestEffort, hsub]
    have hg : (!subs.isEmpty) = true := by simpa using hsub
    rw [hg] at hship
    have hacc : genAccepts d o v t = true :=
      acceptsUpTo_spec (shipped_kept_ok hship (Or.inl rfl)) hvt hmax
    rw [hdec]
    simp [entryValid, PNode.kind, hf, ht, hacc]


theorem inline_valid (opsets imps : List Req) (hd : Bool) (np : Nat) (c : Bool) (subs : List PGraph) (i : Nat)
    (hdom : Dominates opsets (kindReq genFacts (.inline imps hd))) :
    entryValid opsets ⟨opsets, .mk (.inline imps hd) np c subs i,
      adaptBestEffort genFacts opsets (.mk (.inline imps hd) np c subs i)⟩ = true := by
  obtain ⟨t, ht, _⟩ := hdom ("", genFacts.minOpset) (by simp [kindReq])
  have ht' : lookup "" opsets = some t := by simpa [fold] using ht
  cases hd with
  | false => simp [entryValid, adaptBestEffort, PNode.kind, ht']
  | true =>
    by_cases hs : inlineSource imps t = t
    · simp [entryValid, adaptBestEffort, PNode.kind, ht', hs]
    · simp [entryValid, adaptBestEffort, PNode.kind, ht', hs]

/-! ## names -/

def nameNode : Name → Option Nat
  | .out n _ => some n
  | .fresh n _ => some n
  | .bare _ => none

theorem entryNames_node (nOut : Nat → Nat) (conv : Nat → List Nat) (e : Entry) :
    ∀ nm ∈ entryNames true nOut conv e, nameNode nm = some e.node.id := by
  intro nm h
  unfold entryNames at h
  split at h
  · simp only [List.mem_append, List.mem_map, if_true] at h
    rcases h with ⟨k, _, rfl⟩ | ⟨k, _, rfl⟩ <;> rfl
  · simp only [List.mem_map] at h
    obtain ⟨k, _, rfl⟩ := h
    rfl

theorem nodup_map_inj {α β : Type} {f : α → β} (hf : ∀ a b, f a = f b → a = b) {l : List α} (h : l.Nodup) :
    (l.map f).Nodup := by
  induction l with
  | nil => simp
  | cons x xs ih =>
    rw [List.nodup_cons] at h
    rw [List.map_cons, List.nodup_cons]
    refine ⟨?_, ih h.2⟩
    intro hm
    obtain ⟨y, hy, he⟩ := List.mem_map.mp hm
    exact h.1 (hf _ _ he ▸ hy)

theorem entryNames_nodup (nOut : Nat → Nat) (conv : Nat → List Nat) (e : Entry) (hconv : ∀ n, (conv n).Nodup) :
    (entryNames true nOut conv e).Nodup := by
  have hown : ((List.range (nOut e.node.id)).map (Name.out e.node.id)).Nodup :=
    nodup_map_inj (fun a b h => by injection h) List.nodup_range
  unfold entryNames
  split
  · simp only [if_true]
    rw [List.nodup_append]
    refine ⟨hown, nodup_map_inj (fun a b h => by injection h) (hconv _), ?_⟩
    intro a ha b hb hab
    obtain ⟨k, _, rfl⟩ := List.mem_map.mp ha
    obtain ⟨k', _, rfl⟩ := List.mem_map.mp hb
    cases hab
  · exact hown

theorem allNames_nodup (nOut : Nat → Nat) (conv : Nat → List Nat) (es : List Entry)
    (hid : (es.map (fun e => e.node.id)).Nodup) (hconv : ∀ n, (conv n).Nodup) :
    (allNames true nOut conv es).Nodup := by
  induction es with
  | nil => simp [allNames]
  | cons e es ih =>
    rw [List.map_cons, List.nodup_cons] at hid
    unfold allNames
    rw [List.flatMap_cons, List.nodup_append]
    refine ⟨entryNames_nodup nOut conv e hconv, ih hid.2, ?_⟩
    intro a ha b hb hab
    subst hab
    have h1 := entryNames_node nOut conv e a ha
    obtain ⟨e', he', hb'⟩ := List.mem_flatMap.mp hb
    have h2 := entryNames_node nOut conv e' a hb'
    rw [h1] at h2
    have : e.node.id = e'.node.id := Option.some.inj h2
    exact hid.1 (List.mem_map.mpr ⟨e', he', this.symm⟩)

theorem entryValid_congr {a b : List Req} (h : ∀ d, lookup d a = lookup d b) (e : Entry) :
    entryValid a e = entryValid b e := by
  unfold entryValid
  simp only [h]

theorem allNodesNs_append (ns ms : List PNode) : allNodesNs (ns ++ ms) = allNodesNs ns ++ allNodesNs ms := by
  induction ns with
  | nil => simp [allNodesNs]
  | cons n ns ih => simp [allNodesNs, ih, List.append_assoc]

end Opset
