import SpoxModel.Model.Types
/-! Helper lemmas for C13 (shapes, compatibility, broadcasting, ONNX round trip). -/
namespace Types

/-! ### dimensions and shapes -/

theorem le_eq_dimCompat (a b : Natural) : a.le b = dimCompat a b := by
  cases a <;> cases b <;> simp [Natural.le, dimCompat]

theorem shape_le_eq (a b : Shape) : Shape.le a b = shapeCompat a b := by
  cases a <;> cases b <;> simp [Shape.le, shapeCompat, le_eq_dimCompat]

theorem dimCompat_refl (a : Natural) : dimCompat a a = true := by
  cases a <;> simp [dimCompat]

theorem zip_all_refl (l : List Natural) : (l.zip l).all (fun p => dimCompat p.1 p.2) = true := by
  induction l with
  | nil => rfl
  | cons x xs ih => simp [List.zip_cons_cons, List.all_cons, dimCompat_refl, ih]

theorem shapeCompat_refl (s : Shape) : shapeCompat s s = true := by
  cases s with
  | none => rfl
  | some l => simp [shapeCompat, zip_all_refl]

theorem compat_refl : (t : Ty) → compat t t = true
  | .any => by simp [compat]
  | .tensor e s => by simp [compat, shapeCompat_refl]
  | .seq a => by simpa [compat] using compat_refl a
  | .opt a => by simpa [compat] using compat_refl a

theorem compat_any_right (a : Ty) : compat a .any = true := by
  cases a <;> simp [compat]

/-! ### `_subtype` is the statement's compatibility -/

/-- `issubclass` on element classes is equality (a fact about the generated table). -/
def SubIsEq (tbl : DtypeTable) (ok : Nat → Bool) : Prop :=
  ∀ e e', ok e = true → ok e' = true → tbl.sub e e' = (e == e')

theorem subtype_eq_compat (tbl : DtypeTable) (ok : Nat → Bool) (hsub : SubIsEq tbl ok) :
    (a b : Ty) → a.anyFree = true → a.allElems ok = true → b.allElems ok = true →
      subtype tbl a b = compat a b
  | .any, _, h, _, _ => by simp [Ty.anyFree] at h
  | .tensor e s, b, _, ha, hb => by
    cases b with
    | any => simp [subtype, compat]
    | tensor e' s' =>
      simp only [Ty.allElems] at ha hb
      simp only [subtype, compat, shape_le_eq, hsub e e' ha hb]
      by_cases h : Ty.tensor e s = Ty.tensor e' s'
      · cases h; simp [shapeCompat_refl]
      · simp [h]
    | seq t => simp [subtype, compat]
    | opt t => simp [subtype, compat]
  | .seq a, b, haf, ha, hb => by
    cases b with
    | any => simp [subtype, compat]
    | tensor e' s' => simp [subtype, compat]
    | seq b' =>
      simp only [Ty.anyFree, Ty.allElems] at haf ha hb
      simp only [subtype, compat, subtype_eq_compat tbl ok hsub a b' haf ha hb]
      by_cases h : Ty.seq a = Ty.seq b'
      · cases h; simp [compat_refl]
      · simp [h]
    | opt t => simp [subtype, compat]
  | .opt a, b, haf, ha, hb => by
    cases b with
    | any => simp [subtype, compat]
    | tensor e' s' => simp [subtype, compat]
    | seq t => simp [subtype, compat]
    | opt b' =>
      simp only [Ty.anyFree, Ty.allElems] at haf ha hb
      simp only [subtype, compat, subtype_eq_compat tbl ok hsub a b' haf ha hb]
      by_cases h : Ty.opt a = Ty.opt b'
      · cases h; simp [compat_refl]
      · simp [h]

/-! ### compatibility = a common runtime value -/

def dimInh : Natural → Nat
  | .const n => n
  | .unk _ => 0

def meet : Natural → Natural → Nat
  | .const n, _ => n
  | .unk _, d => dimInh d

def meetDims : List Natural → List Natural → List Nat
  | x :: xs, y :: ys => meet x y :: meetDims xs ys
  | _, _ => []

def meetShape : Shape → Shape → List Nat
  | none, none => []
  | some a, none => a.map dimInh
  | none, some b => b.map dimInh
  | some a, some b => meetDims a b

/-- an inhabitant (with a witness at every level) of any type -/
def inh : Ty → RtVal
  | .any => .tensor 0 []
  | .tensor e s => .tensor e (meetShape s none)
  | .seq t => .cons (inh t) .nil
  | .opt t => .some (inh t)

/-- a common inhabitant of two compatible types -/
def wit : Ty → Ty → RtVal
  | .any, b => inh b
  | .tensor e s, .tensor _ s' => .tensor e (meetShape s s')
  | .seq a, .seq b => .cons (wit a b) .nil
  | .opt a, .opt b => .some (wit a b)
  | a, _ => inh a

theorem conf_dimInh (d : Natural) : conf (dimInh d) d := by
  cases d <;> simp [conf, dimInh]

theorem confDims_inh (ds : List Natural) : confDims (ds.map dimInh) ds := by
  induction ds with
  | nil => simp [confDims]
  | cons d ds ih => simp [confDims, conf_dimInh, ih]

theorem confShape_inh (s : Shape) : confShape (meetShape s none) s := by
  cases s <;> simp [confShape, meetShape, confDims_inh]

theorem conforms_any (v : RtVal) : conforms v .any := by
  cases v <;> simp [conforms]

theorem inh_spec : (t : Ty) → (inh t).witness = true ∧ conforms (inh t) t
  | .any => by simp [inh, RtVal.witness, conforms]
  | .tensor e s => by simp [inh, RtVal.witness, conforms, confShape_inh]
  | .seq t => by
    have := inh_spec t
    simp [inh, RtVal.witness, conforms, this]
  | .opt t => by
    have := inh_spec t
    simp [inh, RtVal.witness, conforms, this]

theorem meetDims_spec : (a b : List Natural) →
    (a.length == b.length && (a.zip b).all (fun p => dimCompat p.1 p.2)) = true →
    confDims (meetDims a b) a ∧ confDims (meetDims a b) b
  | [], [], _ => by simp [meetDims, confDims]
  | [], _ :: _, h => by simp at h
  | _ :: _, [], h => by simp at h
  | x :: xs, y :: ys, h => by
    simp only [List.length_cons, List.zip_cons_cons, List.all_cons, Bool.and_eq_true,
      beq_iff_eq, Nat.add_right_cancel_iff] at h
    obtain ⟨hl, hxy, hall⟩ := h
    have ih := meetDims_spec xs ys (by simp [hl, hall])
    refine ⟨⟨?_, ih.1⟩, ⟨?_, ih.2⟩⟩
    · cases x <;> cases y <;> simp_all [meet, conf, dimCompat]
    · cases x <;> cases y <;> simp_all [meet, conf, dimInh, dimCompat]

theorem meetShape_spec (s s' : Shape) (h : shapeCompat s s' = true) :
    confShape (meetShape s s') s ∧ confShape (meetShape s s') s' := by
  cases s with
  | none =>
    cases s' with
    | none => simp [confShape]
    | some b => simp [confShape, meetShape, confDims_inh]
  | some a =>
    cases s' with
    | none => simp [confShape, meetShape, confDims_inh]
    | some b =>
      simp only [shapeCompat] at h
      simpa [confShape, meetShape] using meetDims_spec a b h

theorem wit_spec : (a b : Ty) → compat a b = true →
    (wit a b).witness = true ∧ conforms (wit a b) a ∧ conforms (wit a b) b
  | .any, b, _ => by
    have := inh_spec b
    simp [wit, conforms_any, this]
  | .tensor e s, .any, _ => by
    have := inh_spec (.tensor e s)
    simp [wit, conforms_any, this]
  | .seq a, .any, _ => by
    have := inh_spec (.seq a)
    simp [wit, conforms_any, this]
  | .opt a, .any, _ => by
    have := inh_spec (.opt a)
    simp [wit, conforms_any, this]
  | .tensor e s, .tensor e' s', h => by
    simp only [compat, Bool.and_eq_true, beq_iff_eq] at h
    have := meetShape_spec s s' h.2
    simp [wit, RtVal.witness, conforms, h.1, this]
  | .seq a, .seq b, h => by
    simp only [compat] at h
    have := wit_spec a b h
    simp [wit, RtVal.witness, conforms, this]
  | .opt a, .opt b, h => by
    simp only [compat] at h
    have := wit_spec a b h
    simp [wit, RtVal.witness, conforms, this]
  | .tensor _ _, .seq _, h => by simp [compat] at h
  | .tensor _ _, .opt _, h => by simp [compat] at h
  | .seq _, .tensor _ _, h => by simp [compat] at h
  | .seq _, .opt _, h => by simp [compat] at h
  | .opt _, .tensor _ _, h => by simp [compat] at h
  | .opt _, .seq _, h => by simp [compat] at h

theorem confDims_compat : (d : List Nat) → (a b : List Natural) → confDims d a → confDims d b →
    (a.length == b.length && (a.zip b).all (fun p => dimCompat p.1 p.2)) = true
  | [], [], [], _, _ => by simp
  | [], _ :: _, _, h, _ => by simp [confDims] at h
  | [], [], _ :: _, _, h => by simp [confDims] at h
  | _ :: _, [], _, h, _ => by simp [confDims] at h
  | _ :: _, _ :: _, [], _, h => by simp [confDims] at h
  | n :: ns, x :: xs, y :: ys, ha, hb => by
    simp only [confDims] at ha hb
    have ih := confDims_compat ns xs ys ha.2 hb.2
    simp only [Bool.and_eq_true, beq_iff_eq] at ih
    simp only [List.length_cons, List.zip_cons_cons, List.all_cons, Bool.and_eq_true, beq_iff_eq,
      Nat.add_right_cancel_iff]
    refine ⟨ih.1, ?_, ih.2⟩
    cases x <;> cases y <;> simp_all [conf, dimCompat]

theorem confShape_compat (d : List Nat) (s s' : Shape) (h : confShape d s) (h' : confShape d s') :
    shapeCompat s s' = true := by
  cases s <;> cases s' <;> simp [shapeCompat]
  simpa using confDims_compat d _ _ h h'

theorem common_value_compat : (v : RtVal) → (a b : Ty) → v.witness = true →
    conforms v a → conforms v b → compat a b = true
  | _, .any, _, _, _, _ => by simp [compat]
  | _, .tensor _ _, .any, _, _, _ => by simp [compat]
  | _, .seq _, .any, _, _, _ => by simp [compat]
  | _, .opt _, .any, _, _, _ => by simp [compat]
  | .tensor e d, .tensor ea sa, .tensor eb sb, _, ha, hb => by
    simp only [conforms] at ha hb
    simp [compat, ← ha.1, ← hb.1, confShape_compat d sa sb ha.2 hb.2]
  | .cons x xs, .seq a, .seq b, hw, ha, hb => by
    simp only [conforms] at ha hb
    simp only [RtVal.witness] at hw
    simpa [compat] using common_value_compat x a b hw ha.1 hb.1
  | .some x, .opt a, .opt b, hw, ha, hb => by
    simp only [conforms] at ha hb
    simp only [RtVal.witness] at hw
    simpa [compat] using common_value_compat x a b hw ha hb
  | .nil, .tensor _ _, .tensor _ _, hw, _, _ => by simp [RtVal.witness] at hw
  | .nil, .tensor _ _, .seq _, hw, _, _ => by simp [RtVal.witness] at hw
  | .nil, .tensor _ _, .opt _, hw, _, _ => by simp [RtVal.witness] at hw
  | .nil, .seq _, .tensor _ _, hw, _, _ => by simp [RtVal.witness] at hw
  | .nil, .seq _, .seq _, hw, _, _ => by simp [RtVal.witness] at hw
  | .nil, .seq _, .opt _, hw, _, _ => by simp [RtVal.witness] at hw
  | .nil, .opt _, .tensor _ _, hw, _, _ => by simp [RtVal.witness] at hw
  | .nil, .opt _, .seq _, hw, _, _ => by simp [RtVal.witness] at hw
  | .nil, .opt _, .opt _, hw, _, _ => by simp [RtVal.witness] at hw
  | .none, .tensor _ _, .tensor _ _, hw, _, _ => by simp [RtVal.witness] at hw
  | .none, .tensor _ _, .seq _, hw, _, _ => by simp [RtVal.witness] at hw
  | .none, .tensor _ _, .opt _, hw, _, _ => by simp [RtVal.witness] at hw
  | .none, .seq _, .tensor _ _, hw, _, _ => by simp [RtVal.witness] at hw
  | .none, .seq _, .seq _, hw, _, _ => by simp [RtVal.witness] at hw
  | .none, .seq _, .opt _, hw, _, _ => by simp [RtVal.witness] at hw
  | .none, .opt _, .tensor _ _, hw, _, _ => by simp [RtVal.witness] at hw
  | .none, .opt _, .seq _, hw, _, _ => by simp [RtVal.witness] at hw
  | .none, .opt _, .opt _, hw, _, _ => by simp [RtVal.witness] at hw
  | .tensor _ _, .seq _, _, _, ha, _ => by simp [conforms] at ha
  | .tensor _ _, .opt _, _, _, ha, _ => by simp [conforms] at ha
  | .tensor _ _, .tensor _ _, .seq _, _, _, hb => by simp [conforms] at hb
  | .tensor _ _, .tensor _ _, .opt _, _, _, hb => by simp [conforms] at hb
  | .cons _ _, .tensor _ _, _, _, ha, _ => by simp [conforms] at ha
  | .cons _ _, .opt _, _, _, ha, _ => by simp [conforms] at ha
  | .cons _ _, .seq _, .tensor _ _, _, _, hb => by simp [conforms] at hb
  | .cons _ _, .seq _, .opt _, _, _, hb => by simp [conforms] at hb
  | .some _, .tensor _ _, _, _, ha, _ => by simp [conforms] at ha
  | .some _, .seq _, _, _, ha, _ => by simp [conforms] at ha
  | .some _, .opt _, .tensor _ _, _, _, hb => by simp [conforms] at hb
  | .some _, .opt _, .seq _, _, _, hb => by simp [conforms] at hb

/-! ### ONNX round trip -/

theorem dim_roundtrip (d : Natural) : Natural.fromOnnx (Natural.toOnnx d) = d := by
  cases d with
  | const n => rfl
  | unk l =>
    by_cases h : l = ""
    · simp [Natural.toOnnx, Natural.fromOnnx, h]
    · simp [Natural.toOnnx, Natural.fromOnnx, h]

theorem dims_roundtrip (l : List Natural) : (l.map Natural.toOnnx).map Natural.fromOnnx = l := by
  induction l with
  | nil => rfl
  | cons d ds ih => simp [dim_roundtrip, ih]

theorem shape_roundtrip (s : Shape) :
    (s.map (·.map Natural.toOnnx)).map (·.map Natural.fromOnnx) = s := by
  cases s with
  | none => rfl
  | some l => simp only [Option.map_some, dims_roundtrip]

/-- element classes survive `dtype_to_tensor_type` followed by `tensor_type_to_dtype` + `Tensor(...)` -/
def ElemRoundtrip (tbl : DtypeTable) (ok : Nat → Bool) : Prop :=
  ∀ e, ok e = true → ∃ c, tbl.toCode e = some c ∧ tbl.ofCode c = some e

theorem roundtrip_of (tbl : DtypeTable) (ok : Nat → Bool) (h : ElemRoundtrip tbl ok) :
    (t : Ty) → t.anyFree = true → t.allElems ok = true →
      ∃ p, toOnnx tbl t = some p ∧ fromOnnx tbl p = some t
  | .any, haf, _ => by simp [Ty.anyFree] at haf
  | .tensor e s, _, hok => by
    obtain ⟨c, h1, h2⟩ := h e hok
    refine ⟨.tensor c (s.map (·.map Natural.toOnnx)), by simp [toOnnx, h1], ?_⟩
    simp only [fromOnnx, h2, Option.map_some, shape_roundtrip]
  | .seq t, haf, hok => by
    obtain ⟨p, h1, h2⟩ := roundtrip_of tbl ok h t haf hok
    exact ⟨.seq p, by simp [toOnnx, h1], by simp [fromOnnx, h2]⟩
  | .opt t, haf, hok => by
    obtain ⟨p, h1, h2⟩ := roundtrip_of tbl ok h t haf hok
    exact ⟨.opt p, by simp [toOnnx, h1], by simp [fromOnnx, h2]⟩

/-! ### broadcasting -/

theorem npElem_comm (a b : Nat) : npElem a b = npElem b a := by
  grind [npElem]

theorem npZip_comm : (a b : List Nat) → npZip a b = npZip b a
  | [], [] => rfl
  | [], _ :: _ => rfl
  | _ :: _, [] => rfl
  | x :: xs, y :: ys => by
    simp only [npZip, npElem_comm x y, npZip_comm xs ys]

theorem bElem_sound (x y z : Natural) (a b c : Nat)
    (h : bElem x y = some z) (ha : conf a x) (hb : conf b y) (hc : npElem a b = some c) : conf c z := by
  cases x <;> cases y <;> grind [bElem, npElem, conf]

theorem bElem_none (x y : Natural) (a b : Nat)
    (h : bElem x y = none) (ha : conf a x) (hb : conf b y) : npElem a b = none := by
  cases x <;> cases y <;> grind [bElem, npElem, conf]

theorem bElem_known (a b : Nat) : bElem (.const a) (.const b) = (npElem a b).map Natural.const := by
  grind [bElem, npElem]

theorem confDims_length : (s : List Nat) → (a : List Natural) → confDims s a → s.length = a.length
  | [], [], _ => rfl
  | [], _ :: _, h => by simp [confDims] at h
  | _ :: _, [], h => by simp [confDims] at h
  | _ :: ns, _ :: ds, h => by
    simp only [confDims] at h
    simp [confDims_length ns ds h.2]

theorem bZip_sound : (xa xb : List Natural) → (sa sb : List Nat) → (zc : List Natural) → (s : List Nat) →
    confDims sa xa → confDims sb xb → bZip xa xb = some zc → npZip sa sb = some s → confDims s zc
  | [], [], [], [], zc, s, _, _, hz, hs => by
    simp [bZip] at hz; simp [npZip] at hs; subst hz; subst hs; simp [confDims]
  | [], _ :: _, [], _ :: _, _, _, _, _, _, hs => by simp [npZip] at hs
  | _ :: _, [], _ :: _, [], _, _, _, _, _, hs => by simp [npZip] at hs
  | [], _, _ :: _, _, _, _, ha, _, _, _ => by simp [confDims] at ha
  | _ :: _, _, [], _, _, _, ha, _, _, _ => by simp [confDims] at ha
  | _, [], _, _ :: _, _, _, _, hb, _, _ => by simp [confDims] at hb
  | _, _ :: _, _, [], _, _, _, hb, _, _ => by simp [confDims] at hb
  | x :: xs, y :: ys, a :: as, b :: bs, zc, s, ha, hb, hz, hs => by
    simp only [confDims] at ha hb
    simp only [bZip] at hz
    simp only [npZip] at hs
    cases hxy : bElem x y with
    | none => simp [hxy] at hz
    | some z =>
      cases hab : npElem a b with
      | none => simp [hab] at hs
      | some c =>
        simp only [hxy, Option.map_eq_some_iff] at hz
        simp only [hab, Option.map_eq_some_iff] at hs
        obtain ⟨zs, hzs, rfl⟩ := hz
        obtain ⟨cs, hcs, rfl⟩ := hs
        exact ⟨bElem_sound x y z a b c hxy ha.1 hb.1 hab, bZip_sound xs ys as bs zs cs ha.2 hb.2 hzs hcs⟩

theorem bZip_none : (xa xb : List Natural) → (sa sb : List Nat) →
    confDims sa xa → confDims sb xb → bZip xa xb = none → npZip sa sb = none
  | [], _, _, _, _, _, hz => by simp [bZip] at hz
  | _ :: _, [], _, _, _, _, hz => by simp [bZip] at hz
  | _ :: _, _ :: _, [], _, ha, _, _ => by simp [confDims] at ha
  | _ :: _, _ :: _, _ :: _, [], _, hb, _ => by simp [confDims] at hb
  | x :: xs, y :: ys, a :: as, b :: bs, ha, hb, hz => by
    simp only [confDims] at ha hb
    simp only [bZip] at hz
    simp only [npZip]
    cases hxy : bElem x y with
    | none => simp [bElem_none x y a b hxy ha.1 hb.1]
    | some z =>
      simp only [hxy, Option.map_eq_none_iff] at hz
      have := bZip_none xs ys as bs ha.2 hb.2 hz
      cases npElem a b <;> simp [this]

theorem bZip_known : (a b : List Nat) → a.length = b.length →
    bZip (a.map .const) (b.map .const) = (npZip a b).map (·.map Natural.const)
  | [], [], _ => rfl
  | [], _ :: _, h => by simp at h
  | _ :: _, [], h => by simp at h
  | x :: xs, y :: ys, h => by
    simp only [List.length_cons, Nat.add_right_cancel_iff] at h
    simp only [List.map_cons, bZip, npZip, bElem_known, bZip_known xs ys h]
    cases npElem x y <;> simp
    cases npZip xs ys <;> simp

theorem confDims_pad (k : Nat) (s : List Nat) (a : List Natural) (h : confDims s a) :
    confDims (List.replicate k 1 ++ s) (List.replicate k (.const 1) ++ a) := by
  induction k with
  | zero => simpa using h
  | succ k ih => simp [List.replicate_succ, confDims, conf, ih]

/-! ### the simple format -/

theorem dim_simple_roundtrip (d : Natural) : Natural.fromSimple (Natural.toSimple d) = d := by
  cases d with
  | const n => rfl
  | unk l =>
    by_cases h : l = ""
    · simp [Natural.toSimple, Natural.fromSimple, h]
    · simp [Natural.toSimple, Natural.fromSimple, h]

theorem dims_simple_roundtrip (l : List Natural) :
    (l.map Natural.toSimple).map Natural.fromSimple = l := by
  induction l with
  | nil => rfl
  | cons d ds ih => simp [dim_simple_roundtrip, ih]

theorem shape_simple_roundtrip (s : Shape) : Shape.fromSimple (Shape.toSimple s) = s := by
  cases s with
  | none => rfl
  | some l => simp only [Shape.fromSimple, Shape.toSimple, Option.map_some, dims_simple_roundtrip]

/-! ### both operand orders -/

theorem bElem_comm (x y : Natural) : bElem x y = bElem y x := by
  cases x <;> cases y <;> grind [bElem]

theorem bZip_comm : (a b : List Natural) → bZip a b = bZip b a
  | [], [] => rfl
  | [], _ :: _ => rfl
  | _ :: _, [] => rfl
  | x :: xs, y :: ys => by
    simp only [bZip, bElem_comm x y, bZip_comm xs ys]

theorem broadcast_comm (a b : Shape) : broadcast a b = broadcast b a := by
  cases a with
  | none => cases b <;> rfl
  | some xa =>
    cases b with
    | none => rfl
    | some xb =>
      simp only [broadcast]
      by_cases h1 : xa.length > xb.length
      · have h2 : ¬ xb.length > xa.length := by omega
        simp [h1, h2]
      · by_cases h2 : xb.length > xa.length
        · simp [h1, h2]
        · have he : xa.length = xb.length := by omega
          simp [he, bZip_comm xa xb]

/-! ### rank of the result -/

theorem bZip_length : (a b c : List Natural) → bZip a b = some c → c.length = min a.length b.length
  | [], _, c, h => by simp [bZip] at h; subst h; simp
  | _ :: _, [], c, h => by simp [bZip] at h; subst h; simp
  | x :: xs, y :: ys, c, h => by
    simp only [bZip] at h
    cases hxy : bElem x y with
    | none => simp [hxy] at h
    | some z =>
      simp only [hxy, Option.map_eq_some_iff] at h
      obtain ⟨zs, hzs, rfl⟩ := h
      have := bZip_length xs ys zs hzs
      simp only [List.length_cons, this]
      omega

theorem broadcast_rank (a b c : List Natural) (h : broadcast (some a) (some b) = some (some c)) :
    c.length = max a.length b.length := by
  simp only [broadcast] at h
  by_cases hgt : a.length > b.length
  · simp only [hgt, if_true, Option.map_eq_some_iff, Option.some.injEq] at h
    obtain ⟨zc, hz, rfl⟩ := h
    have := bZip_length _ _ _ hz
    simp only [List.length_append, List.length_replicate] at this
    omega
  · simp only [hgt, if_false, Option.map_eq_some_iff, Option.some.injEq] at h
    obtain ⟨zc, hz, rfl⟩ := h
    have := bZip_length _ _ _ hz
    simp only [List.length_append, List.length_replicate] at this
    omega

end Types
