import SpoxModel.Lemmas.BuildAlgEmit
/-!
# Argument lists of the compiled graphs are pairwise disjoint (round 10)

The compile walk introduces the arguments of every graph it enters into ONE flat `Scope`
(`argStep`: a second introduction is a `ScopeError`). Invariant `ArgsSeg` of a piece `new` of the
walk, through the nested `foldE`/fuel recursion of `compileG`:

* every graph entered in the piece had all its `arguments_of` introduced during the piece
  (they are in the scope afterwards and were not before);
* two different graphs entered in the piece have disjoint `arguments_of`;
* every node emitted in the piece had all its bodies entered in the piece.

From it `C04.shared_argument_rejected`: a program in which two reachable graphs request the same
Argument is never built (whether `discover`'s "already claimed" test or the `ScopeError` fires).
-/
set_option linter.unusedSectionVars false
set_option linter.unusedVariables false
namespace BuildAlg

def ArgsSeg (p : Prog) (b : Built) (c c' : CState) (new : List Ev) : Prop :=
  c'.trace = new ++ c.trace ∧
  (∀ x ∈ c.intro, x ∈ c'.intro) ∧
  (∀ g, Ev.enter g ∈ new → ∀ a ∈ lookupL b.argsOf g, V.node a ∈ c'.intro ∧ V.node a ∉ c.intro) ∧
  (∀ g1 g2, Ev.enter g1 ∈ new → Ev.enter g2 ∈ new → g1 ≠ g2 →
      ∀ a ∈ lookupL b.argsOf g1, a ∉ lookupL b.argsOf g2) ∧
  (∀ n, Ev.emit (.node n) ∈ new → ∀ s ∈ p.subs n, Ev.enter s ∈ new)

def ArgsRel (p : Prog) (b : Built) (c c' : CState) : Prop := ∃ new, ArgsSeg p b c c' new

theorem ArgsSeg.refl (p : Prog) (b : Built) (c : CState) : ArgsSeg p b c c [] :=
  ⟨by simp, fun _ h => h, by simp, by simp, by simp⟩

theorem ArgsSeg.trans {p : Prog} {b : Built} {c0 c1 c2 : CState} {n1 n2 : List Ev}
    (h1 : ArgsSeg p b c0 c1 n1) (h2 : ArgsSeg p b c1 c2 n2) : ArgsSeg p b c0 c2 (n2 ++ n1) := by
  obtain ⟨t1, m1, a1, d1, e1⟩ := h1
  obtain ⟨t2, m2, a2, d2, e2⟩ := h2
  refine ⟨by rw [t2, t1, List.append_assoc], fun x hx => m2 x (m1 x hx), ?_, ?_, ?_⟩
  · intro g hg a ha
    rcases List.mem_append.mp hg with hg | hg
    · obtain ⟨x, y⟩ := a2 g hg a ha
      exact ⟨x, fun hc => y (m1 _ hc)⟩
    · obtain ⟨x, y⟩ := a1 g hg a ha
      exact ⟨m2 _ x, y⟩
  · intro g1 g2 hg1 hg2 hne a ha1 ha2
    rcases List.mem_append.mp hg1 with hg1 | hg1 <;> rcases List.mem_append.mp hg2 with hg2 | hg2
    · exact d2 g1 g2 hg1 hg2 hne a ha1 ha2
    · exact (a2 g1 hg1 a ha1).2 (a1 g2 hg2 a ha2).1
    · exact (a2 g2 hg2 a ha2).2 (a1 g1 hg1 a ha1).1
    · exact d1 g1 g2 hg1 hg2 hne a ha1 ha2
  · intro n hn s hs
    rcases List.mem_append.mp hn with hn | hn
    · exact List.mem_append.mpr (.inl (e2 n hn s hs))
    · exact List.mem_append.mpr (.inr (e1 n hn s hs))

theorem ArgsRel.refl (p : Prog) (b : Built) (c : CState) : ArgsRel p b c c := ⟨[], ArgsSeg.refl p b c⟩
theorem ArgsRel.trans {p : Prog} {b : Built} {c0 c1 c2 : CState} (h1 : ArgsRel p b c0 c1)
    (h2 : ArgsRel p b c1 c2) : ArgsRel p b c0 c2 := by
  obtain ⟨n1, s1⟩ := h1
  obtain ⟨n2, s2⟩ := h2
  exact ⟨n2 ++ n1, s1.trans s2⟩

/-- the argument loop of `compile_graph`: only `arg` events, every listed argument is new -/
theorem argFold_spec : ∀ (l : List Nat) (c c' : CState), foldE argStep c l = .ok c' →
    (∀ x ∈ c.intro, x ∈ c'.intro) ∧
    (∃ new, c'.trace = new ++ c.trace ∧ ∀ e ∈ new, ∃ a, e = Ev.arg a) ∧
    ∀ a ∈ l, V.node a ∈ c'.intro ∧ V.node a ∉ c.intro := by
  intro l
  induction l with
  | nil =>
    intro c c' h
    simp only [foldE] at h
    cases h
    exact ⟨fun _ h => h, ⟨[], by simp, by simp⟩, by simp⟩
  | cons a l ih =>
    intro c c' h
    simp only [foldE] at h
    split at h
    · cases h
    · rename_i c1 h1
      unfold argStep at h1
      split at h1
      · cases h1
      · rename_i hni
        cases h1
        obtain ⟨m, ⟨new, t, hn⟩, ha⟩ := ih _ c' h
        refine ⟨fun x hx => m x (List.mem_cons_of_mem _ hx), ⟨new ++ [Ev.arg a], by simp [t], ?_⟩, ?_⟩
        · intro e he
          rcases List.mem_append.mp he with he | he
          · exact hn e he
          · exact ⟨a, by simpa using he⟩
        · intro x hx
          rcases List.mem_cons.mp hx with hx | hx
          · subst hx
            exact ⟨m _ (List.mem_cons_self), hni⟩
          · obtain ⟨y, z⟩ := ha x hx
            exact ⟨y, fun hc => z (List.mem_cons_of_mem _ hc)⟩

/-- the loop over the bodies of a node -/
theorem args_subs (p : Prog) (b : Built) (rec : Nat → CState → Except Err CState)
    (hrec : ∀ sub c c', rec sub c = .ok c' → ∃ new, ArgsSeg p b c c' new ∧ Ev.enter sub ∈ new) :
    ∀ (subs : List Nat) (cs cs' : CState), foldE (fun c sub => rec sub c) cs subs = .ok cs' →
      ∃ new, ArgsSeg p b cs cs' new ∧ ∀ s ∈ subs, Ev.enter s ∈ new := by
  intro subs
  induction subs with
  | nil =>
    intro cs cs' h
    simp only [foldE] at h
    cases h
    exact ⟨[], ArgsSeg.refl p b cs, by simp⟩
  | cons s ss ih =>
    intro cs cs' h
    simp only [foldE] at h
    split at h
    · cases h
    · rename_i c1 h1
      obtain ⟨n1, s1, e1⟩ := hrec s cs c1 h1
      obtain ⟨n2, s2, e2⟩ := ih c1 cs' h
      refine ⟨n2 ++ n1, s1.trans s2, ?_⟩
      intro x hx
      rcases List.mem_cons.mp hx with hx | hx
      · subst hx; exact List.mem_append.mpr (.inr e1)
      · exact List.mem_append.mpr (.inl (e2 x hx))

theorem args_emitStep (p : Prog) (b : Built) (rec : Nat → CState → Except Err CState)
    (hrec : ∀ sub c c', rec sub c = .ok c' → ∃ new, ArgsSeg p b c c' new ∧ Ev.enter sub ∈ new)
    (cs cs' : CState) (v : V) (h : emitStep p rec cs v = .ok cs') : ArgsRel p b cs cs' := by
  unfold emitStep at h
  split at h
  · cases h
  · simp only at h
    split at h
    · cases v with
      | node n =>
        simp only at h
        obtain ⟨n2, ⟨t2, m2, a2, d2, e2⟩, hs2⟩ := args_subs p b rec hrec (p.subs n) _ cs' h
        refine ⟨n2 ++ [Ev.emit (.node n)], by simp [t2], ?_, ?_, ?_, ?_⟩
        · intro x hx; exact m2 x (List.mem_cons_of_mem _ hx)
        · intro g hg a ha
          have hg' : Ev.enter g ∈ n2 := by
            rcases List.mem_append.mp hg with hg | hg
            · exact hg
            · simp at hg
          obtain ⟨x, y⟩ := a2 g hg' a ha
          exact ⟨x, fun hc => y (List.mem_cons_of_mem _ hc)⟩
        · intro g1 g2 hg1 hg2 hne a ha1
          have h1' : Ev.enter g1 ∈ n2 := by
            rcases List.mem_append.mp hg1 with hg | hg
            · exact hg
            · simp at hg
          have h2' : Ev.enter g2 ∈ n2 := by
            rcases List.mem_append.mp hg2 with hg | hg
            · exact hg
            · simp at hg
          exact d2 g1 g2 h1' h2' hne a ha1
        · intro m hm s hs
          rcases List.mem_append.mp hm with hm | hm
          · exact List.mem_append.mpr (.inl (e2 m hm s hs))
          · have : m = n := by simpa using hm
            subst this
            exact List.mem_append.mpr (.inl (hs2 s hs))
      | src s =>
        simp only at h
        cases h
        exact ⟨[Ev.emit (.src s)], by simp, fun x hx => List.mem_cons_of_mem _ hx, by simp, by simp, by simp⟩
    · cases h

theorem args_compileG (p : Prog) (b : Built) : ∀ (fuel g : Nat) (cs cs' : CState),
    compileG p b fuel g cs = .ok cs' → ∃ new, ArgsSeg p b cs cs' new ∧ Ev.enter g ∈ new := by
  intro fuel
  induction fuel with
  | zero => intro g cs cs' h; simp [compileG] at h
  | succ fuel ih =>
    intro g cs cs' h
    simp only [compileG] at h
    split at h
    · cases h
    · rename_i cs1 h1
      split at h
      · cases h
      · rename_i cs2 h2
        split at h
        · cases h
          obtain ⟨mA, ⟨nA, tA, hA⟩, aA⟩ := argFold_spec _ _ _ h1
          have r2 : ArgsRel p b cs1 cs2 :=
            foldE_rel (ArgsRel p b) (ArgsRel.refl p b) (fun _ _ _ => ArgsRel.trans) _ _ _
              (fun v _ c c' hc => args_emitStep p b (compileG p b fuel) ih c c' v hc) h2
          obtain ⟨nE, tE, mE, aE, dE, eE⟩ := r2
          have hsplit : ∀ g', Ev.enter g' ∈ Ev.leave g :: (nE ++ (nA ++ [Ev.enter g])) →
              Ev.enter g' ∈ nE ∨ g' = g := by
            intro g' hg'
            rcases List.mem_cons.mp hg' with hg' | hg'
            · cases hg'
            · rcases List.mem_append.mp hg' with hg' | hg'
              · exact .inl hg'
              · rcases List.mem_append.mp hg' with hg' | hg'
                · obtain ⟨a, ha⟩ := hA _ hg'
                  cases ha
                · right
                  have : Ev.enter g' = Ev.enter g := by simpa using hg'
                  cases this; rfl
          refine ⟨Ev.leave g :: (nE ++ (nA ++ [Ev.enter g])), ⟨?_, ?_, ?_, ?_, ?_⟩, by simp⟩
          · simp [tE, tA]
          · intro x hx; exact mE x (mA x hx)
          · intro g' hg' a ha
            rcases hsplit g' hg' with hg' | hg'
            · obtain ⟨x, y⟩ := aE g' hg' a ha
              exact ⟨x, fun hc => y (mA _ hc)⟩
            · subst hg'
              obtain ⟨x, y⟩ := aA a ha
              exact ⟨mE _ x, y⟩
          · intro g1 g2 hg1 hg2 hne a ha1 ha2
            rcases hsplit g1 hg1 with k1 | k1
            · rcases hsplit g2 hg2 with k2 | k2
              · exact dE g1 g2 k1 k2 hne a ha1 ha2
              · rw [k2] at ha2
                exact (aE g1 k1 a ha1).2 (aA a ha2).1
            · rcases hsplit g2 hg2 with k2 | k2
              · rw [k1] at ha1
                exact (aE g2 k2 a ha2).2 (aA a ha1).1
              · exact hne (k1.trans k2.symm)
          · intro n hn s hs
            have hn' : Ev.emit (.node n) ∈ nE := by
              rcases List.mem_cons.mp hn with hn | hn
              · cases hn
              · rcases List.mem_append.mp hn with hn | hn
                · exact hn
                · rcases List.mem_append.mp hn with hn | hn
                  · obtain ⟨a, ha⟩ := hA _ hn
                    cases ha
                  · simp at hn
            exact List.mem_cons_of_mem _ (List.mem_append.mpr (.inl (eE n hn' s hs)))
        · cases h

/-- an emitted vertex has an `emit` event -/
theorem emit_mem_of_emitted : ∀ (tr : List Ev) (v : V), v ∈ emitted tr → Ev.emit v ∈ tr := by
  intro tr
  induction tr with
  | nil => intro v h; simp [emitted] at h
  | cons e tr ih =>
    intro v h
    cases e with
    | emit w =>
      simp only [emitted, List.mem_cons] at h
      rcases h with h | h
      · subst h; exact List.mem_cons_self
      · exact List.mem_cons_of_mem _ (ih v h)
    | enter g => exact List.mem_cons_of_mem _ (ih v (by simpa [emitted] using h))
    | leave g => exact List.mem_cons_of_mem _ (ih v (by simpa [emitted] using h))
    | arg a => exact List.mem_cons_of_mem _ (ih v (by simpa [emitted] using h))

end BuildAlg
