import SpoxModel.Model.Tensor
/-! Word-level lemmas behind C10 `roundtrip`: sign extension followed by truncation is the identity
on in-range patterns, for every width; quietening is idempotent and only touches signalling NaNs. -/
namespace Tensor

theorem ofInt_toSigned_8 (w : Nat) (h : w < 2 ^ 8) : ofInt 8 (toSigned 8 w) = w := by
  unfold ofInt toSigned; split <;> omega
theorem ofInt_toSigned_16 (w : Nat) (h : w < 2 ^ 16) : ofInt 32 (toSigned 16 w) % 2 ^ 16 = w := by
  unfold ofInt toSigned; split <;> omega
theorem ofInt_toSigned_32 (w : Nat) (h : w < 2 ^ 32) : ofInt 32 (toSigned 32 w) = w := by
  unfold ofInt toSigned; split <;> omega
theorem ofInt_toSigned_64 (w : Nat) (h : w < 2 ^ 64) : ofInt 64 (toSigned 64 w) = w := by
  unfold ofInt toSigned; split <;> omega

theorem ofInt_nat_16 (w : Nat) (h : w < 2 ^ 16) : ofInt 32 (w : Int) % 2 ^ 16 = w := by
  unfold ofInt; omega
theorem ofInt_nat_8 (w : Nat) (h : w < 2 ^ 8) : ofInt 8 (w : Int) = w := by
  unfold ofInt; omega
theorem ofInt_nat_bool (w : Nat) (h : w < 2 ^ 1) : ofInt 32 (w : Int) % 2 ^ 8 = w := by
  unfold ofInt; omega

/-- A negative int8/int16 really is stored as a negative `int32_data` entry (sign extension). -/
theorem toSigned_neg (w : Nat) (h1 : 2 ^ 15 ≤ w) (h2 : w < 2 ^ 16) : toSigned 16 w = (w : Int) - 65536 := by
  unfold toSigned; split <;> omega

theorem quiet32_idem (q : Bool) (w : Nat) : quiet32 q (quiet32 q w) = quiet32 q w := by
  unfold quiet32
  by_cases h : (q && isNaN32 w && !quietBit32 w) = true
  · simp only [h, if_true]
    have : quietBit32 (w + 2 ^ 22) = true := by
      simp only [Bool.and_eq_true, Bool.not_eq_true'] at h
      have hq := h.2
      simp only [quietBit32, beq_eq_false_iff_ne, ne_eq, beq_iff_eq] at hq ⊢
      omega
    simp [this]
  · simp [h]

/-- `quiet32` changes nothing but the quiet bit of a signalling NaN. -/
theorem quiet32_spec (q : Bool) (w : Nat) :
    quiet32 q w = w ∨ (isNaN32 w = true ∧ quietBit32 w = false ∧ quiet32 q w = w + 2 ^ 22) := by
  unfold quiet32
  by_cases h : (q && isNaN32 w && !quietBit32 w) = true
  · right
    simp only [h, if_true]
    simp only [Bool.and_eq_true, Bool.not_eq_true'] at h
    exact ⟨h.1.2, h.2, trivial⟩
  · left; simp [h]

theorem quiet32_not_nan (q : Bool) (w : Nat) (h : isNaN32 w = false) : quiet32 q w = w := by
  simp [quiet32, h]

theorem quiet32_off (w : Nat) : quiet32 false w = w := by simp [quiet32]

theorem decodeStr_encodeStr (cs : List Char) : decodeStr (encodeStr cs) = some cs := by
  unfold decodeStr encodeStr
  have h : (String.ofList cs).toUTF8.IsValidUTF8 := (String.ofList cs).isValidUTF8
  have e : String.fromUTF8 (String.ofList cs).toUTF8 h = String.ofList cs := rfl
  simp only [String.fromUTF8?, dif_pos h, e, Option.map_some, String.toList_ofList]

theorem mapM_decode_encode (ss : List (List Char)) :
    (ss.map encodeStr).mapM decodeStr = some ss := by
  induction ss with
  | nil => rfl
  | cons s ss ih => simp [List.mapM_cons, decodeStr_encodeStr, ih]


/-! Raw storage: little-endian bytes. -/
theorem length_toLE (n w : Nat) : (toLE n w).length = n := by
  induction n generalizing w with
  | zero => rfl
  | succ n ih => simp [toLE, ih]

theorem fromLE_toLE (n w : Nat) : fromLE (toLE n w) = w % 256 ^ n := by
  induction n generalizing w with
  | zero => simp [toLE, fromLE, Nat.mod_one]
  | succ n ih =>
    simp only [toLE, fromLE, ih]
    rw [Nat.pow_succ, Nat.mul_comm (256 ^ n) 256, Nat.mod_mul]

theorem decodeRaw_encodeRaw (nb : Nat) (ws : List Nat) (h : ∀ w ∈ ws, w < 256 ^ nb) :
    decodeRaw nb ws.length (encodeRaw nb ws) = ws := by
  induction ws with
  | nil => rfl
  | cons w ws ih =>
    have hw := h w (by simp)
    have ih' := ih (fun x hx => h x (by simp [hx]))
    simp only [encodeRaw, List.flatMap_cons, List.length_cons, decodeRaw] at ih' ⊢
    rw [List.take_left' (length_toLE nb w), List.drop_left' (length_toLE nb w), fromLE_toLE,
      Nat.mod_eq_of_lt hw]
    exact congrArg _ ih'

theorem length_encodeRaw (nb : Nat) (ws : List Nat) : (encodeRaw nb ws).length = nb * ws.length := by
  induction ws with
  | nil => simp [encodeRaw]
  | cons w ws ih =>
    simp only [encodeRaw, List.flatMap_cons, List.length_append, length_toLE, List.length_cons] at ih ⊢
    rw [ih, Nat.mul_succ, Nat.add_comm]

end Tensor
