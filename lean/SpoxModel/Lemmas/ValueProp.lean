import SpoxModel.Model.ValueProp
/-! Helper lemmas about the value-propagation model (C07, C15). -/
namespace VP

theorem DT.norm_idem (d : DT) : d.norm.norm = d.norm := by cases d <;> rfl

theorem dimLe_conf {n : Nat} {d : Dim} (h : dimLe n d = true) : dimConf n d := by
  cases d with
  | const m => simpa [dimLe, dimConf] using h
  | unk => trivial

theorem dimsLe_conf : ∀ {sh : List Nat} {ds : List Dim}, dimsLe sh ds = true → dimsConf sh ds
  | [], [], _ => trivial
  | n :: ns, d :: ds, h => by
    simp only [dimsLe, Bool.and_eq_true] at h
    exact ⟨dimLe_conf h.1, dimsLe_conf h.2⟩
  | [], _ :: _, h => by simp [dimsLe] at h
  | _ :: _, [], h => by simp [dimsLe] at h

theorem shapeLe_conf {sh : List Nat} {s : Shape} (h : shapeLe sh s = true) : shapeConf sh s := by
  cases s with
  | none => trivial
  | some ds => exact dimsLe_conf h

theorem dtMatch_conf {v e : DT} (h : dtMatch v e = true) : dtConf v e := by
  simp only [dtMatch, Bool.or_eq_true, Bool.and_eq_true, beq_iff_eq] at h
  rcases h with ⟨h1, h2⟩ | h
  · exact Or.inr ⟨h1, h2⟩
  · exact Or.inl (by rw [h])

/-- The ordered evaluation computes "shape fits and dtype matches". -/
theorem checkTensor_eq (e : DT) (s : Shape) (dt : DT) (sh : List Nat) :
    checkTensor e s dt sh = (shapeLe sh s && dtMatch dt e) := by
  unfold checkTensor dtMatch
  cases shapeLe sh s <;> cases dt <;> cases e <;> rfl

theorem checkTensorLoose_eq (e : DT) (s : Shape) (dt : DT) (sh : List Nat) :
    checkTensorLoose e s dt sh = (shapeLe sh s && dtMatchLoose dt e) := by
  unfold checkTensorLoose dtMatchLoose
  cases shapeLe sh s <;> cases dt <;> cases e <;> rfl

/-- Conformance does not see the dtype normalisation of `PropValue.__post_init__`. -/
theorem conforms_normalise (t : Ty) (p : Payload) : conforms t p.normalise ↔ conforms t p := by
  cases p with
  | arr dt sh pid =>
    cases t with
    | tensor e s =>
      simp only [Payload.normalise, conforms, dtConf]
      cases dt <;> simp [DT.isNumber, DT.norm]
    | seq t => simp [Payload.normalise, conforms]
    | opt t => simp [Payload.normalise, conforms]
  | list xs => rfl
  | some v => rfl
  | none => rfl

/-- **`check` is sound** (fixed behaviour): whatever passes conforms, at every nesting level. -/
theorem checkRec_sound : ∀ (t : Ty) (p : Payload), checkRec t p = true → conforms t p
  | .tensor e s, .arr dt sh pid, h => by
    simp only [checkRec, checkTensor_eq, Bool.and_eq_true] at h
    exact ⟨dtMatch_conf h.2, shapeLe_conf h.1⟩
  | .tensor _ _, .list _, h => by simp [checkRec] at h
  | .tensor _ _, .some _, h => by simp [checkRec] at h
  | .tensor _ _, .none, h => by simp [checkRec] at h
  | .seq t, .list xs, h => by
    simp only [checkRec, List.all_eq_true, Bool.and_eq_true] at h
    intro x hx
    have := checkRec_sound t _ (h x hx).2
    exact (conforms_normalise t x.value).mp this
  | .seq _, .arr _ _ _, h => by simp [checkRec] at h
  | .seq _, .some _, h => by simp [checkRec] at h
  | .seq _, .none, h => by simp [checkRec] at h
  | .opt _, .none, _ => trivial
  | .opt t, .some x, h => by
    simp only [checkRec] at h
    have := checkRec_sound t _ h
    exact (conforms_normalise t x.value).mp this
  | .opt _, .arr _ _ _, h => by simp [checkRec] at h
  | .opt _, .list _, h => by simp [checkRec] at h

/-- For non-string tensor types the pinned `check` was already sound. -/
theorem checkShallow_sound_tensor (e : DT) (s : Shape) (p : Payload) (he : e ≠ .str)
    (h : checkShallow (.tensor e s) p = true) : conforms (.tensor e s) p := by
  cases p with
  | arr dt sh pid =>
    simp only [checkShallow, checkTensorLoose_eq, Bool.and_eq_true] at h
    refine ⟨?_, shapeLe_conf h.1⟩
    have h2 := h.2
    simp only [dtMatchLoose, Bool.or_eq_true, Bool.and_eq_true, beq_iff_eq] at h2
    rcases h2 with ⟨_, h3⟩ | h3
    · exact absurd h3 he
    · exact Or.inl (by rw [h3])
  | list xs => simp [checkShallow] at h
  | some v => simp [checkShallow] at h
  | none => simp [checkShallow] at h

/-! ### dicts -/

theorem dictGet_dictSet_self {α β} [DecidableEq α] (d : List (α × β)) (k : α) (v : β) :
    dictGet (dictSet d k v) k = some v := by
  induction d with
  | nil => simp [dictSet, dictGet]
  | cons p rest ih =>
    obtain ⟨k', v'⟩ := p
    by_cases hk : k' = k
    · simp [dictSet, dictGet, hk]
    · simp [dictSet, dictGet, hk, ih]

theorem dictGet_dictSet_other {α β} [DecidableEq α] (d : List (α × β)) (k k2 : α) (v : β)
    (hne : k ≠ k2) : dictGet (dictSet d k v) k2 = dictGet d k2 := by
  induction d with
  | nil => simp [dictSet, dictGet, hne]
  | cons p rest ih =>
    obtain ⟨k', v'⟩ := p
    by_cases hk : k' = k
    · subst hk; simp [dictSet, dictGet, hne]
    · by_cases hk2 : k' = k2
      · subst hk2; simp [dictSet, dictGet, hk]
      · simp [dictSet, dictGet, hk, hk2, ih]

end VP
