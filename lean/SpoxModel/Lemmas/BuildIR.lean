import SpoxModel.Model.BuildIR
/-! `pathsL` lists every execution of the IR (C02). -/
namespace BuildIR

mutual
theorem execS_mem (callee : Bool) : (s : Stmt) → (chk : List Nat) → (ch : List Bool) →
    (execS callee chk ch s).1 ∈ pathsS callee chk s
  | .assign v, chk, ch => by simp [execS, pathsS]
  | .assignCallee v, chk, ch => by simp [execS, pathsS]
  | .check v, chk, ch => by simp [execS, pathsS]
  | .touch v, chk, ch => by simp [execS, pathsS]
  | .ifKnown c body, chk, ch => by
    cases c
    · simp [execS, pathsS]
    · simpa [execS, pathsS] using execL_mem callee body chk ch
  | .ifUnknown t e, chk, ch => by
    simp only [pathsS, List.mem_append]
    match ch with
    | [] => exact Or.inl (by simpa [execS] using execL_mem callee t chk [])
    | true :: ch' => exact Or.inl (by simpa [execS] using execL_mem callee t chk ch')
    | false :: ch' => exact Or.inr (by simpa [execS] using execL_mem callee e chk ch')
  | .ret (some v), chk, ch => by simp [execS, pathsS]
  | .ret none, chk, ch => by simp [execS, pathsS]
  | .raise, chk, ch => by simp [execS, pathsS]
  | .other, chk, ch => by simp [execS, pathsS]
theorem execL_mem (callee : Bool) : (l : List Stmt) → (chk : List Nat) → (ch : List Bool) →
    (execL callee chk ch l).1 ∈ pathsL callee chk l
  | [], chk, ch => by simp [execL, pathsL]
  | s :: rest, chk, ch => by
    have hs := execS_mem callee s chk ch
    simp only [execL, pathsL]
    generalize execS callee chk ch s = r at hs
    obtain ⟨o, ch'⟩ := r
    rw [List.mem_flatMap]
    cases o with
    | fell c => exact ⟨_, hs, execL_mem callee rest c ch'⟩
    | returned ok => exact ⟨_, hs, by simp⟩
    | raised => exact ⟨_, hs, by simp⟩
end

/-- a safe body never returns an unchecked value, whatever the branch decisions -/
theorem safeBody_sound {callee : Bool} {body : List Stmt} (h : safeBody callee body = true)
    (ch : List Bool) : ∀ ok, (execL callee [] ch body).1 = .returned ok → ok = true := by
  intro ok hr
  have hm := execL_mem callee body [] ch
  rw [hr] at hm
  unfold safeBody allChecked at h
  have := List.all_eq_true.mp h _ hm
  simpa using this

/-- …and never falls off its end (which would return `None`) -/
theorem safeBody_no_fall {callee : Bool} {body : List Stmt} (h : safeBody callee body = true)
    (ch : List Bool) : ∀ c, (execL callee [] ch body).1 ≠ .fell c := by
  intro c hr
  have hm := execL_mem callee body [] ch
  rw [hr] at hm
  unfold safeBody allChecked at h
  have := List.all_eq_true.mp h _ hm
  simp at this

end BuildIR
