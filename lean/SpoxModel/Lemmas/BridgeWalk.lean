import SpoxModel.Lemmas.BridgeValid
/-! # Bridge: the induction along the compile walk -/
set_option linter.unusedSectionVars false
set_option linter.unusedVariables false
namespace Bridge
open BuildAlg

def mkENode (p : BuildAlg.Prog) (b : Built) (fuel : Nat) : V → Option Prog.ENode
  | .node n => some (Prog.ENode.mk n ((p.subs n).map (emitG p b fuel)))
  | .src _ => none

theorem emitG_succ (p : BuildAlg.Prog) (b : Built) (fuel g : Nat) :
    emitG p b (fuel + 1) g =
      .mk (lookupL b.argsOf g) ((ownNodes p b g).filterMap (mkENode p b fuel))
        ((p.results g).map toRef) := by
  simp only [emitG]
  first
    | rfl
    | (congr 1; congr 1; funext v; cases v <;> rfl)

section
variable (p : BuildAlg.Prog) (hwf : BuildAlg.WF p) (b : Built) (d : Nat → Nat)
  (F : BridgeFacts p b d)

def WalkG (fuel : Nat) : Prop :=
  ∀ g cs cs' st closed pending exc,
    WInv p b cs st closed pending exc → g ∈ b.graphTopo →
    (∀ w ∈ exc, V.node w ∈ b.topo ∧ g ∈ p.subs w) →
    ((st = [] ∧ g = 0) ∨ ∃ e rest, st = e :: rest ∧ parent b.owner b.scopeOf g = e.1 ∧ g ≠ 0) →
    compileG p b fuel g cs = .ok cs' →
    Prog.validG (toProg p b.argsOf).nodes (emitG p b fuel g) (toPGraph p b.argsOf g) (visOf st) = true ∧
    ∃ closed', WInv p b cs' st closed' pending exc ∧ (∀ c ∈ closed, c ∈ closed') ∧
      (∀ x ∈ cs.intro, x ∈ cs'.intro)

include hwf F

/-- the bodies of one node -/
theorem walk_subs (fuel : Nat) (hG : WalkG p b fuel) (n g : Nat) (items : List Nat) (st : Stack)
    (pending : List Nat) (hn : V.node n ∈ b.topo) (hsc : b.scopeOf.get (.node n) = some g) :
    ∀ (ss : List Nat), (∀ s ∈ ss, s ∈ p.subs n) → ∀ (cs cs' : CState) (closed : List Nat),
      WInv p b cs ((g, items) :: st) closed pending [n] →
      foldE (fun c s => compileG p b fuel s c) cs ss = .ok cs' →
      Prog.validSubs (toProg p b.argsOf).nodes (ss.map (emitG p b fuel))
        (ss.map (toPGraph p b.argsOf)) (visOf ((g, items) :: st)) = true ∧
      ∃ closed', WInv p b cs' ((g, items) :: st) closed' pending [n] ∧
        (∀ c ∈ closed, c ∈ closed') ∧ (∀ x ∈ cs.intro, x ∈ cs'.intro) := by
  intro ss
  induction ss with
  | nil =>
    intro _ cs cs' closed I h
    simp only [foldE] at h; cases h
    exact ⟨by simp [Prog.validSubs], closed, I, fun _ h => h, fun _ h => h⟩
  | cons s ss ih =>
    intro hss cs cs' closed I h
    simp only [foldE] at h
    cases hc : compileG p b fuel s cs with
    | error e => rw [hc] at h; cases h
    | ok c1 =>
      rw [hc] at h
      have hsn : s ∈ p.subs n := hss s List.mem_cons_self
      obtain ⟨hsgt, hs0⟩ := F.subIn n s hn hsn
      have hpar : parent b.owner b.scopeOf s = g := by
        simp only [parent, F.ownerU n s hn hsn, hsc, Option.getD_some]
      obtain ⟨v1, closed1, I1, m1, m1'⟩ := hG s cs c1 ((g, items) :: st) closed pending [n] I hsgt
        (fun w hw => by
          have : w = n := by simpa using hw
          subst this; exact ⟨hn, hsn⟩)
        (Or.inr ⟨(g, items), st, rfl, hpar, hs0⟩) hc
      obtain ⟨v2, closed2, I2, m2, m2'⟩ := ih (fun s' hs' => hss s' (List.mem_cons_of_mem _ hs'))
        c1 cs' closed1 I1 h
      refine ⟨?_, closed2, I2, fun c hc' => m2 c (m1 c hc'), fun x hx => m2' x (m1' x hx)⟩
      simp only [List.map_cons, Prog.validSubs, v1, v2, Bool.and_self]

/-- the own nodes of one graph -/
theorem walk_body (fuel : Nat) (hG : WalkG p b fuel) (g : Nat) (st : Stack) (pending : List Nat) :
    ∀ (vs : List V), (∀ v ∈ vs, v ∈ ownNodes p b g) → ∀ (cs cs' : CState) (items closed : List Nat),
      WInv p b cs ((g, items) :: st) closed pending [] →
      foldE (emitStep p (compileG p b fuel)) cs vs = .ok cs' →
      ∃ items' closed',
        Prog.validBody (toProg p b.argsOf).nodes (vs.filterMap (mkENode p b fuel))
          (visOf ((g, items) :: st)) = some (visOf ((g, items') :: st)) ∧
        WInv p b cs' ((g, items') :: st) closed' pending [] ∧
        (∀ c ∈ closed, c ∈ closed') ∧ (∀ x ∈ cs.intro, x ∈ cs'.intro) ∧
        (∀ v ∈ vs, ∀ u ∈ p.adjIn v, u ∈ cs'.intro) := by
  intro vs
  induction vs with
  | nil =>
    intro _ cs cs' items closed I h
    simp only [foldE] at h; cases h
    exact ⟨items, closed, by simp [Prog.validBody], I, fun _ h => h, fun _ h => h, by simp⟩
  | cons v vs ih =>
    intro hvs cs cs' items closed I h
    simp only [foldE] at h
    cases hs : emitStep p (compileG p b fuel) cs v with
    | error e => rw [hs] at h; cases h
    | ok c1 =>
      rw [hs] at h
      have hvown : v ∈ ownNodes p b g := hvs v List.mem_cons_self
      have hvf := List.mem_filter.mp hvown
      have hvso := List.mem_filter.mp hvf.1
      have hvtopo : v ∈ b.topo := hvso.1
      have hvscope : b.scopeOf.get v = some g := by simpa using hvso.2
      have hvna : v.isArgOf p = false := by simpa using hvf.2
      obtain ⟨hfresh, hins, hrest⟩ := emitStep_spec p b fuel cs c1 v hs
      obtain ⟨hvin, hmono1⟩ := emitStep_mono p b fuel cs c1 v hs
      cases v with
      | src g' =>
        simp only at hrest
        subst hrest
        -- no ENode; the state only gained the source vertex
        have I1 : WInv p b ⟨V.src g' :: cs.intro, Ev.emit (V.src g') :: cs.trace⟩ ((g, items) :: st)
            closed pending [] :=
          ⟨fun x hx => List.mem_cons_of_mem _ (I.v1 x hx), I.chain, I.ingt, I.v3,
           fun c hc => List.mem_cons_of_mem _ (I.v4 c hc), I.v5,
           fun x hx hna => I.v6 x (by cases hx with | tail _ h' => exact h') hna, I.v9⟩
        obtain ⟨items', closed', r1, r2, r3, r4, r5⟩ :=
          ih (fun v' hv' => hvs v' (List.mem_cons_of_mem _ hv')) _ cs' items closed I1 h
        refine ⟨items', closed', ?_, r2, r3, fun x hx => r4 x (List.mem_cons_of_mem _ hx), ?_⟩
        · simpa [List.filterMap_cons, mkENode] using r1
        · intro v' hv' u hu
          cases hv' with
          | head => exact r4 u (hins u hu)
          | tail _ h' => exact r5 v' h' u hu
      | node n =>
        simp only at hrest
        have hna : p.isArg n = false := hvna
        have hnr := F.inRange n hvtopo
        obtain ⟨pn', hnode, hlab, hinp, hsubs⟩ := node_toProg p b.argsOf n hnr hna
        -- inputs are visible
        have hvis : ∀ i ∈ p.inputs n, i ∈ visOf ((g, items) :: st) := by
          intro i hi
          have hii : V.node i ∈ cs.intro := by
            have := hins (.node i) (by simp only [BuildAlg.Prog.adjIn, List.mem_map]; exact ⟨i, hi, rfl⟩)
            have hlt := hwf.inputs_lt n i hi
            cases this with
            | head => exact absurd hlt (Nat.lt_irrefl _)
            | tail _ h' => exact h'
          cases hia : p.isArg i with
          | true =>
            obtain ⟨t, ht, hat⟩ := F.argIn n g i hvtopo hvscope hi hia
            exact visible_arg F I (g, items) st rfl i t ht hat
          | false =>
            obtain ⟨t, hts, ht⟩ := F.scopeIn n g i hvtopo hvscope hi hia
            refine visible_node F I (g, items) st rfl i t hii hia hts ht ?_ (by simp)
            intro hp
            obtain ⟨s, e, rest, hst, hw, hsw, hanc⟩ := I.v9 i hp
            cases hst
            exact F.noSelfIn i s g n i hw hsw hanc hvtopo hvscope hi rfl
        -- the state right after the node was introduced, the node itself being the exception
        have Ia : WInv p b ⟨V.node n :: cs.intro, Ev.emit (V.node n) :: cs.trace⟩ ((g, items) :: st)
            closed pending [n] := by
          refine ⟨fun x hx => List.mem_cons_of_mem _ (I.v1 x hx), I.chain, I.ingt, I.v3,
            fun c hc => List.mem_cons_of_mem _ (I.v4 c hc), I.v5, ?_, I.v9⟩
          intro x hx hxa
          cases hx with
          | head => exact ⟨g, hvscope, Or.inr (Or.inr (Or.inr (by simp)))⟩
          | tail _ h' =>
            obtain ⟨c, hc, hcase⟩ := I.v6 x h' hxa
            refine ⟨c, hc, ?_⟩
            rcases hcase with h1 | h1 | h1 | h1
            · exact Or.inl h1
            · exact Or.inr (Or.inl h1)
            · exact Or.inr (Or.inr (Or.inl h1))
            · cases h1
        obtain ⟨vsub, closed1, I1, mc1, mi1⟩ := walk_subs p hwf b d F fuel hG n g items st pending hvtopo hvscope
          (p.subs n) (fun _ h => h) _ c1 closed Ia hrest
        -- the node becomes visible in its frame
        have I2 : WInv p b c1 ((g, n :: items) :: st) closed1 pending [] := by
          refine ⟨?_, ?_, ?_, ?_, I1.v4, ?_, ?_, ?_⟩
          · intro x hx
            simp only [visOf, List.flatMap_cons, List.mem_append, List.mem_cons] at hx
            rcases hx with (rfl | hx) | hx
            · exact hvin
            · exact I1.v1 x (by simp only [visOf, List.flatMap_cons, List.mem_append]; exact Or.inl hx)
            · exact I1.v1 x (by simp only [visOf, List.flatMap_cons, List.mem_append]; exact Or.inr hx)
          · have := I1.chain
            cases st with
            | nil => exact this
            | cons f rest => exact this
          · intro e he
            cases he with
            | head => exact I1.ingt (g, items) List.mem_cons_self
            | tail _ h' => exact I1.ingt e (List.mem_cons_of_mem _ h')
          · intro e he
            cases he with
            | head => exact I1.v3 (g, items) List.mem_cons_self
            | tail _ h' => exact I1.v3 e (List.mem_cons_of_mem _ h')
          · intro e he a ha
            cases he with
            | head => exact List.mem_cons_of_mem _ (I1.v5 (g, items) List.mem_cons_self a ha)
            | tail _ h' => exact I1.v5 e (List.mem_cons_of_mem _ h') a ha
          · intro x hx hxa
            obtain ⟨c, hc, hcase⟩ := I1.v6 x hx hxa
            refine ⟨c, hc, ?_⟩
            rcases hcase with h1 | ⟨e, he, hec, hxe⟩ | h1 | h1
            · exact Or.inl h1
            · right; left
              cases he with
              | head => exact ⟨(g, n :: items), List.mem_cons_self, hec, List.mem_cons_of_mem _ hxe⟩
              | tail _ h' => exact ⟨e, List.mem_cons_of_mem _ h', hec, hxe⟩
            · exact Or.inr (Or.inr (Or.inl h1))
            · have : x = n := by simpa using h1
              subst this
              rw [hvscope] at hc; cases hc
              right; left
              exact ⟨(g, x :: items), List.mem_cons_self, rfl, List.mem_cons_self⟩
          · intro w hw
            obtain ⟨s, e, rest, hst, h2, h3, h4⟩ := I1.v9 w hw
            cases hst
            exact ⟨s, (g, n :: items), st, rfl, h2, h3, h4⟩
        obtain ⟨items', closed', r1, r2, r3, r4, r5⟩ :=
          ih (fun v' hv' => hvs v' (List.mem_cons_of_mem _ hv')) c1 cs' (n :: items) closed1 I2 h
        refine ⟨items', closed', ?_, r2, fun c hc => r3 c (mc1 c hc),
          fun x hx => r4 x (hmono1 x hx), ?_⟩
        · simp only [List.filterMap_cons, mkENode, Prog.validBody, hnode, hlab, hinp, hsubs]
          rw [inputsVisible_map _ _ hvis, vsub]
          simp only [Bool.and_self, if_true]
          have e : n :: visOf ((g, items) :: st) = visOf ((g, n :: items) :: st) := by
            simp [visOf]
          rw [e]; exact r1
        · intro v' hv' u hu
          cases hv' with
          | head => exact r4 u (mi1 u (hins u hu))
          | tail _ h' => exact r5 v' h' u hu
/-- one graph: arguments, own nodes, results -/
theorem walk_graph : ∀ fuel, WalkG p b fuel := by
  intro fuel
  induction fuel with
  | zero => intro g cs cs' st closed pending exc _ _ _ _ h; simp [compileG] at h
  | succ fuel ih =>
    intro g cs cs' st closed pending exc I hg hexc hentry h
    simp only [compileG] at h
    split at h
    · cases h
    · rename_i cs1 h1
      split at h
      · cases h
      · rename_i cs2 h2
        split at h
        · rename_i hsrc
          cases h
          have h2' : foldE (emitStep p (compileG p b fuel)) cs1 (ownNodes p b g) = .ok cs2 := h2
          obtain ⟨afresh, aintro⟩ := argFold_spec (lookupL b.argsOf g) _ cs1 h1
          simp only at afresh aintro
          obtain ⟨ofresh, omono⟩ := ownFold_fresh p b fuel (ownNodes p b g) cs1 cs2 h2'
          have hmono01 : ∀ x ∈ cs.intro, x ∈ cs1.intro := fun x hx => (aintro x).mpr (Or.inl hx)
          have hsrcown := F.srcOwn g hg
          have hgcl : g ∉ closed := fun hc =>
            ofresh _ hsrcown (hmono01 _ (I.v4 g hc))
          -- the frame of `g` is pushed
          have I1 : WInv p b cs1 ((g, lookupL b.argsOf g) :: st) closed (exc ++ pending) [] := by
            refine ⟨?_, ?_, ?_, ?_, ?_, ?_, ?_, ?_⟩
            · intro x hx
              simp only [visOf, List.flatMap_cons, List.mem_append] at hx
              rcases hx with hx | hx
              · exact (aintro _).mpr (Or.inr ⟨x, hx, rfl⟩)
              · exact hmono01 _ (I.v1 x (by simpa [visOf] using hx))
            · rcases hentry with ⟨hst, hg0⟩ | ⟨e, rest, hst, hpar, hne⟩
              · subst hst; exact hg0
              · subst hst; exact ⟨hpar, hne, I.chain⟩
            · intro e he
              cases he with
              | head => exact hg
              | tail _ h' => exact I.ingt e h'
            · intro e he
              cases he with
              | head => exact hgcl
              | tail _ h' => exact I.v3 e h'
            · intro c hc; exact hmono01 _ (I.v4 c hc)
            · intro e he a ha
              cases he with
              | head => exact ha
              | tail _ h' => exact I.v5 e h' a ha
            · intro x hx hxa
              rcases (aintro _).mp hx with h0 | ⟨a, ha, hxa'⟩
              · obtain ⟨c, hc, hcase⟩ := I.v6 x h0 hxa
                refine ⟨c, hc, ?_⟩
                rcases hcase with h1 | ⟨e, he, hec, hxe⟩ | h1 | h1
                · exact Or.inl h1
                · exact Or.inr (Or.inl ⟨e, List.mem_cons_of_mem _ he, hec, hxe⟩)
                · exact Or.inr (Or.inr (Or.inl (List.mem_append_right _ h1)))
                · exact Or.inr (Or.inr (Or.inl (List.mem_append_left _ h1)))
              · cases hxa'
                rw [F.argsArg g x ha] at hxa; cases hxa
            · intro w hw
              rcases List.mem_append.mp hw with hw | hw
              · exact ⟨g, (g, lookupL b.argsOf g), st, rfl, (hexc w hw).1, (hexc w hw).2, Anc.refl _⟩
              · obtain ⟨s, e, rest, hst, h2, h3, h4⟩ := I.v9 w hw
                rcases hentry with ⟨hst', _⟩ | ⟨e', rest', hst', hpar, hne⟩
                · rw [hst'] at hst; cases hst
                · rw [hst'] at hst; cases hst
                  exact ⟨s, (g, lookupL b.argsOf g), _, rfl, h2, h3,
                    Anc.trans h4 ⟨1, by simp [up, hpar]⟩⟩
          obtain ⟨items', closed', r1, I2, mc, mi, radj⟩ :=
            walk_body p hwf b d F fuel ih g st (exc ++ pending) (ownNodes p b g) (fun _ h => h)
              cs1 cs2 (lookupL b.argsOf g) closed I1 h2'
          -- results are visible at the end of the body
          have hres : ∀ r ∈ p.results g, r ∈ visOf ((g, items') :: st) := by
            intro r hr
            have hri : V.node r ∈ cs2.intro :=
              radj _ hsrcown _ (by simp only [BuildAlg.Prog.adjIn, List.mem_map]; exact ⟨r, hr, rfl⟩)
            cases hra : p.isArg r with
            | true =>
              obtain ⟨t, ht, hat⟩ := F.argRes g r hg hr hra
              exact visible_arg F I2 (g, items') st rfl r t ht hat
            | false =>
              obtain ⟨t, hts, ht⟩ := F.scopeRes g r hg hr hra
              refine visible_node F I2 (g, items') st rfl r t hri hra hts ht ?_ (by simp)
              intro hp
              obtain ⟨s, e, rest, hst, hw, hsw, hanc⟩ := I2.v9 r hp
              cases hst
              exact F.noSelfRes r s g r hw hsw hanc hg hr rfl
          refine ⟨?_, g :: closed', ?_, fun c hc => List.mem_cons_of_mem _ (mc c hc),
            fun x hx => mi x (hmono01 x hx)⟩
          · rw [emitG_succ]
            simp only [Prog.validG, toPGraph, beq_self_eq_true, Bool.true_and]
            have hargs : (lookupL b.argsOf g).all
                (fun a => !(visOf st).contains a && Prog.isArg (toProg p b.argsOf).nodes a) = true := by
              simp only [List.all_eq_true, Bool.and_eq_true, Bool.not_eq_eq_eq_not, Bool.not_true,
                List.contains_eq_mem, decide_eq_false_iff_not]
              intro a ha
              refine ⟨fun hc => afresh a ha (I.v1 a hc), ?_⟩
              rw [isArg_toProg]; exact F.argsArg g a ha
            rw [hargs]
            have e : lookupL b.argsOf g ++ visOf st = visOf ((g, lookupL b.argsOf g) :: st) := by
              simp [visOf]
            rw [e, r1]
            simp only [Bool.true_and, List.all_eq_true, List.mem_map, List.contains_eq_mem,
              decide_eq_true_eq]
            rintro _ ⟨r, hr, rfl⟩
            exact hres r hr
          · -- the frame of `g` is popped, `g` is closed
            refine ⟨fun x hx => mi _ (hmono01 _ (I.v1 x hx)), I.chain, I.ingt, ?_, ?_, I.v5, ?_, I.v9⟩
            · intro e he hc
              cases hc with
              | head =>
                rcases hentry with ⟨hst, _⟩ | ⟨e0, rest, hst, hpar, hne⟩
                · rw [hst] at he; cases he
                · subst hst
                  have hanc := chain_anc' (e0 :: rest) e0 rest rfl I.chain e he
                  have hle := anc_depth_le F.tree (I.ingt e0 List.mem_cons_self) hanc
                  have hd0 : d e.1 ≠ 0 := fun h0 => hne (F.tree.root e.1 hg h0)
                  have := F.tree.step e.1 hg hd0
                  rw [hpar] at this
                  omega
              | tail _ h' => exact I2.v3 e (List.mem_cons_of_mem _ he) h'
            · intro c hc
              cases hc with
              | head => exact hsrc
              | tail _ h' => exact I2.v4 c h'
            · intro x hx hxa
              obtain ⟨c, hc, hcase⟩ := I2.v6 x hx hxa
              refine ⟨c, hc, ?_⟩
              rcases hcase with h1 | ⟨e, he, hec, hxe⟩ | h1 | h1
              · exact Or.inl (List.mem_cons_of_mem _ h1)
              · cases he with
                | head => left; rw [← hec]; exact List.mem_cons_self
                | tail _ h' => exact Or.inr (Or.inl ⟨e, h', hec, hxe⟩)
              · rcases List.mem_append.mp h1 with h1 | h1
                · exact Or.inr (Or.inr (Or.inr h1))
                · exact Or.inr (Or.inr (Or.inl h1))
              · cases h1
        · cases h
end

end Bridge
