import SpoxModel.Model.Emit
/-! Helper lemmas about the slotting model (`Model/Emit.lean`). Core Lean only. -/
namespace Emit
variable {α β : Type}

theorem trimRev_suffix (minN : Nat) (xs : List (Option α)) : trimRev minN xs <:+ xs := by
  induction xs with
  | nil => exact List.suffix_refl _
  | cons x rest ih =>
    cases x with
    | some v => exact List.suffix_refl _
    | none =>
      simp only [trimRev]
      split
      · exact List.IsSuffix.trans ih (List.suffix_cons _ _)
      · exact List.suffix_refl _

/-- everything that was dropped was an omitted optional -/
theorem trimRev_dropped (minN : Nat) (xs : List (Option α)) :
    ∃ k, xs = List.replicate k none ++ trimRev minN xs := by
  induction xs with
  | nil => exact ⟨0, rfl⟩
  | cons x rest ih =>
    cases x with
    | some v => exact ⟨0, rfl⟩
    | none =>
      simp only [trimRev]
      split
      · obtain ⟨k, hk⟩ := ih
        refine ⟨k + 1, ?_⟩
        rw [List.replicate_succ, List.cons_append, ← hk]
      · exact ⟨0, rfl⟩

theorem trimRev_min (minN : Nat) (xs : List (Option α)) (h : minN ≤ xs.length) :
    minN ≤ (trimRev minN xs).length := by
  induction xs with
  | nil => simpa [trimRev] using h
  | cons x rest ih =>
    cases x with
    | some v => simpa [trimRev] using h
    | none =>
      simp only [trimRev]
      split
      · apply ih; omega
      · simpa using h

/-- never below `min(minN, length)` (so a list no longer than `minN` is left alone) -/
theorem trimRev_min' (minN : Nat) (xs : List (Option α)) :
    min minN xs.length ≤ (trimRev minN xs).length := by
  induction xs with
  | nil => simp [trimRev]
  | cons x rest ih =>
    cases x with
    | some v => simp only [trimRev]; exact Nat.min_le_right _ _
    | none =>
      simp only [trimRev]
      split
      · rename_i hc
        have : min minN rest.length = minN := Nat.min_eq_left (by omega)
        have h2 : min minN (rest.length + 1) = minN := Nat.min_eq_left (by omega)
        simp only [List.length_cons, h2]
        omega
      · exact Nat.min_le_right _ _

/-- above the minimum, the trimmed (reversed) list starts with a present value -/
theorem trimRev_head (minN : Nat) (xs : List (Option α)) (h : minN < (trimRev minN xs).length) :
    ∃ v rest, trimRev minN xs = some v :: rest := by
  induction xs with
  | nil => simp [trimRev] at h
  | cons x rest ih =>
    cases x with
    | some v => exact ⟨v, rest, rfl⟩
    | none =>
      simp only [trimRev] at h ⊢
      split
      · rename_i hc; rw [if_pos hc] at h; exact ih h
      · rename_i hc; rw [if_neg hc] at h; simp at h; omega

theorem trim_prefix (minN : Nat) (xs : List (Option α)) : trim minN xs <+: xs := by
  have := trimRev_suffix minN xs.reverse
  simpa [trim] using List.reverse_prefix.mpr this

theorem trim_dropped (minN : Nat) (xs : List (Option α)) :
    ∃ k, xs = trim minN xs ++ List.replicate k none := by
  obtain ⟨k, hk⟩ := trimRev_dropped minN xs.reverse
  refine ⟨k, ?_⟩
  have := congrArg List.reverse hk
  simpa [trim] using this

theorem trim_min (minN : Nat) (xs : List (Option α)) (h : minN ≤ xs.length) :
    minN ≤ (trim minN xs).length := by
  simpa [trim] using trimRev_min minN xs.reverse (by simpa using h)

theorem trim_min' (minN : Nat) (xs : List (Option α)) :
    min minN xs.length ≤ (trim minN xs).length := by
  simpa [trim] using trimRev_min' minN xs.reverse

theorem trim_last (minN : Nat) (xs : List (Option α)) (h : minN < (trim minN xs).length) :
    ∃ v, (trim minN xs).getLast? = some (some v) := by
  have h' : minN < (trimRev minN xs.reverse).length := by simpa [trim] using h
  obtain ⟨v, rest, hv⟩ := trimRev_head minN xs.reverse h'
  exact ⟨v, by simp [trim, hv]⟩

/-- The four facts pin the result down: any list with them is the trimmed list. -/
theorem trim_unique (minN : Nat) (xs ys : List (Option α))
    (h1 : ys <+: xs) (h2 : ∃ k, xs = ys ++ List.replicate k none)
    (h3 : min minN xs.length ≤ ys.length)
    (h4 : minN < ys.length → ∃ v, ys.getLast? = some (some v)) :
    ys = trim minN xs := by
  -- both are prefixes of xs: compare lengths
  have t1 := trim_prefix minN xs
  have t3 := trim_min' minN xs
  have t4 := trim_last minN xs
  obtain ⟨kt, hkt⟩ := trim_dropped minN xs
  obtain ⟨k, hk⟩ := h2
  have key : ∀ (a b : List (Option α)) (ka : Nat), a <+: xs → b <+: xs → xs = a ++ List.replicate ka none →
      min minN xs.length ≤ a.length → (minN < b.length → ∃ v, b.getLast? = some (some v)) →
      ¬ a.length < b.length := by
    intro a b ka ha hb hxa hmin hlast hlt
    -- b = a ++ (some nones), nonempty
    obtain ⟨tb, htb⟩ := hb
    have hble : b.length ≤ xs.length := by rw [← htb]; simp
    have hminN : minN < b.length := by
      have : min minN xs.length ≤ a.length := hmin
      rcases Nat.le_total minN xs.length with h | h
      · rw [Nat.min_eq_left h] at this; omega
      · rw [Nat.min_eq_right h] at this; omega
    obtain ⟨v, hv⟩ := hlast hminN
    -- the last element of b sits at index b.length-1 ≥ a.length of xs, which is none
    have hbne : b ≠ [] := by intro h; simp [h] at hlt
    have hidx : xs[b.length - 1]? = some (some v) := by
      rw [← htb, List.getElem?_append_left (by omega)]
      rw [List.getLast?_eq_getElem?] at hv
      exact hv
    rw [hxa, List.getElem?_append_right (by omega), List.getElem?_replicate] at hidx
    split at hidx <;> simp at hidx
  have hle1 : ¬ ys.length < (trim minN xs).length := key ys (trim minN xs) k h1 t1 hk h3 t4
  have hle2 : ¬ (trim minN xs).length < ys.length := key (trim minN xs) ys kt t1 h1 hkt t3 h4
  have hlen : ys.length = (trim minN xs).length := by omega
  exact List.prefix_of_prefix_length_le h1 t1 (by omega) |>.eq_of_length hlen

/-- plain `Node`: `min = len` ⇒ nothing is trimmed -/
theorem trim_len (xs : List (Option α)) : trim xs.length xs = xs :=
  List.IsPrefix.eq_of_length_le (trim_prefix _ _) (trim_min _ _ (Nat.le_refl _))

/-- trimming never removes a present value -/
theorem trim_keeps_present (minN : Nat) (xs : List (Option α)) (k : Nat) (v : α)
    (h : xs[k]? = some (some v)) : (trim minN xs)[k]? = some (some v) := by
  obtain ⟨n, hn⟩ := trim_dropped minN xs
  by_cases hk : k < (trim minN xs).length
  · rw [hn, List.getElem?_append_left hk] at h; exact h
  · rw [hn, List.getElem?_append_right (by omega)] at h
    rw [List.getElem?_replicate] at h
    split at h <;> simp at h

/-- a list without omitted entries is emitted unchanged -/
theorem trim_all_present (minN : Nat) (xs : List (Option α)) (h : ∀ x ∈ xs, x ≠ none) :
    trim minN xs = xs := by
  unfold trim
  cases hr : xs.reverse with
  | nil => simp [trimRev]; simpa using hr
  | cons a rest =>
    cases a with
    | none =>
      have : none ∈ xs := by
        have : none ∈ xs.reverse := by rw [hr]; exact List.mem_cons_self
        simpa using this
      exact absurd rfl (h none this)
    | some v => simp [trimRev, ← hr]

theorem emitAttrs_eq_filterMap (l : List (Option (String × β))) : emitAttrs l = l.filterMap id := by
  induction l with
  | nil => rfl
  | cons a rest ih => cases a <;> simp [emitAttrs, ih]

/-- number of positional entries before a field, when no earlier field is variadic -/
def noVariadic : List (Arg α) → Bool
  | [] => true
  | .variadic _ :: _ => false
  | _ :: rest => noVariadic rest

theorem flatten_length_noVariadic (pre : List (Arg α)) (h : noVariadic pre = true) :
    (flatten pre).length = pre.length := by
  induction pre with
  | nil => rfl
  | cons a rest ih => cases a <;> simp_all [noVariadic, flatten]

theorem flatten_append (a b : List (Arg α)) : flatten (a ++ b) = flatten a ++ flatten b := by
  induction a with
  | nil => rfl
  | cons x rest ih => cases x <;> simp [flatten, ih]

/-! ## emission does not look at argument identity

`Node.to_onnx` trims by *position and presence*: whatever the arguments are — all distinct, one Var
in several slots, a Var repeated inside a variadic — renaming them by any map `f` (injective or not)
commutes with emission. -/

variable {γ : Type}

theorem flatten_map (f : α → γ) (args : List (Arg α)) :
    flatten (args.map (Arg.map f)) = (flatten args).map (Option.map f) := by
  induction args with
  | nil => rfl
  | cons a rest ih =>
    cases a <;> simp [flatten, Arg.map, ih, List.map_map, Function.comp_def]

theorem trimRev_map (f : α → γ) (minN : Nat) (xs : List (Option α)) :
    trimRev minN (xs.map (Option.map f)) = (trimRev minN xs).map (Option.map f) := by
  induction xs with
  | nil => rfl
  | cons x rest ih =>
    cases x with
    | some v => rfl
    | none =>
      simp only [List.map_cons, Option.map_none, trimRev, List.length_map]
      split
      · exact ih
      · rfl

theorem trim_map (f : α → γ) (minN : Nat) (xs : List (Option α)) :
    trim minN (xs.map (Option.map f)) = (trim minN xs).map (Option.map f) := by
  simp [trim, ← List.map_reverse, trimRev_map]

theorem emitSlots_map (f : α → γ) (minN : Nat) (args : List (Arg α)) :
    emitSlots minN (args.map (Arg.map f)) = (emitSlots minN args).map (Option.map f) := by
  simp [emitSlots, flatten_map, trim_map]

theorem emitSlotsCustom_map (f : α → γ) (args : List (Arg α)) :
    emitSlotsCustom (args.map (Arg.map f)) = (emitSlotsCustom args).map (Option.map f) := by
  simp [emitSlotsCustom, len, flatten_map, trim_map]

end Emit
