import SpoxModel.Model.FuncProg
import SpoxModel.Lemmas.Func
/-! Lemmas for `Model/FuncProg.lean`: the requirements of every reachable function body are collected by
    the program's build; the reachable bodies are exactly the instances `usedG` lists. -/
namespace Func

mutual
theorem body_req_sub (x : String × Nat) (e : Inst) (b : PGraph) (hx : x ∈ preqG b) :
    (g : PGraph) → (e, b) ∈ bodiesG g → x ∈ preqG g
  | .mk nodes => by
    intro h
    simp only [preqG, List.mem_append]
    exact body_req_subNs x e b hx nodes (by simpa [bodiesG] using h)
theorem body_req_subNs (x : String × Nat) (e : Inst) (b : PGraph) (hx : x ∈ preqG b) :
    (ns : List PNode) → (e, b) ∈ bodiesNs ns → (x ∈ pownNs ns ∨ x ∈ psubNs ns)
  | [] => by simp [bodiesNs]
  | .op r :: rest => by
    intro h
    simp only [bodiesNs] at h
    simp only [pownNs, psubNs, List.mem_append]
    rcases body_req_subNs x e b hx rest h with h' | h'
    · exact Or.inl (Or.inr h')
    · exact Or.inr h'
  | .call own k fp body :: rest => by
    intro h
    simp only [bodiesNs, List.mem_cons, List.mem_append] at h
    simp only [pownNs, psubNs, List.mem_append]
    rcases h with h | h | h
    · have hb : b = body := (Prod.mk.inj h).2
      subst hb
      exact Or.inl (Or.inl (Or.inr hx))
    · exact Or.inl (Or.inl (Or.inr (body_req_sub x e b hx body h)))
    · rcases body_req_subNs x e b hx rest h with h' | h'
      · exact Or.inl (Or.inr h')
      · exact Or.inr h'
  | .ctrl r subs :: rest => by
    intro h
    simp only [bodiesNs, List.mem_append] at h
    simp only [pownNs, psubNs, List.mem_append]
    rcases h with h | h
    · exact Or.inr (Or.inl (body_req_subGs x e b hx subs h))
    · rcases body_req_subNs x e b hx rest h with h' | h'
      · exact Or.inl (Or.inr h')
      · exact Or.inr (Or.inr h')
theorem body_req_subGs (x : String × Nat) (e : Inst) (b : PGraph) (hx : x ∈ preqG b) :
    (gs : List PGraph) → (e, b) ∈ bodiesGs gs → x ∈ preqGs gs
  | [] => by simp [bodiesGs]
  | g :: gs => by
    intro h
    simp only [bodiesGs, List.mem_append] at h
    simp only [preqGs, List.mem_append]
    rcases h with h | h
    · exact Or.inl (body_req_sub x e b hx g h)
    · exact Or.inr (body_req_subGs x e b hx gs h)
end

mutual
/-- the instances of the reachable bodies are, in order, the instances `usedG` lists for the erased tree -/
theorem bodies_used : (g : PGraph) → (bodiesG g).map (·.1) = usedG (toF g)
  | .mk nodes => by
    simp only [bodiesG, toF, usedG]
    exact bodies_usedNs nodes
theorem bodies_usedNs : (ns : List PNode) → (bodiesNs ns).map (·.1) = usedNs (toFNs ns)
  | [] => by simp [bodiesNs, toFNs, usedNs]
  | .op _ :: rest => by
    simp only [bodiesNs, toFNs, usedNs]
    exact bodies_usedNs rest
  | .call _ k fp body :: rest => by
    simp only [bodiesNs, toFNs, usedNs, List.map_cons, List.map_append, bodies_used body, bodies_usedNs rest]
  | .ctrl _ subs :: rest => by
    simp only [bodiesNs, toFNs, usedNs, List.map_append, bodies_usedGs subs, bodies_usedNs rest]
theorem bodies_usedGs : (gs : List PGraph) → (bodiesGs gs).map (·.1) = usedGs (toFGs gs)
  | [] => by simp [bodiesGs, toFGs, usedGs]
  | g :: gs => by
    simp only [bodiesGs, toFGs, usedGs, List.map_append, bodies_used g, bodies_usedGs gs]
end

end Func
