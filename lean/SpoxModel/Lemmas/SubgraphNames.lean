import SpoxModel.Model.SubgraphNames
import Std.Data.String.ToNat
/-!
Helper lemmas for `Model/SubgraphNames.lean`: a dict comprehension over pairwise different generated keys is
positional; Python's `f"{prefix}{i}"` is injective in `i` (decimal rendering is injective, a common prefix
cancels).
-/
namespace SubgraphNamesLemmas
open SubgraphNames

theorem dictSet_fresh (d : List (String × α)) (k : String) (v : α) (h : ∀ p ∈ d, p.1 ≠ k) :
    dictSet d k v = d ++ [(k, v)] := by
  induction d with
  | nil => rfl
  | cons p rest ih =>
    obtain ⟨k', v'⟩ := p
    have hk : k' ≠ k := h (k', v') (by simp)
    simp [dictSet, hk, ih (fun p hp => h p (by simp [hp]))]

/-- Assigning an existing key keeps the dict's length (an entry is overwritten, not added). -/
theorem dictSet_present_length (d : List (String × α)) (k : String) (v : α) (h : ∃ p ∈ d, p.1 = k) :
    (dictSet d k v).length = d.length := by
  induction d with
  | nil => obtain ⟨p, hp, _⟩ := h; cases hp
  | cons p rest ih =>
    obtain ⟨k', v'⟩ := p
    by_cases hk : k' = k
    · simp [dictSet, hk]
    · have : ∃ p ∈ rest, p.1 = k := by
        obtain ⟨q, hq, hqk⟩ := h
        rcases List.mem_cons.1 hq with rfl | hq'
        · exact absurd hqk hk
        · exact ⟨q, hq', hqk⟩
      simp [dictSet, hk, ih this]

theorem enumInto_eq (key : Nat → String) (hinj : ∀ a b, key a = key b → a = b) (xs : List α) :
    ∀ (i : Nat) (d : List (String × α)), (∀ p ∈ d, ∃ j, j < i ∧ p.1 = key j) →
      enumInto key xs i d = d ++ named key xs i := by
  induction xs with
  | nil => intro i d _; simp [enumInto, named]
  | cons x xs ih =>
    intro i d hd
    have hfresh : ∀ p ∈ d, p.1 ≠ key i := by
      intro p hp heq
      obtain ⟨j, hj, hpj⟩ := hd p hp
      have := hinj j i (hpj ▸ heq)
      omega
    simp only [enumInto, named]
    rw [dictSet_fresh d _ x hfresh, ih (i + 1)]
    · simp
    · intro p hp
      rcases List.mem_append.1 hp with h | h
      · obtain ⟨j, hj, hpj⟩ := hd p h; exact ⟨j, by omega, hpj⟩
      · simp at h; exact ⟨i, by omega, by rw [h]⟩

theorem pyKey_inj (pre : String) (a b : Nat) (h : pyKey pre a = pyKey pre b) : a = b := by
  unfold pyKey at h
  have h' : toString a = toString b := (String.append_right_inj pre).1 h
  exact Nat.repr_injective h'

theorem named_values (key : Nat → String) (xs : List α) (i : Nat) : (named key xs i).map (·.2) = xs := by
  induction xs generalizing i with
  | nil => rfl
  | cons x xs ih => simp [named, ih]

theorem named_keys (key : Nat → String) (xs : List α) (i : Nat) :
    (named key xs i).map (·.1) = (List.range xs.length).map (fun j => key (i + j)) := by
  induction xs generalizing i with
  | nil => rfl
  | cons x xs ih =>
    simp only [named, List.map_cons, List.length_cons, List.range_succ_eq_map, List.map_map, ih]
    simp [Function.comp_def, Nat.add_assoc, Nat.add_comm 1]

theorem named_length (key : Nat → String) (xs : List α) (i : Nat) : (named key xs i).length = xs.length := by
  induction xs generalizing i with
  | nil => rfl
  | cons x xs ih => simp [named, ih]

theorem enumDict_eq (pre : String) (xs : List α) : enumDict pre xs = named (pyKey pre) xs 0 := by
  unfold enumDict
  rw [enumInto_eq (pyKey pre) (pyKey_inj pre) xs 0 [] (by intro p hp; cases hp)]
  simp

theorem named_getElem? (key : Nat → String) (xs : List α) (start i : Nat) (h : i < xs.length) :
    (named key xs start)[i]? = some (key (start + i), xs[i]) := by
  induction xs generalizing start i with
  | nil => cases h
  | cons x xs ih =>
    cases i with
    | zero => simp [named]
    | succ i =>
      have h' : i < xs.length := by simpa using h
      simp only [named, List.getElem?_cons_succ, List.getElem_cons_succ]
      rw [ih (start + 1) i h']
      simp [Nat.add_assoc, Nat.add_comm 1]

theorem range_map_nodup (key : Nat → String) (hinj : ∀ a b, key a = key b → a = b) (n : Nat) :
    ((List.range n).map key).Nodup := by
  rw [List.Nodup, List.pairwise_map]
  exact List.Pairwise.imp (fun {a b} hab heq => hab (hinj a b heq)) (List.nodup_range (n := n))

/-! ### The converse: a colliding name loses an entry -/

theorem dictSet_length_le (d : List (String × α)) (k : String) (v : α) :
    (dictSet d k v).length ≤ d.length + 1 := by
  induction d with
  | nil => simp [dictSet]
  | cons p rest ih =>
    obtain ⟨k', v'⟩ := p
    by_cases hk : k' = k
    · simp [dictSet, hk]
    · simp [dictSet, hk]; omega

theorem dictSet_key_self (d : List (String × α)) (k : String) (v : α) : ∃ p ∈ dictSet d k v, p.1 = k := by
  induction d with
  | nil => exact ⟨(k, v), by simp [dictSet], rfl⟩
  | cons p rest ih =>
    obtain ⟨k', v'⟩ := p
    by_cases hk : k' = k
    · exact ⟨(k, v), by simp [dictSet, hk], rfl⟩
    · obtain ⟨q, hq, hqk⟩ := ih
      exact ⟨q, by simp [dictSet, hk, hq], hqk⟩

theorem dictSet_key_persist (d : List (String × α)) (k k0 : String) (v : α) (h : ∃ p ∈ d, p.1 = k0) :
    ∃ p ∈ dictSet d k v, p.1 = k0 := by
  induction d with
  | nil => obtain ⟨p, hp, _⟩ := h; cases hp
  | cons p rest ih =>
    obtain ⟨k', v'⟩ := p
    obtain ⟨q, hq, hqk⟩ := h
    by_cases hk : k' = k
    · rcases List.mem_cons.1 hq with rfl | hq'
      · exact ⟨(k, v), by simp [dictSet, hk], by rw [← hqk]; exact hk.symm⟩
      · exact ⟨q, by simp [dictSet, hk, hq'], hqk⟩
    · rcases List.mem_cons.1 hq with rfl | hq'
      · exact ⟨(k', v'), by simp [dictSet, hk], hqk⟩
      · obtain ⟨r, hr, hrk⟩ := ih ⟨q, hq', hqk⟩
        exact ⟨r, by simp [dictSet, hk, hr], hrk⟩

theorem enumInto_length_le (key : Nat → String) (xs : List α) :
    ∀ (i : Nat) (d : List (String × α)), (enumInto key xs i d).length ≤ d.length + xs.length := by
  induction xs with
  | nil => intro i d; simp [enumInto]
  | cons x xs ih =>
    intro i d
    have h1 := ih (i + 1) (dictSet d (key i) x)
    have h2 := dictSet_length_le d (key i) x
    simp only [enumInto, List.length_cons]; omega

/-- A name that is already in the dict when its turn comes costs an entry. -/
theorem enumInto_present_lt (key : Nat → String) (xs : List α) :
    ∀ (i j : Nat) (d : List (String × α)), j < xs.length → (∃ p ∈ d, p.1 = key (i + j)) →
      (enumInto key xs i d).length < d.length + xs.length := by
  induction xs with
  | nil => intro i j d hj; cases hj
  | cons x xs ih =>
    intro i j d hj hp
    cases j with
    | zero =>
      have h1 := dictSet_present_length d (key i) x (by simpa using hp)
      have h2 := enumInto_length_le key xs (i + 1) (dictSet d (key i) x)
      simp only [enumInto, List.length_cons]; omega
    | succ j =>
      have hp' : ∃ p ∈ dictSet d (key i) x, p.1 = key (i + 1 + j) := by
        have := dictSet_key_persist d (key i) (key (i + (j + 1))) x hp
        simpa [Nat.add_assoc, Nat.add_comm 1 j] using this
      have h1 := ih (i + 1) j (dictSet d (key i) x) (by simpa using hj) hp'
      have h2 := dictSet_length_le d (key i) x
      simp only [enumInto, List.length_cons]; omega

/-- Two positions with the same name: the dict ends up shorter than the list. -/
theorem enumInto_collision_lt (key : Nat → String) (xs : List α) :
    ∀ (i j1 j2 : Nat) (d : List (String × α)), j1 < j2 → j2 < xs.length → key (i + j1) = key (i + j2) →
      (enumInto key xs i d).length < d.length + xs.length := by
  induction xs with
  | nil => intro i j1 j2 d _ h2; cases h2
  | cons x xs ih =>
    intro i j1 j2 d h12 h2 hk
    obtain ⟨j2', rfl⟩ : ∃ j2', j2 = j2' + 1 := ⟨j2 - 1, by omega⟩
    have hlen : j2' < xs.length := by simpa using h2
    have hd := dictSet_length_le d (key i) x
    cases j1 with
    | zero =>
      have hp : ∃ p ∈ dictSet d (key i) x, p.1 = key (i + 1 + j2') := by
        obtain ⟨p, hp, hpk⟩ := dictSet_key_self d (key i) x
        refine ⟨p, hp, ?_⟩
        rw [hpk]; simpa [Nat.add_assoc, Nat.add_comm 1 j2'] using hk
      have := enumInto_present_lt key xs (i + 1) j2' _ hlen hp
      simp only [enumInto, List.length_cons]; omega
    | succ j1 =>
      have hk' : key (i + 1 + j1) = key (i + 1 + j2') := by
        simpa [Nat.add_assoc, Nat.add_comm 1] using hk
      have := ih (i + 1) j1 j2' (dictSet d (key i) x) (by omega) hlen hk'
      simp only [enumInto, List.length_cons]; omega

/-! ### The three name families of the dummy graph are disjoint -/

theorem head_ne (c1 c2 : Char) (r1 r2 : String) (a b : String) (h : c1 ≠ c2) :
    (String.singleton c1 ++ r1) ++ a ≠ (String.singleton c2 ++ r2) ++ b := by
  intro heq
  have := congrArg String.toList heq
  simp [String.toList_append] at this
  exact h this.1

theorem out_ne_outer (a b : Nat) : pyKey "__dummy_output" a ≠ pyKey "__dummy_outer_output" b := by
  unfold pyKey
  have h1 : "__dummy_output" = "__dummy_out" ++ (String.singleton 'p' ++ "ut") := by decide
  have h2 : "__dummy_outer_output" = "__dummy_out" ++ (String.singleton 'e' ++ "r_output") := by decide
  rw [h1, h2, String.append_assoc, String.append_assoc]
  intro h
  exact head_ne 'p' 'e' "ut" "r_output" _ _ (by decide) ((String.append_right_inj _).1 h)

theorem in_ne_output (a b : Nat) : pyKey "__dummy_input" a ≠ pyKey "__dummy_output" b := by
  unfold pyKey
  have h1 : "__dummy_input" = "__dummy_" ++ (String.singleton 'i' ++ "nput") := by decide
  have h2 : "__dummy_output" = "__dummy_" ++ (String.singleton 'o' ++ "utput") := by decide
  rw [h1, h2, String.append_assoc, String.append_assoc]
  intro h
  exact head_ne 'i' 'o' "nput" "utput" _ _ (by decide) ((String.append_right_inj _).1 h)

theorem in_ne_outer (a b : Nat) : pyKey "__dummy_input" a ≠ pyKey "__dummy_outer_output" b := by
  unfold pyKey
  have h1 : "__dummy_input" = "__dummy_" ++ (String.singleton 'i' ++ "nput") := by decide
  have h2 : "__dummy_outer_output" = "__dummy_" ++ (String.singleton 'o' ++ "uter_output") := by decide
  rw [h1, h2, String.append_assoc, String.append_assoc]
  intro h
  exact head_ne 'i' 'o' "nput" "uter_output" _ _ (by decide) ((String.append_right_inj _).1 h)

end SubgraphNamesLemmas
