import SpoxModel.Model.Dispatch
/-! Helper lemmas for C17: wrap-around arithmetic and the floor-division correction. -/
namespace Dispatch

theorem W_id (P v : Int) (h1 : -P ≤ v) (h2 : v < P) : (v + P) % (2 * P) - P = v := by
  have : (v + P) % (2 * P) = v + P := Int.emod_eq_of_lt (by omega) (by omega)
  omega

/-- facts about truncating division in a form `omega` can use -/
theorem tdiv_facts (a b : Int) (hb0 : b ≠ 0) :
    a.tdiv b * b + a.tmod b = a ∧ (0 ≤ a → 0 ≤ a.tmod b) ∧ (a ≤ 0 → a.tmod b ≤ 0) ∧
    (a.tmod b).natAbs < b.natAbs ∧ (a.tmod b).natAbs ≤ a.natAbs ∧
    (a.tdiv b).natAbs ≤ a.natAbs ∧ (2 ≤ b.natAbs → 2 * (a.tdiv b).natAbs ≤ a.natAbs) := by
  refine ⟨Int.tdiv_mul_add_tmod a b, Int.tmod_nonneg b, ?_, ?_, ?_, Int.natAbs_tdiv_le_natAbs a b, ?_⟩
  · intro ha
    have h := Int.tmod_nonneg (a := -a) b (by omega)
    rw [Int.neg_tmod] at h
    omega
  · rw [Int.natAbs_tmod]; exact Nat.mod_lt _ (by omega)
  · rw [Int.natAbs_tmod]; exact Nat.mod_le _ _
  · intro h2
    rw [Int.natAbs_tdiv]
    have : a.natAbs / b.natAbs ≤ a.natAbs / 2 := Nat.div_le_div_left h2 (by omega)
    have h3 : a.natAbs.div b.natAbs = a.natAbs / b.natAbs := rfl
    omega

/-- **The emitted correction turns ONNX's truncating `Div` into floor division**, for any
    wrap-around `w` that is the identity on the representable range `[-P, P)`: with
    `q = Div(a, b)`, `r = a - q*b`, the result `q - [r ≠ 0 ∧ (r < 0) ≠ (b < 0)]` is `⌊a / b⌋`,
    for all `a`, `b` of either sign except `b = 0` and `INT_MIN / -1`. -/
theorem floordiv_correct (w : Int → Int) (P : Int) (hw : ∀ v, -P ≤ v → v < P → w v = v) (a b : Int)
    (ha1 : -P ≤ a) (ha2 : a < P) (hb1 : -P ≤ b) (hb2 : b < P) (hb0 : b ≠ 0) (hov : ¬(a = -P ∧ b = -1)) :
    let q := w (a.tdiv b)
    let r := w (a - w (q * b))
    w (q - (if r ≠ 0 ∧ ((decide (r < 0)) != (decide (b < 0))) = true then 1 else 0)) = a.fdiv b := by
  intro q r
  obtain ⟨f1, f2, f3, f4, f5, f6, f7⟩ := tdiv_facts a b hb0
  have hq : -P ≤ a.tdiv b ∧ a.tdiv b < P := by
    by_cases h1 : b = 1
    · subst h1; rw [Int.tdiv_one]; omega
    by_cases h2 : b = -1
    · subst h2
      have : a.tdiv (-1) = -a := by rw [Int.tdiv_neg, Int.tdiv_one]
      omega
    · have := f7 (by omega)
      omega
  have eq : q = a.tdiv b := hw _ hq.1 hq.2
  have hm : w (q * b) = a.tdiv b * b := by
    rw [eq]; exact hw _ (by omega) (by omega)
  have hr : r = a.tmod b := by
    show w (a - w (q * b)) = _
    rw [hm]
    have : a - a.tdiv b * b = a.tmod b := by omega
    rw [this]; exact hw _ (by omega) (by omega)
  rw [hr, eq, Int.fdiv_eq_tdiv]
  have hdvd : b ∣ a ↔ a.tmod b = 0 := Int.dvd_iff_tmod_eq_zero
  by_cases hz : a.tmod b = 0
  · have : b ∣ a := hdvd.2 hz
    simp only [hz, this, if_true, ne_eq, not_true_eq_false, false_and, if_false, Int.sub_zero]
    exact hw _ hq.1 hq.2
  · have hnd : ¬ b ∣ a := fun h => hz (hdvd.1 h)
    have hb2' : 2 ≤ b.natAbs := by
      false_or_by_contra
      have : b = 1 ∨ b = -1 := by omega
      omega
    have hq2 := f7 hb2'
    simp only [hnd, if_false, ne_eq, hz, not_false_eq_true, true_and]
    by_cases hbpos : 0 < b
    · rw [Int.sign_eq_one_of_pos hbpos]
      by_cases hapos : 0 ≤ a
      · have h1 : ¬ (a.tmod b < 0) := by omega
        have h2 : ¬ (b < 0) := by omega
        have h3 : (0 : Int) ≤ b := by omega
        simp only [h1, h2, hapos, h3, decide_false, bne_self_eq_false, if_true, if_false, Bool.false_eq_true, Int.sub_zero]
        exact hw _ hq.1 hq.2
      · have h1 : a.tmod b < 0 := by omega
        have h2 : ¬ (b < 0) := by omega
        have h3 : (0 : Int) ≤ b := by omega
        simp only [h1, h2, hapos, h3, decide_true, decide_false, if_true, if_false]
        exact hw _ (by omega) (by omega)
    · have hbneg : b < 0 := by omega
      rw [Int.sign_eq_neg_one_of_neg hbneg]
      have h3 : ¬ ((0 : Int) ≤ b) := by omega
      by_cases hapos : 0 ≤ a
      · have h1 : ¬ (a.tmod b < 0) := by omega
        simp only [h1, hbneg, hapos, h3, decide_true, decide_false, if_true, if_false]
        exact hw _ (by omega) (by omega)
      · have h1 : a.tmod b < 0 := by omega
        simp only [h1, hbneg, hapos, h3, decide_true, bne_self_eq_false, if_false, Bool.false_eq_true]
        have : a.tdiv b - (1 + -1) = a.tdiv b := by omega
        rw [this, Int.sub_zero]
        exact hw _ hq.1 hq.2

/-! ### `wrap` is the identity on representable values -/

theorem two_pow_mono {a b : Nat} (h : a ≤ b) : (2 : Int) ^ a ≤ (2 : Int) ^ b := by
  rcases Nat.lt_or_eq_of_le h with h | h
  · exact Int.le_of_lt (Int.pow_lt_pow_of_lt (by decide) h)
  · subst h; exact Int.le_refl _

theorem two_pow_pos (a : Nat) : (0 : Int) < (2 : Int) ^ a := Int.pow_pos (by decide)

theorem two_pow_pred {n : Nat} (h : 1 ≤ n) : (2 : Int) ^ n = 2 * (2 : Int) ^ (n - 1) := by
  have : n = (n - 1) + 1 := by omega
  rw [this, Int.pow_succ']
  simp

theorem wrap_id (np : NpInfo) (t : Nat) (hb : 1 ≤ np.bits t) (v : Int) (h : inRange np t v = true) :
    wrap np t v = v := by
  unfold wrap
  unfold inRange at h
  by_cases hs : np.signed t = true
  · simp only [hs, if_true, Bool.and_eq_true, decide_eq_true_eq] at h ⊢
    rw [two_pow_pred hb]
    exact W_id _ v (by omega) (by omega)
  · simp only [hs, Bool.false_eq_true, if_false, Bool.and_eq_true, decide_eq_true_eq] at h ⊢
    exact Int.emod_eq_of_lt h.1 h.2

/-- `d`'s values are representable in `t` -/
def rangeSub (np : NpInfo) (d t : Nat) : Bool :=
  (!np.signed d || np.signed t) &&
    (if np.signed d == np.signed t then decide (np.bits d ≤ np.bits t) else decide (np.bits d + 1 ≤ np.bits t))

theorem inRange_mono (np : NpInfo) (d t : Nat) (h : rangeSub np d t = true) (v : Int)
    (hv : inRange np d v = true) : inRange np t v = true := by
  unfold rangeSub at h
  unfold inRange at hv ⊢
  by_cases hd : np.signed d = true <;> by_cases ht : np.signed t = true <;>
    simp only [hd, ht, Bool.not_true, Bool.not_false, Bool.or_false, Bool.or_true,
      Bool.true_and, Bool.false_and, beq_self_eq_true, if_true, if_false, Bool.and_eq_true, decide_eq_true_eq,
      Bool.false_eq_true, beq_iff_eq, reduceCtorEq] at h hv ⊢
  · have := two_pow_mono (show np.bits d - 1 ≤ np.bits t - 1 by omega)
    omega
  · have := two_pow_mono (show np.bits d ≤ np.bits t - 1 by omega)
    have := two_pow_pos (np.bits t - 1)
    omega
  · have := two_pow_mono h
    omega

/-! ### unfolding `eval` one node at a time -/

theorem eval_bin (np : NpInfo) (a b : Operand) (va vb : Int) (op : NodeOp) (l r : Tree) :
    eval np a b va vb (.bin op l r) =
      (match eval np a b va vb l, eval np a b va vb r with
      | some (d, x), some (_, y) =>
          (match op with
           | .Add => some (d, wrap np d (x + y))
           | .Sub => some (d, wrap np d (x - y))
           | .Mul => some (d, wrap np d (x * y))
           | .Div => if y = 0 then none else some (d, wrap np d (Int.tdiv x y))
           | .And => some (d, b2i (x != 0 && y != 0))
           | .Or => some (d, b2i (x != 0 || y != 0))
           | .Xor => some (d, b2i ((x != 0) != (y != 0)))
           | .Equal => some (boolDt, b2i (x == y))
           | .Less => some (boolDt, b2i (decide (x < y)))
           | _ => none)
      | _, _ => none) := by
  rfl

theorem eval_un (np : NpInfo) (a b : Operand) (va vb : Int) (op : NodeOp) (t : Tree) :
    eval np a b va vb (.un op t) =
      (match eval np a b va vb t with
      | some (d, v) =>
          (match op with
           | .Neg => some (d, wrap np d (-v))
           | .Not => some (d, 1 - v)
           | _ => none)
      | none => none) := by
  rfl

theorem eval_cast (np : NpInfo) (a b : Operand) (va vb : Int) (to : Nat) (t : Tree) :
    eval np a b va vb (.cast to t) =
      (match eval np a b va vb t with
      | some (_, v) =>
          if to == boolDt then some (to, b2i (v != 0))
          else if np.integer to then some (to, wrap np to v) else none
      | none => none) := by
  rfl

theorem wrap_inRange (np : NpInfo) (t : Nat) (hb : 1 ≤ np.bits t) (v : Int) : inRange np t (wrap np t v) = true := by
  unfold wrap inRange
  by_cases hs : np.signed t = true
  · simp only [hs, if_true, Bool.and_eq_true, decide_eq_true_eq]
    rw [two_pow_pred hb]
    have hp := two_pow_pos (np.bits t - 1)
    have h1 := Int.emod_nonneg (v + 2 ^ (np.bits t - 1)) (show (2 * (2 : Int) ^ (np.bits t - 1)) ≠ 0 by omega)
    have h2 := Int.emod_lt_of_pos (v + 2 ^ (np.bits t - 1)) (show 0 < (2 * (2 : Int) ^ (np.bits t - 1)) by omega)
    omega
  · simp only [hs, Bool.false_eq_true, if_false, Bool.and_eq_true, decide_eq_true_eq]
    have hp := two_pow_pos (np.bits t)
    exact ⟨Int.emod_nonneg _ (by omega), Int.emod_lt_of_pos _ hp⟩

theorem b2i_ne_zero (c : Bool) : (b2i c != 0) = c := by cases c <;> rfl
theorem one_sub_b2i_ne_zero (c : Bool) : (1 - b2i c != 0) = !c := by cases c <;> rfl


end Dispatch
