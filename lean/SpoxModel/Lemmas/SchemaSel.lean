import SpoxModel.Model.SchemaSel
namespace SchemaSel

theorem pyMax_none {σ : Type} (l : List (Nat × σ)) : pyMax l = none ↔ l = [] := by
  cases l with
  | nil => simp [pyMax]
  | cons x rest =>
    simp only [pyMax]
    cases h : pyMax rest with
    | none => simp
    | some y => by_cases hxy : x.1 < y.1 <;> simp [hxy]

theorem pyMax_spec {σ : Type} (l : List (Nat × σ)) (s : Nat × σ) (h : pyMax l = some s) :
    s ∈ l ∧ ∀ t ∈ l, t.1 ≤ s.1 := by
  induction l generalizing s with
  | nil => simp [pyMax] at h
  | cons x rest ih =>
    simp only [pyMax] at h
    cases hr : pyMax rest with
    | none =>
      rw [hr] at h
      have : rest = [] := (pyMax_none rest).1 hr
      subst this
      simp only [Option.some.injEq] at h
      subst h
      simp
    | some y =>
      rw [hr] at h
      have ⟨hy, hmax⟩ := ih y hr
      by_cases hxy : x.1 < y.1
      · simp only [hxy, if_true, Option.some.injEq] at h
        subst h
        refine ⟨List.mem_cons_of_mem _ hy, ?_⟩
        intro t ht
        rcases List.mem_cons.1 ht with rfl | ht
        · omega
        · exact hmax t ht
      · simp only [hxy, if_false, Option.some.injEq] at h
        subst h
        refine ⟨List.mem_cons_self, ?_⟩
        intro t ht
        rcases List.mem_cons.1 ht with rfl | ht
        · omega
        · have := hmax t ht; omega

theorem fst_inj_of_nodup {σ : Type} (l : List (Nat × σ)) (hn : (l.map (·.1)).Nodup)
    (a b : Nat × σ) (ha : a ∈ l) (hb : b ∈ l) (hab : a.1 = b.1) : a = b := by
  induction l with
  | nil => simp at ha
  | cons x rest ih =>
    simp only [List.map_cons, List.nodup_cons, List.mem_map, not_exists, not_and] at hn
    rcases List.mem_cons.1 ha with rfl | ha' <;> rcases List.mem_cons.1 hb with rfl | hb'
    · rfl
    · exact absurd hab.symm (hn.1 b hb')
    · exact absurd hab (hn.1 a ha')
    · exact ih hn.2 ha' hb'

theorem findList_mem {σ : Type} (lists : List (String × List (Nat × σ))) (name : String) (l : List (Nat × σ))
    (h : findList lists name = some l) : (name, l) ∈ lists := by
  induction lists with
  | nil => simp [findList] at h
  | cons p rest ih =>
    obtain ⟨n, l0⟩ := p
    simp only [findList] at h
    by_cases hn : (n == name) = true
    · rw [if_pos hn] at h
      have : n = name := by simpa using hn
      subst this
      cases h
      exact List.mem_cons_self
    · rw [if_neg hn] at h
      exact List.mem_cons_of_mem _ (ih h)

end SchemaSel
