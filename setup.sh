#!/bin/bash
# Build the native model driver and the Lean library (all property theorems). Offline; nothing fetched.
# A proof that no longer builds does not fail the setup: the affected property's check rebuilds its own
# modules and reports the broken obligation itself.
set -e
cd "$(dirname "$(readlink -f "$0")")"
mkdir -p .work evidence replays
/venv/bin/python -m translator.all || { echo "translator failed"; exit 1; }
cd lean
lake build spoxmodel
lake build SpoxModel || echo "setup: some proof modules do not build against the current /repo; the affected checks will report it"
