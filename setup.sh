#!/bin/bash
# Build the Lean library (all property theorems) and the native model driver. Offline; nothing fetched.
set -e
cd "$(dirname "$(readlink -f "$0")")"
mkdir -p .work evidence replays
/venv/bin/python -m translator.all || { echo "translator failed"; exit 1; }
cd lean
lake build SpoxModel spoxmodel
