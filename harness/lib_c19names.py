"""C19, round 10 — the name glue inside `subgraph(types, fun)`: `enum_arguments` / `enum_results`.

Model: `lean/SpoxModel/Model/SubgraphNames.lean` (`enumDict`, `enumArguments`, `enumResults`, `subgraphTail`);
theorems `enum_arguments_positional`, `enum_results_positional`, `subgraph_names_refine` (Props/C19.lean).

Tie H (this file): the driver evaluates the model's dict for (prefix, n, outs); the real functions are run on
the same (prefix, n pairwise differently typed infos, the same selection `outs` of argument positions /
constants) and names, order, lengths and the stored state (`_arguments`, `_constructor`, `_results`) compared.
A mismatch is `ck.broken`, never a verdict.

Oracle (model-free; judges the property statement on the real code): `subgraph(types, fun)` — the body must be
invoked once with `len(types)` fresh Vars typed position by position, the graph must request exactly as many
results as Vars were returned; and through the *public* constructor `loop` with 11 … 130 carried values: the
body receives `2 + n` arguments typed in order, the operator has `n` outputs and output `i` carries the type of
returned Var `i` (`out10` must not come before `out2`).
"""
from __future__ import annotations

import warnings

BOUNDARY = [0, 1, 2, 9, 10, 11, 12, 19, 20, 21, 99, 100, 101, 102, 110, 111, 120]
PREFIXES = ["in", "out", "", "x_", "1", "in1", "0", "é", "a b", "in_10_"]


def gen_cases(ck):
    rng = ck.rng
    out = []

    def outs_for(n, style):
        k = n + 3  # ids >= n are constants created inside the callback
        if style == "identity":
            return list(range(n))
        if style == "reversed":
            return list(range(n))[::-1]
        if style == "dups":
            return [rng.randrange(0, max(1, k)) for _ in range(rng.randrange(0, n + 4))]
        if style == "empty":
            return []
        return [n + (i % 3) if i % 4 == 3 else (i * 7) % max(1, n) for i in range(n + 2)] if n else [0, 1, 0]

    styles = ["identity", "reversed", "dups", "empty", "mixed"]
    for n in BOUNDARY:
        for j, pre in enumerate(["in", "out"] + [PREFIXES[(n + 2) % len(PREFIXES)]]):
            out.append({"kind": "names", "pre": pre, "n": n, "outs": outs_for(n, styles[(n + j) % len(styles)])})
    for pre in PREFIXES:
        out.append({"kind": "names", "pre": pre, "n": 13, "outs": outs_for(13, "mixed")})
    for _ in range(ck.pick(25, 250)):
        n = rng.choice([rng.randrange(0, 30), rng.randrange(0, 130), rng.randrange(100, ck.pick(260, 1200))])
        out.append({"kind": "names", "pre": rng.choice(PREFIXES), "n": n, "outs": outs_for(n, rng.choice(styles))})
    for c in out:  # at most n + 3 constants; ids outside are folded back
        c["outs"] = [o if o < c["n"] + 3 else o % (c["n"] + 3) for o in c["outs"]]
    return out


def _types(env, n):
    T, np = env.spox.Tensor, env.np
    return [T(_DTS(np)[i % 11], (i + 1,)) for i in range(n)]


def _DTS(np):
    # 11 element types (a prime: the name-sorted order `0, 1, 10, 11, 2, …` differs from the identity mod 11 as well)
    return [np.float32, np.int64, np.int32, np.float64, np.bool_, np.uint8, np.int8, np.int16, np.uint16, np.uint32, np.uint64]


def _pos(t):
    """position encoded in a type made by `_types`"""
    return t.shape[0] - 1


def run_case(env, case):
    """-> observation dict. Each facet is observed separately; what cannot be observed is listed in
    obs['unobservable'] (-> ck.broken), the oracle part (`sub_*`, `loop_*`) needs `subgraph` / the public API only."""
    n, pre, outs = case["n"], case["pre"], case["outs"]
    obs = {"unobservable": []}
    tys = _types(env, n)
    g = env.graph
    # A. enum_arguments(*types, prefix=pre)
    try:
        vs = g.enum_arguments(*tys, prefix=pre)
        obs["A_names"] = [v._name for v in vs]
        obs["A_order"] = [_pos(v.type) for v in vs]
    except Exception as e:  # noqa: BLE001
        obs["unobservable"].append(f"enum_arguments: {type(e).__name__}: {e}"[:200])
        vs = None
    # B. enum_results(*vars, prefix=pre)
    try:
        base = list(vs) if vs is not None and len(vs) == n else [env.spox.argument(t) for t in tys]
        extra = [env.spox.argument(env.spox.Tensor(env.np.float32, ())) for _ in range(3)]
        pool = base + extra
        sel = [pool[o] for o in outs]
        gr = g.enum_results(*sel, prefix=pre)
        idx = {id(v): i for i, v in enumerate(pool)}
        obs["B_results"] = [[k, idx.get(id(v), -1)] for k, v in gr.requested_results.items()]
    except Exception as e:  # noqa: BLE001
        obs["unobservable"].append(f"enum_results: {type(e).__name__}: {e}"[:200])
    # C. subgraph(types, fun): the whole tail
    rec = []
    consts = []

    def fun(*args):
        rec.append(args)
        op = env.mods[sorted(env.mods, key=lambda q: int(q[1:]))[0]]
        consts[:] = [op.const(float(i)) for i in range(3)]
        pool = list(args) + consts
        return (pool[o] if o < len(pool) else consts[0] for o in outs)  # a generator: one-shot result

    try:
        with warnings.catch_warnings():
            warnings.simplefilter("ignore")
            gr = g.subgraph(tys, fun)
        obs["sub_calls"] = len(rec)
        if rec:
            args = rec[0]
            obs["sub_nargs"] = len(args)
            obs["sub_arg_order"] = [_pos(a.type) if getattr(a, "type", None) is not None else -1 for a in args]
            obs["sub_fresh"] = len({id(a) for a in args}) == len(args)
            obs["sub_unnamed"] = all(getattr(a, "_name", None) is None for a in args)
            rr = gr.requested_results
            obs["sub_nresults"] = len(rr)
            pool = list(args) + consts
            idx = {id(v): i for i, v in enumerate(pool)}
            try:
                obs["C_results"] = [[k, idx.get(id(v), -1)] for k, v in rr.items()]
                ra = gr.requested_arguments
                obs["C_arguments_same"] = ra is not None and len(ra) == len(args) and all(a is b for a, b in zip(ra, args))
                obs["C_constructor_same"] = gr._constructor is fun
            except Exception as e:  # noqa: BLE001
                obs["unobservable"].append(f"stored graph: {type(e).__name__}: {e}"[:200])
    except Exception as e:  # noqa: BLE001
        obs["sub_error"] = f"{type(e).__name__}: {e}"[:200]
        obs["sub_calls"] = len(rec)
    return obs


def judge(case, obs):
    """model-free: the statement of C19 on `subgraph(types, fun)` for a well-formed callback."""
    n, outs = case["n"], case["outs"]
    bad = []
    if "sub_error" in obs:
        bad.append(("subgraph:names:valid-call-rejected", f"subgraph({n} types, fun returning {len(outs)} Vars) raised {obs['sub_error']}"))
        return bad
    if obs.get("sub_calls") != 1:
        bad.append((f"subgraph:names:count={obs.get('sub_calls')}", f"callback invoked {obs.get('sub_calls')} times by subgraph() with {n} types"))
        return bad
    if obs["sub_nargs"] != n:
        bad.append(("subgraph:names:nargs", f"callback got {obs['sub_nargs']} arguments for {n} types"))
    elif obs["sub_arg_order"] != list(range(n)):
        first = next(i for i, p in enumerate(obs["sub_arg_order"]) if p != i)
        bad.append(("subgraph:names:arg-order", f"{n} types: argument {first} is typed for position {obs['sub_arg_order'][first]}"))
    if not obs["sub_fresh"]:
        bad.append(("subgraph:names:args:not-fresh", f"{n} types: the callback received one Var in two positions"))
    if not obs["sub_unnamed"]:
        bad.append(("subgraph:names:args:named", f"{n} types: argument Vars carry names"))
    if obs["sub_nresults"] != len(outs):
        bad.append(("subgraph:names:result-count", f"callback returned {len(outs)} Vars, the subgraph requests {obs['sub_nresults']} results"))
    return bad


def request(case):
    return {"names": {"pre": case["pre"], "n": case["n"], "outs": case["outs"], "start": 0}}


def _canon(names, table=None):
    """names -> first-occurrence indices (a harmless change of the *spelling* of generated names is not a difference;
    a collision or another order is)."""
    table = {} if table is None else table
    return [table.setdefault(nm, len(table)) for nm in names]


def compare(case, obs, m, notes=None):
    """model vs implementation; -> list of differences. Generated names are compared up to a consistent renaming;
    whether the spelling is the model's `f"{prefix}{i}"` is recorded in `notes` (evidence), not a difference."""
    if m is None or "error" in m:
        return [f"driver: {m}"]
    d = []
    notes = {} if notes is None else notes
    pre, n, outs = case["pre"], case["n"], case["outs"]
    if "A_names" in obs:
        if obs["A_names"] != m["names"]:
            notes["enum_arguments spelling differs"] = notes.get("enum_arguments spelling differs", 0) + 1
        if _canon(obs["A_names"]) != _canon(m["names"]):
            d.append(f"enum_arguments names collide / differ in number: {obs['A_names'][:14]}… vs model {m['names'][:14]}…")
        if obs["A_order"] != m["args"]:
            d.append(f"enum_arguments order {obs['A_order'][:14]}… != model {m['args'][:14]}…")
    want_named = [[f"{pre}{i}", o] for i, o in enumerate(outs)]  # the model's results use prefix "out": rename
    model_res = [[pre + k[len("out"):], v] for k, v in m["results"]]
    if model_res != want_named:
        d.append("model results are not positional (model bug?)")

    def res_diff(what, got, want):
        if got != want:
            notes[f"{what} spelling differs"] = notes.get(f"{what} spelling differs", 0) + (
                [v for _, v in got] == [v for _, v in want])
        if [v for _, v in got] != [v for _, v in want] or _canon([k for k, _ in got]) != _canon([k for k, _ in want]):
            d.append(f"{what} {got[:8]}… != model {want[:8]}…")

    if "B_results" in obs:
        res_diff("enum_results", obs["B_results"], model_res)
    if "C_results" in obs:
        res_diff("subgraph()._results", obs["C_results"], [[k, v] for k, v in m["results"]])
        if obs.get("sub_arg_order") != m["tys"]:
            d.append(f"subgraph() argument types by position {obs.get('sub_arg_order', [])[:14]}… != model {m['tys'][:14]}…")
        if not obs.get("C_arguments_same"):
            d.append("Graph._arguments are not the Vars the callback received (model: arguments = ins)")
        if not obs.get("C_constructor_same"):
            d.append("Graph._constructor is not the callback")
    return d


# ----------------------------------------------------------------------------- public API: many carried values
def loop_cases(ck, env):
    rng = ck.rng
    mods = sorted(env.mods, key=lambda q: int(q[1:]))
    ns = [11, 12, 101, 112] + [rng.randrange(13, 131) for _ in range(ck.pick(2, 12))]
    return [{"kind": "names-loop", "mod": mods[i % len(mods)], "n": n, "perm": rng.randrange(0, 3)} for i, n in enumerate(ns)]


def run_loop_case(env, case):
    """`op.loop(M, v_initial=[n pairwise differently typed values], body=…)`; the body returns the condition and a
    rotation of its carried arguments with types restored by position (so that results have pairwise different
    types that still match the carried types ONNX requires)."""
    op = env.mods[case["mod"]]
    n = case["n"]
    tys = _types(env, n)
    carried = [env.spox.argument(t) for t in tys]
    M = env.spox.argument(env.spox.Tensor(env.np.int64, ()))
    rec = []

    def body(*args):
        rec.append(args)
        return [args[1]] + list(args[2:])

    obs = {}
    try:
        with warnings.catch_warnings():
            warnings.simplefilter("ignore")
            res = op.loop(M, v_initial=carried, body=body)
        obs["n_out"] = len(res)
        # ONNX's inference for Loop (opset >= 19) drops the shapes of the carried outputs: the position is read from
        # the shape where there is one and must otherwise agree in the element type (11 types in rotation)
        dts = [env.np.dtype(d) for d in _DTS(env.np)]
        order = []
        for i, r in enumerate(res):
            t = r.type
            if t is None or getattr(t, "dtype", None) is None:
                order.append(-1)
            elif getattr(t, "shape", None) and isinstance(t.shape[0], int):
                order.append(_pos(t) if env.np.dtype(t.dtype) == dts[_pos(t) % 11] else -2)
            else:
                order.append(i if env.np.dtype(t.dtype) == dts[i % 11] else -3)
        obs["out_order"] = order
    except Exception as e:  # noqa: BLE001
        obs["error"] = f"{type(e).__name__}: {e}"[:200]
    obs["calls"] = len(rec)
    if rec:
        obs["nargs"] = len(rec[0])
        obs["arg_order"] = [_pos(a.type) if a.type is not None else -1 for a in rec[0][2:]]
    return obs


def judge_loop(case, obs):
    n = case["n"]
    bad = []
    if obs.get("calls") != 1:
        bad.append((f"loop:names:body:count={obs.get('calls')}", f"{case['mod']}.loop with {n} carried values: body invoked {obs.get('calls')} times"))
        return bad
    if obs["nargs"] != n + 2:
        bad.append(("loop:names:body:nargs", f"{case['mod']}.loop with {n} carried values: body got {obs['nargs']} arguments"))
    elif obs["arg_order"] != list(range(n)):
        first = next(i for i, p in enumerate(obs["arg_order"]) if p != i)
        bad.append(("loop:names:carried:order", f"{case['mod']}.loop with {n} carried values: carried argument {first} is typed for position {obs['arg_order'][first]}"))
    if "error" in obs:
        bad.append(("loop:names:valid-operands-rejected", f"{case['mod']}.loop with {n} carried values (identity body): {obs['error']}"))
    elif obs["n_out"] != n:
        bad.append(("loop:names:out-count", f"{case['mod']}.loop: body returned 1 + {n} Vars, the operator has {obs['n_out']} outputs"))
    elif obs["out_order"] != list(range(n)):
        first = next(i for i, p in enumerate(obs["out_order"]) if p != i)
        bad.append(("loop:names:output-order", f"{case['mod']}.loop with {n} carried values: output {first} has the type of returned Var {obs['out_order'][first]}"))
    return bad


# ----------------------------------------------------------------------------- _make_dummy_subgraph
def dummy_cases(ck, P):
    """(key, argument types, result selection) — types from the property's pool (ranks 0-3, symbolic / None dims,
    unknown shape, sequences, optionals); results = a selection of the arguments (so their types are known)."""
    rng = ck.rng
    pool = list(P.POOL) + list(getattr(P, "EXTRA_TYPES", []))
    out = []
    for n, m in [(0, 0), (0, 1), (1, 1), (3, 2), (2, 5), (11, 11), (12, 13), (101, 3), (5, 102)]:
        tys = [pool[(i * 3 + n) % len(pool)] for i in range(n)]
        out.append({"kind": "dummy", "key": rng.choice(["body", "then_branch", "else_branch", "k"]), "tys": tys,
                    "outs": [(j * 5 + 1) % max(1, n) if n else 0 for j in range(m)]})
    for _ in range(ck.pick(15, 150)):
        n = rng.choice([rng.randrange(0, 6), rng.randrange(0, 40)])
        tys = [rng.choice(pool) for _ in range(n)]
        out.append({"kind": "dummy", "key": rng.choice(["body", "then_branch", "else_branch", ""]), "tys": tys,
                    "outs": [rng.randrange(0, max(1, n)) for _ in range(rng.randrange(0, n + 3))]})
    return out


def run_dummy_case(env, case):
    import importlib

    tys = [env.to_spox(d) for d in case["tys"]]
    n = len(tys)
    rec = []
    scalar = {"t": 11, "s": []}

    def fun(*args):
        rec.append(args)
        op = env.mods[sorted(env.mods, key=lambda q: int(q[1:]))[0]]
        c = op.const(1.0)
        return [args[o] if o < len(args) else c for o in case["outs"]]

    obs = {"res_tys": [case["tys"][o] if o < n else scalar for o in case["outs"]]}
    with warnings.catch_warnings():
        warnings.simplefilter("ignore")
        gr = env.graph.subgraph(tys, fun)
    std = importlib.import_module("spox._standard")
    ts = importlib.import_module("spox._type_system")
    proto = std._make_dummy_subgraph(None, case["key"], gr)
    obs["calls"] = len(rec)

    def vis(xs):
        return [[vi.name, env.from_spox(ts.Type._from_onnx(vi.type))] for vi in xs]

    obs["name"] = proto.name
    obs["inputs"], obs["outputs"], obs["valueInfos"] = vis(proto.input), vis(proto.output), vis(proto.value_info)
    obs["nodes"] = [[nd.op_type, list(nd.input), list(nd.output)] for nd in proto.node]
    obs["initializers"] = len(proto.initializer)
    return obs


def compare_dummy(case, obs, m, notes=None):
    """types, order, counts and wiring exactly; names up to a consistent renaming (spelling -> notes)."""
    if m is None or "error" in m:
        return [f"driver: {m}"]
    d = []
    notes = {} if notes is None else notes

    def canon(o):
        t = {}
        return {"inputs": [[c, ty] for c, (_, ty) in zip(_canon([x[0] for x in o["inputs"]], t), o["inputs"])],
                "valueInfos": [[c, ty] for c, (_, ty) in zip(_canon([x[0] for x in o["valueInfos"]], t), o["valueInfos"])],
                "outputs": [[c, ty] for c, (_, ty) in zip(_canon([x[0] for x in o["outputs"]], t), o["outputs"])],
                "nodes": [[k, _canon(a, t), _canon(b, t)] for k, a, b in o["nodes"]]}

    mm = dict(m, nodes=[["Identity", [a], [b]] for a, b in m["nodes"]])
    if any(obs[k] != mm[k] for k in ("name", "inputs", "outputs", "valueInfos", "nodes")):
        notes["dummy spelling differs"] = notes.get("dummy spelling differs", 0) + 1
    co, cm = canon(obs), canon(mm)
    for k in ("inputs", "outputs", "valueInfos", "nodes"):
        if co[k] != cm[k]:
            d.append(f"{k}: {str(obs[k])[:160]} != model {str(mm[k])[:160]}")
    if obs["initializers"]:
        d.append("the dummy has initializers")
    return d


def run_dummy(ck, env, P):
    from harness import core

    stats = {"cases": 0, "mismatches": 0, "max_args": 0, "max_results": 0}
    cases = dummy_cases(ck, P)
    try:
        models = ck.driver().ask_many("C19", [{"dummy": {"key": c["key"], "types": c["tys"], "res": [
            c["tys"][o] if o < len(c["tys"]) else {"t": 11, "s": []} for o in c["outs"]]}} for c in cases])
    except Exception as e:  # noqa: BLE001
        ck.broken("correspondence", "C19 driver (dummy subgraph)", str(e))
        models = [None] * len(cases)
    if len(models) != len(cases):
        models = [None] * len(cases)
    told = False
    for case, m in zip(cases, models):
        try:
            obs = run_dummy_case(env, case)
        except Exception as e:  # noqa: BLE001
            if not told:
                told = True
                ck.broken("correspondence", "C19 facet of spox not observable", f"_make_dummy_subgraph: {type(e).__name__}: {e}\n{core.fmt_exc()[-300:]}")
            continue
        stats["cases"] += 1
        stats["max_args"] = max(stats["max_args"], len(case["tys"]))
        stats["max_results"] = max(stats["max_results"], len(case["outs"]))
        ck.count(("dummy", len(case["tys"]), len(case["outs"])))
        if obs["calls"] != 1:  # model-free: making what inference sees must not run the callback again
            ck.failure(f"subgraph:names:recalled-after:dummy:count={obs['calls']}",
                       f"callback invoked {obs['calls']} times after subgraph() + _make_dummy_subgraph", {"kind": "dummy", "case": case})
        d = compare_dummy(case, obs, m, stats.setdefault("notes", {}))
        if d:
            stats["mismatches"] += 1
            if stats["mismatches"] <= 3:
                ck.broken("correspondence", "C19 model-vs-implementation (_make_dummy_subgraph)", f"key={case['key']!r} n={len(case['tys'])} outs={case['outs'][:10]} :: {d[:2]}")
    ck.cov["dummy_subgraph"] = stats
    return stats


# ----------------------------------------------------------------------------- driver of the facet
def run(ck, env):
    from harness import core

    stats = {"cases": 0, "mismatches": 0, "loop_cases": 0, "n_hist": {}, "prefixes": {}, "max_n": 0, "results_returned": 0}
    if env.graph is None or getattr(env.graph, "subgraph", None) is None:
        ck.broken("correspondence", "C19 facet of spox not observable", "spox._graph.subgraph not found (name glue)")
        ck.cov["name_glue"] = stats
        return stats
    cases = gen_cases(ck)
    try:
        models = ck.driver().ask_many("C19", [request(c) for c in cases])
    except Exception as e:  # noqa: BLE001
        ck.broken("correspondence", "C19 driver (names)", str(e))
        models = []
    if len(models) != len(cases):
        models = [None] * len(cases)
    reported = set()
    for case, m in zip(cases, models):
        try:
            obs = run_case(env, case)
        except Exception as e:  # noqa: BLE001
            if "case" not in reported:
                reported.add("case")
                ck.broken("correspondence", "C19 name-glue case not observable", f"{type(e).__name__}: {e}\n{core.fmt_exc()[-400:]}")
            continue
        stats["cases"] += 1
        n = case["n"]
        b = "0" if n == 0 else "1-9" if n < 10 else "10" if n == 10 else "11-99" if n < 100 else "100-110" if n <= 110 else ">110"
        stats["n_hist"][b] = stats["n_hist"].get(b, 0) + 1
        stats["prefixes"][case["pre"]] = stats["prefixes"].get(case["pre"], 0) + 1
        stats["max_n"] = max(stats["max_n"], n)
        stats["results_returned"] += len(case["outs"])
        ck.count(("names", case["pre"], n, len(case["outs"])))
        for u in obs["unobservable"]:
            if u.split(":")[0] not in reported:
                reported.add(u.split(":")[0])
                ck.broken("correspondence", "C19 facet of spox not observable", f"name glue: {u}")
        for key, what in judge(case, obs):
            ck.failure(key, what, {"kind": "names", "case": case})
        if m is not None:
            d = compare(case, obs, m, stats.setdefault("notes", {}))
            if d:
                stats["mismatches"] += 1
                if stats["mismatches"] <= 3:
                    ck.broken("correspondence", "C19 model-vs-implementation (enum_arguments / enum_results)", f"case pre={case['pre']!r} n={n} outs={case['outs'][:12]}… :: {d[:3]}")
    for case in loop_cases(ck, env):
        try:
            obs = run_loop_case(env, case)
        except Exception as e:  # noqa: BLE001
            if "loop" not in reported:
                reported.add("loop")
                ck.broken("correspondence", "C19 many-carried-values case not runnable", f"{type(e).__name__}: {e}")
            continue
        stats["loop_cases"] += 1
        ck.count(("names-loop", case["mod"], case["n"]))
        for key, what in judge_loop(case, obs):
            ck.failure(key, what, {"kind": "names-loop", "case": case})
    ck.cov["name_glue"] = stats
    try:
        import sys

        run_dummy(ck, env, sys.modules["harness.props.c19"])
    except Exception as e:  # noqa: BLE001
        ck.broken("correspondence", "C19 dummy-subgraph facet", f"{type(e).__name__}: {e}\n{core.fmt_exc()[-300:]}")
    return stats


def replay(env, case, key, known):
    """-> True iff the recorded failure still shows."""
    if case.get("kind") == "dummy":
        obs = run_dummy_case(env, case["case"])
        found = [] if obs["calls"] == 1 else [(f"subgraph:names:recalled-after:dummy:count={obs['calls']}", "callback re-run")]
    elif case.get("kind") == "names-loop":
        found = judge_loop(case["case"], run_loop_case(env, case["case"]))
    else:
        found = judge(case["case"], run_case(env, case["case"]))
    hit = False
    for k, what in found:
        mine = (k == key) if key else (k not in known)
        print(("* " if mine else "  ") + f"{k}: {what}")
        hit = hit or mine
    return hit
