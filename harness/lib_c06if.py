"""C06 round 10 — `If`: the real constructor's reported types, raw `If` nodes on onnxruntime, and the
If families of the model-free oracle.

* `real_if(T, E, module)`: what `op.if_` of an opset module reports when its branches return Vars of the
  prescribed types (compared with the Lean `inferIf`, tie H);
* `raw_if_run(...)`: one raw ONNX `If` node (onnx.helper, no spox) whose branches return constants of given
  element types / shapes, run by onnxruntime with the condition fed (compared with the Lean `ifRun`);
* `run_if_family(case, ...)`: a spox program with one `If` whose two branches compute results of DIFFERENT
  types from a model input (then: [A(x), B(x)], else: [B(x), A(x)]), every result and a consumer exposed,
  condition fed true and false, unknown dims instantiated — judged by `lib_c06prog.observe` (model-free).
"""
from __future__ import annotations

import warnings

import numpy as np

from harness import lib_c06prog as P
from harness import lib_mlops as L

IF_TYS = [
    None,
    {"e": "f32", "s": None},
    {"e": "f32", "s": []},
    {"e": "f32", "s": [2]},
    {"e": "f32", "s": [4]},
    {"e": "f32", "s": ["N"]},
    {"e": "f32", "s": ["M"]},
    {"e": "f32", "s": [None]},
    {"e": "f32", "s": [2, 3]},
    {"e": "f32", "s": [2, 4]},
    {"e": "f32", "s": ["N", 3]},
    {"e": "f32", "s": [None, 3]},
    {"e": "f32", "s": ["N", None]},
    {"e": "f32", "s": ["N", "M"]},
    {"e": "f32", "s": ["M", "N"]},
    {"e": "f32", "s": [0]},
    {"e": "f32", "s": [2, 3, 4]},
    {"e": "f32", "s": [2, "N", 4]},
    {"e": "i64", "s": [2]},
    {"e": "i64", "s": []},
    {"e": "bool", "s": [2]},
    {"e": "str", "s": ["N"]},
]


def real_if(T, E, module="v17") -> dict:
    op = P.opset_module(module)
    try:
        t = [L.mk_var(x) for x in T]
        e = [L.mk_var(x) for x in E]
        c = L.mk_var({"e": "bool", "s": []})
        with warnings.catch_warnings():
            warnings.simplefilter("ignore")
            outs = op.if_(c, then_branch=lambda: list(t), else_branch=lambda: list(e))
        return {"ok": [L.ty_to_json(x.type) for x in outs]}
    except Exception as ex:  # noqa: BLE001
        return {"err": type(ex).__name__}


def relation(T, E) -> str:
    """Class of a (then, else) case — printed into the evidence as the input distribution."""
    if any(x is None for x in list(T) + list(E)):
        return "untyped-result"
    if len(T) != len(E):
        return "arity-mismatch"
    if not T:
        return "no-results"
    if any(a["e"] != b["e"] for a, b in zip(T, E)):
        return "dtype-mismatch"
    if all(a == b for a, b in zip(T, E)):
        return "equal"
    if any(a["s"] is None or b["s"] is None for a, b in zip(T, E)):
        return "rank-unknown"
    if any(len(a["s"]) != len(b["s"]) for a, b in zip(T, E)):
        return "rank-mismatch"
    return "dims-differ"


_NP = {"f32": np.float32, "f64": np.float64, "i32": np.int32, "i64": np.int64, "bool": np.bool_}


def raw_if_run(vt: list, ve: list, c: bool):
    """A raw `If` node: branch results are Constant nodes of the given element types / shapes."""
    import onnx
    import onnxruntime as ort
    from onnx import TensorProto, helper, numpy_helper

    def branch(name, vals):
        nodes, outs = [], []
        for k, v in enumerate(vals):
            o = f"{name}_{k}"
            arr = np.zeros(tuple(v["s"]), dtype=_NP[v["e"]])
            nodes.append(helper.make_node("Constant", [], [o], value=numpy_helper.from_array(arr, o + "_v")))
            vi = onnx.ValueInfoProto()
            vi.name = o
            outs.append(vi)
        return helper.make_graph(nodes, name, [], outs)

    n = max(len(vt), len(ve))
    node = helper.make_node("If", ["c"], [f"r{k}" for k in range(n)], then_branch=branch("t", vt), else_branch=branch("e", ve))
    outs = []
    for k in range(n):
        vi = onnx.ValueInfoProto()
        vi.name = f"r{k}"
        outs.append(vi)
    g = helper.make_graph([node], "g", [helper.make_tensor_value_info("c", TensorProto.BOOL, [])], outs)
    m = helper.make_model(g, opset_imports=[helper.make_opsetid("", 17)], ir_version=8)
    so = ort.SessionOptions()
    so.log_severity_level = 4
    sess = ort.InferenceSession(m.SerializeToString(), so, providers=["CPUExecutionProvider"])
    res = sess.run(None, {"c": np.array(c)})
    return [L.val_of(r) for r in res]


# ------------------------------------------------------------------------------------ oracle family
BRANCH_KINDS = ["id", "double", "const4", "const23", "narrow", "sum", "size", "shape", "neg"]
X_SHAPES = [["N"], [3], ["N", 3], [2, "K"]]


def _apply(op, kind, x):
    if kind == "id":
        return x
    if kind == "neg":
        return op.neg(x)
    if kind == "double":
        return op.concat([x, x], axis=0)
    if kind == "const4":
        return op.const(np.zeros((4,), dtype=np.float32))
    if kind == "const23":
        return op.const(np.zeros((2, 3), dtype=np.float32))
    if kind == "narrow":
        return op.add(x, op.const(np.ones((3,), dtype=np.float32)))
    if kind == "sum":
        return op.reduce_sum(x, op.const(np.array([0], dtype=np.int64)), keepdims=0)
    if kind == "size":
        return op.cast(op.size(x), to=np.float32)
    if kind == "shape":
        return op.cast(op.shape(x), to=np.float32)
    raise ValueError(kind)


def if_family_cases(modules, thorough: bool) -> list[dict]:
    cases, k = [], 0
    for xi, xs in enumerate(X_SHAPES):
        for i, a in enumerate(BRANCH_KINDS):
            for b in BRANCH_KINDS[i:]:
                mods = modules if thorough else [modules[0], modules[1 + k % (len(modules) - 1)]] if len(modules) > 1 else modules
                if not thorough and xi >= 2 and (k % 2):
                    k += 1
                    continue
                k += 1
                for m in mods:
                    cases.append({"kind": "if-family", "module": m, "x": xs, "a": a, "b": b})
    return cases


def run_if_family(case: dict, rng, sizes, max_inst: int, extra_feeds=()) -> dict:
    try:
        op = P.opset_module(case["module"])
    except Exception as e:  # noqa: BLE001
        return {"rejected": True, "error": f"{type(e).__name__}: {e}", "runs": 0, "refused": 0, "checked": 0, "fails": []}
    try:
        with warnings.catch_warnings():
            warnings.simplefilter("ignore")
            decl = {"x": L.ty_from_json({"e": "f32", "s": case["x"]}), "c": L.ty_from_json({"e": "bool", "s": []})}
            args = P.make_args(decl)
            x = args["x"]
            outs = list(
                op.if_(
                    args["c"],
                    then_branch=lambda: [_apply(op, case["a"], x), _apply(op, case["b"], x)],
                    else_branch=lambda: [_apply(op, case["b"], x), _apply(op, case["a"], x)],
                )
            )
            outs = outs + [op.identity(o) for o in outs] + [op.shape(outs[0])]
    except Exception as e:  # noqa: BLE001
        return {"rejected": True, "error": f"{type(e).__name__}: {str(e)[:200]}", "runs": 0, "refused": 0, "checked": 0, "fails": []}
    feeds = []
    for base in P.feeds_for({"x": args["x"]}, rng, [1, 3, 5] if "narrow" in (case["a"], case["b"]) else sizes, max_inst):
        for c in (True, False):
            f = dict(base)
            f["c"] = np.array(c)
            feeds.append(f)
    return P.observe(args, outs, rng, sizes, max_inst, extra_feeds=list(extra_feeds) + feeds, only_extra=True)


# ------------------------------------------------------------------------------------ Scan state outputs
STATE_TYS = [
    {"e": "f32", "s": None},
    {"e": "f32", "s": []},
    {"e": "f32", "s": [3]},
    {"e": "f32", "s": [4]},
    {"e": "f32", "s": ["N"]},
    {"e": "f32", "s": ["M"]},
    {"e": "f32", "s": [None]},
    {"e": "f32", "s": [2, 3]},
    {"e": "f32", "s": [2, "N"]},
    {"e": "f32", "s": [None, "M"]},
    {"e": "f32", "s": ["N", None]},
    {"e": "f32", "s": [None, None]},
    {"e": "i64", "s": [3]},
]


def real_scan_state(S0, R, module="v17") -> dict:
    """Type `op.scan` reports for the final state when the initial state has type S0 and the body returns a
    Var of type R for it (one scan input f32[5,2], returned as the scan row)."""
    op = P.opset_module(module)
    try:
        s0 = L.mk_var(S0)
        x = L.mk_var({"e": "f32", "s": [5, 2]})
        r = L.mk_var(R)
        with warnings.catch_warnings():
            warnings.simplefilter("ignore")
            outs = op.scan([s0, x], body=lambda s, xx: [r, xx], num_scan_inputs=1)
        return {"ty": L.ty_to_json(outs[0].type)}
    except Exception as ex:  # noqa: BLE001
        return {"err": type(ex).__name__}


def real_scan_states(S0s, Rs, module="v17") -> dict:
    """Several states: types reported for ALL final states (slot by slot)."""
    op = P.opset_module(module)
    try:
        s0 = [L.mk_var(t) for t in S0s]
        x = L.mk_var({"e": "f32", "s": [5, 2]})
        r = [L.mk_var(t) for t in Rs]
        with warnings.catch_warnings():
            warnings.simplefilter("ignore")
            outs = op.scan(s0 + [x], body=lambda *a: r + [a[-1]], num_scan_inputs=1)
        return {"tys": [L.ty_to_json(o.type) for o in outs[: len(S0s)]]}
    except Exception as ex:  # noqa: BLE001
        return {"err": type(ex).__name__}


def raw_scan_state_run(kind: str, state_shape: list, n: int):
    """A raw `Scan` node (onnx.helper, no spox): one f32 state of the given shape whose body result is
    `kind`(state) — keep / double (Concat) / head (Slice 0:1) / flatten (Reshape [-1]); one scan input
    f32[n,2] returned as the row. Only ranks are declared (every dim symbolic), so only the RUNTIME's rule decides.
    Returns [final, Y] as values, or raises what onnxruntime raises."""
    import onnx
    from onnx import TensorProto as T
    from onnx import helper as h

    sym = [f"d{i}" for i in range(len(state_shape))]  # ranks declared (onnxruntime requires it), every dim symbolic
    b_in = [h.make_tensor_value_info("s", T.FLOAT, sym), h.make_tensor_value_info("x", T.FLOAT, ["p"])]
    nodes = []
    if kind == "double":
        nodes.append(h.make_node("Concat", ["s", "s"], ["s_out"], axis=0))
    elif kind == "head":
        for nm, v in (("b", [0]), ("e", [1]), ("a", [0])):
            nodes.append(h.make_node("Constant", [], [nm], value=onnx.numpy_helper.from_array(np.array(v, np.int64))))
        nodes.append(h.make_node("Slice", ["s", "b", "e", "a"], ["s_out"]))
    elif kind == "flatten":
        nodes.append(h.make_node("Constant", [], ["sh"], value=onnx.numpy_helper.from_array(np.array([-1], np.int64))))
        nodes.append(h.make_node("Reshape", ["s", "sh"], ["s_out"]))
    else:
        nodes.append(h.make_node("Identity", ["s"], ["s_out"]))
    nodes.append(h.make_node("Identity", ["x"], ["y"]))
    body = h.make_graph(nodes, "body", b_in, [h.make_value_info("s_out", onnx.TypeProto()), h.make_value_info("y", onnx.TypeProto())])
    node = h.make_node("Scan", ["s0", "X"], ["fin", "Y"], body=body, num_scan_inputs=1)
    g = h.make_graph([node], "g", [h.make_tensor_value_info("s0", T.FLOAT, sym), h.make_tensor_value_info("X", T.FLOAT, ["n", "p"])],
                     [h.make_value_info("fin", onnx.TypeProto()), h.make_value_info("Y", onnx.TypeProto())])
    m = h.make_model(g, opset_imports=[h.make_operatorsetid("", 17)])
    m.ir_version = 8
    sess = P._session(m.SerializeToString())
    res = sess.run(None, {"s0": np.ones(tuple(state_shape), np.float32), "X": np.zeros((n, 2), np.float32)})
    return [L.val_of(r) for r in res]
