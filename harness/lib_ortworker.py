"""Crash-proof onnxruntime: every session of the C08 oracle runs in a child process.

onnxruntime answers some invalid models (that `onnx.checker` inside `spox.build` can miss on a mutated tree) not with
an exception but with a C++ assertion that ABORTS the process. The parent keeps one persistent worker
(`python -m harness.lib_ortworker`, length-prefixed pickle frames over its stdin / stdout); a worker that dies is a
per-case result (`RuntimeAborted`), the next request starts a new one - the parent always reaches `ck.finish()`.
"""
from __future__ import annotations

import atexit
import os
import pickle
import struct
import subprocess
import sys
from pathlib import Path


class RuntimeAborted(Exception):
    """the onnxruntime process died (signal) while loading / running the model"""


_EXC: dict[str, type] = {}


def remote_exception(name: str, msg: str) -> Exception:
    """An exception whose class NAME is the one raised in the worker (keys use `type(e).__name__`)."""
    if name not in _EXC:
        _EXC[name] = type(name, (Exception,), {})
    return _EXC[name](msg)


class OrtWorker:
    def __init__(self):
        self.proc = None
        self.crashes = 0
        self.calls = 0
        self.fallbacks = 0
        atexit.register(self.close)

    def start(self):
        root = Path(__file__).resolve().parent.parent
        self.proc = subprocess.Popen([sys.executable, "-m", "harness.lib_ortworker"], cwd=str(root), stdin=subprocess.PIPE,
                                     stdout=subprocess.PIPE, stderr=subprocess.DEVNULL)

    def close(self):
        p, self.proc = self.proc, None
        if p is not None:
            try:
                p.stdin.close()
                p.wait(timeout=5)
            except Exception:  # noqa: BLE001
                try:
                    p.kill()
                except Exception:  # noqa: BLE001
                    pass

    def run(self, model_bytes: bytes, feeds: dict) -> list:
        return self.request(("run", model_bytes, feeds))

    def full_check(self, model_bytes: bytes) -> None:
        """onnx.checker.check_model(full_check=True) in the child (its shape inference can crash natively)."""
        self.request(("check", model_bytes, None))

    def convert(self, model_bytes: bytes, target: int) -> bytes:
        """onnx.version_converter.convert_version in the child (the converter fails native assertions)."""
        return self.request(("convert", model_bytes, target))

    def request(self, req):
        if self.proc is None or self.proc.poll() is not None:
            self.start()
        self.calls += 1
        p = self.proc
        try:
            b = pickle.dumps(req, protocol=pickle.HIGHEST_PROTOCOL)
            p.stdin.write(struct.pack("<I", len(b)) + b)
            p.stdin.flush()
            hdr = p.stdout.read(4)
            if len(hdr) < 4:
                raise EOFError
            n = struct.unpack("<I", hdr)[0]
            body = p.stdout.read(n)
            if len(body) < n:
                raise EOFError
        except (EOFError, BrokenPipeError, OSError):
            rc = None
            try:
                rc = p.wait(timeout=10)
            except Exception:  # noqa: BLE001
                p.kill()
            self.proc = None
            self.crashes += 1
            raise RuntimeAborted(f"the onnx / onnxruntime process died on request '{req[0]}' (exit status {rc})") from None
        res = pickle.loads(body)
        if res[0] == "ok":
            self.fallbacks += int(res[2])
            return res[1]
        raise remote_exception(res[1], res[2])


class _Done(Exception):
    pass


def main():
    out = os.fdopen(os.dup(1), "wb")
    os.dup2(2, 1)  # nothing but frames on the protocol pipe
    inp = sys.stdin.buffer
    import onnx
    import onnxruntime as ort

    def opts(plain: bool):
        so = ort.SessionOptions()
        so.log_severity_level = 4
        so.intra_op_num_threads = 1
        so.inter_op_num_threads = 1
        if plain:
            so.graph_optimization_level = ort.GraphOptimizationLevel.ORT_DISABLE_ALL
        return so

    so, so_plain = opts(False), opts(True)
    while True:
        hdr = inp.read(4)
        if len(hdr) < 4:
            break
        n = struct.unpack("<I", hdr)[0]
        kind, model_bytes, feeds = pickle.loads(inp.read(n))
        try:
            fallback = False
            if kind == "check":
                onnx.checker.check_model(onnx.load_from_string(model_bytes), full_check=True)
                raise _Done(("ok", None, False))
            if kind == "convert":
                import onnx.version_converter

                conv = onnx.version_converter.convert_version(onnx.load_from_string(model_bytes), feeds)
                raise _Done(("ok", conv.SerializeToString(), False))
            try:
                sess = ort.InferenceSession(model_bytes, so, providers=["CPUExecutionProvider"])
            except Exception as e:  # noqa: BLE001
                # ONLY the known optimiser defect (valid Shape/Flatten/Softmax/Reshape -> Reshape chains) is retried
                if "GetIndexFromName" not in str(e):
                    raise
                # (no full check here: onnx's own shape inference can crash - LabelEncoder on a value of unknown shape)
                onnx.checker.check_model(onnx.load_from_string(model_bytes))
                sess = ort.InferenceSession(model_bytes, so_plain, providers=["CPUExecutionProvider"])
                fallback = True
            res = ("ok", sess.run(None, feeds), fallback)
        except _Done as d:
            res = d.args[0]
        except Exception as e:  # noqa: BLE001
            res = ("err", type(e).__name__, str(e))
        b = pickle.dumps(res, protocol=pickle.HIGHEST_PROTOCOL)
        out.write(struct.pack("<I", len(b)) + b)
        out.flush()


if __name__ == "__main__":
    main()
