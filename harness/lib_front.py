"""Abstract programs with nested bodies, their realisation with the real spox constructors, an
independent numpy evaluator, and build requests (shared by the C03 and C12 checks).

An abstract program is a list of nodes in creation order; a node is a dict with a global "id":

  {"k": "arg",  "ty": {"e": "f32", "d": [2, "N", None]}}     spox.argument(Tensor(...))
  {"k": "init", "ty": {...}}                                  a Constant Var (NOT an argument)
  {"k": "junk", "v": 3}                                       not a Var at all (int / None / array)
  {"k": "lift", "a": id}                                      ReduceSum(Cast(a, f32)) -> f32 scalar
  {"k": "add"|"mul", "a": id, "b": id}   {"k": "neg", "a": id}   {"k": "const", "v": 2.0}
  {"k": "if",   "a": id, "b": id, "then": block, "else": block}   If(Less(a, b), ...)
  {"k": "loop", "n": 2, "init": id, "body": block}                Loop(M=n, True, [init], body)
  block = {"formals": [ids of the body's own arguments], "nodes": [...], "res": [ids]}
  Control-flow operands that are *arguments directly* (nothing in between):
  {"k": "if", "c": id, ...}                 If(c, ...) with `c` a bool rank-0 argument (no "a"/"b")
  {"k": "loop", "m": id, "cnd": id, ...}    trip count an i64 rank-0 argument / condition a bool rank-0 argument
  {"k": "scan", "init": id, "xs": id?, "body": block}   Scan(state=init, scan input = an f32 rank-1 argument
                                            `xs` directly, or a constant vector); value = the final state
  f32 rank-0 arguments are scalars like any other value (operands of Add, Less, Loop/Scan state, ...).

Every non-arg value is an f32 scalar, so any two of them can be combined; arguments have random
element types and shapes (constant, symbolic and unknown dimensions) and enter through `lift`.
Nothing here uses the Lean model.
"""
from __future__ import annotations

import random
import warnings

import numpy as np

ELEMS = {"f32": (np.float32, 1), "u8": (np.uint8, 2), "i8": (np.int8, 3), "u16": (np.uint16, 4), "i16": (np.int16, 5),
         "i32": (np.int32, 6), "i64": (np.int64, 7), "bool": (np.bool_, 9), "f16": (np.float16, 10),
         "f64": (np.float64, 11), "u32": (np.uint32, 12), "u64": (np.uint64, 13)}
try:  # element types without a numpy-native dtype / without Cast support in every runtime
    import ml_dtypes as _mld

    ELEMS["bf16"] = (_mld.bfloat16, 16)
except Exception:  # noqa: BLE001 - not installed: one element type fewer
    pass
ELEMS["str"] = (np.str_, 8)
ELEMS["c64"] = (np.complex64, 14)
SIZE_LIFT = {"str", "bf16", "c64"}   # arguments of these types enter a program through Size (element count), not Cast
SYM = {"N": 2, "M": 3, "K": 1}
# names a user may give a symbolic dimension: ordinary ones, names that LOOK like the `unk__<n>` parameters ONNX
# shape inference invents (spox strips those from *inferred* types only), near misses, digits, non-ASCII, spaces,
# and "" (an empty dim_param is ONNX's way of writing "unknown")
# preset names of `arguments_dict` arguments: disjoint from every pool of user-chosen keys
PRESET_NAMES = ["preset_w", "preset_bias", "preset_x0", "preset_\u00e9", "preset_data"]
DIM_NAMES = ["N", "M", "K", "N", "unk__0", "unk__batch", "UNK__1", "unk_1", "unk__", "", "0", "12", "\u6279", "\u00fc_len", "dim with space"]


def _dim_str(d):
    return "?" if d is None or d == "" else str(d)


def _inferred_dim(d, operand_dims=()):
    """What spox's type inference leaves of a dimension of an *operator output* (since fix c899b77): a
    `unk__*` name is stripped only when ONNX shape inference invented it — a name that occurs in a type of
    one of the node's operands is the caller's own and is kept, whatever it looks like. `""` never was a
    name (ONNX's spelling of "unknown"; spox turns it into None at construction)."""
    if not isinstance(d, str):
        return d
    if d == "":
        return None
    if d.startswith("unk__") and d not in operand_dims:
        return None
    return d


SCALAR = {"e": "f32", "d": []}


def covered_code_changes(ck):
    """tie G for `build` itself: regenerate the statement list of `_public.build`
    (Generated/BuildFrontIR.lean, obligation `generated_build_good`) and compare the normalised-AST
    digests of the functions the front-end model covers with the committed ones. Returns the list
    of covered functions whose code differs from what the model was written against (evidence; the
    checks then run with larger counts). Never raises."""
    import json
    from pathlib import Path

    try:
        from translator import build_front_ir

        info = build_front_ir.generate()
        try:
            from translator import front_facts

            ff = front_facts.generate()
            ck.cov["generated_recursive_functions"] = ff["recursive"]
            ck.cov["generated_intro_facts"] = ff["intro_facts"]
            ck.cov["generated_process_dependent_calls"] = ff["process_dependent"]
            ck.cov["generated_converter_facts"] = ff.get("converter_facts")
        except Exception as e:  # noqa: BLE001
            ck.broken("translator", "translator/front_facts.py could not read src/spox", f"{type(e).__name__}: {e}")
        ck.cov["generated_build_statements"] = info["ir"]
        pinned = json.loads((Path(__file__).parent / "pinned_c03c12_digests.json").read_text())
        changed = sorted(k for k in set(pinned) | set(info["digests"]) if pinned.get(k) != info["digests"].get(k))
        ck.cov["covered_functions"] = len(info["digests"])
        ck.cov["covered_functions_changed"] = changed
        return changed
    except Exception as e:  # noqa: BLE001
        ck.broken("translator", "translator/build_front_ir.py could not read src/spox", f"{type(e).__name__}: {e}")
        return ["<unreadable>"]


# ----------------------------------------------------------------------------- types
def ty_str(ty) -> str:
    """Canonical rendering of an abstract type: '<onnx elem code>:[d0,d1,…]' ('?' = unknown dim),
    'seq(T)' and 'opt(T)' for sequence and optional types."""
    if "seq" in ty:
        return "seq(" + ty_str(ty["seq"]) + ")"
    if "opt" in ty:
        return "opt(" + ty_str(ty["opt"]) + ")"
    return f"{ELEMS[ty['e']][1]}:[" + ",".join(_dim_str(d) for d in ty["d"]) + "]"


def proto_ty_str(tp) -> str:
    """The same rendering of an onnx TypeProto."""
    if tp.HasField("sequence_type"):
        return "seq(" + proto_ty_str(tp.sequence_type.elem_type) + ")"
    if tp.HasField("optional_type"):
        return "opt(" + proto_ty_str(tp.optional_type.elem_type) + ")"
    if not tp.HasField("tensor_type"):
        return "non-tensor"
    tt = tp.tensor_type
    if not tt.HasField("shape"):
        return f"{tt.elem_type}:unranked"
    dims = []
    for d in tt.shape.dim:
        if d.HasField("dim_value"):
            dims.append(str(d.dim_value))
        elif d.HasField("dim_param") and d.dim_param:
            dims.append(d.dim_param)
        else:
            dims.append("?")
    return f"{tt.elem_type}:[" + ",".join(dims) + "]"


def gen_type(rng: random.Random, tensor_only=False, basic=False):
    """`basic`: only element types every sequence / optional operator of opset 17 accepts."""
    r = rng.random()
    if not tensor_only and r < 0.10:
        return {"seq": gen_type(rng, True, True)}
    if not tensor_only and r < 0.17:
        return {"opt": gen_type(rng, True, True) if rng.random() < 0.7 else {"seq": gen_type(rng, True, True)}}
    e = rng.choice([x for x in ELEMS if not (basic and x in SIZE_LIFT)])
    rank = rng.choice([0, 1, 1, 2, 2, 3])
    return {"e": e, "d": [rng.choice([0, 1, 1, 2, 3, None, None] + [rng.choice(DIM_NAMES)] * 3) for _ in range(rank)]}


def feed_for(ty, rng: random.Random):
    if "seq" in ty:
        return [feed_for(ty["seq"], rng) for _ in range(rng.randrange(1, 4))]
    if "opt" in ty:
        return feed_for(ty["opt"], rng) if rng.random() < 0.6 else None
    shape = [SYM.get(d, 2) if isinstance(d, str) else (2 if d is None else d) for d in ty["d"]]
    dt = ELEMS[ty["e"]][0]
    n = int(np.prod(shape)) if shape else 1
    if ty["e"] == "str":
        return np.array([str(rng.randrange(0, 4)) for _ in range(n)], dtype=np.str_).reshape(shape)
    if ty["e"] == "bool":
        vals = [rng.random() < 0.5 for _ in range(n)]
    elif ty["e"] in ("u8", "u16", "u32", "u64"):
        vals = [rng.randrange(0, 4) for _ in range(n)]
    else:
        vals = [rng.randrange(-3, 4) for _ in range(n)]
    return np.array(vals, dtype=dt).reshape(shape)


VALUE_KINDS = ("lift", "neg", "bin", "tcast", "cust", "rmax", "add", "mul", "fun", "if", "loop", "scan",
               "ucast", "ureshape", "intro", "intros", "introsib", "linl")
DEP_KEYS = ("a", "b", "init", "c", "m", "cnd", "xs", "of")   # input edges of a node
SUB_KEYS = ("then", "else", "body")                      # subgraph attributes of a node
ROLE_TYPES = [{"e": "f32", "d": []}, {"e": "f32", "d": []}, {"e": "bool", "d": []}, {"e": "bool", "d": [1]}, {"e": "i64", "d": [1]},
              {"e": "f32", "d": [2]}, {"e": "f32", "d": ["N"]}, {"e": "f32", "d": [None]}, {"e": "f32", "d": [0]}, {"e": "f32", "d": ["unk__batch"]}]


def role_typed(ty) -> bool:
    """Can an argument of this type be read directly by a node other than `lift` / `tcast`?"""
    if "e" not in ty:
        return False
    return (ty["e"] == "f32" and len(ty["d"]) <= 1) or (ty["e"] == "bool" and ty["d"] in ([], [1])) or (ty["e"] == "i64" and ty["d"] == [1])


# ----------------------------------------------------------------------------- generation
CUSTOM_DOMAINS = [("verif.alpha", 1), ("org.verif.beta", 2), ("zeta.custom", 3)]


def custom_model(j: int):
    """A one-node model whose node lives in a custom operator domain (cannot be run, can be built)."""
    from onnx import TensorProto as T
    from onnx import helper as h

    dom, ver = CUSTOM_DOMAINS[j]
    g = h.make_graph([h.make_node("Twice", ["x"], ["z"], domain=dom, name="cust")], f"cust{j}",
                     [h.make_tensor_value_info("x", T.FLOAT, [])], [h.make_tensor_value_info("z", T.FLOAT, [])])
    return h.make_model(g, opset_imports=[h.make_opsetid("", 17), h.make_opsetid(dom, ver)], ir_version=8)


LONG = "StatefulPartitionedCall/model/feature_column_transformer/dense_features/embedding_lookup_sparse/"


def long_name_model():
    """z = 2*x + 2 with tf2onnx-style internal value and node names of 120-150 characters, so that the
    names spox generates for them (`Inline_k__<name>`) are far longer than any length limit one might set."""
    from onnx import TensorProto as T
    from onnx import helper as h

    t, c = LONG + "MatMul/ReadVariableOp/resource:0__" + "t" * 30, LONG + "BiasAdd/ReadVariableOp:0__" + "c" * 40
    g = h.make_graph(
        [h.make_node("Mul", ["x", c], [t], name=LONG + "Mul_node_" + "n" * 30),
         h.make_node("Add", [t, c], ["z"], name=LONG + "Add_node_" + "m" * 30)], "long_names",
        [h.make_tensor_value_info("x", T.FLOAT, [])], [h.make_tensor_value_info("z", T.FLOAT, [])],
        initializer=[h.make_tensor(c, T.FLOAT, [], [2.0])])
    return h.make_model(g, opset_imports=[h.make_opsetid("", 17)], ir_version=8)


class _Gen:
    def __init__(self, rng, max_depth, domains=False):
        self.domains = domains
        self.rng = rng
        self.n = 0
        self.max_depth = max_depth
        self.info = {}  # id -> node

    def new(self, node):
        node["id"] = self.n
        self.info[self.n] = node
        self.n += 1
        return node

    def block(self, depth, vis_any, vis_sc, size, formals=None, want_args=()):
        """Nodes created in one scope. vis_any: ids usable by `lift`; vis_sc: f32 scalars."""
        rng = self.rng
        nodes = []
        vis_any, vis_sc = list(vis_any), list(vis_sc)
        pending = list(want_args)  # outer arguments this block should use directly
        for _ in range(size):
            r = rng.random()
            if depth > 0 and vis_sc and rng.random() < 0.2:
                r = 0.59  # a rewritable node (ReduceMax with an axes attribute) inside a body, fairly often
            if pending and rng.random() < 0.7:
                nd = self.new({"k": "lift", "a": pending.pop()})
            elif r < 0.05 and depth == 0 and [i for i in vis_any if self.info[i]["k"] == "arg" and self.info[i]["ty"].get("e", "str") not in SIZE_LIFT]:
                # a non-scalar value: Cast(argument) keeps the argument's dims (constant, zero, symbolic, unknown)
                nd = self.new({"k": "tcast", "a": rng.choice([i for i in vis_any if self.info[i]["k"] == "arg" and self.info[i]["ty"].get("e", "str") not in SIZE_LIFT])})
                nodes.append(nd)
                vis_any.append(nd["id"])
                continue
            elif r < 0.09 and vis_sc:
                # Vars made by the internal helpers: every one of them is an output of an `_Introduce` node of its own
                kind = rng.choice(["ucast", "ureshape", "intro", "intros", "linl"])
                if kind == "intros":
                    nd = self.new({"k": "intros", "a": rng.choice(vis_sc), "b": rng.choice(vis_sc)})
                    nodes.append(nd)
                    vis_sc.append(nd["id"])
                    nd = self.new({"k": "introsib", "of": nd["id"]})   # the second output of the same node
                elif kind == "intro":
                    nd = self.new({"k": "intro", "a": rng.choice(vis_sc), "b": rng.choice(vis_sc)})
                else:
                    nd = self.new({"k": kind, "a": rng.choice(vis_sc)})
            elif r < 0.25 and vis_any:
                nd = self.new({"k": "lift", "a": rng.choice(vis_any)})
            elif r < 0.30:
                nd = self.new({"k": "const", "v": float(rng.randrange(-2, 3))})
            elif r < 0.55 and vis_sc:
                nd = self.new({"k": rng.choice(["add", "mul"]), "a": rng.choice(vis_sc), "b": rng.choice(vis_sc)})
            elif r < 0.58 and vis_sc:
                nd = self.new({"k": "neg", "a": rng.choice(vis_sc)})
            elif r < 0.60 and vis_sc:
                # ReduceMax-13 with an `axes` ATTRIBUTE (an input from opset 18 on): a node the version
                # adapter really rewrites — inside If/Loop bodies too
                nd = self.new({"k": "rmax", "a": rng.choice(vis_sc)})
            elif self.domains and r < 0.75 and vis_sc:
                # several operator domains in one model: ai.onnx.ml and custom domains (through inlined models)
                if rng.random() < 0.4:
                    nd = self.new({"k": "bin", "a": rng.choice(vis_sc)})
                else:
                    nd = self.new({"k": "cust", "a": rng.choice(vis_sc), "j": rng.randrange(len(CUSTOM_DOMAINS))})
            elif r < 0.63 and vis_sc:
                nd = self.new({"k": "bin", "a": rng.choice(vis_sc)})  # ai.onnx.ml Binarizer: a second opset domain
            elif r < 0.78 and vis_sc and depth < self.max_depth:
                a, b = rng.choice(vis_sc), rng.choice(vis_sc)
                sz = rng.randrange(1, 4)
                th = self.block(depth + 1, vis_any, vis_sc, sz, [], self._some_args(vis_any))
                el = self.block(depth + 1, vis_any, vis_sc, rng.randrange(1, 3), [], self._some_args(vis_any))
                conds = self._args_typed(vis_any, "bool", [[], [1]])
                if conds and rng.random() < 0.6:
                    # the condition is an argument itself: read only as a control-flow operand
                    nd = self.new({"k": "if", "c": rng.choice(conds), "then": th, "else": el})
                else:
                    nd = self.new({"k": "if", "a": a, "b": b, "then": th, "else": el})
            elif r < 0.92 and vis_sc and depth < self.max_depth:
                init = rng.choice(vis_sc)
                fi = self.new({"k": "formal", "ty": {"e": "i64", "d": [1]}})
                fc = self.new({"k": "formal", "ty": {"e": "bool", "d": [1]}})
                fa = self.new({"k": "formal", "ty": dict(SCALAR)})
                formals_ = [fi["id"], fc["id"], fa["id"]]
                body = self.block(depth + 1, vis_any + [fi["id"], fa["id"]], vis_sc + [fa["id"]],
                                  rng.randrange(1, 4), formals_, self._some_args(vis_any))
                body["res"] = [fc["id"], body["res"][0]]
                node = {"k": "loop", "n": rng.randrange(0, 3), "init": init, "body": body}
                trips, conds = self._args_typed(vis_any, "i64", [[1]]), self._args_typed(vis_any, "bool", [[1]])
                if trips and rng.random() < 0.6:
                    node["m"] = rng.choice(trips)      # the trip count is an argument itself
                if conds and rng.random() < 0.5:
                    node["cnd"] = rng.choice(conds)    # so is the initial condition
                nd = self.new(node)
            elif vis_sc and depth < self.max_depth:
                # Scan: one state variable, one scan input (an f32 rank-1 argument directly, or a constant vector)
                init = rng.choice(vis_sc)
                fs = self.new({"k": "formal", "ty": dict(SCALAR)})
                fx = self.new({"k": "formal", "ty": dict(SCALAR)})
                formals_ = [fs["id"], fx["id"]]
                body = self.block(depth + 1, vis_any + formals_, vis_sc + formals_,
                                  rng.randrange(1, 4), formals_, self._some_args(vis_any))
                body["res"] = [body["res"][0], rng.choice([fx["id"], body["res"][0]])]
                node = {"k": "scan", "init": init, "body": body}
                xss = self._args_typed(vis_any, "f32", 1)
                if xss and rng.random() < 0.7:
                    node["xs"] = rng.choice(xss)
                nd = self.new(node)
            elif vis_any:
                nd = self.new({"k": "lift", "a": rng.choice(vis_any)})
            else:
                nd = self.new({"k": "const", "v": 1.0})
            nodes.append(nd)
            vis_sc.append(nd["id"])
        own_sc = [n["id"] for n in nodes if n["k"] != "tcast"]
        res = [rng.choice(own_sc)] if own_sc and (rng.random() < 0.85 or not vis_sc) else [rng.choice(vis_sc)] if vis_sc else []
        return {"formals": formals or [], "nodes": nodes, "res": res}

    def _args_typed(self, vis_any, elem, dims):
        """Visible *arguments* (not body formals) of a tensor type with that element type and one of
        the given dims lists (an int: any dims of that rank)."""
        def fits(d):
            return len(d) == dims if isinstance(dims, int) else d in dims
        return [i for i in vis_any if self.info[i]["k"] == "arg" and self.info[i]["ty"].get("e") == elem
                and fits(self.info[i]["ty"]["d"])]

    def _some_args(self, vis_any):
        args = [i for i in vis_any if self.info[i]["k"] == "arg"]
        self.rng.shuffle(args)
        return args[: self.rng.choice([0, 0, 1, 1, 2])]


def gen_program(rng: random.Random, n_args=None, size=None, max_depth=3, domains=False):
    """A random program. Arguments are created first, interleaved with a few other top-level values.
    `domains`: also use operators of custom domains (such programs cannot be run by a runtime)."""
    g = _Gen(rng, max_depth, domains)
    n_args = (rng.randrange(1, 7) if rng.random() < 0.9 else rng.randrange(7, 14)) if n_args is None else n_args
    size = rng.randrange(1, 9) if size is None else size
    top = []
    for _ in range(n_args):
        # a third of the arguments have a type that lets them be a control-flow operand / a scalar operand
        # directly: f32, bool, i64 of rank 0 (If condition, Loop trip count / condition / state), f32 rank 1 (Scan input)
        if rng.random() < 0.33:
            rt = rng.choice(ROLE_TYPES)
            ty = {"e": rt["e"], "d": list(rt["d"])}
        else:
            ty = gen_type(rng)
        node = {"k": "arg", "ty": ty}
        if rng.random() < 0.12:
            # an argument made by the documented-internal `spox._graph.arguments_dict`: it carries a preset
            # name of its own (build must name it by its key and give the preset name back), and — if its
            # shape is concrete — possibly a default value (an initializer of the same name in the model)
            node["preset"] = PRESET_NAMES[len([n for n in top if "preset" in n]) % len(PRESET_NAMES)]
            if "e" in ty and ty["e"] not in SIZE_LIFT and all(isinstance(d, int) for d in ty["d"]) and rng.random() < 0.5:
                node["default"] = True
        top.append(g.new(node))
        if rng.random() < 0.15:
            top.append(g.new({"k": "const", "v": float(rng.randrange(-2, 3))}))
    args = [n["id"] for n in top if n["k"] == "arg"]
    scs = [n["id"] for n in top if n["k"] != "arg" or n["ty"] == SCALAR]
    blk = g.block(0, args, scs, size, [], [])
    top.extend(blk["nodes"])
    if rng.random() < 0.3:
        # model-local functions (spox Function nodes: own FunctionProto, domain, opset imports). Made last, so
        # no subgraph body refers to them (runtimes refuse functions that are only used inside a body)
        scal = [n["id"] for n in top if n["k"] not in ("arg", "tcast")]
        for _ in range(rng.randrange(1, 3)):
            if scal:
                top.append(g.new({"k": "fun", "f": rng.randrange(2), "a": rng.choice(scal), "b": rng.choice(scal)}))
                scal.append(top[-1]["id"])
    multi = None
    if domains:
        # one value that needs several operator domains at once: "" + ai.onnx.ml + 1-3 custom domains
        scal = [n["id"] for n in top if n["k"] not in ("arg", "tcast")]
        if not scal:
            top.append(g.new({"k": "const", "v": 1.0}))
            scal = [top[-1]["id"]]
        parts = []
        if rng.random() < 0.8:
            top.append(g.new({"k": "bin", "a": rng.choice(scal)}))
            parts.append(top[-1]["id"])
        for j in rng.sample(range(len(CUSTOM_DOMAINS)), rng.randrange(1, len(CUSTOM_DOMAINS) + 1)):
            top.append(g.new({"k": "cust", "a": rng.choice(scal), "j": j}))
            parts.append(top[-1]["id"])
        multi = parts[0]
        for p_ in parts[1:]:
            top.append(g.new({"k": "add", "a": multi, "b": p_}))
            multi = top[-1]["id"]
    if rng.random() < 0.5:
        top.append(g.new({"k": "init", "ty": {"e": rng.choice(["f32", "i64"]), "d": [2]}}))
    if rng.random() < 0.5:
        top.append(g.new({"k": "junk", "v": rng.choice([3, None, "s", 2.5])}))
    prog = {"nodes": top, "n": g.n}
    if multi is not None:
        prog["multi"] = multi
    if rng.random() < 0.35:
        prog["opset"] = rng.choice([18, 19, 20, 21])   # realised with the constructors of a newer ai.onnx module
    return prog


def gen_chain_program(rng: random.Random, n: int, in_body: bool):
    """A dependency chain of `n` sequential operators (Neg) from an argument to the output — flat, or
    inside the then-branch of an If — plus an unused argument. ids in creation order."""
    g = _Gen(rng, 1)
    top = [g.new({"k": "arg", "ty": gen_type(rng, True, True)}), g.new({"k": "arg", "ty": dict(SCALAR)}),
           g.new({"k": "arg", "ty": gen_type(rng, True)})]
    top.append(g.new({"k": "lift", "a": top[0]["id"]}))
    start = top[-1]["id"]

    def chain(first):
        nodes, cur = [], first
        for _ in range(n):
            nodes.append(g.new({"k": "neg", "a": cur}))
            cur = nodes[-1]["id"]
        return nodes, cur

    if in_body:
        nodes, last = chain(start)
        els = [g.new({"k": "const", "v": 1.0})]
        top.append(g.new({"k": "if", "a": start, "b": top[1]["id"],
                          "then": {"formals": [], "nodes": nodes, "res": [last]},
                          "else": {"formals": [], "nodes": els, "res": [els[0]["id"]]}}))
    else:
        nodes, last = chain(start)
        top.extend(nodes)
    return {"nodes": top, "n": g.n, "chain": n}


def chain_requests(prog):
    """Valid and missing-input requests for a chain program, both flag values."""
    out = prog["nodes"][-1]["id"]
    args = [n["id"] for n in prog["nodes"] if n["k"] == "arg"]
    used = sorted(free_args(prog, [out]))
    reqs = []
    for drop in (False, True):
        reqs.append({"inputs": [[f"x{j}", a] for j, a in enumerate(args)], "outputs": [["y", out]], "drop": drop, "kind": "chain"})
        reqs.append({"inputs": [[f"x{j}", a] for j, a in enumerate(args) if a != used[0]], "outputs": [["y", out]],
                     "drop": drop, "kind": "chain-missing"})
    return reqs


def gen_wide_program(rng: random.Random, n_args=120):
    """Size in breadth: `n_args` arguments (a sixth of them unused), one value per used argument, all of
    them summed; requests with > 100 inputs and > 50 outputs (names x0..x119: `x100` < `x2` as strings)."""
    g = _Gen(rng, 1)
    top = [g.new({"k": "arg", "ty": gen_type(rng)}) for _ in range(n_args)]
    args = [n["id"] for n in top]
    used = [a for a in args if rng.random() < 0.85]
    lifts = []
    for a in used:
        top.append(g.new({"k": "lift", "a": a}))
        lifts.append(top[-1]["id"])
    acc = lifts[0]
    for l in lifts[1:]:
        top.append(g.new({"k": "add", "a": acc, "b": l}))
        acc = top[-1]["id"]
    prog = {"nodes": top, "n": g.n, "wide": n_args}
    reqs = []
    for drop in (False, True):
        order = list(args)
        rng.shuffle(order)
        outs = [["y", acc]] + [[f"o{j}", l] for j, l in enumerate(rng.sample(lifts, min(60, len(lifts))))]
        reqs.append({"inputs": [[f"x{j}", a] for j, a in enumerate(order)], "outputs": outs, "drop": drop, "kind": "wide"})
        miss = rng.choice(used)
        reqs.append({"inputs": [[f"x{j}", a] for j, a in enumerate(order) if a != miss], "outputs": outs[: rng.randrange(1, 5)],
                     "drop": drop, "kind": "wide-missing"})
    # outputs that need only a few of the many inputs
    few = rng.sample(lifts, 3)
    reqs.append({"inputs": [[f"x{j}", a] for j, a in enumerate(args)], "outputs": [[f"r{j}", l] for j, l in enumerate(few)],
                 "drop": True, "kind": "wide-few"})
    return prog, reqs


def gen_long_name_program(rng: random.Random, depth=None):
    """If nested `depth` (5-7) deep with values at the bottom (their generated names carry the whole
    chain of branch prefixes: > 80 characters), and an inlined model with very long internal names."""
    depth = depth or rng.randrange(5, 8)
    g = _Gen(rng, depth)
    top = [g.new({"k": "arg", "ty": dict(SCALAR)}), g.new({"k": "arg", "ty": dict(SCALAR)}),
           g.new({"k": "arg", "ty": gen_type(rng, True, True)})]
    a, b = top[0]["id"], top[1]["id"]
    top.append(g.new({"k": "lift", "a": top[2]["id"]}))
    l = top[-1]["id"]
    top.append(g.new({"k": "linl", "a": rng.choice([a, l])}))
    li = top[-1]["id"]

    def nest(d):
        if d == 0:
            n1 = g.new({"k": rng.choice(["add", "mul"]), "a": rng.choice([a, b, l]), "b": rng.choice([a, b, li])})
            n2 = g.new({"k": rng.choice(["rmax", "neg", "linl"]), "a": n1["id"]})
            return {"formals": [], "nodes": [n1, n2], "res": [n2["id"]]}
        inner_then, inner_else = nest(d - 1), {"formals": [], "nodes": [], "res": []}
        c = g.new({"k": "const", "v": float(d)})
        inner_else = {"formals": [], "nodes": [c], "res": [c["id"]]}
        if rng.random() < 0.5:
            inner_then, inner_else = inner_else, inner_then
        nd = g.new({"k": "if", "a": rng.choice([a, b]), "b": rng.choice([b, l]), "then": inner_then, "else": inner_else})
        return {"formals": [], "nodes": [nd], "res": [nd["id"]]}

    blk = nest(depth)
    top.extend(blk["nodes"])
    top.append(g.new({"k": "add", "a": blk["res"][0], "b": li}))
    prog = {"nodes": top, "n": g.n}
    req = {"inputs": [["a", a], ["b", b], ["data", top[2]["id"]]], "outputs": [["y", top[-1]["id"]], ["z", li]],
           "drop": rng.random() < 0.5, "kind": "long-names"}
    return prog, req


def walk(nodes):
    """All nodes, nested ones included, in id order of appearance."""
    for nd in nodes:
        for key in ("then", "else", "body"):
            if key in nd:
                yield from walk(nd[key]["nodes"])
        yield nd


_IDX = []  # [(prog, n, idx)] of the last few programs (index() is called per entry; chains have thousands of nodes)


def index(prog):
    for p_, n_, i_ in _IDX:
        if p_ is prog and n_ == prog["n"]:
            return i_
    idx = _index(prog)
    _IDX.append((prog, prog["n"], idx))
    del _IDX[:-6]
    return idx


def _index(prog):
    idx = {}

    def rec(nodes):
        for nd in nodes:
            idx[nd["id"]] = nd
            for key in ("then", "else", "body"):
                if key in nd:
                    rec(nd[key]["nodes"])

    rec(prog["nodes"])
    return idx


def formal_nodes(prog):
    """ids that are formals of some body -> their node (formals are not in any "nodes" list)."""
    out = {}
    for nd in walk(prog["nodes"]):
        if nd["k"] in ("loop", "scan"):
            tys = [{"e": "i64", "d": [1]}, {"e": "bool", "d": [1]}, dict(SCALAR)] if nd["k"] == "loop" else [dict(SCALAR), dict(SCALAR)]
            for f, t in zip(nd["body"]["formals"], tys):
                out[f] = {"k": "formal", "id": f, "ty": t}
    return out


def abstract_type(prog, i):
    nd = index(prog).get(i) or formal_nodes(prog)[i]
    if nd["k"] == "tcast":
        src = abstract_type(prog, nd["a"])["d"]   # Cast(argument): every output dim is an operand dim
        given = [x for x in src if isinstance(x, str) and x != ""]
        return {"e": "f32", "d": [_inferred_dim(d, given) for d in src]}
    return nd["ty"] if nd["k"] in ("arg", "init", "formal") else dict(SCALAR)


# ----------------------------------------------------------------------------- dependence (the property's own definition)
def free_args(prog, out_ids):
    """Top-level arguments on which the outputs depend, directly or through any depth of body.
    One pass in creation order (no recursion along dependency chains: programs may be thousands of nodes deep)."""
    sets = {f: frozenset([f]) for f in formal_nodes(prog)}
    empty = frozenset()

    def of_block(blk):
        s = set()
        for r in blk["res"]:
            s |= sets[r]
        return s - set(blk["formals"])

    for nd in walk(prog["nodes"]):
        k, i = nd["k"], nd["id"]
        if k == "arg":
            sets[i] = frozenset([i])
        elif k in ("const", "init", "junk"):
            sets[i] = empty
        elif k in VALUE_KINDS:
            deps = [sets[nd[key]] for key in DEP_KEYS if key in nd]     # every operand, control-flow operands included
            blocks = [of_block(nd[key]) for key in SUB_KEYS if key in nd]  # every body, minus its own formals
            if len(deps) == 1 and not blocks:
                sets[i] = deps[0]
            else:
                sets[i] = frozenset().union(*deps, *blocks)
        else:
            raise ValueError(k)
    out = set()
    for o in out_ids:
        out |= sets[o]
    return out


def nesting_of_use(prog, out_ids):
    """For each top-level argument reachable from the outputs: the minimal body depth of a use."""
    idx = index(prog)
    best = {}
    seen = set()

    def visit(i, depth):
        if (i, depth) in seen or i not in idx:
            return
        seen.add((i, depth))
        nd = idx[i]
        k = nd["k"]
        if k == "arg":
            best[i] = min(best.get(i, 99), depth)
        for key in DEP_KEYS:
            if key in nd:
                visit(nd[key], depth)
        for key in ("then", "else", "body"):
            if key in nd:
                for r in nd[key]["res"]:
                    visit(r, depth + 1)

    for o in out_ids:
        visit(o, 0)
    return best


def use_kinds(prog, out_ids):
    """For each top-level argument reachable from the outputs: how it is read — "operand" (input of an
    ordinary operator), "cf" (directly the condition / trip count / state / scan input of If, Loop, Scan),
    "result" (directly a result of a body), "output" (directly a requested output)."""
    idx = index(prog)
    kinds = {}
    seen = set()

    def note(i, kind):
        if i in idx and idx[i]["k"] == "arg":
            kinds.setdefault(i, set()).add(kind)

    def visit(i):
        if i in seen or i not in idx:
            return
        seen.add(i)
        nd = idx[i]
        cf = nd["k"] in ("if", "loop", "scan")
        for key in DEP_KEYS:
            if key in nd:
                note(nd[key], "cf" if cf and key in ("c", "m", "cnd", "xs", "init") else "operand")
                visit(nd[key])
        for key in SUB_KEYS:
            if key in nd:
                for r in nd[key]["res"]:
                    note(r, "result")
                    visit(r)

    for o in out_ids:
        note(o, "output")
        visit(o)
    return kinds


# ----------------------------------------------------------------------------- the Lean model's view
def to_objs(prog):
    """The program as the model's object list (oldest first, index = id)."""
    idx = index(prog)
    fm = formal_nodes(prog)
    objs = []
    for i in range(prog["n"]):
        nd = idx.get(i) or fm.get(i)
        k = nd["k"]
        o = {"var": k != "junk", "arg": k in ("arg", "formal"), "ty": "", "deps": [], "subs": []}
        if k != "junk":
            o["ty"] = ty_str(abstract_type(prog, i))
        for key in DEP_KEYS:
            if key in nd:
                o["deps"].append(nd[key])
        for key in ("then", "else", "body"):
            if key in nd:
                o["subs"].append({"formals": nd[key]["formals"], "results": nd[key]["res"]})
        objs.append(o)
    return objs


# ----------------------------------------------------------------------------- realisation with the real constructors
def lift_var(op, v):
    """An f32 scalar that depends on `v`, whatever its type: sum of a tensor's elements, length of a
    sequence, presence of an optional."""
    import spox

    t = v.type
    if isinstance(t, spox.Sequence):
        return op.cast(op.sequence_length(v), to=np.float32)
    if isinstance(t, spox.Optional):
        return op.cast(op.optional_has_element(v), to=np.float32)
    if any(t.dtype == np.dtype(ELEMS[e][0]) for e in SIZE_LIFT if e in ELEMS):
        return op.cast(op.size(v), to=np.float32)   # strings, bfloat16, complex: the number of elements
    return op.reduce_sum(op.cast(v, to=np.float32), keepdims=0)


def realize(prog, op=None):
    """Create the program with the real spox constructors. Returns {id: Var-or-junk}."""
    import spox

    ver = int(prog.get("opset", 17))
    if op is None:
        import importlib

        try:
            op = importlib.import_module(f"spox.opset.ai.onnx.v{ver}")
        except Exception:  # noqa: BLE001 - no such module on this tree
            import spox.opset.ai.onnx.v17 as op

            ver = 17
    env = {}
    funcs = {}

    def function(j):
        """F0(a, b) = a*b + a, F1(a, b) = -a + b, as ONNX functions when this tree can make them."""
        if j not in funcs:
            body = (lambda a, b: [op.add(op.mul(a, b), a)]) if j == 0 else (lambda a, b: [op.add(op.neg(a), b)])
            try:
                from spox._function import to_function

                funcs[j] = to_function(f"F{j}", "verif.func")(body)
            except Exception:  # noqa: BLE001 - no such helper on this tree: plain operators instead
                funcs[j] = body
        return funcs[j]

    def tensor(ty):
        if "seq" in ty:
            return spox.Sequence(tensor(ty["seq"]))
        if "opt" in ty:
            return spox.Optional(tensor(ty["opt"]))
        return spox.Tensor(ELEMS[ty["e"]][0], tuple(ty["d"]))

    def block_results(blk):
        run(blk["nodes"])
        return [env[r] for r in blk["res"]]

    def run(nodes):
        for nd in nodes:
            k, i = nd["k"], nd["id"]
            if k == "arg" and "preset" in nd:
                try:
                    from spox._graph import arguments_dict

                    info = tensor(nd["ty"])
                    if nd.get("default") and "e" in nd["ty"] and all(isinstance(d, int) for d in nd["ty"]["d"]):
                        info = np.ones(tuple(nd["ty"]["d"]), dtype=ELEMS[nd["ty"]["e"]][0])
                    env[i] = arguments_dict(**{nd["preset"]: info})[nd["preset"]]
                except ImportError:  # the internal helper moved: a plain argument (the correspondence will say so)
                    env[i] = spox.argument(tensor(nd["ty"]))
            elif k == "arg":
                env[i] = spox.argument(tensor(nd["ty"]))
            elif k == "init":
                env[i] = op.constant(value=np.ones(2, dtype=ELEMS[nd["ty"]["e"]][0]))  # a Var that is no argument
            elif k == "junk":
                env[i] = nd["v"]
            elif k == "const":
                env[i] = op.const(np.float32(nd["v"]))
            elif k == "lift":
                env[i] = lift_var(op, env[nd["a"]])
            elif k == "tcast":
                env[i] = op.cast(env[nd["a"]], to=np.float32)
            elif k == "add":
                env[i] = op.add(env[nd["a"]], env[nd["b"]])
            elif k == "mul":
                env[i] = op.mul(env[nd["a"]], env[nd["b"]])
            elif k == "neg":
                env[i] = op.neg(env[nd["a"]])
            elif k == "rmax":
                u_ = op.unsqueeze(env[nd["a"]], op.const(np.array([0], dtype=np.int64)))
                if ver >= 18:   # `axes` is an input from opset 18 on
                    # (with `axes` an input the inferred rank can get lost inside bodies: pin it, every value is a scalar)
                    env[i] = op.reshape(op.reduce_max(u_, op.const(np.array([0], dtype=np.int64)), keepdims=0),
                                        op.const(np.array([], dtype=np.int64)))
                else:
                    env[i] = op.reduce_max(u_, axes=[0], keepdims=0)
            elif k == "fun":
                (env[i],) = function(nd["f"])(env[nd["a"]], env[nd["b"]])
            elif k == "cust":
                env[i] = spox.inline(custom_model(nd["j"]))(x=env[nd["a"]])["z"]
            elif k == "linl":
                env[i] = spox.inline(long_name_model())(x=env[nd["a"]])["z"]
            elif k in ("ucast", "ureshape", "intro", "intros", "introsib"):
                from spox import _internal_op as io_  # documented-internal helpers

                if k == "ucast":
                    env[i] = io_.unsafe_cast(env[nd["a"]], spox.Tensor(np.float32, ()))
                elif k == "ureshape":
                    env[i] = io_.unsafe_reshape(env[nd["a"]], ())
                elif k == "intro":
                    env[i] = io_.intro(env[nd["a"]], env[nd["b"]])
                elif k == "intros":
                    env[i], env[("sib", i)] = io_.intros(env[nd["a"]], env[nd["b"]])
                else:
                    env[i] = env.pop(("sib", nd["of"]))
            elif k == "bin":
                import spox.opset.ai.onnx.ml.v3 as ml

                env[i] = ml.binarizer(env[nd["a"]], threshold=0.5)
            elif k == "if":
                (env[i],) = op.if_(
                    env[nd["c"]] if "c" in nd else op.less(env[nd["a"]], env[nd["b"]]),
                    then_branch=lambda nd=nd: block_results(nd["then"]),
                    else_branch=lambda nd=nd: block_results(nd["else"]),
                )
            elif k == "loop":
                def body(it, cond, acc, nd=nd):
                    f = nd["body"]["formals"]
                    env[f[0]], env[f[1]], env[f[2]] = it, cond, acc
                    return block_results(nd["body"])

                (env[i],) = op.loop(env[nd["m"]] if "m" in nd else op.const(np.array([nd["n"]], dtype=np.int64)),
                                    env[nd["cnd"]] if "cnd" in nd else op.const(np.array([True])),
                                    [env[nd["init"]]], body=body)
            elif k == "scan":
                def sbody(st, x, nd=nd):
                    f = nd["body"]["formals"]
                    env[f[0]], env[f[1]] = st, x
                    return block_results(nd["body"])

                xs = env[nd["xs"]] if "xs" in nd else op.const(np.array([1.0, 2.0], dtype=np.float32))
                env[i] = op.scan([env[nd["init"]], xs], body=sbody, num_scan_inputs=1)[0]
            else:
                raise ValueError(k)
            if ver >= 18 and k in ("loop", "scan", "if", "rmax", "fun"):
                # the newer modules' control-flow constructors report carried values without a rank (plain ONNX
                # inference; v17 has its own); every value of a program is a scalar, and `build` refuses unranked
                # outputs, so the rank is pinned by a Reshape to ()
                t_ = getattr(env[i], "type", None)
                if isinstance(t_, spox.Tensor) and t_.shape is None:
                    env[i] = op.reshape(env[i], op.const(np.array([], dtype=np.int64)))

    with warnings.catch_warnings():
        warnings.simplefilter("ignore")
        run(prog["nodes"])
    return env


# ----------------------------------------------------------------------------- independent evaluation (numpy)
def evaluate(prog, feeds, out_ids):
    """Values of `out_ids` computed directly from the abstract program (numpy); feeds: id -> array."""
    idx = index(prog)

    def ev(i, env):
        if i in env:
            return env[i]
        nd = idx[i]
        k = nd["k"]
        if k == "arg":
            v = feeds[i]
        elif k == "init":
            v = np.ones(2, dtype=ELEMS[nd["ty"]["e"]][0])
        elif k == "const":
            v = np.float32(nd["v"])
        elif k == "lift":
            x = ev(nd["a"], env)
            ta = abstract_type(prog, nd["a"])
            if "seq" in ta:
                v = np.float32(len(x))
            elif "opt" in ta:
                v = np.float32(0.0 if x is None else 1.0)
            elif ta.get("e") in SIZE_LIFT:
                v = np.float32(np.asarray(x).size)
            else:
                v = np.float32(np.asarray(x).astype(np.float32).sum())
        elif k == "tcast":
            v = np.asarray(ev(nd["a"], env)).astype(np.float32)
        elif k == "add":
            v = np.float32(ev(nd["a"], env) + ev(nd["b"], env))
        elif k == "mul":
            v = np.float32(ev(nd["a"], env) * ev(nd["b"], env))
        elif k == "neg":
            v = np.float32(-ev(nd["a"], env))
        elif k == "rmax":
            v = np.float32(ev(nd["a"], env))
        elif k == "fun":
            a_, b_ = ev(nd["a"], env), ev(nd["b"], env)
            v = np.float32(a_ * b_ + a_) if nd["f"] == 0 else np.float32(-a_ + b_)
        elif k == "cust":
            raise ValueError("custom-domain operators have no reference semantics")
        elif k == "linl":
            v = np.float32(np.float32(2.0) * ev(nd["a"], env) + np.float32(2.0))
        elif k in ("ucast", "ureshape", "intros"):
            v = ev(nd["a"], env)
        elif k == "intro":
            v = ev(nd["b"], env)
        elif k == "introsib":
            v = ev(idx[nd["of"]]["b"], env)
        elif k == "bin":
            v = np.float32(1.0 if ev(nd["a"], env) > 0.5 else 0.0)
        elif k == "if":
            cond = bool(np.asarray(ev(nd["c"], env)).reshape(-1)[0]) if "c" in nd else ev(nd["a"], env) < ev(nd["b"], env)
            blk = nd["then"] if cond else nd["else"]
            v = ev(blk["res"][0], dict_without(env, blk))
        elif k == "loop":
            acc = ev(nd["init"], env)
            f = nd["body"]["formals"]
            trips = int(np.asarray(ev(nd["m"], env)).reshape(-1)[0]) if "m" in nd else nd["n"]
            if "cnd" in nd and not bool(np.asarray(ev(nd["cnd"], env)).reshape(-1)[0]):
                trips = 0
            for it in range(trips):
                inner = dict_without(env, nd["body"])
                inner[f[0]], inner[f[1]], inner[f[2]] = np.array([it], dtype=np.int64), np.array([True]), acc
                acc = ev(nd["body"]["res"][1], inner)
            v = acc
        elif k == "scan":
            acc = ev(nd["init"], env)
            f = nd["body"]["formals"]
            xs = np.asarray(ev(nd["xs"], env), dtype=np.float32) if "xs" in nd else np.array([1.0, 2.0], dtype=np.float32)
            for x in xs.reshape(-1):
                inner = dict_without(env, nd["body"])
                inner[f[0]], inner[f[1]] = acc, np.float32(x)
                acc = ev(nd["body"]["res"][0], inner)
            v = acc
        else:
            raise ValueError(k)
        # values created in an outer scope may be cached; body-local ones live in the inner env only
        env[i] = v
        return v

    def dict_without(env, blk):
        local = {n["id"] for n in walk(blk["nodes"])} | set(blk["formals"])
        return {k: v for k, v in env.items() if k not in local}

    env = {}
    return [ev(o, env) for o in out_ids]


# ----------------------------------------------------------------------------- requests
def top_level(prog):
    return [n for n in prog["nodes"]]


# Names a user may legitimately choose that coincide with parameter names of functions receiving
# **inputs / **outputs, Python keywords, dunder names, or have unusual shapes.
HOSTILE_NAMES = [
    "prefix", "self", "args", "kwargs", "name", "graph", "cls", "fun", "key", "value", "type", "doc_string",
    "producer_name", "inputs", "outputs", "model", "var", "arr", "node", "scope", "op", "result", "results",
    "arguments", "drop_unused_inputs", "typ", "what", "item", "other", "vars", "infer_shapes", "check_model",
    "ir_version", "concrete", "model_doc_string", "extra_opset_req", "opset_req", "subgraph", "body",
    "class", "lambda", "def", "None", "True", "import", "__init__", "__class__", "__dict__", "_name", "_op",
    "\u00fcn\u00efc\u00f8de", "\u540d\u524d", "n" * 300, "a.b", "a:0", "a/b", "0start", "-", "with space", "x0_",
]


def sprinkle_names(rng: random.Random, req, p=0.25):
    """Replace some input/output names of a request by hostile ones (all names stay distinct)."""
    taken = {n for n, _ in req["inputs"] + req["outputs"]}
    for entries in (req["inputs"], req["outputs"]):
        for e in entries:
            if isinstance(e[0], str) and e[0] not in ("", "dup_key") and rng.random() < p:
                cand = rng.choice(HOSTILE_NAMES)
                if cand not in taken:
                    taken.discard(e[0])
                    e[0] = cand
                    taken.add(cand)
    return req


def gen_request(rng: random.Random, prog, *, allow_bad=True, allow_dup=False):
    return sprinkle_names(rng, _gen_request(rng, prog, allow_bad=allow_bad, allow_dup=allow_dup)) if rng.random() < 0.5 \
        else _gen_request(rng, prog, allow_bad=allow_bad, allow_dup=allow_dup)


def _gen_request(rng: random.Random, prog, *, allow_bad=True, allow_dup=False):
    """A build request over the program: {"inputs": [[name, id]], "outputs": [[name, id]], "drop": b}."""
    top = top_level(prog)
    args = [n["id"] for n in top if n["k"] == "arg"]
    vals = [n["id"] for n in top if n["k"] not in ("arg", "init", "junk")]
    inits = [n["id"] for n in top if n["k"] == "init"]
    junk = [n["id"] for n in top if n["k"] == "junk"]
    n_out = rng.choice([1, 1, 2, 3])
    # (onnxruntime refuses Identity on optional types, so optional arguments are not passed straight through)
    pool = vals * 3 + [n["id"] for n in top if n["k"] == "arg" and "opt" not in n["ty"]] + [n["id"] for n in top if n["k"] == "tcast"] * 3  # an argument passed straight through as an output is allowed
    outs = []
    for _ in range(n_out):
        c = rng.choice(pool)
        if c not in outs:
            outs.append(c)
    if rng.random() < 0.25:
        # one Var requested under two or three output names (an intermediate value, an If/Loop result,
        # or an argument that is passed straight through)
        for _ in range(rng.choice([1, 1, 2])):
            outs.insert(rng.randrange(len(outs) + 1), rng.choice(outs))
    pairs = [(n["of"], n["id"]) for n in top if n["k"] == "introsib"]
    singles = [n["id"] for n in top if n["k"] in ("ucast", "ureshape", "intro")]
    r_ = rng.random()
    if pairs and r_ < 0.3:
        # exactly the outputs of one `_Introduce` node, in order (or: among others)
        outs = list(rng.choice(pairs)) + ([rng.choice(pool)] if rng.random() < 0.3 else [])
    elif singles and r_ < 0.3:
        outs = [rng.choice(singles)]          # a helper-made Var requested alone
    used = sorted(free_args(prog, outs))
    listed = list(args)
    kind = "plain"
    r = rng.random()
    if allow_bad and r < 0.10 and used:
        listed.remove(rng.choice(used))
        kind = "missing"
    elif allow_bad and r < 0.16 and (vals or inits):
        listed.append(rng.choice(vals + inits))
        kind = "non-argument"
    elif allow_bad and r < 0.20 and junk:
        listed.append(rng.choice(junk))
        kind = "non-var-input"
    elif allow_bad and r < 0.26 and junk:
        outs.insert(rng.randrange(len(outs) + 1), rng.choice(junk))
        kind = "non-var-output"
    elif r < 0.36 and len(listed) > 1:
        # drop some unused arguments from the dictionary altogether
        for a in list(listed):
            if a not in used and rng.random() < 0.5:
                listed.remove(a)
        kind = "subset"
    if rng.random() < 0.04:
        # an empty `outputs` dictionary — alone (ValueError; the property is silent) or together with a bad
        # input (the statement still demands TypeError: the order of build's checks is observable)
        outs = []
        kind += "+no-outputs"
    rng.shuffle(listed)
    names = [f"x{j}" for j in range(len(listed) + 2)] + ["in_a", "data", "Z", "arg"]
    rng.shuffle(names)
    inputs = [[names[j], a] for j, a in enumerate(listed)]
    if allow_dup and args and rng.random() < 0.3:
        inputs.insert(rng.randrange(len(inputs) + 1), ["dup_key", rng.choice(listed or args)])
        kind = "duplicate"
    onames = [f"y{j}" for j in range(len(outs))] + ["out", "res"]
    rng.shuffle(onames)
    outputs = [[onames[j], o] for j, o in enumerate(outs)]
    return {"inputs": inputs, "outputs": outputs, "drop": rng.random() < 0.5, "kind": kind}


def preset_store(prog):
    """[[id, preset name]] of the program's `arguments_dict` arguments (the model driver's initial name store)."""
    return [[n["id"], n["preset"]] for n in prog["nodes"] if n["k"] == "arg" and "preset" in n]


def preset_clash(prog, req):
    """Is this the known name-based quirk: drop_unused_inputs=True, some output depends on an UNLISTED
    argument whose preset name equals a key of `inputs`?"""
    if not req["drop"]:
        return False
    idx = index(prog)
    keys = {n for n, _ in req["inputs"]}
    listed = {i for _, i in req["inputs"]}
    try:
        used = free_args(prog, [i for _, i in req["outputs"] if idx[i]["k"] != "junk"])
    except Exception:  # noqa: BLE001
        return False
    return any(a not in listed and idx[a].get("preset") in keys for a in used)


def preset_output_clash(prog, req):
    """Does an unlisted preset-named argument carry a requested output name or a key (whether used or not)?"""
    idx = index(prog)
    names = {n for n, _ in req["inputs"] + req["outputs"]}
    listed = {i for _, i in req["inputs"]}
    return any(n["k"] == "arg" and n.get("preset") in names and n["id"] not in listed for n in idx.values())


def gen_preset_clash_request(rng: random.Random, prog):
    """The directed witness of the quirk: an output that needs a preset-named argument `z`, `z` not
    listed, its preset name given as the key of an argument the output does not need. None if the
    program has no such pair."""
    top = top_level(prog)
    args = [n["id"] for n in top if n["k"] == "arg"]
    vals = [n["id"] for n in top if n["k"] not in ("arg", "init", "junk")]
    rng.shuffle(vals)
    for v in vals[:8]:
        used = free_args(prog, [v])
        zs = [a for a in used if "preset" in index(prog)[a]]
        us = [a for a in args if a not in used]
        if zs and us:
            z, u = rng.choice(zs), rng.choice(us)
            rest = [a for a in args if a not in (z, u)]
            rng.shuffle(rest)
            inputs = [[index(prog)[z]["preset"], u]] + [[f"x{j}", a] for j, a in enumerate(rest)]
            rng.shuffle(inputs)
            return {"inputs": inputs, "outputs": [["y", v]], "drop": True, "kind": "preset-name-equals-key"}
    return None


def gen_odd_request(rng: random.Random, prog):
    """A request with an unusual dictionary: an empty input or output name, a key that is not a
    string, odd characters, a non-Var value or a repeated Var *after* at least one regular input."""
    req = None
    for _ in range(10):
        r = gen_request(rng, prog, allow_bad=False)
        e = expected(prog, r)
        if e and e[0] == "ok" and len(r["inputs"]) >= 2:
            req = r
            break
    if req is None:
        return None
    junk = [n["id"] for n in top_level(prog) if n["k"] == "junk"]
    how = rng.choice(["empty-name", "empty-name", "nonstr-key", "odd-name", "dup-late", "empty-output-name"]
                     + (["nonvar-late"] if junk else []))
    k = rng.randrange(1, len(req["inputs"]))
    if how == "empty-name":
        req["inputs"][k][0] = ""
    elif how == "nonstr-key":
        req["inputs"][k][0] = 7
    elif how == "odd-name":
        req["inputs"][k][0] = "a b/\u00fc:0"
    elif how == "dup-late":
        req["inputs"].append(["dup_key", req["inputs"][0][1]])
    elif how == "empty-output-name":
        req["outputs"][-1][0] = ""
    else:
        req["inputs"].insert(k, ["junk_in", rng.choice(junk)])
    req["kind"] = "odd:" + how
    return req


def gen_stale_name_pair(rng: random.Random, prog):
    """Two requests over the same Vars: one that fails *inside* build (after the inputs were
    temporarily renamed), then one with drop_unused_inputs=True that uses an argument of the first
    without listing it and gives that argument's old key to an unused argument. The second must raise
    KeyError; it only does if the first build left no names behind. None if the program has no
    suitable outputs."""
    top = top_level(prog)
    args = [n["id"] for n in top if n["k"] == "arg"]
    vals = [n["id"] for n in top if n["k"] not in ("arg", "init", "junk")]
    if len(args) < 2 or not vals:
        return None
    for _ in range(12):
        outs = rng.sample(vals, min(len(vals), rng.choice([1, 1, 2])))
        used = sorted(free_args(prog, outs))
        unused = [a for a in args if a not in used]
        if used and unused:
            break
    else:
        return None
    keys = [f"x{j}" for j in range(len(args))] + ["in_a", "data", "Z", "arg"]
    rng.shuffle(keys)
    order = list(args)
    rng.shuffle(order)
    name_of = {a: keys[j] for j, a in enumerate(order)}
    a = rng.choice(used)
    b = rng.choice(unused)
    how = rng.choice(["clash", "dup", "empty", "missing"] if len(used) >= 2 else ["clash", "dup", "empty"])
    first = {"inputs": [[name_of[x], x] for x in order], "outputs": [[f"y{j}", o] for j, o in enumerate(outs)],
             "drop": rng.random() < 0.5, "kind": "fail-inside:" + how}
    if how == "empty":
        # `a` first, an empty name later: whatever build makes of "", `a` must not keep its key
        first["inputs"] = [[name_of[a], a]] + [e for e in first["inputs"] if e[1] != a]
        first["inputs"][rng.randrange(1, len(first["inputs"]))][0] = ""
    elif how == "clash":
        first["outputs"][0][0] = name_of[rng.choice(used)]  # ScopeError when the results are named
    elif how == "dup":
        first["inputs"].append(["dup_key", rng.choice(order)])
        first["drop"] = False                                # ScopeError when the arguments are introduced
    else:
        m = rng.choice([u for u in used if u != a])
        first["inputs"] = [e for e in first["inputs"] if e[1] != m]
        first["drop"] = False                                # KeyError from the scope lookup, inside the block
    rest = [x for x in order if x not in (a, b)]
    rng.shuffle(rest)
    second_inputs = [[name_of[a], b]] + [[name_of[x] if rng.random() < 0.5 else "n_" + name_of[x], x] for x in rest]
    rng.shuffle(second_inputs)
    second = {"inputs": second_inputs, "outputs": [[f"r{j}", o] for j, o in enumerate(outs)],
              "drop": True, "kind": "stale-followup"}
    return first, second


def expected(prog, req):
    """What the property prescribes for a request (None where it is silent).

    ('err', 'Type'|'Key') or ('ok', inputs[(name, ty)], outputs[(name, ty)])."""
    idx = index(prog)
    ins = [(n, idx[i]) for n, i in req["inputs"]]
    outs = [(n, idx[i]) for n, i in req["outputs"]]
    if any(nd["k"] != "arg" for _, nd in ins) or any(nd["k"] == "junk" for _, nd in outs):
        return ("err", "Type")
    if any(not isinstance(n, str) or n == "" for n, _ in req["inputs"] + req["outputs"]):
        return None  # empty names / keys that are not strings: the property does not say
    in_ids = [i for _, i in req["inputs"]]
    if len(set(in_ids)) != len(in_ids) or not outs:
        return None  # one Var under two keys / no outputs: the property does not say
    if {n for n, _ in req["outputs"]} & {n for n, _ in req["inputs"]}:
        return None  # an output named like an input: not a request the property talks about
    used = free_args(prog, [i for _, i in req["outputs"]])
    if not used <= set(in_ids):
        return ("err", "Key")
    keep = [(n, i) for n, i in req["inputs"] if (not req["drop"]) or i in used]
    return (
        "ok",
        [(n, ty_str(abstract_type(prog, i))) for n, i in keep],
        [(n, ty_str(abstract_type(prog, i))) for n, i in req["outputs"]],
    )


DICT_MUTATIONS = []  # filled by run_build when the caller's dictionaries come back changed (judged by C12)


ERR = {"TypeError": "Type", "KeyError": "Key", "ValueError": "Value", "BuildError": "Build", "ScopeError": "Scope"}


def run_build(env, req):
    """The real `spox.build` on a request. ('ok', ModelProto) | ('err', class)."""
    import spox

    inputs = {n: env[i] for n, i in req["inputs"]}
    outputs = {n: env[i] for n, i in req["outputs"]}
    before = ([(k, id(v)) for k, v in inputs.items()], [(k, id(v)) for k, v in outputs.items()])
    try:
        return _run_build(inputs, outputs, req)
    finally:
        after = ([(k, id(v)) for k, v in inputs.items()], [(k, id(v)) for k, v in outputs.items()])
        if after != before:
            DICT_MUTATIONS.append(f"inputs/outputs dictionaries {before} became {after}")


def _run_build(inputs, outputs, req):
    import spox

    try:
        with warnings.catch_warnings():
            warnings.simplefilter("ignore")
            m = spox.build(inputs, outputs, drop_unused_inputs=req["drop"])
        return ("ok", m)
    except Exception as e:  # noqa: BLE001
        return ("err", ERR.get(type(e).__name__, "Other:" + type(e).__name__))


def observed(model):
    g = model.graph
    return ([(i.name, proto_ty_str(i.type)) for i in g.input], [(o.name, proto_ty_str(o.type)) for o in g.output])


def run_ort(model, feeds):
    import onnxruntime as ort

    so = ort.SessionOptions()
    so.log_severity_level = 4
    # onnxruntime 1.30 crashes (SIGSEGV) while optimising an If whose condition folds to a constant
    # with a Loop nested below it; the unoptimised graph is what the property talks about anyway
    so.graph_optimization_level = ort.GraphOptimizationLevel.ORT_DISABLE_ALL
    sess = ort.InferenceSession(model.SerializeToString(), so, providers=["CPUExecutionProvider"])
    want = {i.name for i in sess.get_inputs()}
    try:  # inputs that have a default value (an initializer of the same name) are listed separately
        want |= {i.name for i in sess.get_overridable_initializers()}
    except Exception:  # noqa: BLE001
        pass
    return sess.run(None, {k: v for k, v in feeds.items() if k in want})
