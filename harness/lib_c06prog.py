"""C06 model-free oracle: build programs with the real spox, expose every typed Var, run them under
onnxruntime and compare what comes out with `Var.type` (dtype, rank, constant dims).

Nothing here uses the Lean model. A failure is attributed to its *root*: a non-conforming Var all of
whose producing node's inputs conform (so a wrong type that merely propagates downstream through
ONNX's own inference is reported once, at the operator that introduced it). The failure key is
`<Operator>:<output>:<dtype|rank|dim<i>>:<cause>`; `cause` names the known defect families exactly and
is `unexplained` for anything else.
"""
from __future__ import annotations

import random
import warnings
from typing import Any, Optional

import numpy as np

from harness import lib_mlops as L

_ORT_OPTS = None


def _session(model_bytes: bytes):
    import onnxruntime as ort

    global _ORT_OPTS
    if _ORT_OPTS is None:
        _ORT_OPTS = ort.SessionOptions()
        _ORT_OPTS.log_severity_level = 4
        _ORT_OPTS.intra_op_num_threads = 1
        _ORT_OPTS.inter_op_num_threads = 1
    return ort.InferenceSession(model_bytes, _ORT_OPTS, providers=["CPUExecutionProvider"])


def _strip_output_types(graph) -> None:
    """Only the main graph's outputs: what a body declares for its results is used by onnxruntime to
    shape the scan outputs of a loop that runs zero times, so it stays."""
    for o in graph.output:
        o.ClearField("type")


FALLBACK: list = []  # reasons why the internal exposure path was not usable (reported once per run)


def make_args(decl: dict) -> dict:
    """Model inputs through the public API: name -> Var of the given spox Type."""
    from spox import argument

    with warnings.catch_warnings():
        warnings.simplefilter("ignore")
        return {name: argument(t) for name, t in decl.items()}


def build_exposed(args: dict, exposed: list):
    """(ModelProto, indices kept): a model computing the Vars in `exposed` as outputs o<i>, built by
    spox itself; the declared output types are then removed so the runtime reports what it actually
    computes. Preferred path: the same calls `spox.build` makes, but with `concrete=False` so that
    rank-unknown Vars can be outputs too. If those internals are not there any more, fall back to
    the public `spox.build` and expose only the Vars it accepts."""
    import spox

    outs = {f"o{i}": v for i, v in enumerate(exposed)}
    kept = list(range(len(exposed)))
    with warnings.catch_warnings():
        warnings.simplefilter("ignore")
        m = None
        if not FALLBACK:
            try:
                from spox._graph import results
                from spox._public import _temporary_renames

                with _temporary_renames(**args):
                    g = results(**outs).with_arguments(*args.values())
                    m = g.to_onnx_model(concrete=False, check_model=0)  # the checker refuses rank-unknown outputs
            except (ImportError, AttributeError, TypeError, NameError) as e:
                FALLBACK.append(f"{type(e).__name__}: {str(e)[:200]}")
                m = None
        if m is None:
            kept = [i for i, v in enumerate(exposed) if getattr(v.type, "shape", None) is not None]
            m = spox.build(dict(args), {f"o{i}": exposed[i] for i in kept})
    _strip_output_types(m.graph)
    return m, kept


def feeds_for(args: dict, rng: random.Random, sizes, max_inst: int) -> list[dict]:
    """Input tensors instantiating every unknown dim of the argument types with `sizes` (same name =
    same size across all arguments)."""
    names: list = []
    for name, v in args.items():
        for i, d in enumerate(v.type.shape):
            if isinstance(d, str):
                key = ("s", d)
            elif d is None:
                key = ("a", name, i)
            else:
                continue
            if key not in names:
                names.append(key)
    combos = []
    if not names:
        combos = [{}]
    else:
        # every size for every unknown at least once, then random combinations
        for s in sizes:
            combos.append({k: s for k in names})
        while len(combos) < max_inst + len(sizes):
            combos.append({k: rng.choice(sizes) for k in names})
        rng.shuffle(combos)
        # keep the all-equal instantiations of the two extreme sizes and fill up randomly
        combos = combos[:max_inst]
    out = []
    for cm in combos:
        feed = {}
        for name, v in args.items():
            shape = []
            for i, d in enumerate(v.type.shape):
                if isinstance(d, str):
                    shape.append(cm[("s", d)])
                elif d is None:
                    shape.append(cm[("a", name, i)])
                else:
                    shape.append(d)
            feed[name] = L.rand_array(rng, {"e": L.elem_name(v.type.dtype), "s": shape})
        out.append(feed)
    return out


# ----------------------------------------------------------------------------- judging
# Everything below looks only at the built ModelProto, the runtime values and `Var.type`.
_ML = "ai.onnx.ml"


def _free_names(graph) -> set:
    """Value names a (sub)graph reads from enclosing scopes."""
    import onnx

    defined = {i.name for i in graph.input} | {t.name for t in graph.initializer}
    used: set = set()
    for n in graph.node:
        used.update(x for x in n.input if x)
        for a in n.attribute:
            if a.type == onnx.AttributeProto.GRAPH:
                used |= _free_names(a.g)
            elif a.type == onnx.AttributeProto.GRAPHS:
                for g in a.graphs:
                    used |= _free_names(g)
        defined.update(n.output)
    return used - defined


class ProtoView:
    def __init__(self, m):
        import onnx

        self.m = m
        self.prod: dict = {}
        self.alias: dict = {}
        for n in m.graph.node:
            for o in n.output:
                self.prod[o] = n
        outs = {o.name for o in m.graph.output}
        for n in m.graph.node:
            if n.op_type == "Identity" and n.domain == "" and len(n.output) == 1 and n.output[0] in outs:
                self.alias[n.output[0]] = n.input[0]
        self._deps: dict = {}
        self._onnx = onnx

    def real(self, out_name: str) -> str:
        return self.alias.get(out_name, out_name)

    def deps(self, node) -> set:
        key = id(node)
        if key not in self._deps:
            d = {x for x in node.input if x}
            for a in node.attribute:
                if a.type == self._onnx.AttributeProto.GRAPH:
                    d |= _free_names(a.g)
                elif a.type == self._onnx.AttributeProto.GRAPHS:
                    for g in a.graphs:
                        d |= _free_names(g)
            self._deps[key] = d
        return self._deps[key]

    def depends_on(self, name: str, bad: set) -> bool:
        """Is the value `name` computed (transitively, through node inputs and through what subgraph
        bodies capture) from one of the values in `bad`?"""
        node = self.prod.get(name)
        if node is None:
            return False
        seen, stack = set(), list(self.deps(node))
        while stack:
            x = stack.pop()
            if x in seen:
                continue
            seen.add(x)
            if x in bad and x != name:
                return True
            n = self.prod.get(x)
            if n is not None:
                stack.extend(self.deps(n))
        return False


def _type_proto_json(tp) -> Optional[dict]:
    import onnx

    if not tp.HasField("tensor_type"):
        return None
    e = L.elem_name(onnx.helper.tensor_dtype_to_np_dtype(tp.tensor_type.elem_type))
    if not tp.tensor_type.HasField("shape"):
        return {"e": e, "s": None}
    dims = []
    for d in tp.tensor_type.shape.dim:
        if d.HasField("dim_value"):
            dims.append(d.dim_value)
        elif d.HasField("dim_param") and d.dim_param:
            dims.append(d.dim_param)
        else:
            dims.append(None)
    return {"e": e, "s": dims}


def classify(view: ProtoView, name: str, kind: str, val: dict, ty: dict, rt_by_name: dict) -> tuple[str, str]:
    """(key, operator description) for a root failure at value `name`."""
    import onnx

    node = view.prod.get(name)
    if node is None:
        return f"?:?:{kind}:unexplained", "?"
    opname = node.op_type if node.domain in ("", _ML, "ai.onnx") else "Function"
    idx = list(node.output).index(name)
    out = str(idx)
    cause = "unexplained"
    try:
        attrs = {a.name: onnx.helper.get_attribute_value(a) for a in node.attribute}
        try:
            sch = onnx.defs.get_schema(node.op_type, domain=node.domain)
            out = sch.outputs[min(idx, len(sch.outputs) - 1)].name
        except Exception:  # noqa: BLE001
            pass
        if opname == "LinearRegressor" and kind == "dim1":
            t = attrs.get("targets", 1)
            if val["s"][1] == t and ty["s"][1] != t:
                cause = "targets"
        elif opname == "TreeEnsembleClassifier" and idx == 1 and kind == "dim1":
            labels = attrs.get("classlabels_strings") or attrs.get("classlabels_int64s") or ()
            ids = attrs.get("class_ids") or ()
            if ty["s"][1] == len(ids) and val["s"][1] == len(labels):
                cause = "class_ids-vs-n_classes"
        elif opname == "Normalizer" and kind == "dtype":
            if val["e"] == "f32" and ty["e"] in ("f64", "i64", "i32"):  # the input's element type was reported
                cause = "output-is-float"
        elif opname == "Slice" and kind.startswith("dim") and len(node.input) == 5 and node.input[4]:
            # ONNX's Slice inference assumes steps = 1 when the `steps` input has NO shape information
            # (rank-unknown, non-constant): the reported dim is the one a step of 1 gives
            steps = node.input[4]
            vi = {v.name: v for v in onnx.shape_inference.infer_shapes(view.m, data_prop=True).graph.value_info}
            prod = view.prod.get(steps)
            const = steps in {t.name for t in view.m.graph.initializer} or (prod is not None and prod.op_type == "Constant")
            shapeless = steps not in vi or not vi[steps].type.tensor_type.HasField("shape")  # (ONNX's own view of the model)
            if not const and shapeless:
                cause = "steps-of-unknown-rank"
        elif opname == "Loop":
            n = len(node.input) - 2
            if 0 <= idx < n:
                out = "carried"
                if _type_proto_json(attrs["body"].output[1 + idx].type) == ty:
                    cause = "body-result-type"
            else:
                out = "scan"
    except Exception:  # noqa: BLE001
        pass
    return f"{opname}:{out}:{kind}:{cause}", f"{opname} output {out}"


def judge(view: ProtoView, exposed: list, kept: list, vals: list[dict], feed: dict) -> tuple[list[dict], int]:
    """Compare observed values with the reported types; returns (root failures, #vars compared).
    `vals[j]` is the runtime value of `exposed[kept[j]]` = model output `o<kept[j]>`."""
    feed_desc = {k: list(a.shape) for k, a in feed.items()}
    rt_by_name = {k: L.val_of(a) for k, a in feed.items()}
    kinds = {}
    for i, val in zip(kept, vals):
        name = view.real(f"o{i}")
        rt_by_name[name] = val
        kinds[i] = L.conforms(val, L.ty_to_json(exposed[i].type))
    bad = {view.real(f"o{i}") for i, k in kinds.items() if k}
    fails = []
    for i, val in zip(kept, vals):
        kind = kinds[i]
        if kind is None:
            continue
        name = view.real(f"o{i}")
        if view.depends_on(name, bad):
            continue  # something it is computed from is already non-conforming: not the root
        ty = L.ty_to_json(exposed[i].type)
        key, desc = classify(view, name, kind, val, ty, rt_by_name)
        fails.append(
            {
                "idx": i,
                "pos": kept.index(i),
                "key": key,
                "what": f"{desc}: reported {exposed[i].type}, onnxruntime produced {val['e']}{val['s']} ({kind}) "
                f"on inputs {feed_desc}",
                "reported": ty,
                "runtime": val,
            }
        )
    return fails, len(kept)


_PLAIN_CACHE: dict = {}


_SAMPLING_OPS = {"RandomUniform", "RandomNormal", "RandomUniformLike", "RandomNormalLike", "Multinomial", "Bernoulli", "Dropout"}


def _plain_standard_op(view: ProtoView, name: str) -> bool:
    """Is the value produced by a standard operator typed by ONNX itself (no subgraph, not one of the
    operators whose inference spox writes by hand)?"""
    node = view.prod.get(name)
    if node is None or node.domain not in ("", "ai.onnx"):
        return False
    if any(a.HasField("g") or len(a.graphs) for a in node.attribute):
        return False
    if node.op_type in ("Compress", "Loop", "If", "Scan"):
        return False
    # ... and not computed from a control-flow result: the reference evaluator is no witness there (its
    # Loop treats an omitted `cond` as false and returns the initial values)
    seen, stack = set(), list(view.deps(node))
    while stack:
        x = stack.pop()
        if x in seen:
            continue
        seen.add(x)
        n = view.prod.get(x)
        if n is not None:
            if any(a.HasField("g") or len(a.graphs) for a in n.attribute):
                return False
            if n.op_type in _SAMPLING_OPS:
                # computed from a sample: the reference evaluator's sample (reproducible when `seed` is set)
                # is no witness for what the runtime draws - onnxruntime's verdict stands
                return False
            stack.extend(view.deps(n))
    return True


def adjudicate(view: ProtoView, feed: dict, exposed: list, fails: list[dict], st: dict) -> list[dict]:
    """A value onnxruntime produced does not conform. If it comes from a plain standard operator typed
    by ONNX itself, ask the ONNX reference evaluator for the same output before calling it a failure
    of the property: if *its* value conforms to the reported type, the two runtimes disagree (e.g.
    onnxruntime returns its input unchanged for ReduceSum with a negative axis over an empty tensor)
    and the reported type is right by the ONNX semantics — recorded as a runtime disagreement. For the
    hand-typed operators and for control flow onnxruntime's verdict stands (the reference
    evaluator's Loop mis-evaluates bodies that return their own arguments)."""
    cand = [f for f in fails if _plain_standard_op(view, view.real(f"o{f['idx']}"))]
    if not cand:
        return fails
    try:
        from onnx.reference import ReferenceEvaluator

        ref = ReferenceEvaluator(view.m).run(None, feed)
    except Exception:  # noqa: BLE001
        return fails
    kept = []
    for f in fails:
        if f not in cand:
            kept.append(f)
            continue
        try:
            val = L.val_of(ref[f["pos"]])
        except Exception:  # noqa: BLE001
            kept.append(f)
            continue
        if L.conforms(val, f["reported"]) is None:
            st["runtime_disagreements"] = st.get("runtime_disagreements", 0) + 1
            st.setdefault("disagreement_samples", []).append(f["what"] + f" -- onnx.reference produced {val['e']}{val['s']}")
        else:
            kept.append(f)
    return kept


def feed_to_json(feed: dict) -> dict:
    return {k: {"e": L.elem_name(a.dtype), "s": list(a.shape), "data": np.asarray(a).reshape(-1).tolist()} for k, a in feed.items()}


def feed_from_json(j: dict) -> dict:
    out = {}
    for k, v in j.items():
        dt = object if v["e"] == "str" else L.ELEM[v["e"]]
        out[k] = np.array(v["data"], dtype=dt).reshape(v["s"])
    return out


def observe(args: dict, exposed: list, rng, sizes, max_inst, extra_feeds=(), fix_feed=None, only_extra=False) -> dict:
    """`extra_feeds`: feeds to run before the generated ones (a replay's recorded input);
    `fix_feed(feed)`: lets a caller overwrite inputs whose values must be meaningful."""
    st = {"rejected": False, "runs": 0, "refused": 0, "checked": 0, "fails": []}
    arg_ids = {id(v) for v in args.values()}
    seen, uniq = set(), []
    for v in exposed:  # typed tensors, each once, and not the model inputs themselves
        tj = L.ty_to_json(v.type)
        if tj is None or "other" in tj or id(v) in seen or id(v) in arg_ids:
            continue
        seen.add(id(v))
        uniq.append(v)
    if not uniq:
        return st
    try:
        m, kept = build_exposed(args, uniq)
        sess = _session(m.SerializeToString())
        view = ProtoView(m)
    except Exception as e:  # noqa: BLE001
        st["refused"] += 1
        st["load_error"] = f"{type(e).__name__}: {str(e)[:300]}"
        return st
    generated = [] if only_extra else feeds_for(args, rng, sizes, max_inst)
    if fix_feed is not None:
        generated = [fix_feed(f) for f in generated]
    for feed in list(extra_feeds) + generated:
        st["runs"] += 1
        try:
            res = sess.run(None, feed)
        except Exception:  # noqa: BLE001
            st["refused"] += 1
            continue
        vals = [L.val_of(r) for r in res]
        fails, n = judge(view, uniq, kept, vals, feed)
        fails = adjudicate(view, feed, uniq, fails, st)
        st["checked"] += n
        for f in fails:
            if not any(g["key"] == f["key"] for g in st["fails"]):
                f["feed"] = feed_to_json(feed)
                st["fails"].append(f)
    return st


# ----------------------------------------------------------------------------- single operators
def run_single(case: dict, rng, sizes, max_inst: int, extra_feeds=()) -> dict:
    """One operator applied to fresh arguments of the given types. With `case["erase"]` the first
    input first goes through `Reshape(x, s)` with a runtime shape tensor `s` (fed with x's own shape),
    which makes its type rank-unknown without changing the value."""
    import spox.opset.ai.onnx.v17 as op17

    op = L.OPS[case["op"]]
    tys = case["in"]
    try:
        decl = {n: L.ty_from_json(t) for n, t in zip(op.inputs, tys)}
        if case.get("erase"):
            decl["shape__"] = L.ty_from_json({"e": "i64", "s": ["K"]})
        args = make_args(decl)
        ins = [args[n] for n in op.inputs]
        shapes = [t["s"] for t in tys]
        concrete = [[d if isinstance(d, int) else 2 for d in s] for s in shapes]
        with warnings.catch_warnings():
            warnings.simplefilter("ignore")
            if case.get("erase"):
                ins[0] = op17.reshape(ins[0], args["shape__"])
            out = op.ctor()(*ins, **op.kwargs(case["attrs"], concrete))
    except Exception:  # noqa: BLE001
        return {"rejected": True, "runs": 0, "refused": 0, "checked": 0, "fails": []}
    outs = list(out) if isinstance(out, (tuple, list)) else [out]

    def fix_feed(feed: dict) -> dict:
        # secondary inputs must hold meaningful values (indices, depth, condition)
        if case["op"] in ("ArrayFeatureExtractor", "OneHot", "Compress"):
            vals_in = [{"e": L.elem_name(feed[n].dtype), "s": list(feed[n].shape)} for n in op.inputs]
            try:
                feed.update(dict(zip(op.inputs, op.feed(rng, vals_in))))
            except Exception:  # noqa: BLE001 - keep the random feed
                pass
        if case.get("erase"):
            feed["shape__"] = np.array(feed[op.inputs[0]].shape, dtype=np.int64)
        return feed

    return observe(args, outs, rng, sizes, max_inst, extra_feeds=extra_feeds, fix_feed=fix_feed)


# ----------------------------------------------------------------------------- generated programs
ARG_TYPES = [
    ("f32", ["N"]), ("f32", ["N", 3]), ("f32", [2, 3]), ("f32", ["N", "M"]), ("f32", [3]), ("f32", []),
    ("f32", [None, 2]), ("f32", [1, "N"]), ("i64", ["N"]), ("i64", ["N", 2]), ("i64", [3]), ("f32", ["N", 2, 2]),
]


class Gen:
    def __init__(self, seed: int, size: int, module: Optional[str] = None):
        import spox.opset.ai.onnx.ml.v3 as ml

        self.rng = random.Random(seed)
        # one opset module per program (the Loop/If/Scan constructors differ between them)
        self.module = module or self.rng.choice(OPSET_MODULES)
        op = opset_module(self.module)
        self.size = size
        self.op, self.ml = op, ml
        self.args: dict = {}
        self.pool: list = []
        self.exposed: list = []
        self.ops: dict[str, int] = {}
        self.text: list[str] = []
        self.body_exposed = 0
        self.seed = seed
        self.defaults: dict = {}
        self.overrides: dict = {}

    # -- helpers
    def note(self, opname: str, desc: str):
        self.ops[opname] = self.ops.get(opname, 0) + 1
        self.text.append(desc)

    def add(self, v, opname: str, desc: str, expose=True):
        self.note(opname, f"{desc} -> {v.type}")
        if v.type is not None:
            self.pool.append(v)
        if expose:
            self.exposed.append(v)
        return v

    def const(self, arr):
        return self.op.const(arr)

    def e(self, v) -> str:
        return L.elem_name(v.type.dtype)

    def rank(self, v) -> Optional[int]:
        return None if v.type.shape is None else len(v.type.shape)

    def pick(self, pred=lambda v: True):
        c = [v for v in self.pool if v.type is not None and pred(v)]
        return self.rng.choice(c) if c else None

    # -- shape-preserving / simple operations usable anywhere (also inside bodies)
    def unary(self, v, safe: bool):
        rng, op, ml = self.rng, self.op, self.ml
        e, r = self.e(v), self.rank(v)
        choices = ["neg", "identity", "add_self", "cast"]
        if e == "f32":
            choices += ["relu", "binarizer"]
            if r is None or r >= 1:
                choices += ["scaler", "imputer"]
            if r in (1, 2):
                choices += ["normalizer"]
        if e == "i64" and r is not None:
            choices += ["one_hot_encoder", "category_mapper_roundtrip"]
        if r is not None and r >= 1:
            choices += ["concat_self", "unsqueeze", "reduce_sum", "shape"]
        if r is not None and r >= 2:
            choices += ["transpose"]
        k = rng.choice(choices)
        if k == "neg":
            return op.neg(v), k
        if k == "identity":
            return op.identity(v), k
        if k == "add_self":
            return op.add(v, v), k
        if k == "cast":
            return op.cast(v, to=np.int64 if e == "f32" else np.float32), k
        if k == "relu":
            return op.relu(v), k
        if k == "binarizer":
            return ml.binarizer(v, threshold=0.5), k
        if k == "scaler":
            return ml.scaler(v, offset=[0.5], scale=[2.0]), k
        if k == "imputer":
            return ml.imputer(v, imputed_value_floats=[0.5], replaced_value_float=1.0), k
        if k == "normalizer":
            return ml.normalizer(v, norm=rng.choice(["MAX", "L1", "L2"])), k
        if k == "one_hot_encoder":
            return ml.one_hot_encoder(v, cats_int64s=list(range(rng.randrange(1, 4)))), k
        if k == "category_mapper_roundtrip":
            s = ml.category_mapper(v, cats_int64s=[0, 1, 2], cats_strings=["a", "b", "c"], default_string="z")
            return ml.category_mapper(s, cats_int64s=[0, 1, 2], cats_strings=["a", "b", "c"], default_int64=-1), k
        if k == "concat_self":
            return op.concat([v, v], axis=rng.randrange(-r, r)), k
        if k == "unsqueeze":
            return op.unsqueeze(v, op.const(np.array([rng.randrange(0, r + 1)], dtype=np.int64))), k
        if k == "reduce_sum":
            return op.reduce_sum(v, op.const(np.array([rng.randrange(0, r)], dtype=np.int64)), keepdims=rng.randrange(2)), k  # axis >= 0: onnxruntime mishandles a negative axis over an empty tensor
        if k == "shape":
            return op.shape(v), k
        if k == "transpose":
            perm = list(range(r))
            rng.shuffle(perm)
            return op.transpose(v, perm=perm), k
        raise AssertionError(k)

    # -- operators with hand-written inference whose arguments need care
    def special(self):
        rng, op, ml = self.rng, self.op, self.ml
        k = rng.choice(["linear_regressor", "tree_classifier", "tree_regressor", "afe", "compress", "one_hot", "binary"])
        if k == "linear_regressor":
            v = self.pick(lambda v: self.e(v) == "f32" and self.rank(v) == 2 and isinstance(v.type.shape[1], int))
            if v is None:
                return None
            c = v.type.shape[1]
            t = rng.choice([c, c, 1, 2])
            return self.add(ml.linear_regressor(v, coefficients=[0.5] * (t * c), intercepts=[0.1] * t, targets=t),
                            "LinearRegressor", f"linear_regressor({v.type}, targets={t})")
        if k in ("tree_classifier", "tree_regressor"):
            v = self.pick(lambda v: self.e(v) == "f32" and self.rank(v) == 2 and v.type.shape[1] != 0)
            if v is None:
                return None
            if k == "tree_regressor":
                a = {"a": rng.choice([1, 2, 3])}
                y = ml.tree_ensemble_regressor(v, **L.OPS["TreeEnsembleRegressor"].kwargs(a))
                return self.add(y, "TreeEnsembleRegressor", f"tree_ensemble_regressor({v.type}, {a})")
            a = rng.choice([{"a": 2, "b": None, "c": 2}, {"a": 3, "b": 3, "c": None}, {"a": 3, "b": None, "c": 2}])
            y, z = ml.tree_ensemble_classifier(v, **L.OPS["TreeEnsembleClassifier"].kwargs(a))
            self.add(y, "TreeEnsembleClassifier", f"tree_ensemble_classifier({v.type}, {a}).Y", expose=True)
            self.pool.pop()  # labels may be strings: keep them out of the pool
            return self.add(z, "TreeEnsembleClassifier", f"tree_ensemble_classifier({v.type}, {a}).Z")
        if k == "afe":
            v = self.pick(lambda v: self.rank(v) is not None and self.rank(v) >= 1 and isinstance(v.type.shape[-1], int) and v.type.shape[-1] > 0)
            if v is None:
                return None
            n = rng.randrange(1, 4)
            idx = self.const(np.array([rng.randrange(v.type.shape[-1]) for _ in range(n)], dtype=np.int64))
            return self.add(ml.array_feature_extractor(v, idx), "ArrayFeatureExtractor", f"array_feature_extractor({v.type}, {n} indices)")
        if k == "compress":
            v = self.pick(lambda v: self.rank(v) is not None and self.rank(v) >= 1)
            if v is None:
                return None
            axis = rng.choice([None] + list(range(-self.rank(v), self.rank(v))))
            cond = self.const(np.array([rng.random() < 0.6 for _ in range(rng.randrange(1, 3))], dtype=np.bool_))
            return self.add(op.compress(v, cond, axis=axis), "Compress", f"compress({v.type}, axis={axis})")
        if k == "one_hot":
            v = self.pick(lambda v: self.e(v) == "i64" and self.rank(v) is not None)
            if v is None:
                return None
            axis = rng.randrange(-self.rank(v) - 1, self.rank(v) + 1)
            depth = rng.choice([self.const(np.array(rng.randrange(1, 4), dtype=np.int64)), None])
            if depth is None:  # depth unknown at build time: computed from an input's size
                src = self.pick(lambda w: self.rank(w) is not None and self.rank(w) >= 1)
                if src is None:
                    return None
                depth = op.add(op.size(src), self.const(np.array(1, dtype=np.int64)))
            vals = self.const(np.array([0.0, 1.0], dtype=np.float32))
            return self.add(op.one_hot(v, depth, vals, axis=axis), "OneHot", f"one_hot({v.type}, axis={axis})")
        if k == "binary":
            a = self.pick()
            if a is None:
                return None
            cands = [b for b in self.pool if b.type == a.type]
            b = rng.choice(cands)
            f = rng.choice([op.add, op.mul, op.sub])
            return self.add(f(a, b), "binary", f"{f.__name__}({a.type}, {b.type})")

    # -- control flow, inline, functions
    def scalar_cond(self):
        op = self.op
        v = self.pick(lambda v: self.e(v) == "f32" and self.rank(v) is not None)
        if v is None:
            return None
        s = op.reduce_sum(op.reshape(v, op.const(np.array([-1], dtype=np.int64))), keepdims=0)
        return op.less(s, op.const(np.array(self.rng.choice([0.5, 2.5, 100.0]), dtype=np.float32)))

    def do_if(self):
        op, rng = self.op, self.rng
        c = self.scalar_cond()
        v = self.pick()
        if c is None or v is None:
            return None
        seeds = [rng.randrange(1 << 30) for _ in range(2)]

        def branch(sd):
            def f():
                st = rng.getstate()
                rng.seed(sd)
                try:
                    w, _ = self.unary(v, safe=True)
                    if rng.random() < 0.5:
                        w, _ = self.unary(w, safe=True)
                    if self.e(w) != self.e(v):  # both branches must agree on the element type
                        w = op.cast(w, to=L.ELEM[self.e(v)])
                    return [w]
                finally:
                    rng.setstate(st)
            return f

        (r,) = op.if_(c, then_branch=branch(seeds[0]), else_branch=branch(seeds[1]))
        return self.add(r, "if", f"if_(…, then/else over {v.type})")

    def do_loop(self):
        op, rng = self.op, self.rng
        v = self.pick(lambda v: self.rank(v) is not None)
        if v is None:
            return None
        changing = rng.random() < 0.3
        m_src = "const" if changing else rng.choice(["const", "const", "size"])  # a doubling body runs <= 3 times
        if m_src == "const":
            M = self.const(np.array(rng.choice([0, 1, 2, 3]), dtype=np.int64))
        else:
            src = self.pick(lambda w: self.rank(w) is not None and self.rank(w) >= 1)
            if src is None:
                return None
            M = op.size(src)
        sd = rng.randrange(1 << 30)
        inner: list = []

        feedback = rng.random() < 0.3  # a second carried value that returns the first one's *argument*
        refine = (not changing) and rng.random() < 0.25 and self.e(v) == "f32" and self.rank(v) >= 1 \
            and not isinstance(v.type.shape[-1], int)

        def body(i, c, w, *more):
            st = rng.getstate()
            rng.seed(sd)
            try:
                if changing and self.rank(w) >= 1:
                    nxt = op.concat([w, w], axis=0)
                elif refine:  # broadcasting against a constant refines the unknown last dim to 3
                    nxt = op.add(w, op.const(np.ones((3,), dtype=np.float32)))
                else:
                    nxt = rng.choice([op.neg, op.identity, lambda t: op.add(t, t)])(w)
                scans = [i, w]
                u, _ = self.unary(w, safe=True)
                scans.append(u)
                inner.extend(scans)
                return [c, nxt] + ([w] if more else []) + scans
            finally:
                rng.setstate(st)

        init = [v, v] if feedback else [v]
        outs = op.loop(M, v_initial=init, body=body)
        self.body_exposed += len(outs) - len(init)
        for j, o in enumerate(outs):
            self.add(o, "loop" if j < len(init) else "loop-scan",
                     f"loop(M={m_src}, changing={changing}, feedback={feedback}, refine={refine}, {v.type})[{j}]")
        return outs[0]

    def do_scan(self):
        """Scan: state + one scan input; the body sees the types the constructor prescribes for its
        arguments and its internal Vars surface as scan outputs. (On a tree where `scan` rejects a
        state of rank >= 1 the construction fails and the step is skipped.)"""
        op, rng = self.op, self.rng
        xs = self.pick(lambda v: self.rank(v) is not None and self.rank(v) >= 1)
        st = self.pick(lambda v: self.rank(v) is not None)
        if xs is None or st is None:
            return None
        sd = rng.randrange(1 << 30)

        def body(s, x):
            state = rng.getstate()
            rng.seed(sd)
            try:
                u, _ = self.unary(x, safe=True)
                return [op.identity(s), x, u]
            finally:
                rng.setstate(state)

        try:
            outs = op.scan([st, xs], body=body, num_scan_inputs=1)
        except Exception:  # noqa: BLE001
            self.note("scan-rejected", f"scan({st.type}, {xs.type}) rejected")
            return None
        for j, o in enumerate(outs):
            self.add(o, "scan", f"scan({st.type}, {xs.type})[{j}]")
        return None

    def do_default_arg(self):
        """A defaulted argument (overridable initializer) feeding a shape-like input."""
        try:
            from spox._graph import arguments_dict
        except Exception:  # noqa: BLE001
            return None
        op, rng = self.op, self.rng
        v = self.pick(lambda v: self.rank(v) is not None and all(isinstance(d, int) and d > 0 for d in v.type.shape))
        if v is None:
            return None
        n = int(np.prod(v.type.shape)) if v.type.shape else 1
        name = f"dflt{len(self.args)}"
        default = np.array([n], dtype=np.int64) if rng.random() < 0.5 else np.array([1, n], dtype=np.int64)
        d = arguments_dict(**{name: default})[name]
        self.args[name] = d
        self.defaults[name] = default
        self.overrides[name] = np.array([n, 1], dtype=np.int64) if default.shape == (2,) else np.array([n], dtype=np.int64)
        y = op.reshape(v, d)
        self.add(y, "default-arg", f"reshape({v.type}, defaulted {default.tolist()})")
        w, k = self.unary(y, safe=True)
        return self.add(w, k, f"{k}({y.type})")

    def do_inline(self):
        from spox import Tensor, argument, build, inline

        rng = self.rng
        v = self.pick(lambda v: self.rank(v) is not None)
        if v is None:
            return None
        # the inlined model declares symbolic dims where the argument has non-constant ones
        shape = tuple(d if isinstance(d, int) else f"S{i}" for i, d in enumerate(v.type.shape))
        p = argument(Tensor(v.type.dtype, shape))
        sub = Gen(rng.randrange(1 << 30), 0, module=self.module)
        q, k1 = sub.unary(p, safe=True)
        q2, k2 = sub.unary(q, safe=True)
        with warnings.catch_warnings():
            warnings.simplefilter("ignore")
            m = build({"p": p}, {"q": q2, "q1": q})
        res = inline(m)(p=v) if rng.random() < 0.5 else inline(m)(v)
        for name, r in res.items():
            self.add(r, "inline", f"inline[{k1};{k2}]({v.type}).{name}")
        return None

    def do_function(self):
        """Functions (`to_function`): their result types are what the body infers for the actual
        argument types. Either a random body called once, or one polymorphic body called on two
        values of different rank / element type."""
        try:
            from spox._function import to_function
        except Exception:  # noqa: BLE001
            return None
        rng, op = self.rng, self.op
        v = self.pick(lambda v: self.rank(v) is not None)
        if v is None:
            return None
        if rng.random() < 0.5:
            bodies = {
                "add": lambda p: [op.add(p, p)],
                "neg_unsqueeze": lambda p: [op.unsqueeze(op.neg(p), op.const(np.array([0], dtype=np.int64)))],
                "shape": lambda p: [op.shape(p), op.identity(p)],
                "flatten_concat": lambda p: [op.concat([op.reshape(p, op.const(np.array([-1], dtype=np.int64)))] * 2, axis=0)],
            }
            name = rng.choice(sorted(bodies))
            fun = to_function(f"poly_{name}_{self.seed}", "c06.fun")(bodies[name])
            others = [w for w in self.pool if w.type is not None and self.rank(w) is not None
                      and (self.rank(w) != self.rank(v) or self.e(w) != self.e(v))]
            targets = [v] + ([rng.choice(others)] if others else [])
            for t in targets:
                for r in fun(t):
                    self.add(r, "function", f"function[{name}]({t.type})")
            if len(targets) > 1:
                self.ops["function-two-types"] = self.ops.get("function-two-types", 0) + 1
            return None
        sd = rng.randrange(1 << 30)

        @to_function(f"f{self.seed}_{len(self.text)}", "c06.fun")
        def fun(p):
            st = rng.getstate()
            rng.seed(sd)
            try:
                w, _ = self.unary(p, safe=True)
                return [op.add(w, w)]
            finally:
                rng.setstate(st)

        (r,) = fun(v)
        return self.add(r, "function", f"function({v.type})")

    def build(self):
        rng = self.rng
        n_args = rng.randrange(1, 4)
        tys = {}
        for i in range(n_args):
            e, s = rng.choice(ARG_TYPES)
            tys[f"x{i}"] = L.ty_from_json({"e": e, "s": s})
        self.args = make_args(tys)
        self.pool = list(self.args.values())
        for name, v in self.args.items():
            self.text.append(f"{name}: {v.type}")
        for _ in range(self.size):
            r = rng.random()
            with warnings.catch_warnings():
                warnings.simplefilter("ignore")
                if r < 0.40:
                    v = self.pick()
                    w, k = self.unary(v, safe=False)
                    self.add(w, k, f"{k}({v.type})")
                elif r < 0.70:
                    self.special()
                elif r < 0.80:
                    self.do_if()
                elif r < 0.90:
                    self.do_loop()
                elif r < 0.95:
                    self.do_inline()
                elif r < 0.97:
                    self.do_scan()
                elif r < 0.985:
                    self.do_default_arg()
                else:
                    self.do_function()
        return self


def run_program(case: dict, sizes, max_inst: int, extra_feeds=()) -> dict:
    g = Gen(case["seed"], case["size"])
    try:
        g.build()
    except Exception as e:  # noqa: BLE001
        return {"build_failed": True, "error": f"{type(e).__name__}: {str(e)[:200]}", "fails": [], "refused": 0, "ops": g.ops}
    turn = [0]

    def fix_feed(feed: dict) -> dict:
        # defaulted arguments: alternately leave them to their default and override them
        turn[0] += 1
        for name in g.defaults:
            if turn[0] % 2:
                feed.pop(name, None)
            else:
                feed[name] = g.overrides[name]
        return feed

    st = observe(g.args, g.exposed, random.Random(case["seed"] ^ 0x5EED), sizes, max_inst, extra_feeds=extra_feeds,
                 fix_feed=fix_feed if g.defaults else None)
    return {
        "runs": st["runs"], "refused": st["refused"], "vars_checked": st["checked"], "fails": st["fails"], "ops": g.ops,
        "body_vars_exposed": g.body_exposed, "text": f"[{g.module}] " + "; ".join(g.text), "load_error": st.get("load_error"),
        "runtime_disagreements": st.get("runtime_disagreements", 0), "disagreement_samples": st.get("disagreement_samples", []),
    }


# ----------------------------------------------------------------------------- arguments with default values
# A graph argument that carries a DEFAULT (model input + initializer of the same name) can be overridden
# at run time, so nothing computed from its value may end up as a constant dim of a reported type.
DEFAULT_CASES = [
    {"op": "reshape", "x": [6], "default": [2, 3], "override": [3, 2]},
    {"op": "reshape", "x": [6], "default": [6], "override": [1, 2, 3]},
    {"op": "range", "x": [1], "default": 5, "override": 3},
    {"op": "expand", "x": [1, 3], "default": [2, 3], "override": [4, 3]},
    {"op": "tile", "x": [2, 3], "default": [1, 2], "override": [3, 1]},
    {"op": "constant_of_shape", "x": [1], "default": [2, 2], "override": [3]},
    {"op": "one_hot", "x": [4], "default": 3, "override": 5},
    {"op": "reshape_then_ops", "x": [6], "default": [2, 3], "override": [3, 2]},
]


def run_default_case(case: dict, rng, sizes, max_inst: int, extra_feeds=()) -> dict:
    import spox.opset.ai.onnx.v17 as op
    from spox import argument

    try:
        from spox._graph import arguments_dict
    except Exception as e:  # noqa: BLE001
        return {"rejected": True, "error": f"arguments_dict not importable: {e}", "runs": 0, "refused": 0, "checked": 0, "fails": []}
    try:
        with warnings.catch_warnings():
            warnings.simplefilter("ignore")
            x = argument(L.ty_from_json({"e": "i64" if case["op"] == "one_hot" else "f32", "s": case["x"]}))
            d = arguments_dict(d=np.array(case["default"], dtype=np.int64))["d"]
            args = {"x": x, "d": d}
            k = case["op"]
            if k == "reshape":
                outs = [op.reshape(x, d)]
            elif k == "reshape_then_ops":
                y = op.reshape(x, d)
                outs = [y, op.transpose(y, perm=[1, 0]), op.concat([y, y], axis=0), op.reduce_sum(y, op.const(np.array([0], dtype=np.int64)), keepdims=0)]
            elif k == "range":
                outs = [op.range(op.const(np.array(0, dtype=np.int64)), d, op.const(np.array(1, dtype=np.int64)))]
            elif k == "expand":
                outs = [op.expand(x, d)]
            elif k == "tile":
                outs = [op.tile(x, d)]
            elif k == "constant_of_shape":
                outs = [op.constant_of_shape(d)]
            elif k == "one_hot":
                outs = [op.one_hot(x, d, op.const(np.array([0.0, 1.0], dtype=np.float32)))]
            else:
                raise ValueError(k)
            outs = outs + [op.identity(o) for o in outs]
    except Exception as e:  # noqa: BLE001
        return {"rejected": True, "error": f"{type(e).__name__}: {str(e)[:200]}", "runs": 0, "refused": 0, "checked": 0, "fails": []}
    xv = np.zeros(case["x"], dtype=np.int64 if case["op"] == "one_hot" else np.float32)
    feeds = list(extra_feeds) + [
        {"x": xv},  # the default is used
        {"x": xv, "d": np.array(case["override"], dtype=np.int64)},  # the caller overrides it
    ]
    st = observe(args, outs, rng, sizes, max_inst, extra_feeds=feeds, only_extra=True)
    for f in st["fails"]:
        if "d" in f.get("feed", {}):
            f["key"] = f["key"].rsplit(":", 1)[0] + ":constant-dim-from-overridable-default"
    return st


# ----------------------------------------------------------------------------- Loop families, every opset module
OPSET_MODULES = ["v17", "v18", "v19", "v20", "v21"]
LOOP_FAMILY = [
    {"body": "identity", "x": ["N"]}, {"body": "identity", "x": [2, 3]},
    {"body": "double", "x": ["N"]}, {"body": "double", "x": [2]},
    {"body": "narrow", "x": ["N"]}, {"body": "narrow", "x": [None, "N"]},
    {"body": "feedback", "x": [2]}, {"body": "feedback", "x": ["N"]},
    {"body": "flatten_unknown_rank", "x": [2, 3]}, {"body": "flatten_unknown_rank", "x": ["N", 2]},
    {"body": "fixed_shape", "x": ["N"]},
]


def opset_module(name: str):
    import importlib

    return importlib.import_module(f"spox.opset.ai.onnx.{name}")


def run_loop_family(case: dict, rng, sizes, max_inst: int, extra_feeds=()) -> dict:
    """One Loop of the family built with the constructors of opset module `case["module"]`; the trip
    count is a model input and is fed 0, 1, 2 and 3."""
    try:
        op = opset_module(case["module"])
    except Exception as e:  # noqa: BLE001
        return {"rejected": True, "error": f"{type(e).__name__}: {e}", "runs": 0, "refused": 0, "checked": 0, "fails": []}
    kind = case["body"]
    try:
        with warnings.catch_warnings():
            warnings.simplefilter("ignore")
            decl = {"x": L.ty_from_json({"e": "f32", "s": case["x"]}), "m": L.ty_from_json({"e": "i64", "s": []})}
            if kind == "flatten_unknown_rank":
                decl["shape__"] = L.ty_from_json({"e": "i64", "s": ["K"]})
            args = make_args(decl)
            x = args["x"]
            flat = op.const(np.array([-1], dtype=np.int64))
            if kind == "flatten_unknown_rank":
                x0 = op.reshape(x, args["shape__"])  # rank-unknown initial value
                init, body = [x0], (lambda i, c, v: [c, op.reshape(v, flat)])
            elif kind == "identity":
                init, body = [x], (lambda i, c, v: [c, op.identity(v), v])
            elif kind == "double":
                init, body = [x], (lambda i, c, v: [c, op.concat([v, v], axis=0)])
            elif kind == "narrow":  # broadcasting against a constant narrows the unknown last dim to 3
                init, body = [x], (lambda i, c, v: [c, op.add(v, op.const(np.ones((3,), dtype=np.float32)))])
            elif kind == "feedback":
                init, body = [x, x], (lambda i, c, a, b: [c, op.concat([a, a], axis=0), a])
            elif kind == "fixed_shape":  # the result has a fixed shape whatever comes in
                init, body = [x], (lambda i, c, v: [c, op.const(np.zeros((4,), dtype=np.float32))])
            else:
                raise ValueError(kind)
            outs = list(op.loop(args["m"], v_initial=init, body=body))
            outs = outs + [op.identity(o) for o in outs]
    except Exception as e:  # noqa: BLE001
        return {"rejected": True, "error": f"{type(e).__name__}: {str(e)[:200]}", "runs": 0, "refused": 0, "checked": 0, "fails": []}
    feeds = []
    for base in feeds_for({"x": args["x"]}, rng, [1, 3, 5] if kind in ("narrow",) else sizes, max_inst):
        for m in (0, 1, 2, 3):
            f = dict(base)
            f["m"] = np.array(m, dtype=np.int64)
            if "shape__" in args:
                f["shape__"] = np.array(f["x"].shape, dtype=np.int64)
            feeds.append(f)
    return observe(args, outs, rng, sizes, max_inst, extra_feeds=list(extra_feeds) + feeds, only_extra=True)


# ----------------------------------------------------------------------------- inline call forms
def ty_compatible(a: dict, d: dict) -> bool:
    """The statement's compatibility (what `inline` checks): same element type; unknown rank or
    dimension matches anything."""
    if a["e"] != d["e"]:
        return False
    if a["s"] is None or d["s"] is None:
        return True
    return len(a["s"]) == len(d["s"]) and all(
        not isinstance(x, int) or not isinstance(y, int) or x == y for x, y in zip(a["s"], d["s"]))


def ty_refines(a: dict, d: dict) -> bool:
    """Every value of type `a` is a value of type `d`."""
    if a["e"] != d["e"]:
        return False
    if d["s"] is None:
        return True
    if a["s"] is None or len(a["s"]) != len(d["s"]):
        return False
    return all(not isinstance(y, int) or x == y for x, y in zip(a["s"], d["s"]))


_F3, _F23 = {"e": "f32", "s": [3]}, {"e": "f32", "s": [2, 3]}
INLINE_CASES = []
for _decl, _argsets in [
    ([_F3, _F3], [[_F3, _F3], [{"e": "f32", "s": ["N"]}, _F3], [{"e": "f32", "s": [None]}, _F3], [{"e": "f32", "s": [5]}, _F3],
                  [_F23, _F3], [{"e": "f32", "s": [0]}, _F3], [_F3, {"e": "f32", "s": [5]}]]),
    ([{"e": "f32", "s": ["B", 3]}, _F3], [[{"e": "f32", "s": ["N", 3]}, _F3], [{"e": "f32", "s": [4, 3]}, _F3],
                                          [{"e": "f32", "s": ["N", None]}, _F3], [{"e": "f32", "s": ["N", 2]}, _F3]]),
]:
    for _a in _argsets:
        for _form in ("positional", "keyword", "mixed"):
            INLINE_CASES.append({"decl": _decl, "args": _a, "form": _form})


# (outside round 7) the argument's RANK differs from the declared input's: rank 0 for a declared rank >= 1 and the
# reverse, rank 1 for rank 2; the inlined model's body is rank-polymorphic (Neg, Add, Relu) so a wrongly
# accepted call builds a model the runtime RUNS, and its results contradict the declared output types
_F0 = {"e": "f32", "s": []}
for _decl, _argsets in [
    ([_F23, _F3], [[_F0, _F3], [_F3, _F3], [_F23, _F0], [_F23, _F3]]),
    ([_F0, _F3], [[_F23, _F3], [_F3, _F3], [_F0, _F3]]),
    ([_F0, _F0], [[_F3, _F0], [_F0, _F23]]),
    ([{"e": "f32", "s": ["B", 3]}, _F0], [[_F0, _F0], [{"e": "f32", "s": ["N", 3]}, _F3]]),
]:
    for _a in _argsets:
        for _form in ("positional", "keyword", "mixed"):
            INLINE_CASES.append({"decl": _decl, "args": _a, "form": _form, "body": "poly"})


def run_inline_case(case: dict, rng, sizes, max_inst: int, extra_feeds=()) -> dict:
    """`inline(m)` of a two-input model (y = x + w, z = Concat(x, x) on the last axis) called
    positionally / by keyword / mixed with arguments of the given types. An argument whose type is
    incompatible with the declared input type must be refused with TypeError at the call; whenever the
    call returns, every result is run and judged."""
    import spox.opset.ai.onnx.v17 as op
    from spox import argument, build, inline

    with warnings.catch_warnings():
        warnings.simplefilter("ignore")
        p, q = (argument(L.ty_from_json(t)) for t in case["decl"])
        if case.get("body") == "poly":
            m = build({"x": p, "w": q}, {"y": op.add(p, q), "z": op.neg(p), "r": op.relu(q)})
        else:
            m = build({"x": p, "w": q}, {"y": op.add(p, q), "z": op.concat([p, p], axis=-1)})
        args = make_args({"a": L.ty_from_json(case["args"][0]), "b": L.ty_from_json(case["args"][1])})
        a, b = args["a"], args["b"]
        try:
            if case["form"] == "positional":
                res = inline(m)(a, b)
            elif case["form"] == "keyword":
                res = inline(m)(w=b, x=a)
            else:
                res = inline(m)(a, w=b)
        except Exception as e:  # noqa: BLE001
            return {"rejected": True, "error": type(e).__name__, "runs": 0, "refused": 0, "checked": 0, "fails": []}
        outs = list(res.values())
        outs = outs + [op.identity(o) for o in outs]
    decl = [{"e": t["e"], "s": None if t["s"] is None else [d if isinstance(d, int) else None for d in t["s"]]} for t in case["decl"]]
    compatible = all(ty_compatible(x, d) for x, d in zip(case["args"], decl))
    weaker = compatible and not all(ty_refines(x, d) for x, d in zip(case["args"], decl))
    st = observe(args, outs, rng, sizes, max_inst, extra_feeds=extra_feeds)
    for f in st["fails"]:
        kind = f["key"].split(":")[2] if f["key"].count(":") >= 3 else "?"
        if weaker and kind != "dtype":
            f["key"] = "Inline:result:shape:argument-weaker-than-declared"
        else:
            f["key"] = f"Inline:result:{kind}:" + ("argument-incompatible-but-accepted" if not compatible else "unexplained")
        f["what"] = f"inline(m: {[str(L.ty_from_json(t)) for t in case['decl']]})({case['form']}; {[str(L.ty_from_json(t)) for t in case['args']]}): " + f["what"]
    seen, uniq = set(), []
    for f in st["fails"]:
        if f["key"] not in seen:
            seen.add(f["key"])
            uniq.append(f)
    st["fails"] = uniq
    st["compatible"] = compatible
    return st


# ----------------------------------------------------------------------------- Function subclasses with attributes
def _attr_function_classes():
    from harness import lib_c06fun

    return lib_c06fun.attr_function_classes()


ATTRFUN_CASES = [
    {"fun": "twice", "in": {"e": "f32", "s": [2, 3]}, "values": [0, 1]},
    {"fun": "twice", "in": {"e": "f32", "s": [2, 3]}, "values": [1, 0, -1]},
    {"fun": "twice", "in": {"e": "f32", "s": ["N", 3]}, "values": [0, 1]},
    {"fun": "argmax_axis", "in": {"e": "f32", "s": [2, 3, 4]}, "values": [0, 2, 1]},
    {"fun": "cast_to", "in": {"e": "f32", "s": [2]}, "values": ["f32", "i64", "f64"]},
    {"fun": "keepdims", "in": {"e": "f32", "s": [2, 3]}, "values": [1, 0]},
    {"fun": "keepdims", "in": {"e": "f32", "s": [2, 3]}, "values": [0, 1]},
    {"fun": "flatten", "in": {"e": "f32", "s": [2, 3, 4]}, "values": [1, 2, 0]},
]


def run_attr_function(case: dict, rng, sizes, max_inst: int, extra_feeds=()) -> dict:
    """One attribute-carrying Function applied several times in a row to the same input with
    different attribute values (a history: what an earlier application computed must not leak into a
    later one); every result and a value computed from it are exposed."""
    import spox.opset.ai.onnx.v17 as op

    try:
        with warnings.catch_warnings():
            warnings.simplefilter("ignore")
            apply = _attr_function_classes()[case["fun"]]
            args = make_args({"x": L.ty_from_json(case["in"])})
            outs = []
            for v in case["values"]:
                val = np.dtype(L.ELEM[v]) if case["fun"] == "cast_to" else v
                y = apply(args["x"], val)
                outs += [y, op.identity(y)]
    except Exception as e:  # noqa: BLE001
        return {"rejected": True, "error": f"{type(e).__name__}: {str(e)[:200]}", "runs": 0, "refused": 0, "checked": 0, "fails": []}
    return observe(args, outs, rng, sizes, max_inst, extra_feeds=extra_feeds)


# ----------------------------------------------------------------------------- conflicting function bodies
# One (domain, name) whose calls produce DIFFERENT bodies: a helper whose body depends on the static
# rank / element type of its argument, or two different helpers under one name. Result types are
# inferred per call from that call's own body, but a built model holds one FunctionProto per key, so
# every call executes the same stored body. The unchanged spox refuses to build such a program
# ("two different definitions"); if a build ever returns, every exposed Var is judged like any other.
def _conflict_helpers(op):
    def last_axis_sum(p):  # reduces "the last axis", computed from the argument's static rank
        r = len(p.type.shape)
        return [op.reduce_sum(p, op.const(np.array([r - 1], dtype=np.int64)), keepdims=0)]

    def append_axis(p):  # unsqueeze at axis = rank
        r = len(p.type.shape)
        return [op.unsqueeze(p, op.const(np.array([r], dtype=np.int64)))]

    def to_other_dtype(p):  # float -> int64, anything else -> float32
        return [op.cast(p, to=np.int64 if L.elem_name(p.type.dtype) == "f32" else np.float32)]

    def flatten_if_matrix(p):  # rank 2 is flattened, other ranks pass through
        if len(p.type.shape) == 2:
            return [op.reshape(p, op.const(np.array([-1], dtype=np.int64)))]
        return [op.identity(p)]

    return {"last_axis_sum": last_axis_sum, "append_axis": append_axis, "to_other_dtype": to_other_dtype,
            "flatten_if_matrix": flatten_if_matrix}


CONFLICT_CASES = []
for _h, _tys in [
    ("last_axis_sum", [{"e": "f32", "s": [4, 2, 3]}, {"e": "f32", "s": [4, 3]}]),
    ("last_axis_sum", [{"e": "f32", "s": ["N", 2]}, {"e": "f32", "s": [3, "N", 2]}]),
    ("append_axis", [{"e": "f32", "s": [3]}, {"e": "f32", "s": [2, 3]}]),
    ("to_other_dtype", [{"e": "f32", "s": [2]}, {"e": "i64", "s": [2]}]),
    ("flatten_if_matrix", [{"e": "f32", "s": [2, 3]}, {"e": "f32", "s": [6]}]),
    ("two_helpers", [{"e": "f32", "s": [2, 3]}, {"e": "f32", "s": [2, 3]}]),
]:
    for _order in ([0, 1], [1, 0]):
        CONFLICT_CASES.append({"helper": _h, "in": _tys, "order": _order})


def run_function_conflict(case: dict, rng, sizes, max_inst: int, extra_feeds=()) -> dict:
    import spox.opset.ai.onnx.v17 as op

    try:
        from spox._function import to_function
    except Exception as e:  # noqa: BLE001
        return {"rejected": True, "error": f"to_function not importable: {e}", "runs": 0, "refused": 0, "checked": 0, "fails": []}
    args = make_args({f"x{i}": L.ty_from_json(t) for i, t in enumerate(case["in"])})
    vs = list(args.values())
    name = f"c06_{case['helper']}"
    outs = []
    with warnings.catch_warnings():
        warnings.simplefilter("ignore")
        if case["helper"] == "two_helpers":
            funs = [to_function(name, "c06.conflict")(lambda p: [op.add(p, p)]),
                    to_function(name, "c06.conflict")(lambda p: [op.concat([p, p], axis=0)])]
            for k in case["order"]:
                outs.extend(funs[k](vs[k]))
        else:
            fun = to_function(name, "c06.conflict")(_conflict_helpers(op)[case["helper"]])
            for k in case["order"]:  # call order decides which body is stored first
                outs.extend(fun(vs[k]))
        outs = [op.identity(o) for o in outs] + outs  # also something computed downstream of each call
    st = observe(args, outs, rng, sizes, max_inst, extra_feeds=extra_feeds)
    st["built"] = "load_error" not in st
    return st


# ----------------------------------------------------------------------------- Scan programs
SCAN_CASES = [
    {"state": [{"e": "f32", "s": []}], "scans": [{"e": "f32", "s": [4, 3]}]},
    {"state": [{"e": "f32", "s": [3]}], "scans": [{"e": "f32", "s": [4, 3]}]},
    {"state": [{"e": "f32", "s": [2, 3]}], "scans": [{"e": "f32", "s": ["N", 3]}]},
    {"state": [{"e": "f32", "s": [3]}], "scans": [{"e": "f32", "s": [5, 2, 3]}]},
    {"state": [{"e": "i64", "s": ["K"]}], "scans": [{"e": "i64", "s": [4]}]},
    {"state": [{"e": "f32", "s": [3]}, {"e": "i64", "s": []}], "scans": [{"e": "f32", "s": ["N", 2]}, {"e": "i64", "s": ["N", 3, 2]}]},
    {"state": [], "scans": [{"e": "f32", "s": [3, 2]}]},
]


def run_scan(case: dict, rng, sizes, max_inst: int, extra_feeds=()) -> dict:
    """Scan over the given state / scan-input types. The body returns its state arguments unchanged and
    exposes every one of its arguments (and a value computed from each scan slice) as scan outputs, so
    the types the constructor prescribes for the body's arguments are compared with the runtime."""
    import spox.opset.ai.onnx.v17 as op

    decl = {f"s{i}": L.ty_from_json(t) for i, t in enumerate(case["state"])}
    decl.update({f"x{i}": L.ty_from_json(t) for i, t in enumerate(case["scans"])})
    args = make_args(decl)
    ns = len(case["state"])

    seen: list = []

    def body(*a):
        seen[:] = [L.ty_to_json(v.type) for v in a]
        st, xs = list(a[:ns]), list(a[ns:])
        return [op.identity(v) for v in st] + xs + [op.add(x, x) for x in xs] + st

    rejected = None
    outs: list = []
    try:
        with warnings.catch_warnings():
            warnings.simplefilter("ignore")
            outs = list(op.scan(list(args.values()), body=body, num_scan_inputs=len(case["scans"])))
    except Exception as e:  # noqa: BLE001
        rejected = f"{type(e).__name__}: {str(e)[:200]}"
    st = observe(args, outs, rng, sizes, max_inst, extra_feeds=extra_feeds) if outs else \
        {"rejected": True, "error": rejected, "runs": 0, "refused": 0, "checked": 0, "fails": []}
    # The types prescribed for the body's arguments vs. what the ONNX Scan semantics passes in the first
    # iteration: the initial state unchanged, and each scan input's slice 0 along axis 0 (numpy, no spox).
    if len(seen) == len(args):
        for feed in list(extra_feeds) + feeds_for(args, rng, sizes, max_inst):
            for k, (name, ty) in enumerate(zip(args, seen)):
                arr = feed[name]
                if k >= ns:
                    if arr.shape[0] == 0:
                        continue
                    arr = arr[0]
                kind = L.conforms(L.val_of(arr), ty)
                st["checked"] += 1
                if kind and not any(f["key"].startswith("Scan:body-arg") for f in st["fails"]):
                    what = "state" if k < ns else "scan-input slice"
                    st["fails"].append({
                        "key": f"Scan:body-arg:{kind}:unexplained",
                        "what": f"Scan body argument {k} ({what}) is declared {ty} but the first iteration receives "
                                f"{L.val_of(arr)['e']}{L.val_of(arr)['s']} for inputs {({n: list(a.shape) for n, a in feed.items()})}",
                        "feed": feed_to_json(feed),
                    })
    return st


# ----------------------------------------------------------------------------- hand-written witnesses
def _w_linreg():
    import spox.opset.ai.onnx.ml.v3 as ml
    args = make_args(dict(x=L.ty_from_json({"e": "f32", "s": [4, 3]})))
    y = ml.linear_regressor(args["x"], coefficients=[1.0, 2.0, 3.0], intercepts=[0.0], targets=1)
    return args, [y]


def _w_treecls():
    import spox.opset.ai.onnx.ml.v3 as ml
    args = make_args(dict(x=L.ty_from_json({"e": "f32", "s": [4, 2]})))
    y, z = ml.tree_ensemble_classifier(args["x"], **L.OPS["TreeEnsembleClassifier"].kwargs({"a": 3, "b": None, "c": 2}))
    return args, [y, z]


def _w_normalizer():
    import spox.opset.ai.onnx.ml.v3 as ml
    args = make_args(dict(x=L.ty_from_json({"e": "f64", "s": ["N", 5]})))
    return args, [ml.normalizer(args["x"])]


def _w_loop_m0():
    import spox.opset.ai.onnx.v17 as op
    args = make_args(dict(x=L.ty_from_json({"e": "f32", "s": [2]})))
    (v,) = op.loop(op.const(np.array(0, dtype=np.int64)), v_initial=[args["x"]],
                   body=lambda i, c, w: [c, op.concat([w, w], axis=0)])
    return args, [v]


def _w_loop_feedback():
    """Second carried value returns the first one's *argument*: after two iterations it holds a
    doubled tensor although its declared type is the initial one."""
    import spox.opset.ai.onnx.v17 as op
    args = make_args(dict(x=L.ty_from_json({"e": "f32", "s": [2]})))
    v, w = op.loop(op.const(np.array(2, dtype=np.int64)), v_initial=[args["x"], args["x"]],
                   body=lambda i, c, a, b: [c, op.concat([a, a], axis=0), a])
    return args, [v, w]


def _w_loop_refined_dim():
    """The body's result refines the argument's declared type (f32[N] -> f32[3] by broadcasting): with
    zero iterations the initial value, of any size N, comes out."""
    import spox.opset.ai.onnx.v17 as op
    args = make_args(dict(x=L.ty_from_json({"e": "f32", "s": ["N"]}), m=L.ty_from_json({"e": "i64", "s": []})))
    ones = op.const(np.ones((3,), dtype=np.float32))
    (v,) = op.loop(args["m"], v_initial=[args["x"]], body=lambda i, c, w: [c, op.add(w, ones)])
    return args, [v]


def _w_slice_steps_unknown_rank():
    """Slice whose `steps` input is a rank-unknown, non-constant value (here: erased by a runtime
    Reshape; in programs: a carried result of a v19+ Loop): ONNX infers the shape a step of 1 gives."""
    import spox.opset.ai.onnx.v19 as op
    args = make_args(dict(x=L.ty_from_json({"e": "f32", "s": [12, 12]}), st=L.ty_from_json({"e": "i64", "s": [1]}),
                          shp=L.ty_from_json({"e": "i64", "s": ["K"]})))
    c = lambda a: op.const(np.array(a, dtype=np.int64))  # noqa: E731
    steps = op.reshape(args["st"], args["shp"])
    return args, [op.slice(args["x"], c([0]), c([12]), c([0]), steps)]


WITNESSES = {
    "slice_steps_unknown_rank": _w_slice_steps_unknown_rank,
    "linear_regressor_targets": _w_linreg,
    "tree_ensemble_classifier_class_ids": _w_treecls,
    "normalizer_float64": _w_normalizer,
    "loop_zero_iterations": _w_loop_m0,
    "loop_feedback": _w_loop_feedback,
    "loop_refined_dim": _w_loop_refined_dim,
}


def run_witness(case: dict) -> dict:
    with warnings.catch_warnings():
        warnings.simplefilter("ignore")
        args, outs = WITNESSES[case["name"]]()
    def fix_feed(feed):
        if "m" in feed:  # trip count input of a witness: zero iterations
            feed["m"] = np.array(0, dtype=np.int64)
        if "st" in feed and "shp" in feed:  # the Slice witness: step 4, reshaped to its own shape
            feed["st"] = np.array([4], dtype=np.int64)
            feed["shp"] = np.array([1], dtype=np.int64)
        return feed

    return observe(args, outs, random.Random(0), [0, 1, 2, 5], 4, fix_feed=fix_feed)


def replay_known(ck) -> list:
    """Run every committed witness on each check run, so that listed findings reproduce (or are
    noted as no longer reproducing) independently of what the generators happened to sample."""
    out = []
    for name in WITNESSES:
        case = {"kind": "witness", "name": name}
        st = run_witness(case)
        ck.count(("witness", name) if st["checked"] else None)
        for f in st["fails"]:
            ck.failure(f["key"], f["what"], dict(case, failure=f))
            out.append(f)
    return out
