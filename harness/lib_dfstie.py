"""C04, round 10 — direct behavioural tie of `spox._traverse.iterative_dfs` to the Lean model's `visit`.

Until round 9 `iterative_dfs` was tied only through the Builder facets that consume its post-order
(`graph_topo`, `scope_own`, the emission) and an AST hash.  Here the real function is executed on
explicit generated graphs (plain ints as vertices) and its result — the returned post-order AND the
sequence of `post_callback` calls — is compared exactly with the driver's `visit`
(`Model/BuildAlg.lean`, the definition `visit_spec` / `emitted_iff_reachable` / `least_enclosing`
talk about), folded over the sources with one shared visited list.

Inputs (deterministic per seed, own PRNG so that the main case stream is not shifted):
random DAGs under a random relabelling (ids are NOT in topological order), duplicate successors,
several / repeated / already-visited / zero sources, isolated vertices, diamonds, long chains, wide
fans; malformed: a cycle or self-loop reachable from a source must make the real function raise
`RuntimeError` (the model's hypothesis `WF` = creation order excludes cycles; the Builder relies on
the refusal), a cycle NOT reachable from the sources must not matter.
"""
from __future__ import annotations

import json
import random
from typing import Any


def _reachable_cycle(adj: list[list[int]], sources: list[int]) -> bool:
    """Is a cycle reachable from the sources? (own three-colour DFS, independent of spox and of the model)"""
    colour: dict[int, int] = {}
    for s in sources:
        if s in colour:
            continue
        colour[s] = 1
        stack = [(s, 0)]
        while stack:
            u, i = stack[-1]
            if i < len(adj[u]):
                stack[-1] = (u, i + 1)
                w = adj[u][i]
                c = colour.get(w)
                if c == 1:
                    return True
                if c is None:
                    colour[w] = 1
                    stack.append((w, 0))
            else:
                colour[u] = 2
                stack.pop()
    return False


def gen_graphs(seed: int, n_random: int) -> list[dict]:
    rng = random.Random(f"c04-dfs-tie-{seed}")
    out: list[dict] = []

    def relabel(adj: list[list[int]], sources: list[int], shape: str, **kw) -> dict:
        n = len(adj)
        perm = list(range(n))
        rng.shuffle(perm)
        new = [[] for _ in range(n)]
        for u in range(n):
            new[perm[u]] = [perm[w] for w in adj[u]]
        return {"adj": new, "sources": [perm[s] for s in sources], "shape": shape, **kw}

    # boundary shapes
    out.append({"adj": [], "sources": [], "shape": "empty"})
    out.append({"adj": [[]], "sources": [0], "shape": "single"})
    out.append({"adj": [[]], "sources": [0, 0, 0], "shape": "repeated-source"})
    out.append({"adj": [[], [0], [0, 1], [1, 0, 2, 2]], "sources": [3], "shape": "diamond-dups"})
    for n in (50, 400):
        out.append(relabel([[i - 1] if i else [] for i in range(n)], [n - 1], "chain"))
        out.append(relabel([[]] * (n - 1) + [[rng.randrange(n - 1) for _ in range(n)]], [n - 1], "fan"))
    out.append({"adj": [[0]], "sources": [0], "shape": "self-loop"})
    out.append({"adj": [[1], [2], [0], []], "sources": [3], "shape": "unreachable-cycle"})
    out.append({"adj": [[1], [2], [0], [0]], "sources": [3], "shape": "reachable-cycle"})
    for _ in range(n_random):
        n = rng.choice((1, 2, 3, 4, 5, 6, 8, 10, 14, 20, 28))
        dens = rng.choice((0.1, 0.25, 0.5, 0.8))
        adj: list[list[int]] = []
        for u in range(n):
            succ = [w for w in range(u) if rng.random() < dens]
            rng.shuffle(succ)
            if succ and rng.random() < 0.3:  # the same operand twice (Add(x, x))
                succ.insert(rng.randrange(len(succ) + 1), rng.choice(succ))
            adj.append(succ)
        mode = rng.random()
        if mode < 0.5:
            sources = [n - 1]  # the Builder's use: one source
        elif mode < 0.55:
            sources = []
        else:
            sources = [rng.randrange(n) for _ in range(rng.choice((2, 3, 5)))]
        shape = "dag"
        if rng.random() < 0.12:  # malformed: one back edge (maybe unreachable from the sources)
            u = rng.randrange(n)
            w = rng.randrange(u, n)
            adj[u] = adj[u] + [w]
            shape = "back-edge"
        out.append(relabel(adj, sources, shape))
    return out


def run_real(dfs, g: dict) -> dict:
    adj = g["adj"]
    calls: list[int] = []
    try:
        post = dfs(list(g["sources"]), lambda v: iter(adj[v]), calls.append)
        return {"post": [int(x) for x in post], "calls": calls}
    except RuntimeError as e:
        return {"raised": "RuntimeError", "msg": str(e)[:80]}
    except Exception as e:  # noqa: BLE001
        return {"raised": type(e).__name__, "msg": str(e)[:120]}


def run_tie(ck, n_random: int) -> None:
    """Compare and register mismatches as broken correspondence items; evidence under ck.cov['dfs_tie']."""
    try:
        from spox._traverse import iterative_dfs as dfs
    except Exception as e:  # noqa: BLE001
        ck.broken("correspondence", "iterative_dfs not observable (spox._traverse changed shape)", f"{type(e).__name__}: {e}"[:200])
        return
    graphs = gen_graphs(ck.seed, n_random)
    try:
        answers = ck.driver().ask_many("C04", [{"dfs": {"adj": g["adj"], "sources": g["sources"]}} for g in graphs])
        if len(answers) != len(graphs):
            raise RuntimeError(f"driver answered {len(answers)} of {len(graphs)} dfs requests")
    except Exception as e:  # noqa: BLE001
        ck.broken("correspondence", "C04 driver (dfs requests)", str(e)[:300])
        return
    dist: dict[str, Any] = {"graphs": len(graphs), "by_shape": {}, "by_sources": {}, "by_size": {}, "with_duplicate_successor": 0,
                            "cycle_reachable": 0, "cycle_unreachable": 0, "max_vertices": 0, "compared_exactly": 0}
    bad = 0

    def mismatch(what: str, g: dict, real: Any, model: Any):
        nonlocal bad
        bad += 1
        if bad <= 2:
            ck.broken("correspondence", f"iterative_dfs vs model visit: {what}",
                      json.dumps({"adj": g["adj"], "sources": g["sources"], "real": real, "model": model})[:1400])

    for g, m in zip(graphs, answers):
        n = len(g["adj"])
        dist["by_shape"][g["shape"]] = dist["by_shape"].get(g["shape"], 0) + 1
        k = str(len(g["sources"])) if len(g["sources"]) < 2 else ">=2"
        dist["by_sources"][k] = dist["by_sources"].get(k, 0) + 1
        b = "0-3" if n <= 3 else "4-10" if n <= 10 else "11-28" if n <= 28 else ">28"
        dist["by_size"][b] = dist["by_size"].get(b, 0) + 1
        dist["max_vertices"] = max(dist["max_vertices"], n)
        dist["with_duplicate_successor"] += int(any(len(set(a)) < len(a) for a in g["adj"]))
        r = run_real(dfs, g)
        cyc = _reachable_cycle(g["adj"], g["sources"])
        if cyc:
            dist["cycle_reachable"] += 1
            if r.get("raised") != "RuntimeError":
                mismatch("a cycle reachable from the sources is not refused with RuntimeError", g, r, None)
            continue
        if g["shape"] in ("back-edge", "unreachable-cycle"):
            dist["cycle_unreachable"] += 1
        if m is None or "post" not in m:
            mismatch("driver answer", g, r, m)
            continue
        if "raised" in r:
            mismatch("real function raised on an acyclic reachable part", g, r, m["post"])
            continue
        dist["compared_exactly"] += 1
        if r["post"] != m["post"]:
            mismatch("post-order", g, r["post"], m["post"])
        elif r["calls"] != r["post"]:
            mismatch("post_callback sequence differs from the returned post-order", g, r["calls"], r["post"])
    dist["mismatches"] = bad
    ck.cov["dfs_tie"] = dist
    ck.log(f"dfs tie: {dist['compared_exactly']} graphs compared exactly, {dist['cycle_reachable']} cyclic refused, mismatches {bad}")
