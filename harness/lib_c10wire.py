"""Independent decoder of the protobuf wire format, for the C10 model-free oracle.

Nothing here uses onnx's Python classes, numpy_helper or the Lean model: a serialized ModelProto /
AttributeProto / TensorProto is walked byte by byte with the field numbers of onnx.proto (ONNX IR
specification) and element values are recovered as *bit patterns* with the rules the specification
gives for the typed fields (and for raw_data, should the code ever switch to it).
"""
from __future__ import annotations

import struct

# ---- field numbers (onnx/onnx.proto)
MODEL_GRAPH = 7
GRAPH_NODE, GRAPH_INITIALIZER, GRAPH_INPUT = 1, 5, 11
NODE_INPUT, NODE_OUTPUT, NODE_OPTYPE, NODE_ATTRIBUTE = 1, 2, 4, 5
ATTR = dict(name=1, f=2, i=3, s=4, t=5, g=6, floats=7, ints=8, strings=9, tensors=10, tp=14, type=20,
            ref_attr_name=21)
TENSOR = dict(dims=1, data_type=2, float_data=4, int32_data=5, string_data=6, int64_data=7, name=8,
              raw_data=9, double_data=10, uint64_data=11)

# ---- ONNX TensorProto.DataType (specification), keyed by canonical numpy element type name
ONNX_ENUM = {
    "float32": 1, "uint8": 2, "int8": 3, "uint16": 4, "int16": 5, "int32": 6, "int64": 7, "str": 8,
    "bool": 9, "float16": 10, "float64": 11, "uint32": 12, "uint64": 13, "complex64": 14,
    "complex128": 15, "bfloat16": 16,
}
ENUM_NAME = {v: k for k, v in ONNX_ENUM.items()}
BITS = {"bool": 8, "int8": 8, "uint8": 8, "int16": 16, "uint16": 16, "float16": 16, "bfloat16": 16,
        "int32": 32, "uint32": 32, "float32": 32, "complex64": 32, "int64": 64, "uint64": 64,
        "float64": 64, "complex128": 64}
ATTR_TYPE = dict(FLOAT=1, INT=2, STRING=3, TENSOR=4, GRAPH=5, FLOATS=6, INTS=7, STRINGS=8, TENSORS=9,
                 TYPE_PROTO=13)


def _varint(b: bytes, i: int):
    shift = 0
    val = 0
    while True:
        c = b[i]
        i += 1
        val |= (c & 0x7F) << shift
        if not c & 0x80:
            return val, i
        shift += 7


def fields(b: bytes):
    """[(field_number, wire_type, value)]: value is int for varint/fixed, bytes for length-delimited."""
    out = []
    i = 0
    n = len(b)
    while i < n:
        key, i = _varint(b, i)
        fno, wt = key >> 3, key & 7
        if wt == 0:
            v, i = _varint(b, i)
        elif wt == 1:
            v = struct.unpack_from("<Q", b, i)[0]
            i += 8
        elif wt == 5:
            v = struct.unpack_from("<I", b, i)[0]
            i += 4
        elif wt == 2:
            ln, i = _varint(b, i)
            v = b[i:i + ln]
            i += ln
        else:
            raise ValueError(f"unsupported wire type {wt}")
        out.append((fno, wt, v))
    return out


def _packed_varints(fs, fno):
    out = []
    for f, wt, v in fs:
        if f != fno:
            continue
        if wt == 0:
            out.append(v)
        else:
            i = 0
            while i < len(v):
                x, i = _varint(v, i)
                out.append(x)
    return out


def _packed_fixed(fs, fno, size):
    fmt = "<I" if size == 4 else "<Q"
    out = []
    for f, wt, v in fs:
        if f != fno:
            continue
        if wt in (1, 5):
            out.append(v)
        else:
            out += [struct.unpack_from(fmt, v, k)[0] for k in range(0, len(v), size)]
    return out


def tensor(b: bytes) -> dict:
    """Serialized TensorProto -> {data_type, dtype, dims, name, words | strs, fields_used}."""
    fs = fields(b)
    T = TENSOR
    dims = _packed_varints(fs, T["dims"])
    dt = next((v for f, _, v in fs if f == T["data_type"]), 0)
    name = next((v.decode() for f, _, v in fs if f == T["name"]), "")
    dtype = ENUM_NAME.get(dt)
    used = sorted({k for k, n in T.items() for f, _, _ in fs if f == n and k not in ("dims", "data_type", "name")})
    out = {"data_type": dt, "dtype": dtype, "dims": dims, "name": name, "fields_used": used}
    if dtype is None:
        return out
    if dtype == "str":
        out["strs"] = [v for f, _, v in fs if f == T["string_data"]]  # raw bytes
        return out
    bits = BITS[dtype]
    raw = [v for f, _, v in fs if f == T["raw_data"]]
    if raw:
        size = bits // 8
        data = b"".join(raw)
        out["words"] = [int.from_bytes(data[k:k + size], "little") for k in range(0, len(data), size)]
        return out
    mask = (1 << bits) - 1
    if dtype in ("bool", "int8", "uint8", "int16", "uint16", "float16", "bfloat16", "int32"):
        ws = [x & mask for x in _packed_varints(fs, T["int32_data"])]
        if dtype == "bool":
            ws = [x & 0xFF for x in ws]
    elif dtype == "int64":
        ws = [x & mask for x in _packed_varints(fs, T["int64_data"])]
    elif dtype in ("uint32", "uint64"):
        ws = [x & mask for x in _packed_varints(fs, T["uint64_data"])]
    elif dtype in ("float32", "complex64"):
        ws = _packed_fixed(fs, T["float_data"], 4)
    else:
        ws = _packed_fixed(fs, T["double_data"], 8)
    out["words"] = ws
    # the raw typed fields, for the encoding correspondence
    out["typed"] = {
        "int32_data": [x - (1 << 64) if x >> 63 else x for x in _packed_varints(fs, T["int32_data"])],
        "int64_data": [x - (1 << 64) if x >> 63 else x for x in _packed_varints(fs, T["int64_data"])],
        "uint64_data": _packed_varints(fs, T["uint64_data"]),
        "float_data": _packed_fixed(fs, T["float_data"], 4),
        "double_data": _packed_fixed(fs, T["double_data"], 8),
    }
    return out


def tensor_typed(b: bytes) -> dict:
    """All typed fields verbatim (signed where the field is signed), for the correspondence."""
    fs = fields(b)
    T = TENSOR
    sg = lambda xs: [x - (1 << 64) if x >> 63 else x for x in xs]  # noqa: E731
    return {
        "data_type": next((v for f, _, v in fs if f == T["data_type"]), 0),
        "dims": _packed_varints(fs, T["dims"]),
        "name": next((v.decode() for f, _, v in fs if f == T["name"]), ""),
        "int32_data": sg(_packed_varints(fs, T["int32_data"])),
        "int64_data": sg(_packed_varints(fs, T["int64_data"])),
        "uint64_data": _packed_varints(fs, T["uint64_data"]),
        "float_data": _packed_fixed(fs, T["float_data"], 4),
        "double_data": _packed_fixed(fs, T["double_data"], 8),
        "string_data": [list(v) for f, _, v in fs if f == T["string_data"]],
        "raw_data": [list(v) for f, _, v in fs if f == T["raw_data"]],
    }


def attribute(b: bytes) -> dict:
    fs = fields(b)
    A = ATTR
    sg = lambda x: x - (1 << 64) if x >> 63 else x  # noqa: E731
    get = lambda n, d=None: next((v for f, _, v in fs if f == A[n]), d)  # noqa: E731
    return {
        "name": (get("name", b"") or b"").decode(),
        "type": get("type", 0),
        "f": get("f", 0),
        "i": sg(get("i", 0)),
        "s": get("s", b""),
        "t": get("t"),
        "g": get("g"),
        "tp": get("tp"),
        "floats": _packed_fixed(fs, A["floats"], 4),
        "ints": [sg(x) for x in _packed_varints(fs, A["ints"])],
        "strings": [v for f, _, v in fs if f == A["strings"]],
        "tensors": [v for f, _, v in fs if f == A["tensors"]],
        "ref": get("ref_attr_name"),
    }


def graph_of_model(b: bytes) -> bytes:
    return next(v for f, _, v in fields(b) if f == MODEL_GRAPH)


def graph_parts(g: bytes) -> dict:
    fs = fields(g)
    nodes = []
    for f, _, v in fs:
        if f == GRAPH_NODE:
            nf = fields(v)
            nodes.append({
                "op_type": next((x.decode() for k, _, x in nf if k == NODE_OPTYPE), ""),
                "inputs": [x.decode() for k, _, x in nf if k == NODE_INPUT],
                "outputs": [x.decode() for k, _, x in nf if k == NODE_OUTPUT],
                "attrs": [attribute(x) for k, _, x in nf if k == NODE_ATTRIBUTE],
            })
    return {
        "nodes": nodes,
        "initializers": [tensor(v) for f, _, v in fs if f == GRAPH_INITIALIZER],
    }


def graph_inputs(g: bytes) -> list:
    """graph.input as [{name, elem_type, has_shape, dims}] (ValueInfoProto.type.tensor_type; dims: int or str)."""
    out = []
    for f, _, v in fields(g):
        if f != GRAPH_INPUT:
            continue
        vf = fields(v)
        name = next((x.decode() for k, _, x in vf if k == 1), "")
        tp = next((x for k, _, x in vf if k == 2), None)
        info = {"name": name, "elem_type": None, "has_shape": False, "dims": None}
        if tp is not None:
            tt = next((x for k, _, x in fields(tp) if k == 1), None)  # TypeProto.tensor_type
            if tt is not None:
                tf = fields(tt)
                info["elem_type"] = next((x for k, _, x in tf if k == 1), 0)
                shp = next((x for k, _, x in tf if k == 2), None)
                if shp is not None:
                    info["has_shape"] = True
                    dims = []
                    for k, _, d in fields(shp):
                        if k == 1:
                            df = fields(d)
                            dv = next((x for kk, _, x in df if kk == 1), None)
                            dp = next((x.decode() for kk, _, x in df if kk == 2), None)
                            dims.append(dv if dv is not None else dp if dp is not None else None)
                    info["dims"] = dims
        out.append(info)
    return out


MODEL_FUNCTIONS = 25
FUNC = dict(name=1, input=4, output=5, attribute=6, node=7, domain=10, attribute_proto=11)


def functions_of_model(b: bytes) -> list:
    """ModelProto.functions as [{name, domain, attribute (declared names), nodes: [{op_type, attrs}]}]."""
    out = []
    for f, _, v in fields(b):
        if f != MODEL_FUNCTIONS:
            continue
        ff = fields(v)
        nodes = []
        for k, _, x in ff:
            if k == FUNC["node"]:
                nf = fields(x)
                nodes.append({"op_type": next((y.decode() for kk, _, y in nf if kk == NODE_OPTYPE), ""),
                              "attrs": [attribute(y) for kk, _, y in nf if kk == NODE_ATTRIBUTE]})
        out.append({"name": next((x.decode() for k, _, x in ff if k == FUNC["name"]), ""),
                    "domain": next((x.decode() for k, _, x in ff if k == FUNC["domain"]), ""),
                    "attribute": [x.decode() for k, _, x in ff if k == FUNC["attribute"]],
                    "nodes": nodes})
    return out


def type_proto(b: bytes):
    """TypeProto -> ('tensor', elem_type, dims | None) | ('seq', inner) | ('opt', inner) | ('map', key, inner) | ('other',)
    dims: list of int (dim_value), str (dim_param) or None (neither); None instead of a list = no shape field."""
    for k, _, v in fields(b):
        if k == 1:  # tensor_type
            tf = fields(v)
            shp = next((x for kk, _, x in tf if kk == 2), None)
            dims = None
            if shp is not None:
                dims = []
                for kk, _, d in fields(shp):
                    if kk == 1:
                        df = fields(d)
                        dv = next((x for k3, _, x in df if k3 == 1), None)
                        dp = next((x.decode() for k3, _, x in df if k3 == 2), None)
                        dims.append(dv if dv is not None else dp)
            return ("tensor", next((x for kk, _, x in tf if kk == 1), 0), dims)
        if k in (4, 9):  # sequence_type / optional_type
            inner = next((x for kk, _, x in fields(v) if kk == 1), b"")
            return ("seq" if k == 4 else "opt", type_proto(inner))
        if k == 5:
            mf = fields(v)
            return ("map", next((x for kk, _, x in mf if kk == 1), 0), type_proto(next((x for kk, _, x in mf if kk == 2), b"")))
    return ("other",)
