"""C02 - ADVERSARIAL programs for which the final checker call inside `build` is the last guard: all subgraphs of a
build share one flat Scope, so nothing before it notices a value that is used outside the body that defines it.

  {"kind": "adv", "what": <WHATS>, "drop": bool, "route": "build" | "graph", "nin": 1..3, "ver": 17..21}

  leak_*            a body callback (Loop / If / Scan / SequenceMap / function body) hands one of its body-local Vars
                    (a formal argument or a value computed from one) to the outside through a Python list; it is then
                    used in a sibling branch, in a cousin body, or in the main graph (use before / without definition)
  empty_output / empty_input        a requested output / a build input named ""
  dup_io_name                       an output named like an input
  scope_collide                     a user name equal to a name generated inside a body

Accepted outcomes: an exception, or a model that passes full checker, strict inference, walker, onnxruntime.
The number of model inputs (`nin`, all used, given in traversal order or reversed) matters: `build` re-lists the
inputs only under drop_unused_inputs.
"""
from __future__ import annotations

import warnings

import numpy as np

WHATS = ["leak_loop_to_if", "leak_loop_to_main", "leak_loop_state_to_sibling_loop", "leak_if_to_if", "leak_if_to_main",
         "leak_scan_to_main", "leak_seqmap_to_if", "leak_func_formal_to_main", "leak_loop_to_cousin",
         "empty_output", "empty_input", "dup_io_name", "scope_collide", "clean"]


def realise(case):
    import importlib

    import spox
    from spox import Tensor, argument
    from spox import _graph
    from spox._function import to_function

    op = importlib.import_module(f"spox.opset.ai.onnx.v{case.get('ver', 17)}")
    what = case["what"]
    nin = case.get("nin", 1)
    f2 = Tensor(np.float32, (2,))
    xs = [argument(f2) for _ in range(nin)]
    c = argument(Tensor(np.bool_, ()))
    x = xs[0]
    for extra in xs[1:]:
        x = op.add(x, extra)
    names = [f"x{i}" for i in range(nin)]
    inputs = dict(zip(names, xs))
    if case.get("reverse"):
        inputs = dict(reversed(list(inputs.items())))
    uses_c = True
    leak = []
    i64 = lambda v: op.constant(value=np.array(v, np.int64))  # noqa: E731
    out_name = "r"

    def loop_leaking(state_of="formal"):
        def body(i, cnd, s):
            leak.append(s if state_of == "formal" else op.add(s, s))
            return [cnd, op.add(s, x)]
        return op.loop(i64(2), v_initial=[x], body=body)[0]

    if what == "leak_loop_to_if":
        l = loop_leaking()
        (r,) = op.if_(c, then_branch=lambda: [op.add(leak[0], l)], else_branch=lambda: [l])
    elif what == "leak_loop_to_main":
        l = loop_leaking("computed")
        r = op.add(l, leak[0])
        uses_c = False
    elif what == "leak_loop_state_to_sibling_loop":
        l = loop_leaking()
        (r,) = op.loop(i64(1), v_initial=[l], body=lambda i, cnd, s: [cnd, op.add(s, leak[0])])
        uses_c = False
    elif what == "leak_loop_to_cousin":
        l = loop_leaking()
        (r,) = op.if_(c, then_branch=lambda: [l], else_branch=lambda: list(
            op.loop(i64(1), v_initial=[l], body=lambda i, cnd, s: [cnd, op.add(s, leak[0])])))
    elif what == "leak_if_to_if":
        def tb():
            v = op.neg(x)
            leak.append(v)
            return [v]
        (a,) = op.if_(c, then_branch=tb, else_branch=lambda: [x])
        (r,) = op.if_(c, then_branch=lambda: [a], else_branch=lambda: [op.add(leak[0], a)])
    elif what == "leak_if_to_main":
        def tb2():
            v = op.neg(x)
            leak.append(op.abs(v))
            return [v]
        (a,) = op.if_(c, then_branch=tb2, else_branch=lambda: [x])
        r = op.add(a, leak[0])
    elif what == "leak_scan_to_main":
        m = op.unsqueeze(x, i64([0]))

        def sbody(s, e):
            leak.append(e)
            return [op.add(s, e), op.add(s, e)]
        fin, _o = op.scan([x, m], body=sbody, num_scan_inputs=1)
        r = op.add(fin, leak[0])
        uses_c = False
    elif what == "leak_seqmap_to_if":
        seq = op.split_to_sequence(x, axis=0, keepdims=1)

        def mbody(e):
            leak.append(e)
            return [op.add(e, e)]
        (mapped,) = op.sequence_map(seq, [], body=mbody)
        y = op.concat_from_sequence(mapped, axis=0)
        (r,) = op.if_(c, then_branch=lambda: [op.add(y, op.reshape(leak[0], i64([1])))], else_branch=lambda: [y])
    elif what == "leak_func_formal_to_main":
        def fbody(a):
            leak.append(a)
            return [op.neg(a)]
        (y,) = to_function("adv_fn", "adv.dom")(fbody)(x)
        r = op.add(y, leak[-1])
        uses_c = False
    elif what == "empty_output":
        r = op.neg(x)
        out_name = ""
        uses_c = False
    elif what == "empty_input":
        r = op.neg(x)
        inputs = {("" if k == names[0] else k): v for k, v in inputs.items()}
        uses_c = False
    elif what == "dup_io_name":
        r = op.neg(x)
        out_name = names[-1]
        uses_c = False
    elif what == "scope_collide":
        (r,) = op.if_(c, then_branch=lambda: [op.neg(x)], else_branch=lambda: [x])
        out_name = "If_0_then_branch__Neg_0_Y"
    elif what == "clean":
        (r,) = op.if_(c, then_branch=lambda: [op.neg(x)], else_branch=lambda: [x])
    else:
        raise ValueError(what)
    if uses_c or not case.get("drop"):
        inputs["c"] = c
    outputs = {out_name: r}
    if case.get("route") == "graph":
        from spox._public import _temporary_renames

        with _temporary_renames(**inputs):
            g = _graph.results(**outputs)
            if not case.get("drop"):
                g = g.with_arguments(*inputs.values())
            return g.to_onnx_model()
    return spox.build(inputs, outputs, drop_unused_inputs=bool(case.get("drop")))


def build_case(case):
    with warnings.catch_warnings():
        warnings.simplefilter("ignore")
        try:
            return "ok", realise(case)
        except Exception as e:  # noqa: BLE001 - raising is the accepted outcome
            return "err", f"{type(e).__name__}: {str(e)[:200]}"


def all_cases():
    cases = []
    for what in WHATS:
        for drop in (False, True):
            for route in ("build", "graph"):
                for nin, rev in ((1, False), (2, False), (2, True), (3, True)):
                    cases.append({"kind": "adv", "what": what, "drop": drop, "route": route, "nin": nin, "reverse": rev,
                                  "ver": 17 if (nin + drop) % 2 else 19})
    return cases


def classify(case, bad):
    kinds = [k for k, _ in bad]
    for k in ("checker-aborted", "runtime-aborted", "walker", "full-checker", "strict-inference", "ort-load",
              "missing-function"):
        if k in kinds:
            return f"adversarial-program-returned-invalid-model:{k}"
    return "adversarial-program-returned-invalid-model"
