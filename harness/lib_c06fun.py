"""`Function` subclasses with attributes for the C06 oracle.

Kept in a module WITHOUT `from __future__ import annotations`: spox inspects the dataclass field types
of `Inputs` / `Outputs` / `Attributes`, which must be the classes themselves, not strings.
"""
from dataclasses import dataclass

import numpy as np


def attr_function_classes():
    """`Function` subclasses whose attribute is referenced (`_Ref`) by a type-relevant operator attribute
    in the body (the idiom of tests/test_function.py)."""
    from dataclasses import dataclass

    import spox.opset.ai.onnx.v17 as op
    from spox._attributes import AttrDtype, AttrInt64, AttrInt64s, _Ref
    from spox._fields import BaseAttributes, BaseInputs, BaseOutputs
    from spox._function import Function
    from spox._node import OpType
    from spox._var import Var

    def make(name, attr_cls, body):
        @dataclass
        class Attributes(BaseAttributes):
            a: attr_cls

        @dataclass
        class Inputs(BaseInputs):
            X: Var

        @dataclass
        class Outputs(BaseOutputs):
            Y: Var

        def constructor(self, attrs, inputs):
            return self.Outputs(body(inputs.X, lambda inner: _Ref(attrs["a"], outer_name="a", name=inner)))

        cls = type(name, (Function,), {
            "Attributes": Attributes, "Inputs": Inputs, "Outputs": Outputs,
            "op_type": OpType(name, "c06.attrfun", 0), "constructor": constructor,
            "__annotations__": {"attrs": Attributes, "inputs": Inputs, "outputs": Outputs},
        })

        def apply(x, value):
            return cls(Attributes(a=attr_cls(value, "a")), Inputs(x)).outputs.Y

        return apply

    axes0 = lambda: op.const(np.array([0], dtype=np.int64))  # noqa: E731
    return {
        "twice": make("C06Twice", AttrInt64, lambda x, ref: op.concat([x, x], axis=ref("axis"))),
        "argmax_axis": make("C06ArgMax", AttrInt64, lambda x, ref: op.arg_max(x, axis=ref("axis"), keepdims=0)),
        "cast_to": make("C06CastTo", AttrDtype, lambda x, ref: op.cast(x, to=ref("to"))),
        "keepdims": make("C06SumKeep", AttrInt64, lambda x, ref: op.reduce_sum(x, axes0(), keepdims=ref("keepdims"))),
        "flatten": make("C06Flatten", AttrInt64, lambda x, ref: op.flatten(x, axis=ref("axis"))),
    }


