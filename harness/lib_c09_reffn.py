"""A Function subclass whose body refers to the function's attribute (the idiom of tests/test_function.py).

Kept in a module WITHOUT `from __future__ import annotations`: spox reads the dataclass field types.
"""
from dataclasses import dataclass

from spox._attributes import AttrFloat32, _Ref
from spox._fields import BaseAttributes, BaseInputs, BaseOutputs
from spox._function import Function
from spox._node import OpType
from spox._var import Var


def make(o, name: str, k: float):
    """`x -> k * x` as a function `name` in domain spox.reffn, written against opset module `o`."""

    class RefFunction(Function):
        @dataclass
        class Attributes(BaseAttributes):
            slope_outer: AttrFloat32

        @dataclass
        class Inputs(BaseInputs):
            X: Var

        @dataclass
        class Outputs(BaseOutputs):
            Y: Var

        op_type = OpType(name, "spox.reffn", 0)
        attrs: Attributes
        inputs: Inputs
        outputs: Outputs

        def constructor(self, attrs, inputs):
            a = o.constant(value_float=_Ref(attrs["slope_outer"], outer_name="slope_outer", name="value_float"))
            return self.Outputs(o.mul(a, inputs.X))

    # one class = one function; every call is another application (its own value of the attribute)
    return lambda x, kk=None: RefFunction(
        RefFunction.Attributes(slope_outer=AttrFloat32(float(k if kk is None else kk), "slope_outer")),
        RefFunction.Inputs(x)).outputs.Y
