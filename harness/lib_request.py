"""C01 round 10: helpers for the ties of `needed_part_decides_values` and `other_request_same_values`.

* `rename_model(model, mapping)`: a copy of a ModelProto in which value names are renamed simultaneously at every
  depth (graph inputs / outputs, node inputs / outputs, value_info, initializers) — used to read the emission of a
  history build (inputs permuted / renamed, outputs renamed) with the extraction that expects `in<id>` / `out<i>`.
  The mapping must be injective on the names that occur; a clash with another name of the model is reported.
* `embed_request(prog, prog_c, idmap, results)`: the driver request for the executable hypotheses of
  `C01.needed_part_decides_values_checked` (abstract program → the program as really created).
"""
from __future__ import annotations

from harness import lib_prog as L


def rename_model(model, mapping: dict):
    import onnx

    m = onnx.ModelProto()
    m.CopyFrom(model)
    seen: set = set()
    targets = set(mapping.values())
    clash: list = []

    def mp(nm):
        if nm and nm not in mapping and nm in targets:
            clash.append(nm)
        return mapping.get(nm, nm)

    def walk(g):
        for vi in list(g.input) + list(g.output) + list(g.value_info):
            seen.add(vi.name)
            vi.name = mp(vi.name)
        for t in g.initializer:
            t.name = mp(t.name)
        for n in g.node:
            ins = [mp(x) for x in n.input]
            outs = [mp(x) for x in n.output]
            del n.input[:]
            n.input.extend(ins)
            del n.output[:]
            n.output.extend(outs)
            for a in n.attribute:
                if a.type == 5:
                    walk(a.g)
                for sg in a.graphs:
                    walk(sg)

    walk(m.graph)
    if clash:
        raise ValueError(f"renaming clashes with other names of the model: {sorted(set(clash))[:4]}")
    return m


def nodes_json(prog):
    labs = L.labels_of(prog)
    out = []
    for n, lab in zip(prog["nodes"], labs):
        kind = 0 if n["op"] == "arg" else (1 if n["op"] == "init" else 2)
        out.append([kind, lab, n["ins"], [[s["args"], s["res"]] for s in n["subs"]]])
    return out


def embed_request(prog, prog_c, idmap: dict, results, args) -> dict:
    n = len(prog["nodes"])
    big = 2 * n + len(prog_c["nodes"]) + 7
    tbl = [idmap.get(k, big + k) for k in range(n)]
    bound = max(tbl + [0]) + 1
    return {"embed": {"p": nodes_json(prog), "p2": nodes_json(prog_c), "sigma": tbl, "bound": bound,
                      "results": [list(r) for r in results], "args": list(args)}}
