"""Generators and canonicalisers for C08 (inline): ONNX models (hand-built corner shapes and
spox-built programs), the abstraction of a ModelProto into the JSON form of `Model/Inline.lean`,
call forms, build-scope states, and outer compositions.

Nothing here judges the property; see harness/props/c08.py.
"""
from __future__ import annotations

import base64
import hashlib
import json
import random
from typing import Any, Optional

import numpy as np
import onnx
from onnx import TensorProto as TP
from onnx import helper as H
from onnx import numpy_helper as NH

# ----------------------------------------------------------------------------------------------
# abstraction  ModelProto -> JSON (the shape Drv/C08.lean parses)
# ----------------------------------------------------------------------------------------------


class Lits:
    """Table of tensor payloads: serialized TensorProto / SparseTensorProto -> small id."""

    def __init__(self):
        self.ids: dict[bytes, int] = {}

    def of(self, proto) -> int:
        # the payload is the tensor without its name (renaming touches the name only)
        q = type(proto)()
        q.CopyFrom(proto)
        if isinstance(q, onnx.SparseTensorProto):
            q.values.name = ""
            q.indices.name = ""
        else:
            q.name = ""
        b = q.SerializeToString(deterministic=True)
        if b not in self.ids:
            self.ids[b] = len(self.ids)
        return self.ids[b]


def _attr_key(nd: onnx.NodeProto) -> str:
    """Canonical key of the non-graph, non-payload attributes of a node."""
    parts = []
    for a in nd.attribute:
        if a.type in (onnx.AttributeProto.GRAPH, onnx.AttributeProto.GRAPHS):
            parts.append(f"{a.name}:graph")
            continue
        if nd.op_type == "Constant" and a.name in ("value", "sparse_value"):
            continue
        parts.append(a.name + ":" + hashlib.sha1(a.SerializeToString(deterministic=True)).hexdigest()[:10])
    return ";".join(parts)


def abstract_node(nd: onnx.NodeProto, lits: Lits) -> dict:
    lit = None
    if nd.op_type == "Constant":
        for a in nd.attribute:
            if a.name == "value":
                lit = ["d", lits.of(a.t)]
            elif a.name == "sparse_value":
                lit = ["s", lits.of(a.sparse_tensor)]
    subs = []
    for a in nd.attribute:
        if a.type == onnx.AttributeProto.GRAPH:
            subs.append(abstract_graph(a.g, lits))
        elif a.type == onnx.AttributeProto.GRAPHS:
            subs.extend(abstract_graph(g, lits) for g in a.graphs)
    return {
        "name": nd.name,
        "domain": nd.domain,
        "op": nd.op_type,
        "attrs": _attr_key(nd),
        "lit": lit,
        "ins": list(nd.input),
        "outs": list(nd.output),
        "subs": subs,
    }


def abstract_graph(g: onnx.GraphProto, lits: Lits) -> dict:
    return {
        "inputs": [i.name for i in g.input],
        "inits": [[i.name, "d", lits.of(i)] for i in g.initializer]
        + [[s.values.name, "s", lits.of(s)] for s in g.sparse_initializer],
        "nodes": [abstract_node(n, lits) for n in g.node],
        "outputs": [o.name for o in g.output],
        "vi": [v.name for v in g.value_info],
    }


def type_json(tp: onnx.TypeProto) -> Any:
    kind = tp.WhichOneof("value")
    if kind is None:
        return None
    if kind == "tensor_type":
        tt = tp.tensor_type
        if not tt.HasField("shape"):
            return {"t": [tt.elem_type, None]}
        dims = []
        for d in tt.shape.dim:
            w = d.WhichOneof("value")
            if w == "dim_value":
                dims.append(d.dim_value)
            elif w == "dim_param" and d.dim_param:
                dims.append(d.dim_param)
            else:
                dims.append(None)
        return {"t": [tt.elem_type, dims]}
    if kind == "sequence_type":
        return {"seq": type_json(tp.sequence_type.elem_type)}
    if kind == "optional_type":
        return {"opt": type_json(tp.optional_type.elem_type)}
    return None


def strip_symbols(tj: Any) -> Any:
    """The property's own words: declared type with symbolic dimensions forgotten."""
    if tj is None:
        return None
    if "t" in tj:
        e, dims = tj["t"]
        return {"t": [e, None if dims is None else [d if isinstance(d, int) else None for d in dims]]}
    if "seq" in tj:
        return {"seq": strip_symbols(tj["seq"])}
    return {"opt": strip_symbols(tj["opt"])}


def abstract_model(m: onnx.ModelProto, lits: Lits) -> dict:
    return {
        "graph": abstract_graph(m.graph, lits),
        "functions": len(m.functions) > 0,
        "inTypes": [type_json(i.type) for i in m.graph.input],
        "outTypes": [type_json(o.type) for o in m.graph.output],
    }


def canon_nodes(nodes: list[dict]) -> list[dict]:
    """Node lists are compared as they are (names included): the model predicts the exact names."""
    return nodes


# ----------------------------------------------------------------------------------------------
# hand-built corner shapes
# ----------------------------------------------------------------------------------------------

POOL = [
    "x", "y", "t", "u", "x_0", "x_1", "t_0", "t_1", "y_0", "Inline_0__x", "Inline_0__t",
    "Inline_0__t_0", "Inline_0__x_0", "Inline_1__x", "Inline_0_outputs_0", "Inline_1_outputs_0",
    "If_0_then_branch__t", "Add_0_C", "Abs_0_Y", "Constant_0_output", "_", "a__b", "x__x",
    "Inline_0__Inline_0__x", "Identity_0_output", "w", "w_0", "z", "r0", "r",
]

UNARY = ["Abs", "Neg", "Identity", "Relu", "Floor"]
BINARY = ["Add", "Sub", "Mul", "Max", "Min"]
INT_UNARY = ["Abs", "Neg", "Identity"]
INT_BINARY = ["Add", "Sub", "Mul", "Max"]


def _vi(name, elem, shape):
    return H.make_tensor_value_info(name, elem, shape)


class HandGen:
    """One random corner-shape model. `scalar_int`: int64 scalars only (evaluator correspondence)."""

    def __init__(self, rng: random.Random, scalar_int: bool = False, hostile: float = 0.5,
                 allow_custom: bool = True):
        self.rng = rng
        self.scalar_int = scalar_int
        self.elem = TP.INT64 if scalar_int else TP.FLOAT
        self.np = np.int64 if scalar_int else np.float32
        self.shape: list = [] if scalar_int else [2]
        self.pool = list(POOL) if rng.random() < hostile else ["x", "y", "t", "u", "v", "w", "z", "a", "b", "c2", "d", "e", "f", "g", "h", "k", "p", "q", "r", "s"]
        rng.shuffle(self.pool)
        self.taken: set[str] = set()
        self.features: set[str] = set()
        self.allow_custom = allow_custom and not scalar_int

    def fresh(self) -> str:
        for n in self.pool:
            if n not in self.taken:
                self.taken.add(n)
                return n
        n = f"n{len(self.taken)}"
        self.taken.add(n)
        return n

    def arr(self):
        r = self.rng
        if self.scalar_int:
            return np.array(r.randrange(-5, 6), np.int64)
        return np.array([r.randrange(-4, 5) + 0.5 * r.randrange(2) for _ in range(2)], np.float32)

    def decl_shape(self):
        if self.scalar_int:
            return []
        return self.rng.choice([[2], [2], ["N"], ["M"], [None]])

    def node_name(self, out: str, used: set[str]) -> str:
        r = self.rng.random()
        if r < 0.45:
            return ""
        if r < 0.7 and out not in used:
            used.add(out)
            self.features.add("node-name-is-value-name")
            return out
        for _ in range(5):
            n = self.rng.choice(self.pool)
            if n not in used:
                used.add(n)
                return n
        return ""

    def body(self, avail: list[str], conds: list[str], depth: int, node_names: set[str], n_nodes: int):
        """Emit nodes over `avail` (float/int values) and `conds` (bool scalars). Returns nodes."""
        rng = self.rng
        nodes = []
        for _ in range(n_nodes):
            k = rng.random()
            un, bi = (INT_UNARY, INT_BINARY) if self.scalar_int else (UNARY, BINARY)
            if k < 0.3:
                out = self.fresh()
                nodes.append(H.make_node(rng.choice(un), [rng.choice(avail)], [out], name=self.node_name(out, node_names)))
                avail.append(out)
            elif k < 0.6:
                out = self.fresh()
                nodes.append(H.make_node(rng.choice(bi), [rng.choice(avail), rng.choice(avail)], [out], name=self.node_name(out, node_names)))
                avail.append(out)
            elif k < 0.68 and not self.scalar_int:
                # empty optional input: Clip(x, "", max)
                out, mx = self.fresh(), self.fresh()
                nodes.append(H.make_node("Constant", [], [mx], value=NH.from_array(np.array(1.5, np.float32), mx)))
                nodes.append(H.make_node("Clip", [rng.choice(avail), "", mx], [out], name=self.node_name(out, node_names)))
                avail.append(out)
                self.features.add("empty-optional-input")
            elif k < 0.76:
                out = self.fresh()
                nodes.append(H.make_node("Constant", [], [out], value=NH.from_array(self.arr(), out), name=self.node_name(out, node_names)))
                avail.append(out)
            elif k < 0.84 and self.scalar_int:
                out = self.fresh()
                nodes.append(H.make_node("Less", [rng.choice(avail), rng.choice(avail)], [out], name=self.node_name(out, node_names)))
                conds.append(out)
            elif k < 0.93 and conds and depth < 2:
                out = self.fresh()
                branches = []
                saved, all_taken = set(self.taken), set(self.taken)
                share = rng.random() < 0.5  # sibling branches may reuse local names
                for bname in ("then_branch", "else_branch"):
                    # a branch captures outer values; its local names never shadow outer ones
                    if share:
                        self.taken = set(saved)
                    bavail, bconds = list(avail), list(conds)
                    binits = []
                    if rng.random() < 0.4:
                        # an initializer OWNED BY THE BODY (renamed with the body's other names)
                        bi = self.fresh()
                        binits.append(NH.from_array(self.arr(), bi))
                        bavail.append(bi)
                        self.features.add("body-initializer")
                    bnodes = self.body(bavail, bconds, depth + 1, node_names, rng.randrange(1, 3))
                    local = [v for v in bavail if v not in avail and v not in [t.name for t in binits]]
                    res = rng.choice(local) if local and rng.random() < 0.8 else None
                    if res is None:
                        res = self.fresh()
                        bnodes.append(H.make_node("Identity", [rng.choice(bavail)], [res]))
                    g = H.make_graph(bnodes, bname + "_g", [], [_vi(res, self.elem, None if rng.random() < 0.3 else self.shape)],
                                     initializer=binits)
                    branches.append(g)
                    all_taken |= self.taken
                self.taken = all_taken
                if share:
                    self.features.add("sibling-branches-share-names")
                nodes.append(H.make_node("If", [rng.choice(conds)], [out], name=self.node_name(out, node_names),
                                         then_branch=branches[0], else_branch=branches[1]))
                self.taken.add(out)
                avail.append(out)
                self.features.add("subgraph-captures-outer")
            elif k < 0.945 and not self.scalar_int and depth < 1:
                # Loop(M, "", x0) whose body captures outer values (and may hold an If capturing two levels up)
                out, mname = self.fresh(), self.fresh()
                it, ci, xi, co = self.fresh(), self.fresh(), self.fresh(), self.fresh()
                nodes.append(H.make_node("Constant", [], [mname], value=NH.from_array(np.array(rng.randrange(1, 4), np.int64), mname)))
                bavail, bconds = [xi] + list(avail), list(conds)
                linits = []
                if rng.random() < 0.4:
                    li = self.fresh()
                    linits.append(NH.from_array(self.arr(), li))
                    bavail.append(li)
                    self.features.add("body-initializer")
                bnodes = [H.make_node("Identity", [ci], [co])]
                bnodes += self.body(bavail, bconds, depth + 1, node_names, rng.randrange(1, 4))
                local = [v for v in bavail if v not in avail and v != xi]
                xo = self.fresh()
                bnodes.append(H.make_node(rng.choice(["Add", "Sub"]), [xi, rng.choice(local or bavail)], [xo]))
                bg = H.make_graph(bnodes, "loop_body",
                                  [_vi(it, TP.INT64, []), _vi(ci, TP.BOOL, []), _vi(xi, self.elem, self.shape)],
                                  [_vi(co, TP.BOOL, []), _vi(xo, self.elem, self.shape)], initializer=linits)
                nodes.append(H.make_node("Loop", [mname, "", rng.choice(avail)], [out], name=self.node_name(out, node_names), body=bg))
                avail.append(out)
                self.features.add("loop-body-captures-outer")
                if any(n.op_type == "If" for n in bnodes):
                    self.features.add("if-inside-loop")
            elif self.allow_custom and k < 0.96:
                out = self.fresh()
                nodes.append(H.make_node("MyOp", [rng.choice(avail)], [out], domain="custom.dom", alpha=1.0,
                                         name=self.node_name(out, node_names)))
                avail.append(out)
                self.features.add("custom-domain")
            else:
                out = self.fresh()
                nodes.append(H.make_node("Identity", [rng.choice(avail)], [out], name=self.node_name(out, node_names)))
                avail.append(out)
        return nodes

    def model(self) -> tuple[onnx.ModelProto, dict]:
        rng = self.rng
        n_in = rng.randrange(1, 4)
        ins = [self.fresh() for _ in range(n_in)]
        inputs = [_vi(n, self.elem, self.decl_shape()) for n in ins]
        conds = []
        if rng.random() < 0.5 and not self.scalar_int:
            c = self.fresh()
            inputs.insert(rng.randrange(len(inputs) + 1), _vi(c, TP.BOOL, []))
            conds.append(c)
        inits, sparse = [], []
        avail = list(ins)
        # default-valued inputs
        for n in ins:
            if rng.random() < 0.3:
                inits.append(NH.from_array(self.arr(), n))
                self.features.add("default-valued-input")
        for c in conds:
            if rng.random() < 0.3:
                inits.append(NH.from_array(np.array(rng.random() < 0.5), c))
                self.features.add("default-valued-input")
        for _ in range(rng.choice([0, 0, 1, 2])):
            n = self.fresh()
            inits.append(NH.from_array(self.arr(), n))
            avail.append(n)
            self.features.add("initializer")
        if rng.random() < 0.25 and not self.scalar_int:
            n = self.fresh()
            sparse.append(H.make_sparse_tensor(
                NH.from_array(np.array([float(rng.randrange(1, 5))], np.float32), n),
                NH.from_array(np.array([rng.randrange(2)], np.int64), ""), [2]))
            avail.append(n)
            self.features.add("sparse-initializer")
        rng.shuffle(inits)
        pre_nodes = list(avail)
        node_names: set[str] = set()
        nodes = self.body(avail, conds, 0, node_names, rng.randrange(0, 6))
        # outputs: inputs (pass-through), initializers, node outputs; distinct
        n_out = rng.randrange(1, 4)
        cands = list(dict.fromkeys(avail))
        rng.shuffle(cands)
        node_outs = [v for v in cands if v not in pre_nodes]
        outs = []
        for _ in range(n_out):
            pick_from = node_outs if (node_outs and rng.random() < 0.6) else cands
            v = rng.choice(pick_from)
            if v not in outs:
                outs.append(v)
        for o in outs:
            if o in ins:
                self.features.add("output-is-input")
            elif o in pre_nodes:
                self.features.add("output-is-initializer")
        used_vals = {i for nd in nodes for i in nd.input} | set(outs)
        if any(n not in used_vals for n in ins):
            self.features.add("unused-input")
        outputs = [_vi(o, self.elem, self.decl_shape()) for o in outs]
        vinfo = []
        for v in node_outs:
            if rng.random() < 0.2:
                vinfo.append(_vi(v, self.elem, self.decl_shape()))
        if rng.random() < 0.1:
            vinfo.append(_vi(self.fresh(), self.elem, self.shape))  # value_info of a name nobody uses
        g = H.make_graph(nodes, "g", inputs, outputs, initializer=inits, sparse_initializer=sparse, value_info=vinfo)
        opset = rng.choice([13, 14, 15, 16, 17, 17, 17, 18, 19, 20, 21])
        imports = [H.make_operatorsetid("", opset)]
        if "custom-domain" in self.features:
            imports.append(H.make_operatorsetid("custom.dom", 1))
        if opset != 17:
            self.features.add(f"opset-{opset}")
        m = H.make_model(g, opset_imports=imports, ir_version=8)
        meta = {
            "features": sorted(self.features),
            "runnable": "custom-domain" not in self.features,
            "opset": opset,
            "kind": "hand",
        }
        return m, meta


class TypeGen:
    """Models whose DECLARED input / output types are the corner shapes of a tensor type: literal 0 dimensions
    (anywhere, several), dim_param "" (the field set, the string empty), dimensions with neither field, symbolic
    names, no shape field at all (unknown rank), rank 0. Elementwise operators only, so every value has the one
    run-time shape; the declarations of the inputs and outputs vary independently where the run-time shape allows."""

    RUNTIME = [[0, 3], [3, 0], [0], [0, 0], [1, 0, 2], [2, 3], [2], [1], [], [0, 1], [2, 0, 0]]

    def __init__(self, rng: random.Random):
        self.rng = rng
        self.features: set[str] = set()

    def declare(self, shape: list):
        """A declaration the run-time shape satisfies: each dim literal / symbolic / "" / missing; or no shape."""
        r = self.rng
        out = []
        for d in shape:
            k = r.random()
            if k < 0.55:
                out.append(d)
                if d == 0:
                    self.features.add("decl:literal-0")
            elif k < 0.7:
                out.append(r.choice(["N", "M", "batch"]))
            elif k < 0.85:
                out.append("")
                self.features.add("decl:dim_param-empty")
            else:
                out.append(None)
                self.features.add("decl:dim-missing-fields")
        return out

    def model(self) -> tuple[onnx.ModelProto, dict]:
        r = self.rng
        shape = list(r.choice(self.RUNTIME))
        if 0 in shape:
            self.features.add("zero-size")
        n_in = r.randrange(1, 4)
        ins = [f"i{j}" for j in range(n_in)]
        inputs = [_vi(n, TP.FLOAT, self.declare(shape)) for n in ins]
        inits = []
        if n_in > 1 and r.random() < 0.3:
            inits.append(NH.from_array(np.full(shape, 1.5, np.float32), ins[-1]))
            self.features.add("default-valued-input")
        avail, nodes = list(ins), []
        for j in range(r.randrange(1, 4)):
            out = f"t{j}"
            if r.random() < 0.5:
                nodes.append(H.make_node(r.choice(["Abs", "Neg", "Relu"]), [r.choice(avail)], [out]))
            else:
                nodes.append(H.make_node(r.choice(["Add", "Sub", "Mul"]), [r.choice(avail), r.choice(avail)], [out]))
            avail.append(out)
        outs = [avail[-1]] + ([r.choice(avail)] if r.random() < 0.4 else [])
        outs = list(dict.fromkeys(outs))
        for o in outs:
            if o in ins:
                self.features.add("output-is-input")
        outputs = [_vi(o, TP.FLOAT, self.declare(shape)) for o in outs]
        g = H.make_graph(nodes, "g", inputs, outputs, initializer=inits, doc_string="runtime-shape:" + json.dumps(shape))
        opset = r.choice([13, 17, 17, 19, 21])
        m = H.make_model(g, opset_imports=[H.make_operatorsetid("", opset)], ir_version=8)
        self.features.add("declared-types")
        return m, {"features": sorted(self.features), "runnable": True, "opset": opset, "kind": "types", "runtime_shape": shape}


def add_local_function(m: onnx.ModelProto) -> onnx.ModelProto:
    m2 = onnx.ModelProto()
    m2.CopyFrom(m)
    f = H.make_function("local.fn", "Twice", ["a"], ["b"], [H.make_node("Add", ["a", "a"], ["b"])],
                        [H.make_operatorsetid("", 17)])
    m2.functions.append(f)
    m2.opset_import.append(H.make_operatorsetid("local.fn", 1))
    return m2


# ----------------------------------------------------------------------------------------------
# spox-built programs
# ----------------------------------------------------------------------------------------------

_OPS_CACHE: dict[int, Any] = {}


def opset_module(v: int):
    if v not in _OPS_CACHE:
        import importlib

        _OPS_CACHE[v] = importlib.import_module(f"spox.opset.ai.onnx.v{v}")
    return _OPS_CACHE[v]


def spox_program(rng: random.Random, library: list[onnx.ModelProto], version: Optional[int] = None):
    """A random spox program over float32[2] values (optionally inlining earlier models),
    built with spox.build. Returns (model, meta)."""
    import spox
    from spox import Tensor, argument, build, inline
    from spox._future import initializer

    v = version or rng.choice([17, 17, 18, 19, 20, 21])
    op = opset_module(v)
    feats: set[str] = {"spox-built"}
    hostile = rng.random() < 0.4
    pool = [n for n in POOL if n] if hostile else ["a", "b", "c", "d", "e", "f"]
    rng.shuffle(pool)
    n_in = rng.randrange(1, 4)
    dims = rng.choice([(2,), (2,), ("N",), (None,)])
    args = [argument(Tensor(np.float32, dims)) for _ in range(n_in)]
    cond = argument(Tensor(np.bool_, ())) if rng.random() < 0.5 else None
    vals = list(args)

    def step(vals, depth):
        k = rng.random()
        if k < 0.25:
            return getattr(op, rng.choice(["abs", "neg", "relu", "floor", "identity"]))(rng.choice(vals))
        if k < 0.5:
            return getattr(op, rng.choice(["add", "sub", "mul"]))(rng.choice(vals), rng.choice(vals))
        if k < 0.6:
            feats.add("const")
            return op.const(np.array([rng.randrange(-3, 4), 0.5], np.float32))
        if k < 0.7:
            feats.add("initializer")
            return initializer(np.array([rng.randrange(-3, 4), 1.5], np.float32))
        if k < 0.8 and cond is not None and depth < 2:
            feats.add("subgraph-captures-outer")
            a, b = rng.choice(vals), rng.choice(vals)
            u = rng.choice(["abs", "neg"])
            how = rng.choice(["const", "initializer-inside", "initializer-outside-used-inside"])
            w_out = initializer(np.array([rng.randrange(1, 4), 0.5], np.float32)) if how == "initializer-outside-used-inside" else None
            if how != "const":
                feats.add("body-initializer")  # spox puts an initializer used only in a body into the body's graph

            def factor():
                if how == "const":
                    return op.const(np.array([2.0, 2.0], np.float32))
                if how == "initializer-inside":
                    return initializer(np.array([2.0, 3.0], np.float32))
                return w_out

            (r,) = op.if_(
                cond,
                then_branch=lambda: [getattr(op, u)(op.add(a, b))],
                else_branch=lambda: [op.mul(a, factor())],
            )
            return r
        if k < 0.95 and library:
            m = rng.choice(library)
            fl = [i for i in m.graph.input if i.type.tensor_type.elem_type == TP.FLOAT]
            if len(fl) == len(m.graph.input) or cond is not None:
                feats.add("nested-inline")
                call = [cond if i.type.tensor_type.elem_type == TP.BOOL else rng.choice(vals) for i in m.graph.input]
                outs = inline(m)(*call)
                return rng.choice(list(outs.values()))
        return op.clip(rng.choice(vals), None, op.const(np.array(1.5, np.float32)))

    for _ in range(rng.randrange(1, 6)):
        vals.append(step(vals, 0))
    produced = vals[n_in:]
    n_out = rng.randrange(1, 3)
    outs = [produced[-1]] + [rng.choice(vals) for _ in range(n_out - 1)]
    names_in = [pool.pop() for _ in args]
    ins = dict(zip(names_in, args))
    if cond is not None:
        ins[pool.pop()] = cond
    outd = {}
    for o in outs:
        outd[pool.pop()] = o
    m = build(ins, outd)
    if len(m.opset_import) and m.opset_import[0].version != 17:
        feats.add(f"opset-{m.opset_import[0].version}")
    return m, {"features": sorted(feats), "runnable": True, "opset": v, "kind": "spox"}


# ----------------------------------------------------------------------------------------------
# (de)serialisation for replay files
# ----------------------------------------------------------------------------------------------


def to_b64(m: onnx.ModelProto) -> str:
    return base64.b64encode(m.SerializeToString(deterministic=True)).decode()


def from_b64(s: str) -> onnx.ModelProto:
    m = onnx.ModelProto()
    m.ParseFromString(base64.b64decode(s))
    return m


def summary(m: onnx.ModelProto) -> dict:
    """Readable digest of a model for replay files / evidence samples."""
    def g_(g):
        return {
            "inputs": [i.name for i in g.input],
            "initializers": [i.name for i in g.initializer] + [s.values.name + "(sparse)" for s in g.sparse_initializer],
            "nodes": [
                f"{n.name or '-'}: {','.join(n.output)} = {n.domain + '::' if n.domain else ''}{n.op_type}({','.join(n.input)})"
                + "".join(" {" + a.name + ": " + str(g_(a.g)) + "}" for a in n.attribute if a.type == onnx.AttributeProto.GRAPH)
                for n in g.node
            ],
            "outputs": [o.name for o in g.output],
        }
    d = g_(m.graph)
    d["opsets"] = [(o.domain, o.version) for o in m.opset_import]
    return d
