"""C12: hand-built models with several dense AND several sparse initializers, inlined and built, for the
cross-PYTHONHASHSEED byte comparison (round 10 follow-up: a rarely used route of `spox.inline` - the preamble that
turns initializers / sparse initializers into Constant nodes - must not depend on set iteration order).

A case is a plain JSON spec (so it can be replayed); `run_case` is executed in fresh interpreters under several
hash seeds by `run_family`, and in-process. Public API only: onnx.helper, spox.argument / inline / build."""
import hashlib
import json

from . import core


def gen_spec(rng):
    def name(k):
        alphabet = "abcdefghijklmnopqrstuvwxyzABCDEFGHIJKLMNOPQRSTUVWXYZ0123456789_"
        return "".join(rng.choice(alphabet) for _ in range(rng.randrange(3, 12))) + f"_{k}"

    n_dense = rng.randrange(2, 6)
    n_sparse = rng.randrange(2, 7)
    return {
        "n": rng.choice([3, 4, 6]),
        "dense": [{"name": name(k), "as_input": rng.random() < 0.5, "vals": [round(rng.uniform(-2, 2), 3) for _ in range(6)]}
                  for k in range(n_dense)],
        "sparse": [{"name": name(100 + k), "idx": sorted(rng.sample(range(3), rng.randrange(1, 3))),
                    "vals": [round(rng.uniform(-2, 2), 3) for _ in range(3)]} for k in range(n_sparse)],
        "pass_defaults": rng.random() < 0.3,     # hand the default-valued inputs over explicitly (as arguments)
        "twice": rng.random() < 0.4,             # inline the model twice in one build
        "opset": rng.choice([17, 17, 17, 17, 17, 15]),   # < 17: the build goes through adapt_inline's version conversion
        "order": rng.random(),                   # how dense / sparse operands are interleaved in the body
    }


def make_model(spec):
    import numpy as np
    import onnx
    from onnx import TensorProto, helper, numpy_helper

    n = spec["n"]
    inputs = [helper.make_tensor_value_info("x", TensorProto.FLOAT, [n])]
    inits, sparse = [], []
    operands = []
    for d in spec["dense"]:
        arr = np.array(d["vals"][:n] + [0.0] * max(0, n - len(d["vals"])), dtype=np.float32)[:n]
        inits.append(numpy_helper.from_array(arr, d["name"]))
        if d["as_input"]:
            inputs.append(helper.make_tensor_value_info(d["name"], TensorProto.FLOAT, [n]))
        operands.append(d["name"])
    for s in spec["sparse"]:
        idx = [i for i in s["idx"] if i < n]
        vals = helper.make_tensor(s["name"], TensorProto.FLOAT, [len(idx)], s["vals"][: len(idx)])
        ind = helper.make_tensor(s["name"] + "_idx", TensorProto.INT64, [len(idx)], idx)
        sparse.append(helper.make_sparse_tensor(vals, ind, [n]))
        operands.append(s["name"])
    # interleave deterministically (a function of the spec only)
    k = int(spec["order"] * 1000)
    operands = operands[k % len(operands):] + operands[: k % len(operands)]
    nodes, cur = [], "x"
    for j, o in enumerate(operands):
        out = "y" if j == len(operands) - 1 else f"t{j}"
        nodes.append(helper.make_node("Add" if j % 2 == 0 else "Mul", [cur, o], [out], name=f"n{j}"))
        cur = out
    g = helper.make_graph(nodes, "sparse_defaults", inputs, [helper.make_tensor_value_info("y", TensorProto.FLOAT, [n])],
                          initializer=inits, sparse_initializer=sparse)
    m = helper.make_model(g, opset_imports=[helper.make_opsetid("", spec["opset"])])
    m.ir_version = 8
    return m


def run_case(spec) -> dict:
    """{'sha': …, 'constants': [names of Constant outputs in node order]} or {'err': class name}"""
    import numpy as np
    import spox
    from spox import Tensor, argument

    try:
        m = make_model(spec)
        before = m.SerializeToString(deterministic=True)
        n = spec["n"]
        a = argument(Tensor(np.float32, (n,)))
        kw = {"x": a}
        ins = {"a": a}
        if spec["pass_defaults"]:
            for j, d in enumerate(spec["dense"]):
                if d["as_input"]:
                    v = argument(Tensor(np.float32, (n,)))
                    kw[d["name"]] = v
                    ins[f"d{j}"] = v
        y = spox.inline(m)(**kw)["y"]
        outs = {"y": y}
        if spec["twice"]:
            outs["z"] = spox.inline(m)(x=y)["y"]
        model = spox.build(ins, outs)
        mutated = m.SerializeToString(deterministic=True) != before
        return {"sha": hashlib.sha1(model.SerializeToString(deterministic=True)).hexdigest(),
                "constants": [nd.output[0] for nd in model.graph.node if nd.op_type == "Constant"],
                "mutated": mutated}
    except Exception as e:  # noqa: BLE001
        return {"err": type(e).__name__ + ": " + str(e)[:200]}


def worker(path: str) -> None:
    core.use_repo_on_path()
    specs = json.loads(open(path).read())
    print("RESULT " + json.dumps([run_case(s) for s in specs]))


def run_family(ck, specs, hashseeds, tag="sparse"):
    """{seed: [result per spec] or None}; never raises"""
    path = core.WORK / f"c12-sparse-{tag}-{ck.seed}.json"
    path.write_text(json.dumps(specs))

    def one(hs):
        try:
            p = core.run_isolated(f"from harness import lib_c12sparse as w; w.worker({str(path)!r})",
                                  env={"PYTHONHASHSEED": str(hs)}, timeout=600)
            line = next((ln for ln in p.stdout.splitlines() if ln.startswith("RESULT ")), None)
            if p.returncode != 0 or line is None:
                return hs, None, f"rc={p.returncode} {p.stderr[-500:]}"
            return hs, json.loads(line[len("RESULT "):]), None
        except Exception as e:  # noqa: BLE001
            return hs, None, f"{type(e).__name__}: {e}"

    from concurrent.futures import ThreadPoolExecutor

    with ThreadPoolExecutor(max_workers=6) as pool:
        done = list(pool.map(one, hashseeds))
    out = {}
    for hs, res, err in done:
        if res is None:
            ck.broken("correspondence", "fresh-process worker (sparse-initializer models) failed", f"hash seed {hs}: {err}")
        out[hs] = res
    return out


def judge(spec, per_seed: dict):
    """per_seed: {hash seed: result}. -> [(key, what)]"""
    bad = []
    ok = {hs: r for hs, r in per_seed.items() if r is not None}
    errs = {hs: r["err"] for hs, r in ok.items() if "err" in r}
    if errs and len(errs) < len(ok):
        bad.append(("inline:outcome-differs-across-processes", f"build of an inlined sparse-initializer model fails only under some hash seeds: {errs}"))
    good = {hs: r for hs, r in ok.items() if "sha" in r}
    if len({r["sha"] for r in good.values()}) > 1:
        orders = sorted({json.dumps(r["constants"]) for r in good.values()})
        bad.append(("bytes:differs-across-processes",
                    f"a build containing an inlined model with {len(spec['dense'])} dense / {len(spec['sparse'])} sparse initializers gives "
                    f"{len({r['sha'] for r in good.values()})} different byte strings over PYTHONHASHSEED {sorted(good)}; Constant order(s): {orders[:3]}"))
    if any(r.get("mutated") for r in good.values()):
        bad.append(("inline:model-mutated-by-inline-ok", "the caller's sparse-initializer model changed during inline / build"))
    return bad
