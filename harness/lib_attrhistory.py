"""C11 / C18 — *histories* of attribute constructions in ONE process (shared helper, round 10b).

Class of breakage this guards against: a process-wide cache in front of the construction of AttributeProtos,
keyed by (attribute name, value): values that are `==`/hash-equal but must serialise differently
(`0.0` / `-0.0`; `1` / `True` / `1.0` / `np.float32(1)`; NaNs of either sign) then come out as whatever was built
FIRST under that name — in any operator, class or module. Nothing shows without an earlier same-named construction,
so single constructions (every other generator of these checks) cannot see it.

A history is a list of steps `{"t": target, "name": attribute, "kind": …, "spec": value spelling}`; every step builds
one node through the public API (`spox.build` -> ModelProto), reads its AttributeProto and compares it BIT-EXACTLY
(struct-packed binary32, sign of zero, NaN-ness and sign) with the value GIVEN to that node; after the last step all
nodes are emitted once more in one model (an emission-time cache is keyed the same way). Model-free: expected bytes
come from `struct` alone. The same attribute name is visited with each family of equal values in both orders
(forward under one name, reversed under another, shuffled under a common one such as `alpha`).
"""
from __future__ import annotations

import math
import struct
import warnings

FLOAT_FAMILY = ["py:0.0", "py:-0.0", "np32:0.0", "np32:-0.0", "np64:-0.0", "int:0", "bool:False",
                "py:1.0", "int:1", "bool:True", "np32:1.0", "np64:1.0", "nan:+", "nan:-", "py:-1.0", "py:0.1", "np32:0.1"]
INT_FAMILY = ["int:1", "bool:True", "npi64:1", "npi32:1", "int:0", "bool:False", "npi64:0", "int:-1"]
STR_FAMILY = ["str:abc", "bytes:abc", "str:é", "bytes:é", "str:", "bytes:"]
FLOATS_FAMILY = ["fl:0.0", "fl:-0.0", "fl:0.0,-0.0", "fl:-0.0,0.0", "fl32:-0.0,0.0", "fl:1.0,0.0", "fli:1,0", "fl:-0.0,-0.0"]
INTS_FAMILY = ["il:1,0", "iln:1,0", "il:0,1", "iln:0,1", "il:0,0"]  # lists of bool are refused by AttrInt64s on the clean tree


def mk(np, spec: str):
    tag, _, body = spec.partition(":")
    if tag == "py":
        return float(body)
    if tag == "np32":
        return np.float32(body)
    if tag == "np64":
        return np.float64(body)
    if tag == "int":
        return int(body)
    if tag == "bool":
        return body == "True"
    if tag == "npi64":
        return np.int64(int(body))
    if tag == "npi32":
        return np.int32(int(body))
    if tag == "nan":
        return float("nan") if body == "+" else -float("nan")
    if tag == "str":
        return body
    if tag == "bytes":
        return body.encode("utf-8")
    if tag == "fl":
        return [float(x) for x in body.split(",")]
    if tag == "fl32":
        return np.array([float(x) for x in body.split(",")], dtype=np.float32)
    if tag == "fli":
        return tuple(int(x) for x in body.split(","))
    if tag == "il":
        return [int(x) for x in body.split(",")]
    if tag == "iln":
        return np.array([int(x) for x in body.split(",")], dtype=np.int64)
    raise ValueError(spec)


def f32_canon(x) -> str:
    x = float(x)
    if math.isnan(x):
        return "nan-" if math.copysign(1.0, x) < 0 else "nan+"
    return struct.pack("<f", x).hex()


def expected(kind: str, value):
    if kind == "float":
        return ("FLOAT", f32_canon(value))
    if kind == "int":
        return ("INT", int(value))
    if kind == "string":
        return ("STRING", value if isinstance(value, bytes) else value.encode("utf-8"))
    if kind == "floats":
        return ("FLOATS", tuple(f32_canon(v) for v in value))
    if kind == "ints":
        return ("INTS", tuple(int(v) for v in value))
    raise ValueError(kind)


def observed(onnx, ap):
    AP = onnx.AttributeProto
    if ap is None:
        return ("ABSENT", None)
    if ap.type == AP.FLOAT:
        return ("FLOAT", f32_canon(ap.f))
    if ap.type == AP.INT:
        return ("INT", int(ap.i))
    if ap.type == AP.STRING:
        return ("STRING", bytes(ap.s))
    if ap.type == AP.FLOATS:
        return ("FLOATS", tuple(f32_canon(v) for v in ap.floats))
    if ap.type == AP.INTS:
        return ("INTS", tuple(int(v) for v in ap.ints))
    return (f"type{ap.type}", None)


def plan(rng, names_by_kind, targets):
    """names_by_kind[kind] = names; the k-th name of a kind is visited forward / reversed / shuffled (k mod 3).
    targets = [{"id", "attrs": {name: kind}}]; one is drawn per step among those declaring the name."""
    fam = {"float": FLOAT_FAMILY, "int": INT_FAMILY, "string": STR_FAMILY, "floats": FLOATS_FAMILY, "ints": INTS_FAMILY}
    queues = []
    for kind, names in names_by_kind.items():
        for k, name in enumerate(names):
            order = list(fam[kind])
            if k % 3 == 1:
                order.reverse()
            elif k % 3 == 2:
                rng.shuffle(order)
            tg = [t for t in targets if t["attrs"].get(name) == kind]
            if tg:
                queues.append([{"t": rng.choice(tg)["id"], "name": name, "kind": kind, "spec": spec} for spec in order])
    steps = []
    while any(queues):
        q = rng.choice([q for q in queues if q])
        steps.append(q.pop(0))
    return steps


def earlier_equal(np, steps, i):
    me = steps[i]
    try:
        v = mk(np, me["spec"])
    except Exception:  # noqa: BLE001
        return []
    out = []
    for j in range(i):
        s = steps[j]
        if s["name"] != me["name"]:
            continue
        try:
            w = mk(np, s["spec"])
            eq = bool(np.all(np.asarray(w == v))) if not isinstance(v, (str, bytes)) and not isinstance(w, (str, bytes)) else w == v
        except Exception:  # noqa: BLE001
            eq = False
        if eq and s["spec"] != me["spec"]:
            out.append(f"step {j}: {s['name']}={s['spec']} on {s['t']}")
    return out


def run_history(np, onnx, steps, build_one, build_all):
    """build_one(step, value) -> AttributeProto | None of the node just built (or raises);
    build_all() -> list of AttributeProto | None, one per successfully built step, emitted together at the end.
    Returns (verdicts [(step index, phase, what)], n_compared)."""
    verdicts, done, n = [], [], 0
    for i, st in enumerate(steps):
        v = mk(np, st["spec"])
        want = expected(st["kind"], v)
        try:
            with warnings.catch_warnings():
                warnings.simplefilter("ignore")
                ap = build_one(st, v)
        except Exception as e:  # noqa: BLE001
            verdicts.append((i, "raises", f"{st['t']}({st['name']}={st['spec']}) raised {type(e).__name__}: {str(e)[:160]}"))
            continue
        done.append((i, want))
        got = observed(onnx, ap)
        n += 1
        if got != want:
            eq = earlier_equal(np, steps, i)
            verdicts.append((i, "value", f"{st['t']}({st['name']}={st['spec']}) is emitted as {got}, given {want}"
                             + (f"; built earlier in this process under the same name with an ==-equal value: {'; '.join(eq[:3])}" if eq else "")))
    try:
        with warnings.catch_warnings():
            warnings.simplefilter("ignore")
            late = build_all()
    except Exception as e:  # noqa: BLE001
        late = None
        verdicts.append((-1, "raises", f"emitting all {len(done)} nodes of the history in one model raised {type(e).__name__}: {str(e)[:160]}"))
    if late is not None:
        for (i, want), ap in zip(done, late):
            got = observed(onnx, ap)
            n += 1
            if got != want and not any(j == i for j, _, _ in verdicts):
                st = steps[i]
                verdicts.append((i, "value", f"{st['t']}({st['name']}={st['spec']}) is emitted (with the whole history, at the end) as {got}, given {want}"))
    return verdicts, n


# ----------------------------------------------------------------------------- C11: standard constructors
# (constructor, operator, inputs as (dtype, shape) list, {attribute: kind}) - public API only
C11_TARGETS = [
    ("leaky_relu", "LeakyRelu", [("float32", (2,))], {"alpha": "float"}),
    ("elu", "Elu", [("float32", (2,))], {"alpha": "float"}),
    ("celu", "Celu", [("float32", (2,))], {"alpha": "float"}),
    ("thresholded_relu", "ThresholdedRelu", [("float32", (2,))], {"alpha": "float"}),
    ("selu", "Selu", [("float32", (2,))], {"alpha": "float", "gamma": "float"}),
    ("hard_sigmoid", "HardSigmoid", [("float32", (2,))], {"alpha": "float", "beta": "float"}),
    ("shrink", "Shrink", [("float32", (2,))], {"bias": "float", "lambd": "float"}),
    ("gemm", "Gemm", [("float32", (2, 2)), ("float32", (2, 2))], {"alpha": "float", "beta": "float"}),
    ("constant", "Constant", [], {"value_float": "float", "value_int": "int", "value_string": "string",
                                  "value_floats": "floats", "value_ints": "ints"}),
    ("flatten", "Flatten", [("float32", (2, 2))], {"axis": "int"}),
    ("softmax", "Softmax", [("float32", (2, 2))], {"axis": "int"}),
]
C11_NAMES = {"float": ["value_float", "beta", "alpha", "gamma", "bias", "lambd"], "int": ["value_int", "axis"],
             "string": ["value_string"], "floats": ["value_floats"], "ints": ["value_ints"]}
C11_HISTORY_MODULES = ("v17", "v21")


def run_c11(ck, env, stats, steps=None, rng=None):
    """Returns [(key, what, doc)]; registers nothing itself when `ck` is None (replay)."""
    from translator.constructors import MODULES

    np, onnx, spox = env.np, env.onnx, env.spox
    mods = {}
    for mid, _rel, domain, version, pymod in MODULES:
        if mid in C11_HISTORY_MODULES:
            mods[mid] = env.module(pymod)
    targets = []
    for mid, mod in mods.items():
        for fn, op, ins, attrs in C11_TARGETS:
            if hasattr(mod, fn):
                a = {k: v for k, v in attrs.items() if not (op in ("Flatten", "Softmax") and False)}
                targets.append({"id": f"{mid}:{op}", "attrs": a, "fn": fn, "ins": ins, "mid": mid, "op": op})
    tmap = {t["id"]: t for t in targets}
    if steps is None:
        steps = plan(rng, C11_NAMES, targets)
        # `axis` of Flatten / Softmax on a rank-2 tensor: every family member is 1 / 0 / -1, all valid
    built = []

    def node_attr(model, out_name, op, name):
        for _ in range(4):
            nd = next((nd for nd in model.graph.node if out_name in nd.output), None)
            if nd is None:
                break
            if nd.op_type == "Identity" and op != "Identity":
                out_name = nd.input[0]
                continue
            return next((a for a in nd.attribute if a.name == name), None)
        raise LookupError(f"no {op} node produces {out_name}")

    def build_one(st, v):
        t = tmap[st["t"]]
        args = [spox.argument(spox.Tensor(getattr(np, d), s)) for d, s in t["ins"]]
        y = getattr(mods[t["mid"]], t["fn"])(*args, **{st["name"]: v})
        ins = {f"a{i}": a for i, a in enumerate(args)}
        model = spox.build(ins, {"y": y})
        built.append((st, t, ins, y))
        return node_attr(model, "y", t["op"], st["name"])

    def build_all():
        # one model per module (a model has one default-domain version)
        out = {}
        for mid in mods:
            part = [(i, b) for i, b in enumerate(built) if b[1]["mid"] == mid]
            if not part:
                continue
            ins, res = {}, {}
            for i, (st, t, ins_i, y) in part:
                for k, a in ins_i.items():
                    ins[f"s{i}_{k}"] = a
                res[f"y{i}"] = y
            model = spox.build(ins, res)
            for i, (st, t, _, _) in part:
                out[i] = node_attr(model, f"y{i}", t["op"], st["name"])
        return [out[i] for i in range(len(built))]

    verdicts, n = run_history(np, onnx, steps, build_one, build_all)
    stats["attr_history"] = {"steps": len(steps), "compared": n, "targets": len(targets),
                             "by_kind": {k: sum(1 for s in steps if s["kind"] == k) for k in C11_NAMES}}
    res, seen = [], set()
    for i, phase, what in verdicts:
        st = steps[i] if i >= 0 else steps[0]
        mid, op = st["t"].split(":")
        key = f"{mid}:{op}:{st['name']}:history-{phase}"
        if key in seen:
            continue
        seen.add(key)
        res.append((key, what, {"module": mid, "op": op, "kind": "attr-history", "case": {"steps": steps, "step": i}}))
    return res
