"""Normalised-AST hashes of the functions the value-propagation model (C07 / C15) transcribes.

Escalation, not an obligation: if a covered function differs from the committed baseline
(`harness/c15c07_source_baseline.json`) the checks multiply their program counts (a change of the covered
code deserves a wider search whatever the generator would do by default); harmless rewrites never alarm.
Refresh the baseline with `python -m harness.lib_vpsources --write` after confirming the clean tree is quiet.
"""
from __future__ import annotations

import ast
import hashlib
import json
import pathlib
import sys

COVERED = {
    "src/spox/_value_prop.py": ["PropValue.__post_init__", "PropValue.check", "PropValue.from_ref_value", "PropValue.from_ort_value",
                                "PropValue.to_ref_value", "PropValue.to_ort_value", "_run_reference_implementation", "_run_onnxruntime",
                                "get_backend_calls"],
    "src/spox/_node.py": ["Node.inference", "Node.propagate_values"],
    "src/spox/_standard.py": ["StandardNode.to_singleton_onnx_model", "StandardNode.propagate_values_onnx", "StandardNode.propagate_values",
                              "StandardNode._is_non_deterministic"],
    "src/spox/_inline.py": ["_Inline.propagate_values", "_Inline.infer_output_types"],
    "src/spox/_adapt.py": ["adapt_node", "adapt_inline", "adapt_best_effort"],
    "src/spox/_internal_op.py": ["_Initializer.propagate_values", "unsafe_cast", "unsafe_reshape"],
    "src/spox/_var.py": ["Var._get_value"],
}
BASELINE = pathlib.Path(__file__).resolve().parent / "c15c07_source_baseline.json"


def _strip_doc(fn):
    if fn.body and isinstance(fn.body[0], ast.Expr) and isinstance(getattr(fn.body[0], "value", None), ast.Constant) \
            and isinstance(fn.body[0].value.value, str):
        fn.body = fn.body[1:] or [ast.Pass()]
    return fn


def hashes() -> dict:
    from translator.common import REPO

    out: dict = {}
    for rel, names in COVERED.items():
        try:
            tree = ast.parse((REPO / rel).read_text())
        except Exception:  # noqa: BLE001
            for n in names:
                out[f"{rel}:{n}"] = "<unparsed>"
            continue
        found: dict = {}

        def walk(node, prefix=""):
            for c in ast.iter_child_nodes(node):
                if isinstance(c, ast.ClassDef):
                    walk(c, prefix + c.name + ".")
                elif isinstance(c, (ast.FunctionDef, ast.AsyncFunctionDef)):
                    found[prefix + c.name] = c

        walk(tree)
        for n in names:
            fn = found.get(n)
            out[f"{rel}:{n}"] = "<missing>" if fn is None else hashlib.sha1(ast.dump(_strip_doc(fn), annotate_fields=False).encode()).hexdigest()[:16]
    return out


def changed() -> list:
    try:
        base = json.loads(BASELINE.read_text())
        now = hashes()
        return sorted(k for k in set(base) | set(now) if base.get(k) != now.get(k))
    except Exception as e:  # noqa: BLE001
        return [f"baseline unreadable: {type(e).__name__}"]


def escalate(ck, quick, thorough, factor: int = 4):
    """`ck.pick` with escalation: quick counts times `factor` (capped by the thorough count) if covered code changed."""
    if ck.thorough:
        return thorough
    import os

    if os.environ.get("VP_NO_ESCALATE"):  # mutation-table runs: the default counts must catch the mutant
        return quick
    if getattr(ck, "_vp_changed", None) is None:
        ck._vp_changed = changed()
        ck.cov["covered_sources_changed"] = ck._vp_changed
        if ck._vp_changed:
            ck.notes.append(f"covered source changed since the baseline ({', '.join(ck._vp_changed)[:300]}): program counts escalated")
    return min(thorough, quick * factor) if ck._vp_changed else quick


if __name__ == "__main__":
    from harness import core

    core.use_repo_on_path()
    if "--write" in sys.argv:
        BASELINE.write_text(json.dumps(hashes(), indent=1, sort_keys=True) + "\n")
    print(json.dumps({"changed": changed(), "hashes": hashes()}, indent=1))
