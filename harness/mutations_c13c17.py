"""Mutation table of C13 / C16 / C17 (own mutants of rounds 1-8), re-runnable:

    SPOX_REPO=/work/repo-c13c17 /venv/bin/python -m harness.mutations_c13c17 [C13|C16|C17 ...]

Each mutant = text edits of the scratch repo (asserted to apply), `./check Cxx quick`, the verdict (exit code, failure
keys, whether a VIOLATION carries a concrete replay), the first concrete replay on the mutant (expect 1) and - after
`git checkout -- .` - on the clean tree (expect 0). Prints markdown rows; never leaves the repo mutated."""
import os
import re
import subprocess
import sys
from pathlib import Path

REPO = Path(os.environ.get("SPOX_REPO", "/work/repo-c13c17"))
VERIF = Path(__file__).resolve().parent.parent
F, S, T, V, I, P, ST = ("src/spox/_future.py", "src/spox/_shape.py", "src/spox/_type_system.py", "src/spox/_var.py",
                        "src/spox/_inline.py", "src/spox/_public.py", "src/spox/_standard.py")

BCAST_ELEM_HEAD = '    if x == y:\n        return x\n    if x == 1:\n        return y\n'

M = [
    # ------------------------------------------------------------------ C13
    ("C13", "B24 `Tensor._subtype` compares ranks only", [(T, "            and self._shape <= other._shape\n", "            and self._shape.maybe_rank in (None, other._shape.maybe_rank) or other._shape.maybe_rank is None\n")]),
    ("C13", "`_broadcast_elem`: constant wins over 1-vs-unknown", [(S, BCAST_ELEM_HEAD, '    if x == y:\n        return x\n    if x == 1 and y is None:\n        return 1\n    if x == 1:\n        return y\n')]),
    ("C13", "`Shape.__le__` ignores the last dimension", [(S, "        return all(x <= y for x, y in zip(self.dims, other.dims))", "        return all(x <= y for x, y in zip(self.dims[:-1], other.dims[:-1]))")]),
    ("C13", "`Sequence._subtype` drops the element check", [(T, "        if not isinstance(other, Sequence):\n            return False\n        return self.elem_type._subtype(other.elem_type)", "        if not isinstance(other, Sequence):\n            return False\n        return True")]),
    ("C13", "`Optional._subtype` arguments flipped (equivalent on wildcard-free types)", [(T, "        if not isinstance(other, Optional):\n            return False\n        return self.elem_type._subtype(other.elem_type)", "        if not isinstance(other, Optional):\n            return False\n        return other.elem_type._subtype(self.elem_type)")]),
    ("C13", "`Unknown.__le__` true only below `Unknown`", [(S, "    def __le__(self, other: Natural) -> bool:\n        if not isinstance(other, Natural):\n            return NotImplemented\n        return True", "    def __le__(self, other: Natural) -> bool:\n        if not isinstance(other, Natural):\n            return NotImplemented\n        return isinstance(other, Unknown)")]),
    ("C13", "`_from_onnx` ignores `HasField(\"shape\")`", [(T, '                if proto.tensor_type.HasField("shape")\n                else None,', '                if True\n                else None,')]),
    ("C13", "broadcast pads the shorter shape on the right", [(S, "        a = (1,) * (len(b) - len(a)) + a  # prepend with 1", "        a = a + (1,) * (len(b) - len(a))")]),
    ("C13", "`Constant.__le__` uses `<=` on the numbers", [(S, "        return isinstance(other, Unknown) or self == other", "        return isinstance(other, Unknown) or self.n <= other.n")]),
    ("C13", "alias fix reverted (`_elem_type` keeps the alias class)", [(T, '            self, "_elem_type", tensor_type_to_dtype(tensor_type).type\n', '            self, "_elem_type", np.dtype(dtype).type\n')]),
    ("C13", "inline boundary check dropped", [(I, "            if var.type is not None and not (\n                var.type._subtype(Type._from_onnx(i.type))\n            ):", "            if False:")]),
    ("C13", "different constants broadcast to the larger one", [(S, '        if x != y:\n            raise ShapeError(\n                f"Could not broadcast different constant dimensions: {x}, {y}."\n            )\n        return x', "        return max(x, y)")]),
    ("C13", "named dimension written as anonymous (`Unknown.to_simple`)", [(S, "        return None if not self.label else self.label", "        return None")]),
    ("C13", "broadcast with unknown rank returns the other shape", [(S, "        if a is None or b is None:\n            return Shape(None)", "        if a is None:\n            return other\n        if b is None:\n            return self")]),
    ("C13", "r6: variadic `broadcast(*others)` skipping `None`", [
        (S, '    def can_broadcast(self, other: "Shape") -> bool:\n        """Check if this shape can be broadcast with ``other``."""\n        try:\n            self.broadcast(other)', '    def can_broadcast(self, *others) -> bool:\n        try:\n            self.broadcast(*others)'),
        (S, '    def broadcast(self, other: Union["Shape", SimpleShape]) -> "Shape":\n        """Return the result of shape broadcasting on ``self`` and ``other``."""\n', '    def broadcast(self, *others) -> "Shape":\n        result = self\n        for other in others:\n            if other is None:\n                continue\n            result = result._broadcast2(other)\n        return result\n\n    def _broadcast2(self, other):\n')]),
    ("C13", "r6: `from_simple(other or ())` (None read as rank 0)", [(S, "            other = Shape.from_simple(other)\n", "            other = Shape.from_simple(other or ())\n")]),
    ("C13", "r6: `Tensor.__eq__`/`__hash__` ignore dimension names", [(T, '    @property\n    def dtype(self) -> np.dtype:\n        """Data type of this tensor."""', '    def _key(self):\n        sh = self.shape\n        return (self._elem_type, None if sh is None else tuple(d if isinstance(d, int) else None for d in sh))\n\n    def __eq__(self, other):\n        return isinstance(other, Tensor) and self._key() == other._key()\n\n    def __hash__(self):\n        return hash(self._key())\n\n    @property\n    def dtype(self) -> np.dtype:\n        """Data type of this tensor."""')]),
    ("C13", "r6: new `Symbolic(Unknown)` subclass with its own `__le__`", [(S, "\n\nShapeT = TypeVar(", "\n\n@dataclass(frozen=True)\nclass Symbolic(Unknown):\n    def __le__(self, other: Natural) -> bool:\n        return isinstance(other, Symbolic) and other.label == self.label\n\n\nShapeT = TypeVar(")]),
    ("C13", "r7: `unk__*` names stripped inside `_from_onnx`", [(T, '                Shape.from_onnx(proto.tensor_type.shape).to_simple()\n                if proto.tensor_type.HasField("shape")', '                tuple(None if isinstance(d, str) and d.startswith("unk__") else d\n                      for d in Shape.from_onnx(proto.tensor_type.shape).to_simple())\n                if proto.tensor_type.HasField("shape")')]),
    ("C13", "r7: boundary judgement only for positional arguments", [
        (I, "            if var.type is not None and not (\n                var.type._subtype(Type._from_onnx(i.type))\n            ):", "            if False:"),
        (P, "        for name, arg in zip(in_names, args):\n            if name in kwargs:", "        for i, (name, arg) in enumerate(zip(in_names, args)):\n            expected = Type._from_onnx(model.graph.input[i].type)\n            if arg.type is not None and not arg.type._subtype(expected):\n                raise TypeError('boundary')\n            if name in kwargs:")]),
    ("C13", "r10: `broadcast` lenient when a symbolic axis is present (constant clash becomes an unknown dimension)", [(S, '        except ShapeError as e:\n            raise ShapeError(\n                f"Could not broadcast shapes: {self.to_simple()}, {other.to_simple()}."\n            ) from e', '        except ShapeError as e:\n            if any(not isinstance(d, int) for d in a + b):  # symbolic: let the runtime decide\n                return Shape.from_simple(tuple(\n                    None if (isinstance(x, int) and isinstance(y, int) and x != y and 1 not in (x, y)) else _broadcast_elem(x, y)\n                    for x, y in zip(a, b)))\n            raise ShapeError(\n                f"Could not broadcast shapes: {self.to_simple()}, {other.to_simple()}."\n            ) from e')]),
    ("C13", "r10: `can_broadcast` answers False early when the ranks differ and the shorter shape has no 1", [(S, '        """Check if this shape can be broadcast with ``other``."""\n        try:\n', '        """Check if this shape can be broadcast with ``other``."""\n        o = other if isinstance(other, Shape) else Shape.from_simple(other)\n        if self.dims is not None and o.dims is not None and len(self.dims) != len(o.dims):\n            short = min(self.to_simple(), o.to_simple(), key=len)\n            if short and 1 not in short:\n                return False\n        try:\n')]),
    ("C13", "r10: `unwrap_tensor` looks through an Optional", [(T, '        if not isinstance(self, Tensor):\n            raise TypeError(f"Cannot unwrap requested Tensor type from {self}")', '        if isinstance(self, Optional) and isinstance(self.elem_type, Tensor):\n            return self.elem_type\n        if not isinstance(self, Tensor):\n            raise TypeError(f"Cannot unwrap requested Tensor type from {self}")')]),
    ("C13", "r10: `Shape.__getitem__` counts negative indices from the padded rank (off by one)", [(S, "        return self.dims[item]\n", "        return self.dims[item - 1 if isinstance(item, int) and item < -1 else item]\n")]),
    # ------------------------------------------------------------------ C16
    ("C16", "fix reverted in `type_warning_level` (no try/finally)", [(F, "    try:\n        yield\n    finally:\n        set_type_warning_level(prev_level)", "    yield\n    set_type_warning_level(prev_level)")]),
    ("C16", "fix reverted in `operator_overloading`", [(F, "    try:\n        yield\n    finally:\n        Var._operator_dispatcher = prev_dispatcher", "    yield\n    Var._operator_dispatcher = prev_dispatcher")]),
    ("C16", "restore to the DEFAULT backend instead of the previous one", [(F, "    finally:\n        set_value_prop_backend(prev_backend)", "    finally:\n        set_value_prop_backend(ValuePropBackend.REFERENCE)")]),
    ("C16", "r6: `finally: if current == entered: restore`", [(F, "    finally:\n        set_value_prop_backend(prev_backend)", "    finally:\n        if spox._value_prop._VALUE_PROP_BACKEND == backend:\n            set_value_prop_backend(prev_backend)")]),
    ("C16", "r6: restore in `except Exception … else` only", [(F, "    try:\n        yield\n    finally:\n        set_type_warning_level(prev_level)", "    try:\n        yield\n    except Exception:\n        set_type_warning_level(prev_level)\n        raise\n    else:\n        set_type_warning_level(prev_level)")]),
    ("C16", "r6: the dispatcher's 'Bad value' TypeError path resets the dispatcher", [(F, "            raise TypeError(\n                f\"Bad value '{obj!r}'", "            from spox._var import NotImplementedOperatorDispatcher\n\n            Var._operator_dispatcher = NotImplementedOperatorDispatcher()\n            raise TypeError(\n                f\"Bad value '{obj!r}'")]),
    ("C16", "r7: `to_function` class factory re-installs the dispatcher of its first call", [
        ("src/spox/_function.py", "    class _Func(Function):\n        @dataclass\n        class Attributes(BaseAttributes):\n            pass\n", "    from ._var import Var as _Var\n\n    _captured = []\n\n    class _Func(Function):\n        @dataclass\n        class Attributes(BaseAttributes):\n            pass\n"),
        ("src/spox/_function.py", "        def constructor(self, attrs, inputs):\n            return self.Outputs(*fun(*inputs.get_fields().values()))\n\n    return _Func", "        def constructor(self, attrs, inputs):\n            if not _captured:\n                _captured.append(_Var._operator_dispatcher)\n            prev = _Var._operator_dispatcher\n            _Var._operator_dispatcher = _captured[0]\n            try:\n                return self.Outputs(*fun(*inputs.get_fields().values()))\n            finally:\n                _Var._operator_dispatcher = prev\n\n    return _Func")]),
    ("C16", "r7: `subgraph()` remembers backend and warning level per callback object", [("src/spox/_graph.py", "    outs = fun(*ins)", "    from . import _value_prop as _vp\n    from . import _node as _nd\n\n    memo = getattr(fun, '__dict__', None)\n    if memo is not None and '_spox_ctx' not in memo:\n        memo['_spox_ctx'] = (_vp._VALUE_PROP_BACKEND, _nd._TYPE_WARNING_LEVEL)\n    saved = (_vp._VALUE_PROP_BACKEND, _nd._TYPE_WARNING_LEVEL)\n    if memo is not None:\n        _vp._VALUE_PROP_BACKEND, _nd._TYPE_WARNING_LEVEL = memo['_spox_ctx']\n    try:\n        outs = fun(*ins)\n    finally:\n        _vp._VALUE_PROP_BACKEND, _nd._TYPE_WARNING_LEVEL = saved")]),
    ("C16", "r7: a Var remembers the dispatcher of its first `+`", [(V, "        return Var._operator_dispatcher.add(self, other)", "        d = self.__dict__.setdefault('_disp', Var._operator_dispatcher)\n        return d.add(self, other)")]),
    ("C16", "r7: negative value-propagation cache keyed without the backend", [
        (ST, "        model, scope = self.to_singleton_onnx_model(with_dummy_subgraphs=False)\n        wrap_feed, run, unwrap_feed = _value_prop.get_backend_calls()", "        sig = (self.op_type, tuple(str(v.type) for v in self.inputs.get_vars().values()), repr(sorted(self.attrs.get_fields().keys())))\n        if sig in _UNSUPPORTED:\n            return {}\n        model, scope = self.to_singleton_onnx_model(with_dummy_subgraphs=False)\n        wrap_feed, run, unwrap_feed = _value_prop.get_backend_calls()"),
        (ST, "        output_feed = run(model, input_feed)\n\n        try:\n            results = {", "        output_feed = run(model, input_feed)\n        if not output_feed:\n            _UNSUPPORTED.add(sig)\n\n        try:\n            results = {"),
        (ST, "class StandardNode(", "_UNSUPPORTED: set = set()\n\n\nclass StandardNode(")]),
    # ------------------------------------------------------------------ C17
    ("C17", "B19a integer `//` back to bare `Div`", [(F, "        elif isinstance(c.type, Tensor) and issubclass(\n            c.type._elem_type, np.signedinteger\n        ):", "        elif False:")]),
    ("C17", "B19b `truediv` not cast to floating", [(F, "        a, b = self._promote(a, b, to_floating=True)", "        a, b = self._promote(a, b)")]),
    ("C17", "`__rsub__` operands swapped", [(V, "        return Var._operator_dispatcher.sub(other, self)", "        return Var._operator_dispatcher.sub(self, other)")]),
    ("C17", "`__rfloordiv__` operands swapped", [(V, "        return Var._operator_dispatcher.floordiv(other, self)", "        return Var._operator_dispatcher.floordiv(self, other)")]),
    ("C17", "`xor` mapped to `or`", [(F, "    def xor(self, a: Var, b: Var) -> Var:\n        return self.op.xor(a, b)", "    def xor(self, a: Var, b: Var) -> Var:\n        return self.op.or_(a, b)")]),
    ("C17", "floating-constant check dropped (promotion off)", [(F, "                if disagreeing:", "                if False:")]),
    ("C17", "mixed dtypes accepted with promotion off", [(F, "            if len(dtypes) > 1:\n                raise TypeError(\n                    f\"Inconsistent types for Var operator with no type promotion: {dtypes}.\"\n                )\n            (target_type,) = dtypes", "            target_type = sorted(dtypes, key=str)[0]")]),
    ("C17", "remainder sign compared with the dividend", [(F, "                self.op.xor(self.op.less(rem, zero), self.op.less(b, zero)),", "                self.op.xor(self.op.less(rem, zero), self.op.less(a, zero)),")]),
    ("C17", "correction also when the remainder is zero", [(F, "            adjust = self.op.and_(\n                self.op.not_(self.op.equal(rem, zero)),\n                self.op.xor(self.op.less(rem, zero), self.op.less(b, zero)),\n            )", "            adjust = self.op.xor(self.op.less(rem, zero), self.op.less(b, zero))")]),
    ("C17", "unary fix reverted (outside a block `-x` returns NotImplemented)", [(V, "    neg = not_ = _not_impl_unary", "    neg = not_ = _not_impl")]),
    ("C17", "Vars cast even with promotion off", [(F, "                return self.op.cast(obj, to=target_type) if self.type_promotion else obj", "                return self.op.cast(obj, to=target_type)")]),
    ("C17", "float `//` loses the `Floor`", [(F, "            c = self.op.floor(c)", "            c = c")]),
    ("C17", "`__rmul__` dispatches to `add`", [(V, "        return Var._operator_dispatcher.mul(other, self)", "        return Var._operator_dispatcher.add(other, self)")]),
    ("C17", "r6: early broadcast check in `_promote` treating names like sizes", [(F, "        targets: List[Union[np.dtype, np.generic, int, float]] = [", "        shapes = [x.type.shape for x in args if isinstance(x, Var) and isinstance(x.type, Tensor) and x.type.shape is not None]\n        if len(shapes) == 2:\n            for m, n in zip(reversed(shapes[0]), reversed(shapes[1])):\n                if m is None or n is None:\n                    continue\n                if m != n and 1 not in (m, n):\n                    raise ValueError('Operands cannot be broadcast')\n        targets: List[Union[np.dtype, np.generic, int, float]] = [")]),
    ("C17", "r6: the same check inside `Var.__add__`", [(V, "        return Var._operator_dispatcher.add(self, other)", "        if isinstance(other, Var):\n            sa, sb = self.unwrap_tensor().shape, other.unwrap_tensor().shape\n            if sa is not None and sb is not None:\n                for m, n in zip(reversed(sa), reversed(sb)):\n                    if m is not None and n is not None and m != n and 1 not in (m, n):\n                        raise ValueError('shapes do not broadcast')\n        return Var._operator_dispatcher.add(self, other)")]),
    ("C17", "r6: `sub(a, a)` short-cut to a scalar zero", [(F, "    def sub(self, a, b) -> Var:\n        a, b = self._promote(a, b)", "    def sub(self, a, b) -> Var:\n        if a is b and isinstance(a, Var):\n            return self.op.const(np.array(0, a.unwrap_tensor().dtype))\n        a, b = self._promote(a, b)")]),
    ("C17", "r6: signed `//` correction skipped for the v21 module", [(F, "            c.type._elem_type, np.signedinteger\n        ):", "            c.type._elem_type, np.signedinteger\n        ) and not self.op.__name__.endswith('v21'):")]),
    ("C17", "r10: `~` pushed inwards through `And` with a De Morgan mistake (`~(a & b)` -> `~a & ~b`)", [(F, "    def not_(self, a: Var) -> Var:\n        return self.op.not_(a)", "    def not_(self, a: Var) -> Var:\n        node = a._op\n        if node.op_type.identifier == 'And':  # push the negation inwards\n            x, y = node.inputs.get_vars().values()\n            return self.op.and_(self.op.not_(x), self.op.not_(y))\n        return self.op.not_(a)")]),
    ("C17", "r10: unary minus routed through `mul(a, -1)` (needs constant promotion; refuses with it off)", [(F, "    def neg(self, a: Var) -> Var:\n        return self.op.neg(a)", "    def neg(self, a: Var) -> Var:\n        return self.mul(a, -1)")]),
    ("C17", "r10: per-dispatcher cache of promoted constants keyed by (scalar, target dtype) under Python equality", [
        (F, "        self.constant_promotion = constant_promotion\n", "        self.constant_promotion = constant_promotion\n        self._consts = {}\n"),
        (F, "                return self.op.const(np.array(obj, dtype=target_type))", "                key = (obj, np.dtype(target_type))\n                if key not in self._consts:\n                    self._consts[key] = self.op.const(np.array(obj, dtype=target_type))\n                return self._consts[key]")]),
    ("C17", "r8: `type_promotion = type_promotion or <enclosing block's>` (explicit False lost)", [(F, "    prev_dispatcher = Var._operator_dispatcher\n    Var._operator_dispatcher = _NumpyLikeOperatorDispatcher(", "    prev_dispatcher = Var._operator_dispatcher\n    type_promotion = type_promotion or getattr(prev_dispatcher, 'type_promotion', False)\n    Var._operator_dispatcher = _NumpyLikeOperatorDispatcher(")]),
    ("C17", "r8: whole-number Python floats accepted next to integer Vars (promotion off)", [(F, "                    if issubclass(np.result_type(value).type, np.floating)\n", "                    if issubclass(np.result_type(value).type, np.floating)\n                    and not (isinstance(value, float) and value.is_integer())\n")]),
]


def sh(cmd, **kw):
    return subprocess.run(cmd, shell=True, capture_output=True, text=True, cwd=VERIF, env=dict(os.environ, SPOX_REPO=str(REPO), VERIF_NO_ESCALATE="1"), **kw)


def main(argv):
    want = set(argv) or {"C13", "C16", "C17"}
    sh(f"git -C {REPO} checkout -- .")
    for pid, name, edits in (list(reversed(M)) if os.environ.get("MUT_ORDER") == "reverse" else M):
        if pid not in want or os.environ.get("MUT_ONLY", "") not in name:
            continue
        ok = True
        for rel, old, new in edits:
            p = REPO / rel
            txt = p.read_text()
            if old not in txt:
                ok = False
                break
            p.write_text(txt.replace(old, new, 1))
        if not ok:
            sh(f"git -C {REPO} checkout -- .")
            print(f"| {pid} | {name} | DOES NOT APPLY | | |", flush=True)
            continue
        try:
            r = sh(f"./check {pid} quick", timeout=900)
            out = r.stdout + r.stderr
            keys = []
            for k in re.findall(r"FAILURE ([^ ]+?): ", out):
                if k not in keys:
                    keys.append(k)
            replays = re.findall(r"VIOLATION property=\S+ replay=(\S*fail\S*)", out)
            broken = sorted(set(re.findall(r"BROKEN theorem: theorem (\w+)", out)))
            rm = rc = "-"
            if replays:
                rm = sh(f"./check {pid} --replay {replays[0]}", timeout=600).returncode
        finally:
            sh(f"git -C {REPO} checkout -- .")
        if replays:
            rc = sh(f"./check {pid} --replay {replays[0]}", timeout=600).returncode
        verdict = "caught with input" if replays else ("obligation only" if r.returncode == 1 else ("NOT caught" if r.returncode == 0 else f"exit {r.returncode}"))
        print(f"| {pid} | {name} | {verdict} (exit {r.returncode}) | {', '.join('`' + k + '`' for k in keys[:3])}"
              f"{' + obligations ' + ', '.join(broken[:3]) if broken else ''} | replay {rm} / {rc} |", flush=True)


if __name__ == "__main__":
    main(sys.argv[1:])
