"""C09 (round 10): behavioural correspondence for the renaming step of `spox._adapt.adapt_node`.

The Lean model `Opset.Qualify.qualify` (Model/OpsetQualify.lean) is the block of `adapt_node` after the call of
`onnx.version_converter.convert_version`: names the converter introduced are prefixed with the node's name.
Here the REAL `adapt_node` is run on real spox nodes with chosen value names while `convert_version` is replaced by
a stub returning a generated "converter output" (well-formed and malformed: values re-defining an operand,
names that already look qualified, empty names, names used before they are defined, repeated definitions, non-ASCII
names, nothing introduced at all); the input / output name lists of the returned NodeProtos are compared with the
driver's answer. A mismatch is a broken correspondence (`C09 qualify`), never a verdict.

Nothing here raises because spox was refactored: every failure to call `adapt_node` is returned as a note.
"""
from __future__ import annotations

import warnings

FRESH_POOL = ["_v_4", "_v_5", "t", "t2", "new_axes", "é√", "a b", "x__y", "__", "_", "0", "T" * 40]


def ends_clean(name: str) -> bool:
    """a node name as the builder assigns it (`f"{base}_{i}"`) does not end in `_` (Python side of `EndsClean`)"""
    return not name.endswith("_")


def no_sep(name: str) -> bool:
    """a converter-introduced name does not contain the separator (Python side of `NoSep`)"""
    return "__" not in name


def _bases():
    """real spox nodes -> (node, var list in proto order, proto maker)"""
    import numpy as np
    import onnx
    import spox.opset.ai.onnx.v17 as op
    from spox import Tensor, argument

    x = argument(Tensor(np.float32, (2, 3)))
    y = argument(Tensor(np.float32, (2, 3)))
    out = []
    r = op.reduce_mean(x, axes=[1])
    out.append(("reduce_mean", r._op, [x], [r],
                lambda p, i, o: onnx.helper.make_node("ReduceMean", i, o, name=p, axes=[1])))
    a = op.add(x, y)
    out.append(("add", a._op, [x, y], [a], lambda p, i, o: onnx.helper.make_node("Add", i, o, name=p)))
    a2 = op.add(x, x)
    out.append(("add-same", a2._op, [x, x], [a2], lambda p, i, o: onnx.helper.make_node("Add", i, o, name=p)))
    s1, s2 = op.split(x, outputs_count=2, axis=0)
    out.append(("split", s1._op, [x], [s1, s2], lambda p, i, o: onnx.helper.make_node("Split", i, o, name=p, axis=0)))
    mx = argument(Tensor(np.float32, ()))
    c = op.clip(x, None, mx)
    out.append(("clip-omitted", c._op, [x, None, mx], [c],
                lambda p, i, o: onnx.helper.make_node("Clip", i, o, name=p)))
    return out


def gen_case(rng, base_name, n_in, n_out):
    """-> dict(p, in_names (None = omitted), out_names, nodes=[{ins, outs}], tags)"""
    tags = set()
    pnames = ["ReduceMean_0", "Add_12", "N", "Split_3", "If_0_then_branch__Clip_1", "é_0", "Odd_", "_"]
    p = rng.choice(pnames)
    known_pool = ["x", "y", "in0", "out", f"{p}_reduced", "é", f"{p}___v_4", f"{p}__t", "x__y", "N__t", "t"]
    known_pool = list(dict.fromkeys(known_pool))
    rng.shuffle(known_pool)
    in_names = [known_pool[k] for k in range(n_in)]
    out_names = [known_pool[n_in + k] for k in range(n_out)]
    known = [n for n in in_names if n is not None] + out_names
    mode = rng.random()
    nodes = []
    if mode < 0.12:
        # nothing introduced: one node over the known names
        nodes = [{"ins": [n for n in known[:n_in]], "outs": list(out_names)}]
        tags.add("nothing-introduced")
    else:
        pool = list(known) + [""] + rng.sample(FRESH_POOL, rng.randint(1, 4))
        if rng.random() < 0.3:
            pool.append(f"{p}__{rng.choice(FRESH_POOL)}")  # already looks qualified
            tags.add("prequalified-name")
        if mode < 0.55:
            # well-formed: constants feeding a main node that defines the original outputs
            fresh = [n for n in pool if n and n not in known][: rng.randint(1, 3)]
            for f in fresh:
                nodes.append({"ins": [], "outs": [f]})
            nodes.append({"ins": [n for n in in_names if n is not None] + fresh, "outs": list(out_names)})
            if rng.random() < 0.4 and fresh:
                nodes.insert(rng.randrange(len(nodes)), {"ins": [fresh[0]], "outs": [rng.choice(FRESH_POOL) + "_2"]})
            tags.add("well-formed")
        else:
            for _ in range(rng.randint(1, 4)):
                nodes.append({"ins": [rng.choice(pool) for _ in range(rng.randint(0, 3))],
                              "outs": [rng.choice(pool) for _ in range(rng.randint(1, 2))]})
            tags.add("arbitrary")
    outs_all = [o for nd in nodes for o in nd["outs"]]
    intro = {o for o in outs_all if o and o not in known}
    if any(o in known for o in outs_all if o in in_names):
        tags.add("redefines-operand")
    if "" in outs_all or any("" in nd["ins"] for nd in nodes):
        tags.add("empty-name")
    if len(outs_all) != len(set(outs_all)):
        tags.add("repeated-definition")
    occurring = {n for nd in nodes for n in nd["ins"] + nd["outs"]}
    if any(a not in intro and a == f"{p}__{x}" for a in occurring for x in intro):
        tags.add("clash")
    if any(ord(ch) > 127 for n in occurring | {p} for ch in n):
        tags.add("non-ascii")
    if not ends_clean(p):
        tags.add("node-name-ends-in-underscore")
    if "__" in p:
        tags.add("node-name-with-separator")
    if any(not no_sep(x) for x in intro):
        tags.add("introduced-name-with-separator")
    tags.add(f"introduced={min(len(intro), 3)}{'+' if len(intro) > 3 else ''}")
    return {"base": base_name, "p": p, "in_names": in_names, "out_names": out_names, "nodes": nodes,
            "tags": sorted(tags)}


def run_real(base, case):
    """call the real adapt_node with the converter replaced by a stub; -> list of {ins, outs} or raises"""
    import onnx
    import onnx.version_converter
    from spox import _adapt

    _name, node, in_vars, out_vars, mk = base
    var_names = {}
    proto_in = []
    for v, n in zip(in_vars, case["in_names"]):
        if v is None:
            proto_in.append("")
        else:
            # one Var in two slots has ONE name
            n = var_names.setdefault(v, n)
            proto_in.append(n)
    for v, n in zip(out_vars, case["out_names"]):
        var_names[v] = n
    proto = mk(case["p"], proto_in, [var_names[v] for v in out_vars])

    def stub(model, target_version):
        g = onnx.helper.make_graph(
            [onnx.helper.make_node("Identity", nd["ins"], nd["outs"]) for nd in case["nodes"]],
            "converted", list(model.graph.input), list(model.graph.output))
        return onnx.helper.make_model(g, opset_imports=[onnx.helper.make_operatorsetid("", target_version)])

    orig = onnx.version_converter.convert_version
    onnx.version_converter.convert_version = stub
    try:
        with warnings.catch_warnings():
            warnings.simplefilter("ignore")
            res = _adapt.adapt_node(node, proto, 17, 18, var_names)
    finally:
        onnx.version_converter.convert_version = orig
    if res is None:
        raise RuntimeError("adapt_node returned None for source 17 / target 18")
    return [{"ins": list(nd.input), "outs": list(nd.output)} for nd in res], list(proto.input), list(proto.output)


def check_qualify(ck, drv, mismatches, n_cases):
    """tie H for Opset.Qualify.qualify; returns the evidence dict"""
    import random

    rng = random.Random(ck.rng.getrandbits(32))
    try:
        bases = _bases()
    except Exception as e:  # noqa: BLE001
        ck.broken("correspondence", "C09 qualify not observable", f"cannot make the base nodes: {type(e).__name__}: {e}")
        return {"cases": 0}
    dist: dict[str, int] = {}
    reqs, reals, cases = [], [], []
    unobs = 0
    for i in range(n_cases):
        base = bases[i % len(bases)]
        case = gen_case(rng, base[0], len(base[2]), len(base[3]))
        if base[0] == "clip-omitted":
            case["in_names"][1] = None
        try:
            real, pin, pout = run_real(base, case)
        except Exception as e:  # noqa: BLE001
            unobs += 1
            if unobs <= 2:
                ck.broken("correspondence", "C09 qualify not observable",
                          f"{type(e).__name__}: {str(e)[:200]} :: case={case}")
            continue
        for t in case["tags"] + [f"base={base[0]}", f"nodes={len(case['nodes'])}"]:
            dist[t] = dist.get(t, 0) + 1
        reqs.append({"t": "qualify", "p": case["p"], "ins": pin, "outs": pout, "nodes": case["nodes"]})
        reals.append(real)
        cases.append(case)
    outs = drv.ask_many("C09", reqs) if reqs else []
    bad = 0
    for req, real, case, o in zip(reqs, reals, cases, outs):
        if o.get("nodes") != real:
            bad += 1
            if bad <= 3:
                mismatches.append(("qualify", f"adapt_node returns {real}, model {o.get('nodes') or o} :: request={req}"))
        if o.get("endsClean") != ends_clean(case["p"]):
            mismatches.append(("qualify", f"endsCleanB({case['p']!r}) = {o.get('endsClean')} but the harness test says {ends_clean(case['p'])}"))
        if o.get("noSep") != [no_sep(x) for x in (o.get("introduced") or [])]:
            mismatches.append(("qualify", f"noSepB of {o.get('introduced')} = {o.get('noSep')}"))
    return {"cases": len(reqs), "not_observable": unobs, "mismatches": bad, "distribution": dict(sorted(dist.items()))}


# ---------------------------------------------------------------------------------------------------------------
# `_initializers_to_constants` (helper of adapt_inline): real function on generated GraphProtos vs `Opset.Inits.toConstants`

def gen_inits_case(rng):
    names = ["x", "y", "pads", "k", "w", "é", "", "x__y", "axes"]
    inputs = rng.sample(names[:6], rng.randint(0, 3))
    mode = rng.random()
    if mode < 0.2:
        inits = []
    elif mode < 0.4:
        inits = rng.sample(inputs, rng.randint(0, len(inputs)))  # only defaults of inputs
    else:
        inits = [rng.choice(names) for _ in range(rng.randint(1, 4))]  # may repeat, may shadow inputs, may be ""
    return {"inputs": inputs, "inits": inits, "n": rng.randint(0, 3)}


def run_real_inits(case):
    import numpy as np
    import onnx
    from onnx import TensorProto as TP
    from onnx import helper as h
    from spox import _adapt

    g = h.make_graph(
        [h.make_node("Identity", ["x"], [f"o{k}"], name=f"orig{k}") for k in range(case["n"])], "g",
        [h.make_tensor_value_info(n, TP.FLOAT, [1]) for n in case["inputs"]], [],
        [h.make_tensor(n, TP.FLOAT, [1], [float(i)]) for i, n in enumerate(case["inits"])])
    ret = _adapt._initializers_to_constants(g)
    if ret is not None:
        raise RuntimeError("_initializers_to_constants returned something")
    nodes, notes = [], []
    values = {}
    for i, n in enumerate(case["inits"]):
        values.setdefault(n, []).append(float(i))
    for nd in g.node:
        if nd.op_type == "Constant":
            nodes.append(["c", nd.output[0]])
            t = [a.t for a in nd.attribute if a.name == "value"]
            got = list(onnx.numpy_helper.to_array(t[0]).ravel()) if t else None
            if got is None or not any(np.allclose(got, [v]) for v in values.get(nd.output[0], [])) or list(nd.input):
                notes.append(f"Constant {nd.output[0]!r} does not carry the initializer's value: {got}")
        else:
            nodes.append(["o", int(nd.name[4:])])
    return {"inputs": [i.name for i in g.input], "inits": [i.name for i in g.initializer], "nodes": nodes}, notes


def check_inits(ck, drv, mismatches, n_cases):
    import random

    rng = random.Random(ck.rng.getrandbits(32))
    dist = {"cases": 0, "nothing-to-move": 0, "only-input-defaults": 0, "moved": 0, "default-dropped": 0, "repeated-name": 0,
            "empty-name": 0, "no-original-nodes": 0}
    reqs, reals = [], []
    unobs = 0
    for _ in range(n_cases):
        case = gen_inits_case(rng)
        try:
            real, notes = run_real_inits(case)
        except Exception as e:  # noqa: BLE001
            unobs += 1
            if unobs <= 2:
                ck.broken("correspondence", "C09 inits not observable", f"{type(e).__name__}: {str(e)[:200]} :: case={case}")
            continue
        for n in notes[:1]:
            mismatches.append(("inits", f"{n} :: case={case}"))
        movable = [n for n in case["inits"] if n not in case["inputs"]]
        dist["cases"] += 1
        dist["nothing-to-move"] += int(not movable)
        dist["only-input-defaults"] += int(not movable and bool(case["inits"]))
        dist["moved"] += int(bool(movable))
        dist["default-dropped"] += int(bool(movable) and any(n in case["inputs"] for n in case["inits"]))
        dist["repeated-name"] += int(len(set(case["inits"])) != len(case["inits"]))
        dist["empty-name"] += int("" in case["inits"])
        dist["no-original-nodes"] += int(case["n"] == 0)
        reqs.append(dict(case, t="inits"))
        reals.append(real)
    outs = drv.ask_many("C09", reqs) if reqs else []
    bad = 0
    for req, real, o in zip(reqs, reals, outs):
        if {k: o.get(k) for k in ("inputs", "inits", "nodes")} != real:
            bad += 1
            if bad <= 3:
                mismatches.append(("inits", f"_initializers_to_constants gives {real}, model {o} :: request={req}"))
    dist.update(not_observable=unobs, mismatches=bad)
    return dist
