"""MIXED-OPSET programs whose BUILD must not depend on whether propagated values exist (C15, round 7).

`spox.build` re-targets every node written against an older opset with `onnx.version_converter`
(`_adapt.adapt_node`: a singleton model of the node is checked and converted). Whatever that code does
with `Var._value` it must not change the outcome: a program builds under REFERENCE / ONNXRUNTIME iff it
builds under NONE, to the same nodes / initializers and the same behaviour ("switching propagation off
changes no built model's behaviour").

A case needs, together:
  * an OLDER-opset node that is really adapted (a v17 constructor whose schema changed by 18 / 19 / 20 / 21)
    next to a newer-opset companion (v19 / v20 / v21) that raises the build target;
  * operands that are constant EXPRESSIONS (Add / Mul / Cast / Concat of constants: a value exists only if a
    backend ran), others model inputs, others plain constants / initializers;
  * USER NAMES of model inputs / outputs drawn from the formal parameter names of that operator
    (A, B, X, Y, input, data, shape, axes, target_type, pads ...), permuted so that a model input carries the
    FIELD KEY of a constant-expression operand of the same node, with another type / shape.

`check_mixed(case)` is model-free: public API + ModelProto + onnxruntime only.
"""
from __future__ import annotations

import importlib
import warnings
from typing import Optional

import numpy as np

NP = {"i64": np.int64, "i32": np.int32, "f32": np.float32, "f64": np.float64, "bool": np.bool_, "u8": np.uint8, "i8": np.int8}

# template -> (v17 constructor, input field keys, output field keys)
TEMPLATES = {
    "cast_like": ("cast_like", ["input", "target_type"], ["output"]),
    "equal": ("equal", ["A", "B"], ["C"]),
    "reshape": ("reshape", ["data", "shape"], ["reshaped"]),
    "pad": ("pad", ["data", "pads", "constant_value"], ["output"]),
    "squeeze": ("squeeze", ["data", "axes"], ["squeezed"]),
    "unsqueeze": ("unsqueeze", ["data", "axes"], ["expanded"]),
    "split": ("split", ["input", "split"], ["outputs_0", "outputs_1"]),
    "reduce_sum": ("reduce_sum", ["data", "axes"], ["reduced"]),
    "reduce_max": ("reduce_max", ["data"], ["reduced"]),
    "scatter_elements": ("scatter_elements", ["data", "indices", "updates"], ["output"]),
    "scatter_nd": ("scatter_nd", ["data", "indices", "updates"], ["output"]),
    "quantize_linear": ("quantize_linear", ["x", "y_scale", "y_zero_point"], ["y"]),
    "dequantize_linear": ("dequantize_linear", ["x", "x_scale", "x_zero_point"], ["y"]),
    "resize": ("resize", ["X", "roi", "scales", "sizes"], ["Y"]),
    "constant_of_shape": ("constant_of_shape", ["input"], ["output"]),
    "cast": ("cast", ["input"], ["output"]),
    "identity": ("identity", ["input"], ["output"]),
    "shape_size": ("shape", ["data"], ["shape"]),
    "transpose": ("transpose", ["data"], ["transposed"]),
    "flatten": ("flatten", ["input"], ["output"]),
    "is_nan": ("isnan", ["X"], ["Y"]),
    "average_pool": ("average_pool", ["X"], ["Y"]),
    # NOT adapted (same schema up to 21): controls - the build must be indifferent here as well
    "add": ("add", ["A", "B"], ["C"]),
    "matmul": ("matmul", ["A", "B"], ["Y"]),
    "where": ("where", ["condition", "X", "Y"], ["output"]),
    "gather": ("gather", ["data", "indices"], ["output"]),
    "expand": ("expand", ["input", "shape"], ["output"]),
    "concat": ("concat", ["inputs"], ["concat_result"]),
    # an inlined LEGACY model (opset 11, inner names x / y / z / w): re-targeted by adapt_inline
    "inline11": ("inline11", ["x", "y", "z"], ["w", "z_out"]),
}
COMMON_NAMES = ["A", "B", "C", "X", "Y", "Z", "input", "output", "data", "shape", "axes", "indices", "value", "x", "y"]


def gen_mixed(rng, template: Optional[str] = None) -> dict:
    """-> {"ops": [...], "names": {...}}: `ops` is a tiny SSA program (own vocabulary, see `_run`)."""
    t = template or rng.choice(sorted(TEMPLATES))
    fn, in_keys, out_keys = TEMPLATES[t]
    ops: list = []

    def emit(o):
        ops.append(o)
        return len(ops) - 1

    def const(dt, shape, data):
        return emit({"o": "const", "dt": dt, "shape": list(shape), "data": list(data), "how": rng.choice(["value", "value", "init"])})

    def arg(dt, shape):
        return emit({"o": "arg", "dt": dt, "shape": list(shape)})

    def expr(dt, shape, data):
        """A constant EXPRESSION with the given value: a value exists only if a backend ran."""
        data = list(data)
        how = rng.choice(["add0", "mul1", "split_add", "cast", "identity"]) if dt != "bool" else rng.choice(["identity", "not_not"])
        if how == "add0":
            return emit({"o": "bin", "fn": "add", "a": const(dt, shape, data), "b": const(dt, shape, [0] * len(data))})
        if how == "mul1":
            return emit({"o": "bin", "fn": "mul", "a": const(dt, shape, data), "b": const(dt, shape, [1] * len(data))})
        if how == "split_add":
            half = [d // 2 if dt[0] in "iu" else d / 2 for d in data]
            rest = [d - h for d, h in zip(data, half)]
            return emit({"o": "bin", "fn": "add", "a": const(dt, shape, half), "b": const(dt, shape, rest)})
        if how == "cast":
            src = "i64" if dt != "i64" else "i32"
            if dt in ("f32", "f64") and any(float(d) != int(d) for d in data):
                src = "f64" if dt == "f32" else "f32"
            return emit({"o": "cast", "a": const(src, shape, data), "to": dt})
        if how == "not_not":
            return emit({"o": "un", "fn": "not_", "a": emit({"o": "un", "fn": "not_", "a": const(dt, shape, data)})})
        return emit({"o": "un", "fn": "identity", "a": const(dt, shape, data)})

    def operand(kind, dt, shape, data):
        if kind == "arg":
            return arg(dt, shape)
        if kind == "const":
            return const(dt, shape, data)
        return expr(dt, shape, data)

    K = lambda: rng.choice(["expr", "expr", "expr", "arg", "const"])  # noqa: E731
    fdt = rng.choice(["f32", "f32", "f64"])
    n, m = rng.choice([2, 3]), rng.choice([2, 3])
    fl = lambda k: [rng.choice([0.5, 1.5, -2.0, 3.0, 0.25, 4.0]) for _ in range(k)]  # noqa: E731
    it = lambda k, lo=0, hi=5: [rng.randrange(lo, hi) for _ in range(k)]  # noqa: E731
    kw: dict = {}
    if t == "cast_like":
        tdt = rng.choice(["i64", "f64", "i32", "f32"])
        ins = [operand(K(), fdt, [n, m], fl(n * m)), operand(K(), tdt, [1], [1])]
    elif t == "equal":
        dt = rng.choice(["i64", "i32", "f32", "bool"])
        mk = (lambda: it(n * m, 0, 3)) if dt != "bool" else (lambda: [bool(rng.randrange(2)) for _ in range(n * m)])
        mk = mk if dt != "f32" else (lambda: [float(v) for v in it(n * m, 0, 3)])
        sh2 = rng.choice([[n, m], [m]])
        ins = [operand(K(), dt, [n, m], mk()), operand(K(), dt, sh2, mk()[: int(np.prod(sh2))])]
    elif t == "reshape":
        ins = [operand(K(), fdt, [n, m], fl(n * m)), operand(rng.choice(["expr", "expr", "const"]), "i64", [1], [n * m])]
    elif t == "pad":
        ins = [operand(K(), fdt, [n, m], fl(n * m)), operand(rng.choice(["expr", "expr", "const"]), "i64", [4], it(4, 0, 3))]
        if rng.random() < 0.6:
            ins.append(operand(K(), fdt, [], fl(1)))
    elif t in ("squeeze", "unsqueeze"):
        shape = [1, n, 1] if t == "squeeze" else [n, m]
        ins = [operand(K(), fdt, shape, fl(int(np.prod(shape)))), operand(rng.choice(["expr", "expr", "const"]), "i64", [1], [rng.choice([0, 2]) if t == "squeeze" else rng.choice([0, 1, 2])])]
    elif t == "split":
        ins = [operand(K(), fdt, [4, m], fl(4 * m)), operand(rng.choice(["expr", "expr", "const"]), "i64", [2], rng.choice([[1, 3], [2, 2], [3, 1]]))]
        kw = {"outputs_count": 2, "axis": 0}
    elif t == "reduce_sum":
        ins = [operand(K(), fdt, [n, m], fl(n * m)), operand(rng.choice(["expr", "expr", "const"]), "i64", [1], [rng.choice([0, 1, -1])])]
        kw = {"keepdims": rng.choice([0, 1])}
    elif t == "reduce_max":
        ins = [operand(rng.choice(["expr", "expr", "arg"]), fdt, [n, m], fl(n * m))]
        kw = {"axes": rng.choice([None, [0], [-1]]), "keepdims": rng.choice([0, 1])}
    elif t == "scatter_elements":
        ins = [operand(K(), fdt, [3, m], fl(3 * m)), operand(rng.choice(["expr", "const"]), "i64", [1, m], it(m, 0, 3)), operand(K(), fdt, [1, m], fl(m))]
        kw = {"axis": 0}
    elif t == "scatter_nd":
        ins = [operand(K(), fdt, [4], fl(4)), operand(rng.choice(["expr", "const"]), "i64", [2, 1], [[0, 3], [1, 2]][rng.randrange(2)]), operand(K(), fdt, [2], fl(2))]
    elif t == "quantize_linear":
        ins = [operand(K(), "f32", [n, m], fl(n * m)), operand(K(), "f32", [], [rng.choice([0.5, 1.0, 2.0])])]
        if rng.random() < 0.6:
            ins.append(operand(rng.choice(["const", "expr"]), "u8", [], [rng.choice([0, 3])]))
    elif t == "dequantize_linear":
        ins = [operand(rng.choice(["arg", "const", "expr"]), "u8", [n, m], it(n * m, 0, 200)), operand(K(), "f32", [], [rng.choice([0.5, 0.1, 2.0])])]
        if rng.random() < 0.6:
            ins.append(operand(rng.choice(["const", "expr"]), "u8", [], [rng.choice([0, 3])]))
    elif t == "resize":
        x = operand(K(), "f32", [1, 1, n, m], fl(n * m))
        sc = operand(rng.choice(["expr", "expr", "const"]), "f32", [4], [1.0, 1.0, 2.0, rng.choice([1.0, 2.0])])
        ins = [x, None, sc]
        kw = {"mode": "nearest"}
    elif t == "constant_of_shape":
        ins = [operand(rng.choice(["expr", "expr", "arg"]), "i64", [2], [n, m])]
    elif t == "cast":
        ins = [operand(rng.choice(["expr", "expr", "arg"]), fdt, [n, m], fl(n * m))]
        kw = {"to": rng.choice(["int64", "float64", "int32"])}
    elif t in ("identity", "shape_size", "transpose", "flatten", "is_nan"):
        ins = [operand(rng.choice(["expr", "expr", "arg"]), "f32", [n, m], fl(n * m))]
    elif t == "average_pool":
        ins = [operand(rng.choice(["expr", "expr", "arg"]), "f32", [1, 1, 4, 4], fl(16))]
        kw = {"kernel_shape": [2, 2]}
    elif t in ("add", "matmul"):
        ins = [operand(K(), fdt, [n, n], fl(n * n)), operand(K(), fdt, [n, n], fl(n * n))]
    elif t == "where":
        ins = [operand(K(), "bool", [n], [bool(rng.randrange(2)) for _ in range(n)]), operand(K(), fdt, [n], fl(n)), operand(K(), fdt, [n], fl(n))]
    elif t == "gather":
        ins = [operand(K(), fdt, [n, m], fl(n * m)), operand(K(), "i64", [2], it(2, 0, n))]
    elif t == "expand":
        ins = [operand(K(), fdt, [1, m], fl(m)), operand(rng.choice(["expr", "expr", "const"]), "i64", [2], [n, m])]
    elif t == "concat":
        ins = [operand(K(), fdt, [n, m], fl(n * m)), operand(K(), fdt, [1, m], fl(m))]
        kw = {"axis": 0}
    elif t == "inline11":
        ins = [operand(K(), "f32", [n, m], fl(n * m)), operand(K(), "f32", [n, m], fl(n * m))]
        kw = {"shape": [n, m]}
    else:
        raise ValueError(t)
    # at least one model input somewhere (so that there IS a user-named graph input feeding the node or next to it)
    if not any(i is not None and ops[i]["o"] == "arg" for i in ins) and rng.random() < 0.8:
        j = rng.choice([k for k, i in enumerate(ins) if i is not None])
        o = ops[ins[j]]
        src = o if o["o"] == "const" else None
        if src is None:  # find dtype / shape of the expression through its first constant
            k = ins[j]
            while ops[k]["o"] != "const":
                k = ops[k]["a"]
            src = {"dt": ops[ins[j]].get("to", ops[k]["dt"]), "shape": ops[k]["shape"]}
        if t not in ("reshape", "pad", "squeeze", "unsqueeze", "split", "reduce_sum", "expand", "constant_of_shape", "resize", "scatter_elements", "scatter_nd", "gather") or j == 0:
            ins[j] = arg(src["dt"], src["shape"])
    # one Var in two slots of the adapted node (its graph name then occurs twice in the adapter model)
    if t in ("equal", "add", "matmul", "inline11") and rng.random() < 0.15 and ops[ins[0]].get("shape", 0) == ops[ins[1]].get("shape", 1) \
            and ops[ins[0]].get("dt") == ops[ins[1]].get("dt"):
        ins[1] = ins[0]
    main = emit({"o": "op17", "t": t, "fn": fn, "ins": ins, "kw": kw, "variadic": t == "concat", "nout": len(out_keys)})
    comp = rng.choice(["v19", "v21", "v21", "v20", None])
    outs = []
    for k in range(len(out_keys)):
        r = emit({"o": "out", "of": main, "k": k})
        if comp:
            r = emit({"o": "un_m", "mod": comp, "fn": "identity", "a": r})
        outs.append(r)
    # a spare model input of ANOTHER type / shape, consumed by the newer-opset companion only
    spare = arg(rng.choice(["i64", "f32", "bool"]), rng.choice([[5], [1, 7], []]))
    outs.append(emit({"o": "un_m", "mod": comp or "v17", "fn": "identity", "a": spare}))
    # user names: the operator's own formal parameter names first (permuted), then common ones
    pool = list(dict.fromkeys(in_keys + out_keys + rng.sample(COMMON_NAMES, 4)))
    style = rng.choice(["keys", "keys", "keys", "plain"])
    args = [i for i, o in enumerate(ops) if o["o"] == "arg"]
    names: dict = {"in": {}, "out": {}}
    if style == "plain":
        for k, a in enumerate(args):
            names["in"][str(a)] = f"in{k}"
        for k, r in enumerate(outs):
            names["out"][str(r)] = f"res{k}"
    else:
        cand = pool[:]
        rng.shuffle(cand)
        # prefer the field keys of the constant-expression operands of the main node for the model inputs
        hot = [key for key, i in zip(in_keys, ins) if i is not None and ops[i]["o"] not in ("arg", "const")]
        rng.shuffle(hot)
        cand = hot + [c for c in cand if c not in hot]
        for a in args:
            names["in"][str(a)] = cand.pop(0)
        for r in outs:
            names["out"][str(r)] = cand.pop(0) if cand else f"res{r}"
    entry = rng.choice(["build", "build", "graph", "function"])
    case = {"ops": ops, "names": names, "template": t, "companion": comp, "entry": entry}
    if entry == "graph" and rng.random() < 0.4:
        case["with_opset"] = rng.choice([20, 21])
    return case


_L11: dict = {}


def _legacy11(shape: tuple):
    """opset-11 model: z = Add(x, y); w = Softmax(z) (legacy flatten-to-2-D meaning); outputs w and z_out = Neg(z)."""
    import onnx
    import onnx.helper as oh

    if shape not in _L11:
        vi = lambda nm: oh.make_tensor_value_info(nm, onnx.TensorProto.FLOAT, list(shape))  # noqa: E731
        g = oh.make_graph([oh.make_node("Add", ["x", "y"], ["z"]), oh.make_node("Softmax", ["z"], ["w"], axis=0),
                           oh.make_node("Neg", ["z"], ["z_out"])], "legacy11", [vi("x"), vi("y")], [vi("w"), vi("z_out")])
        _L11[shape] = oh.make_model(g, opset_imports=[oh.make_operatorsetid("", 11)], ir_version=7)
    return _L11[shape]


def _run(case: dict, sel: str, fault: Optional[str] = None):
    """Construct the program under backend `sel` (optionally with EVERY backend call faulty: `fault` is a
    `lib_vpprog.FAULT_KINDS` name); -> list of Vars per op (tuple for multi-output)."""
    import spox.opset.ai.onnx.v17 as op
    from spox import Tensor, argument
    from spox._public import initializer

    from harness import lib_valueprop as L

    vals: list = []
    import contextlib

    from harness import lib_vpprog as P

    sb = L.ScriptedBackend((lambda m: P.make_fault(fault, m, 0)) if fault else (lambda m: None), at="run")
    with warnings.catch_warnings():
        warnings.simplefilter("ignore")
        with L.backend_setting(sel), (sb.installed() if fault else contextlib.nullcontext()):
            entry = case.get("entry", "build")
            ops = case["ops"]

            def ev(o, vals, in_body=False):
                k = o["o"]
                if k == "const":
                    arr = np.array(o["data"], dtype=NP[o["dt"]]).reshape(tuple(o["shape"]))
                    # (no initializers inside function bodies: FunctionProto has none)
                    return op.constant(value=arr) if o["how"] == "value" or in_body else initializer(arr)
                if k == "bin":
                    return getattr(op, o["fn"])(vals[o["a"]], vals[o["b"]])
                if k == "un":
                    return getattr(op, o["fn"])(vals[o["a"]])
                if k == "cast":
                    return op.cast(vals[o["a"]], to=NP[o["to"]])
                if k == "op17" and o["fn"] == "inline11":
                    from spox import inline

                    return tuple(inline(_legacy11(tuple(o["kw"]["shape"])))(*[vals[i] for i in o["ins"]]).values())
                if k == "op17":
                    kw = dict(o["kw"])
                    if "to" in kw:
                        kw["to"] = np.dtype(kw["to"]).type
                    ins = [None if i is None else vals[i] for i in o["ins"]]
                    r = getattr(op, o["fn"])(ins, **kw) if o["variadic"] else getattr(op, o["fn"])(*ins, **kw)
                    return tuple(r) if isinstance(r, (tuple, list)) else (r,)
                if k == "out":
                    return vals[o["of"]][o["k"]]
                if k == "un_m":
                    mod = importlib.import_module("spox.opset.ai.onnx." + o["mod"])
                    return getattr(mod, o["fn"])(vals[o["a"]])
                raise ValueError(o)

            def cone(i, acc):
                """ops the value of op i is computed from (indices, topological = index order)."""
                o = ops[i]
                for key in ("a", "b", "of"):
                    if key in o and o[key] not in acc:
                        cone(o[key], acc)
                for j in o.get("ins", []):
                    if j is not None and j not in acc:
                        cone(j, acc)
                acc.add(i)
                return acc

            for idx, o in enumerate(ops):
                k = o["o"]
                if k == "arg":
                    if entry == "graph":  # arguments named at creation, as `Graph` users do
                        from spox._graph import arguments

                        (v,) = arguments(**{case["names"]["in"][str(idx)]: Tensor(NP[o["dt"]], tuple(o["shape"]))})
                        vals.append(v)
                    else:
                        vals.append(argument(Tensor(NP[o["dt"]], tuple(o["shape"]))))
                elif k == "op17" and entry == "function" and o["fn"] != "inline11":
                    # the adapted node (with its constant / constant-expression operands) lives in a FUNCTION body whose
                    # parameters are the model-input operands; the body is built (and version-adapted) with the model
                    from spox._function import to_function

                    need = sorted(cone(idx, set()))
                    params = [j for j in need if ops[j]["o"] == "arg"]

                    def inner(xs, _need=need, _params=params, _idx=idx):
                        local: dict = {j: x for j, x in zip(_params, xs)}
                        for j in _need:
                            if j not in local:
                                local[j] = ev(ops[j], local, True)
                        return list(local[_idx])

                    # `to_function` reads the signature: exactly one positional parameter per model-input operand, named
                    # like the user's model inputs (field keys)
                    pnames = [f"p{j}" for j in params]
                    body = eval(f"lambda {', '.join(pnames)}: inner([{', '.join(pnames)}])", {"inner": inner})  # noqa: S307
                    fn = to_function(f"MixF{idx}", "mix.dom")(body)
                    vals.append(tuple(fn(*[vals[j] for j in params])))
                else:
                    vals.append(ev(o, vals))
    return vals


def _build(case: dict, sel: str, fault: Optional[str] = None):
    import spox

    from harness import lib_valueprop as L

    vals = _run(case, sel, fault)
    ins = {name: vals[int(i)] for i, name in case["names"]["in"].items()}
    outs = {name: vals[int(i)] for i, name in case["names"]["out"].items()}
    with warnings.catch_warnings():
        warnings.simplefilter("ignore")
        with L.backend_setting(sel if case.get("build_under") != "none" else "none"):
            if case.get("entry") == "graph":
                from spox._graph import results

                g = results(**outs).with_arguments(*ins.values())
                if case.get("with_opset"):
                    g = g.with_opset(("ai.onnx", case["with_opset"]))
                return g.to_onnx_model()
            return spox.build(ins, outs)


def check_mixed(case: dict, seed: int = 0) -> dict:
    """Build under NONE / REFERENCE / ONNXRUNTIME: same outcome, same nodes, same behaviour."""
    from harness import lib_vpprog as P

    fails: list = []
    res: dict = {}
    for sel in ("none", "reference", "onnxruntime"):
        try:
            res[sel] = ("ok", _build(case, sel))
        except Exception as e:  # noqa: BLE001
            res[sel] = ("raise", type(e).__name__, str(e)[:160])
    # a backend that fails at EVERY call (exception / ill-typed results) leaves no value anywhere: the build must be
    # the NONE build exactly
    fault = case.get("fault")
    if fault:
        for sel in ("reference", "onnxruntime"):
            try:
                res[sel + "+" + fault] = ("ok", _build(case, sel, fault))
            except Exception as e:  # noqa: BLE001
                res[sel + "+" + fault] = ("raise", type(e).__name__, str(e)[:160])
    t = case.get("template", "?")
    base = res["none"]
    stats = {"built": int(base[0] == "ok"), "adapted": 0}
    for sel in [k for k in res if k != "none"]:
        r = res[sel]
        if r[0] != base[0]:
            if r[0] == "raise":
                fails.append((f"onoff-build:{t}:{r[1]}", f"[{sel}] the program builds with propagation off but raises {r[1]} ({r[2][:110]}) with it on; names {case['names']}"))
            # (builds only WITH propagation: output types are less precise with it off and `build` insists on known
            #  ranks - no model exists to compare; not a failure of the statement)
    if base[0] != "ok":
        return {"failures": fails, "stats": stats, "infra": None if fails else f"does not build under any setting: {base[1]}: {base[2][:100]}"}
    m0 = base[1]
    stats["adapted"] = int(any(i.version > 17 for i in m0.opset_import if i.domain in ("", "ai.onnx")))
    try:
        feed = P.random_feed(m0, seed)
        out0 = P.ort_run(m0, feed)
    except Exception as e:  # noqa: BLE001
        return {"failures": fails, "stats": stats, "infra": f"ort failed on the NONE build: {type(e).__name__}: {str(e)[:120]}"}
    for sel in [k for k in res if k != "none"]:
        if res[sel][0] != "ok":
            continue
        m = res[sel][1]
        if P._graph_sig(m.graph) != P._graph_sig(m0.graph):
            # different nodes with the same behaviour would not violate the statement: reported as an obligation
            # ("values never reach the emitted graph"), judged by the execution comparison below
            stats["graph_differs"] = stats.get("graph_differs", 0) + 1
        try:
            out = P.ort_run(m, feed)
        except Exception as e:  # noqa: BLE001
            fails.append((f"onoff-run:{t}:{type(e).__name__}", f"[{sel}] the model built with propagation on does not run ({str(e)[:120]}), the one built with it off does"))
            continue
        for k, (x, y) in enumerate(zip(out, out0)):
            why = P.values_equal(x, y)
            if why:
                fails.append((f"onoff-behaviour:{t}", f"[{sel}] output {k}: {why}"))
    return {"failures": fails, "stats": stats, "infra": None}
